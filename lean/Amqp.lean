import Amqp.Base.Bytes
import Amqp.Model.Parse
import Amqp.Lemmas.Parse
import Amqp.Props.C02
