import Amqp.Base.Value
import Amqp.Gen.Text
import Amqp.Gen.Message
/-
  C17 model, part 1: `compatibility.try_utf8_decode` and the recursive decoders of `Message`
  (`_try_decode_dict/_list/_tuple`), as they are.  The guards of `try_utf8_decode`, the codec name,
  the set of string classes and the tuple-subclass guard come from `Gen/`; the isinstance dispatch of
  `_try_decode_dict` is mirrored here in source order and bound to the generated table by the
  obligation `C17.dispatch_as_modelled`.
-/
namespace Amqp

/-- `compatibility.is_string` -/
def isString (v : PyVal) : Bool := Gen.Text.stringKinds.any (fun k => v.isInstance k)

/-- what `value.decode(codec)` does to a bytes object: `none` = UnicodeDecodeError.  Only the
    codec named in the source as generated ("utf-8") is modelled; any other name makes the model
    undefined on purpose (`C17.codec_is_utf8` fails first). -/
def decodeWith (codec : String) (b : Bytes) : Option String :=
  if codec = "utf-8" then utf8Decode b else none

/-- `compatibility.try_utf8_decode`.  The early-return guards are the generated kernel; the only
    values that get past them are `bytes` (Python 3), for which `.decode` is attempted and a
    `UnicodeDecodeError` falls through to `return value`.  Never raises. -/
def tryDecode (v : PyVal) : PyVal :=
  if Gen.Text.returnsEarly v.truthy (isString v) (v.isInstance .bytes) false then v
  else match v with
    | .bytes b =>
      match decodeWith Gen.Text.codec b with
      | some s => .str s
      | none => v
    | _ => v   -- unreachable for the generated guard (`C17.guard_lets_only_bytes_through`); str has no .decode

def tryDecodeKey (k : PyKey) : PyKey :=
  if Gen.Message.dictKeyDecoded then
    match tryDecode k.toVal with
    | .str s => .str s
    | .bytes b => .bytes b
    | _ => k
  else k

/-- `Message._try_decode_list`: every element goes through `try_utf8_decode` — one level only -/
def decodeList (xs : List PyVal) : List PyVal := xs.map tryDecode

/-- `Message._try_decode_tuple` -/
def decodeTuple : PyVal → PyVal
  | .tuple xs => .tuple (decodeList xs)
  | .ntuple tag xs =>
    if Gen.Message.tupleSubclassKept then .ntuple tag xs else .tuple (decodeList xs)
  | v => v

mutual
/-- `Message._try_decode_dict`, as a fold over the items inserting into `result` -/
def decodeDictAux : Dict → Dict → Dict
  | acc, [] => acc
  | acc, (k, v) :: rest => decodeDictAux (dictSet acc (tryDecodeKey k) (decodeDictValue v)) rest
/-- the isinstance chain of `_try_decode_dict` applied to one value: dict → recurse, list → one
    level, tuple (or subclass) → one level, anything else → `try_utf8_decode` -/
def decodeDictValue : PyVal → PyVal
  | .dict kvs => .dict (decodeDictAux [] kvs)
  | .list xs => .list (decodeList xs)
  | .tuple xs => decodeTuple (.tuple xs)
  | .ntuple t xs => decodeTuple (.ntuple t xs)
  | v => tryDecode v
end

def decodeDict (d : Dict) : Dict := decodeDictAux [] d

/-- the decode step of `Message._try_decode_utf8_content` (after the guard and the cache):
    dict content → `_try_decode_dict`, anything else → `try_utf8_decode` -/
def decodeContent : PyVal → PyVal
  | .dict kvs => .dict (decodeDict kvs)
  | v => tryDecode v

end Amqp
