import Amqp.Model.Parse
import Amqp.Gen.Const
import Amqp.Gen.Publish
import Amqp.Gen.Negotiate
/-
  C04 model: `Basic.publish` framing.  The arithmetic of `_create_content_body`, `Basic.__init__`,
  `Channel0._negotiate` and `_send_tune_ok` is *generated* from the source (Gen/Publish.lean,
  Gen/Negotiate.lean); this file only supplies Python's slicing semantics and the loop shape.
-/
namespace Amqp

/-- Python `b[s:e]` for ints (negative indices count from the end; everything is clamped) -/
def pyIndex (n : Nat) (i : Int) : Nat :=
  if i < 0 then (i + (n : Int)).toNat else min i.toNat n

def pySlice (b : Bytes) (s e : Int) : Bytes :=
  (b.drop (pyIndex b.length s)).take (pyIndex b.length e - pyIndex b.length s)

/-- `Basic._create_content_body` for a channel whose `_max_frame_size` is `maxF`:
    `for offset in range(lo, hi): yield ContentBody(body[start:end])` -/
def splitBody (maxF : Int) (b : Bytes) : List Bytes :=
  let n : Int := b.length
  let lo := Gen.Publish.rangeLo maxF n
  let hi := Gen.Publish.rangeHi maxF n
  (List.range (hi - lo).toNat).map fun (i : Nat) =>
    let off : Int := lo + (i : Int)
    pySlice b (Gen.Publish.sliceStart maxF n off) (Gen.Publish.sliceEnd maxF n off)

/-- the connection's frame limit after Connection.Tune(frame_max = srv) -/
def negotiatedFrameMax (srv : Int) : Int := Gen.Negotiate.storedFrameMax 0 srv 0

/-- the value announced to the broker in Connection.TuneOk -/
def announcedFrameMax (srv : Int) : Int := Gen.Negotiate.sentFrameMax 0 srv 0

/-- `Channel.__init__`: `Basic(self, connection.max_frame_size)` -/
def channelMaxF (srv : Int) : Int := Gen.Publish.basicMax (negotiatedFrameMax srv)

/-- A message body as the application passes it -/
inductive PyBody
  | text (s : String)
  | bytes (b : Bytes)

/-- `_handle_utf8_payload`: text is encoded with `codec` (the codec named by content_encoding;
    utf-8 when the property is unset); bytes pass through.  A codec may fail (UnicodeEncodeError). -/
def encodeBody (codec : String → Option Bytes) : PyBody → Option Bytes
  | .text s => codec s
  | .bytes b => some b

def utf8 (s : String) : Option Bytes := some s.toUTF8.toList

/-- content frames of one publish as handed to `write_frames`, abstractly -/
inductive OutFrame
  | method (exchange routingKey : String) (mandatory immediate : Bool)
  | header (bodySize : Nat)
  | body (payload : Bytes)
deriving DecidableEq, Repr

def publishFrames (maxF : Int) (codec : String → Option Bytes) (body : PyBody)
    (exchange rk : String) (mandatory immediate : Bool) : Option (List OutFrame) :=
  match encodeBody codec body with
  | none => none
  | some b => some (.method exchange rk mandatory immediate :: .header b.length ::
                    (splitBody maxF b).map .body)

/-- a body frame on the wire, channel `c` -/
def bodyFrame (c : Nat) (p : Bytes) : Frame := ⟨3, c, p⟩

end Amqp
