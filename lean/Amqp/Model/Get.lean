import Amqp.Model.Rpc
import Amqp.Gen.Loops
/-
  C15 model: `Basic.get` / `Basic._get_message` / `_get_content_body` as a function of what arrives
  on the channel after the Basic.Get frame was written.  The caller holds channel.lock and
  rpc.lock for the whole call, so it is the only client of the correlation table; the reader thread
  is represented by the order of arrivals (`Rpc.onFrame` on each).
-/
namespace Amqp.Get
open Amqp Amqp.Rpc

/-- how the inbound stream ends while the caller is still waiting -/
inductive Ending
  | silence        -- nothing more ever arrives: the RPC timeout fires
  | chanClosed     -- the broker closed the channel: check_for_errors raises AMQPChannelError
  | connLost       -- transport failure: check_for_errors raises AMQPConnectionError
deriving DecidableEq, Repr

inductive Err
  | timeout | channelError | connectionError | notAllowedConsumers
deriving DecidableEq, Repr

def Ending.err : Ending → Err
  | .silence => .timeout
  | .chanClosed => .channelError
  | .connLost => .connectionError

inductive Result
  | empty                                            -- returns None
  | message (getOk : Frm) (header : Frm) (body : List UInt8)
  | raised (e : Err)
deriving DecidableEq, Repr

def getNames : List String := ["Basic.GetOk", "Basic.GetEmpty", "ContentHeader", "ContentBody"]

structure Env where
  t : T
  arrivals : List Frm        -- frames still to be dispatched by the reader, in order
  handled : List Frm := []   -- frames that fell through to normal channel handling
deriving Repr

/-- `get_request(uuid, raw=True, multiple=True)`: wait until the response list is non-empty
    (dispatching arrivals), then pop its first frame.  `none` = the wait raised (`ending`). -/
def waitTake (uid : Nat) : (fuel : Nat) → Env → Option Frm × Env
  | 0, e => (none, e)
  | fuel + 1, e =>
    if ready e.t uid then
      let (f, t') := popResponse e.t uid
      (f, { e with t := t' })
    else
      match e.arrivals with
      | [] => (none, e)
      | f :: rest =>
        let (consumed, t') := onFrame e.t f
        waitTake uid fuel { t := t', arrivals := rest, handled := if consumed then e.handled else e.handled ++ [f] }

/-- `_get_content_body` -/
def bodyLoop (uid : Nat) (size : Nat) : (fuel : Nat) → Env → List UInt8 → Option (List UInt8) × Env
  | 0, e, body => (some body, e)
  | fuel + 1, e, body =>
    if Gen.Loops.getBodyContinues body.length size then   -- regenerated loop test
      match waitTake uid (e.arrivals.length + 1) e with
      | (none, e') => (none, e')
      | (some piece, e') =>
        if piece.data.isEmpty then (some body, e')      -- `if not body_piece.value: break`
        else bodyLoop uid size fuel e' (body ++ piece.data)
    else (some body, e)

/-- `Basic.get` on a channel with the given consumer tags; `frames` arrive after the request was
    written, then the stream ends with `ending`.  Returns the result, the tables afterwards,
    whether anything was written, and the frames that fell through. -/
def basicGet (consumerTags : List String) (t : T) (frames : List Frm) (ending : Ending) :
    Result × T × Bool × List Frm × List Frm :=
  if consumerTags ≠ [] then (.raised .notAllowedConsumers, t, false, [], frames)
  else
    let (uid, t1) := registerRequest t getNames
    let e0 : Env := { t := t1, arrivals := frames }
    -- try: … finally: rpc.remove(uuid)
    match waitTake uid (frames.length + 1) e0 with
    | (none, e1) => (.raised ending.err, remove e1.t uid, true, e1.handled, e1.arrivals)
    | (some f1, e1) =>
      if f1.name = "Basic.GetEmpty" then (.empty, remove e1.t uid, true, e1.handled, e1.arrivals)
      else
        match waitTake uid (e1.arrivals.length + 1) e1 with
        | (none, e2) => (.raised ending.err, remove e2.t uid, true, e2.handled, e2.arrivals)
        | (some hdr, e2) =>
          match bodyLoop uid hdr.size (e2.arrivals.length + 1) e2 [] with
          | (none, e3) => (.raised ending.err, remove e3.t uid, true, e3.handled, e3.arrivals)
          | (some body, e3) => (.message f1 hdr body, remove e3.t uid, true, e3.handled, e3.arrivals)

end Amqp.Get
