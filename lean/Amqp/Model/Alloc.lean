import Amqp.Gen.Alloc
import Amqp.Gen.Const
/-
  C10 model: channel-id allocation (`Connection._get_next_available_channel_id`, `channel()`,
  `_cleanup_channel`) with any number of threads opening and closing channels.
  The registry `_channels` is an association list id ↦ object; every channel object ever created is
  kept (ghost) with its current state.  Scan bounds and the skip test come from `Gen.Alloc`.
-/
namespace Amqp.Alloc

structure Obj where
  cid : Nat
  state : Nat      -- Stateful: 0 CLOSED, 1 CLOSING, 2 OPENING, 3 OPEN
deriving DecidableEq, Repr

structure A where
  chans : List (Nat × Nat) := []   -- `_channels`: channel id ↦ object id (index into `objs`)
  objs : List Obj := []            -- every Channel object created so far
  last : Nat := 0                  -- `_last_channel_id` (None = 0)
  max : Nat                        -- `max_allowed_channels`
deriving Repr

def dset (k v : Nat) (l : List (Nat × Nat)) : List (Nat × Nat) := (k, v) :: l.filter (·.1 ≠ k)
def ddel (k : Nat) (l : List (Nat × Nat)) : List (Nat × Nat) := l.filter (·.1 ≠ k)

def stateOf (a : A) (cid : Nat) : Option Nat :=
  (a.chans.lookup cid).bind fun o => a.objs[o]?.map (·.state)

/-- the scan takes this id: it is not registered, or its channel is in a state the scan does not skip -/
def free (a : A) (cid : Nat) : Bool :=
  match stateOf a cid with
  | none => true
  | some st => !(Gen.Alloc.skips st)

/-- first free id in [lo, lo + fuel) -/
def scanFrom (a : A) : Nat → Nat → Option Nat
  | 0, _ => none
  | fuel + 1, lo => if free a lo then some lo else scanFrom a fuel (lo + 1)

def scanLo (a : A) : Nat := (Gen.Alloc.scanLo a.last a.max).toNat
def scanHi (a : A) : Nat := (Gen.Alloc.scanHi a.last a.max).toNat

def take (a : A) (i : Nat) : A := { a with chans := ddel i a.chans, last := i }

/-- one pass of the `for` loop -/
def scanAll (a : A) : Option Nat := scanFrom a (scanHi a - scanLo a) (scanLo a)

/-- `_get_next_available_channel_id`: `(some id, state')`, or `(none, state')` when it raises
    AMQPConnectionError (note: the wrap-around resets `_last_channel_id` even when it then raises). -/
def nextId (a : A) : Option Nat × A :=
  match scanAll a with
  | some i => (some i, take a i)
  | none =>
    if a.last ≠ 0 then
      match scanAll { a with last := 0 } with
      | some i => (some i, take { a with last := 0 } i)
      | none => (none, { a with last := 0 })
    else (none, a)

def setState (a : A) (o st : Nat) : A :=
  { a with objs := a.objs.modify o (fun ob => { ob with state := st }) }

inductive Act
  | open_                -- Connection.channel(): allocate + register + Channel.open() begins (under conn.lock)
  | opened (o : Nat)     -- Channel.OpenOk received: OPENING → OPEN
  | closeStart (o : Nat) -- application Channel.close(): OPEN → CLOSING
  | closeBroker (o : Nat)-- Channel.Close from the broker: → CLOSING
  | closed (o : Nat)     -- any live state → CLOSED (end of either close, also the forced path)
  | cleanup (o : Nat)    -- _close_remaining_channels: force CLOSED, then _cleanup_channel
deriving Repr

/-- result: `none` = action not enabled; `some (raised?, state)` -/
def step (a : A) : Act → Option (Bool × A)
  | .open_ =>
    match nextId a with
    | (some i, a') =>
      some (false, { a' with chans := dset i a'.objs.length a'.chans,
                             objs := a'.objs ++ [⟨i, Gen.Const.stateOpening⟩] })
    | (none, a') => some (true, a')
  | .opened o =>
    match a.objs[o]? with
    | some ob => if ob.state = Gen.Const.stateOpening then some (false, setState a o Gen.Const.stateOpen) else none
    | none => none
  | .closeStart o =>
    match a.objs[o]? with
    | some ob => if ob.state = Gen.Const.stateOpen then some (false, setState a o Gen.Const.stateClosing) else none
    | none => none
  | .closeBroker o =>
    match a.objs[o]? with
    | some ob => if ob.state ≠ Gen.Const.stateClosed then some (false, setState a o Gen.Const.stateClosing) else none
    | none => none
  | .closed o =>   -- `finally: set_state(CLOSED)` of Channel.close / last statement of _close_channel
    match a.objs[o]? with
    | some ob => if ob.state ≠ Gen.Const.stateClosed then some (false, setState a o Gen.Const.stateClosed) else none
    | none => none
  | .cleanup o =>
    match a.objs[o]? with
    | some ob =>
      let a1 := setState a o Gen.Const.stateClosed
      -- `_cleanup_channel(channel_id)` deletes whatever is registered under that id; it is only
      -- called with ids taken from `_channels` itself, i.e. for the registered object
      if a.chans.lookup ob.cid = some o then some (false, { a1 with chans := ddel ob.cid a1.chans }) else none
    | none => none

def run (a : A) : List Act → Option A
  | [] => some a
  | x :: xs => match step a x with
    | none => none
    | some (_, a') => run a' xs

def init (max : Nat) : A := { max := max }

/-- `Channel.open()` called by the application on an existing, closed channel object (a re-open):
    CLOSED → OPENING and Channel.Open is sent for the object's number.  The method does not look at
    the connection's registry (tie: `Props/C10.lean`, `skel_Channel_open`), so this is NOT one of the
    actions of `step`: see `Props/C10.lean`, "Re-opening a closed channel object". -/
def reopen (a : A) (o : Nat) : Option A :=
  match a.objs[o]? with
  | some ob => if ob.state = Gen.Const.stateClosed then some (setState a o Gen.Const.stateOpening) else none
  | none => none

def live (ob : Obj) : Prop := ob.state ≠ Gen.Const.stateClosed

end Amqp.Alloc
