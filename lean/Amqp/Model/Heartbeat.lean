import Amqp.Base.Py
import Amqp.Gen.Heartbeat
/-
  C12 model: `amqpstorm.heartbeat.Heartbeat` as used by `Connection` (the timer chain, the activity
  counters, `Channel0.send_heartbeat`'s open-guard) on a virtual clock.

  * Every test, increment, reset value and the interval come from `Gen/Heartbeat.lean`
    (regenerated from the source); this file supplies only the control structure, which is pinned to
    the source by the skeleton obligations of `Props/C12.lean` (`expected…Skel` below).
  * Time unit: `1 / Gen.Heartbeat.intervalDen` seconds (½ s on the pinned tree), so `timeout / 2` is
    exact for every integer timeout.  Timers fire exactly at their deadline; callbacks take no time.
  * `_check_for_life_signs` is NOT atomic here: it is split into the four phases between which other
    threads can run (`fire` = running-test + write-test + send, `eval` = read-test/threshold under the
    lock, `clear` = the `finally` resets, `rearm` = `_start_new_timer`).  `read`/`write`/`setOpen` may
    occur between any two phases (the registering side takes no lock).  `start`/`stop` are only
    enabled between checks (their interleaving with a running check is C08's subject, defect D8).
  * Several timer chains can coexist (a second `start` without `stop` arms a second timer; `stop`
    cancels only `_timer`): `timers` is a list, `cur` is `_timer`.
-/
namespace Amqp.Hb
open Amqp.Gen.Heartbeat

/-- where a running `_check_for_life_signs` call stands -/
inductive Pc
  | idle                  -- no check in progress
  | sent                  -- line 80-83 done (running test, write test, send_heartbeat_impl)
  | evald (dead : Bool)   -- line 86-93 done under the lock; `dead` = the branch that returns False
  | cleared               -- `finally` done (counters reset, lock released), before `_start_new_timer`
deriving DecidableEq, Repr

structure St where
  /-- `_interval` in time units (`none` = Python `None`) -/
  interval : Option Int
  /-- `_running.is_set()` -/
  running : Bool := false
  reads : Int := initReads
  writes : Int := initWrites
  threshold : Int := initThreshold
  /-- `_exceptions`: `none` = `None`, `some n` = a list to which `n` heartbeat errors were appended
      since it was installed -/
  exc : Option Nat := none
  /-- armed, not yet fired, not cancelled timers: (id, deadline) -/
  timers : List (Nat × Nat) := []
  /-- `_timer` (id of the most recently created timer, possibly already fired) -/
  cur : Option Nat := none
  nextId : Nat := 0
  pc : Pc := .idle
  /-- `Connection.is_open` as seen by `Channel0.send_heartbeat` -/
  connOpen : Bool := false
  now : Nat := 0
  /-- observation counters: heartbeat frames written, `dead` appended to the list, `dead` raised
      in the timer thread (no list installed) -/
  hbs : Nat := 0
  deads : Nat := 0
  raises : Nat := 0
  /-- ghost: time of the last outbound frame (application write or heartbeat), or of the last
      successful `start` / of the connection becoming open if later -/
  lastOut : Nat := 0
  /-- ghost: time of the last inbound frame, or of the last successful `start` if later -/
  lastIn : Nat := 0
  /-- ghost: time of the last counter reset (`finally` of a check, or `start`) -/
  lastReset : Nat := 0
  /-- ghost: some `start` happened while a timer was still armed (more than one timer chain) -/
  multi : Bool := false
deriving Repr

inductive Act
  | adv (d : Nat)          -- `d` time units pass
  | read                   -- `Connection._read_buffer` parsed one frame: `register_read()`
  | write                  -- `Connection.write_frame(s)`: `register_write()`, bytes written
  | fire (id : Nat)        -- timer `id` fires: phase 1 of `_check_for_life_signs`
  | eval | clear | rearm   -- phases 2-4
  | start (list : Bool)    -- `start(exceptions)`; `list = false` passes `None`
  | stop
  | setOpen (b : Bool)     -- the connection enters / leaves state OPEN
deriving DecidableEq, Repr

/-- `Heartbeat(timeout, …)._interval` -/
def mkInterval (timeout : Option Int) : Option Int := timeout.map intervalNum

def init (timeout : Option Int) : St := { interval := mkInterval timeout }

/-- the timer period in time units -/
def St.ivl (s : St) : Nat :=
  match s.interval with
  | some v => (timerInterval v).toNat
  | none => 0

/-- `Channel0.send_heartbeat` → `Connection.write_frame(0, Heartbeat())` -/
def sendHeartbeat (s : St) : St :=
  if s.connOpen then { s with writes := writeIncr s.writes, hbs := s.hbs + 1, lastOut := s.now } else s

/-- `_start_new_timer`.  `Timer(None, …)` would never fire (unreachable: `start` refuses). -/
def startNewTimer (s : St) : St :=
  if s.running then
    match s.interval with
    | some _ => { s with timers := s.timers ++ [(s.nextId, s.now + s.ivl)], cur := some s.nextId,
                         nextId := s.nextId + 1 }
    | none => { s with cur := some s.nextId, nextId := s.nextId + 1 }
  else s

def cancel (cur : Option Nat) (ts : List (Nat × Nat)) : List (Nat × Nat) :=
  match cur with
  | some id => ts.filter (fun t => t.1 != id)
  | none => ts

def step (s : St) : Act → Option St
  | .adv d =>
    if s.pc = .idle ∧ 0 < d ∧ s.timers.all (fun t => s.now + d ≤ t.2) then some { s with now := s.now + d }
    else none
  | .read => some { s with reads := readIncr s.reads, lastIn := s.now }
  | .write => some { s with writes := writeIncr s.writes, lastOut := s.now }
  | .fire id =>
    if s.pc = .idle ∧ (id, s.now) ∈ s.timers then
      let s1 := { s with timers := s.timers.filter (fun t => t.1 != id) }
      if s1.running then
        some { (if sendTest s1.writes then sendHeartbeat s1 else s1) with pc := .sent }
      else some s1                                   -- `return False`
    else none
  | .eval =>
    if s.pc = .sent then
      if missTest s.reads then
        let th := thresholdMiss s.threshold
        if deadTest th then
          match s.exc with                            -- `_raise_or_append_exception`
          | none => some { s with threshold := th, running := false, raises := s.raises + 1, pc := .evald true }
          | some n => some { s with threshold := th, running := false, exc := some (n + 1),
                                    deads := s.deads + 1, pc := .evald true }
        else some { s with threshold := th, pc := .evald false }
      else some { s with threshold := thresholdHit, pc := .evald false }
    else none
  | .clear =>
    match s.pc with
    | .evald dead =>
      some { s with reads := resetReads s.reads, writes := resetWrites s.writes, lastReset := s.now,
                    pc := if dead then .idle else .cleared }
    | _ => none
  | .rearm => if s.pc = .cleared then some { startNewTimer s with pc := .idle } else none
  | .start list =>
    if s.pc = .idle then
      if startDisabled s.interval then some s        -- `return False`
      else some (startNewTimer { s with running := true, threshold := startThreshold s.threshold, reads := startReads s.reads,
                                        writes := startWrites s.writes, exc := if list then some 0 else none,
                                        lastOut := s.now, lastIn := s.now, lastReset := s.now,
                                        multi := s.multi || !s.timers.isEmpty })
    else none
  | .stop =>
    if s.pc = .idle then some { s with running := false, timers := cancel s.cur s.timers, cur := none }
    else none
  | .setOpen b => some { s with connOpen := b, lastOut := if b then s.now else s.lastOut }

def run (s : St) : List Act → Option St
  | [] => some s
  | a :: as => match step s a with
    | some s' => run s' as
    | none => none

/-- the four phases of one complete, uninterrupted check by timer `id` -/
def tick (id : Nat) : List Act := [.fire id, .eval, .clear, .rearm]

/-! ## Expected statement skeletons (what the step function above was written against).
    `Props/C12.lean` proves them equal to the regenerated `Gen.Heartbeat.*Skel`. -/

def expectedCtorArgs : List String := ["self.parameters['heartbeat']", "self._channel0.send_heartbeat"]

def expectedCheckSkel : List String := [
  "if not self._running.is_set()", "return False", "end",                       -- fire
  "if self._writes_since_check == 0", "self.send_heartbeat_impl()", "end",      -- fire
  "self._lock.acquire()",
  "try",
  "if self._reads_since_check == 0",                                            -- eval
  "self._threshold += 1",
  "if self._threshold >= 2",
  "self._running.clear()", "self._raise_or_append_exception()", "return False",
  "end",
  "else",
  "self._threshold = 0",
  "end",
  "finally",                                                                    -- clear
  "self._reads_since_check = 0", "self._writes_since_check = 0", "self._lock.release()",
  "end",
  "return self._start_new_timer()"]                                             -- rearm

def expectedStartSkel : List String := [
  "if not self._interval", "return False", "end",
  "self._running.set()",
  "with self._lock",
  "self._threshold = 0", "self._reads_since_check = 0", "self._writes_since_check = 0",
  "end",
  "self._exceptions = exceptions",
  "return self._start_new_timer()"]

def expectedStopSkel : List String := [
  "self._running.clear()",
  "with self._lock",
  "if self._timer", "self._timer.cancel()", "end",
  "self._timer = None",
  "end"]

def expectedTimerSkel : List String := [
  "with self._lock",
  "if not self._running.is_set()", "return False", "end",
  "self._timer = self.timer_impl(interval=self._interval, function=self._check_for_life_signs)",
  "self._timer.daemon = True",
  "self._timer.start()",
  "end",
  "return True"]

def expectedRaiseSkel : List String := [
  "v0 = 'S' % (self._interval * 2)",
  "v1 = AMQPConnectionError(v0)",
  "if self._exceptions is None", "raise v1", "end",
  "self._exceptions.append(v1)"]

def expectedSendHeartbeatSkel : List String := [
  "if not self._connection.is_open", "return", "end",
  "self._write_frame(Heartbeat())"]

def expectedWriteFrameSkel : List String := [
  "v0 = pamqp_frame.marshal(frame_out, channel_id)",
  "self.heartbeat.register_write()",
  "self._io.write_to_socket(v0)"]

def expectedWriteFramesSkel : List String := [
  "v0 = EMPTY_BUFFER",
  "for v1 in frames_out", "v0 += pamqp_frame.marshal(v1, channel_id)", "end",
  "self.heartbeat.register_write()",
  "self._io.write_to_socket(v0)"]

def expectedReadBufferSkel : List String := [
  "while data_in",
  "data_in, v0, v1 = self._handle_amqp_frame(data_in)",
  "if v1 is None", "break", "end",
  "self.heartbeat.register_read()",
  "if v0 == 0", "self._channel0.on_frame(v1)", "continue", "end",
  "v2 = self._channels.get(v0)",
  "if v2 is not None", "v2.on_frame(v1)", "end",
  "end",
  "return data_in"]

def expectedOpenCalls : List String := [
  "self._io.open()", "self._send_handshake()",
  "self._wait_for_connection_state(state=Stateful.OPEN)",
  "self._io.close()",                                   -- only on a failed handshake (C08)
  "self.heartbeat.start(self._exceptions)"]

def expectedCloseCalls : List String := [
  "self.heartbeat.stop()", "self._channel0.send_close_connection()",
  "self._wait_for_connection_state(state=Stateful.CLOSED)", "self._io.close()"]

/-! ## `stop()` / `start()` from another thread while a check is running

    `stop` and `start` do their counter work under `_lock`, which the running check holds from the
    read test to the end of its `finally`.  They can therefore fall before the check takes the lock
    (`pc = sent`) or after it released it (`pc = cleared`), never in between.  The check itself goes
    on where it was: it has already passed its `_running` test. -/

/-- `a` (a `stop` or a `start`) performed by another thread at a point where the running check does
    not hold the lock -/
def stepMid (s : St) (a : Act) : Option St :=
  if s.pc = .sent ∨ s.pc = .cleared then
    (step { s with pc := .idle } a).map (fun s' => { s' with pc := s.pc })
  else none

inductive XAct
  | base (a : Act)
  | midStop
  | midStart (list : Bool)
deriving DecidableEq, Repr

def stepX (s : St) : XAct → Option St
  | .base a => step s a
  | .midStop => stepMid s .stop
  | .midStart l => stepMid s (.start l)

def runX (s : St) : List XAct → Option St
  | [] => some s
  | a :: as => match stepX s a with
    | some s' => runX s' as
    | none => none

end Amqp.Hb
