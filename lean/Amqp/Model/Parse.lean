import Amqp.Base.Bytes
import Amqp.Gen.Parse
/-
  C02 model: the frame envelope of `pamqp.frame.unmarshal` *as it is* (third party, not part of
  /repo: modelled, tied by correspondence), composed with amqpstorm's
  `Connection._handle_amqp_frame` / `_read_buffer` and `IO._process_incoming_data`'s carry-over.
-/
namespace Amqp

structure Frame where
  ty : Nat
  chan : Nat
  payload : Bytes
deriving DecidableEq, Repr

def frameEnd : UInt8 := 0xCE

def Frame.encode (f : Frame) : Bytes :=
  UInt8.ofNat f.ty :: (be16 f.chan ++ be32 f.payload.length ++ (f.payload ++ [frameEnd]))

def encodeAll (fs : List Frame) : Bytes := fs.flatMap Frame.encode

/-- frames the broker can legally send, as far as the envelope is concerned -/
structure Frame.WF (f : Frame) : Prop where
  chan : f.chan < 65536
  size : f.payload.length < 4294967296
  kind : (f.ty = 8 ∧ f.payload = []) ∨ ((f.ty = 1 ∨ f.ty = 2 ∨ f.ty = 3) ∧ f.payload ≠ [])

instance (f : Frame) : Decidable f.WF :=
  if h : f.chan < 65536 ∧ f.payload.length < 4294967296 ∧
      ((f.ty = 8 ∧ f.payload = []) ∨ ((f.ty = 1 ∨ f.ty = 2 ∨ f.ty = 3) ∧ f.payload ≠ []))
  then isTrue ⟨h.1, h.2.1, h.2.2⟩ else isFalse (fun w => h ⟨w.chan, w.size, w.kind⟩)

def amqpMagic : Bytes := [65, 77, 81, 80]

/-- `pamqp.frame.unmarshal`, envelope level: `some (byte_count, frame)` or `none` when it raises
    `UnmarshalingException` ("incomplete").  Note the heartbeat shortcut: 7 bytes suffice and the
    reported byte count is 8 *without* a length check; and a ProtocolHeader (pseudo type 0). -/
def unmarshalEnv (d : Bytes) : Option (Nat × Frame) :=
  if d.take 4 = amqpMagic then
    (if d.length < 8 then none else some (8, ⟨0, 0, (d.drop 5).take 3⟩))
  else
  match d with
  | t :: c1 :: c2 :: s1 :: s2 :: s3 :: s4 :: rest =>
    let size := dec32 s1 s2 s3 s4
    let chan := dec16 c1 c2
    if t = 8 ∧ size = 0 then some (8, ⟨8, chan, []⟩)
    else if size = 0 then none
    else if rest.length < size + 1 then none
    else if (rest.drop size).head? ≠ some frameEnd then none
    else if t = 1 ∨ t = 2 ∨ t = 3 then some (7 + size + 1, ⟨t.toNat, chan, rest.take size⟩)
    else none
  | _ => none

/-- `Connection._handle_amqp_frame`: slice by the returned byte count; on failure the buffer is
    returned untouched.  `Gen.Parse.guardsByteCount` is extracted from the source: does the method
    treat `byte_count > len(data_in)` as incomplete before slicing? -/
def handleFrame (d : Bytes) : Option (Frame × Bytes) :=
  if d = [] then none else
  match unmarshalEnv d with
  | none => none
  | some (n, f) =>
    if Gen.Parse.guardsByteCount && decide (n > d.length) then none
    else some (f, d.drop n)

/-- `Connection._read_buffer`: the `while data_in` loop; returns dispatched frames and residual.
    Structural recursion on a fuel argument (so that the kernel can evaluate it); `readBuffer`
    supplies `d.length` fuel, which always suffices because every successful parse consumes at
    least one byte (`Lemmas/Parse.lean: handleFrame_shorter`, `readBufferAux_fuel`). -/
def readBufferAux : Nat → Bytes → List Frame × Bytes
  | 0, d => ([], d)
  | fuel + 1, d =>
    match handleFrame d with
    | none => ([], d)
    | some (f, rest) =>
      let r := readBufferAux fuel rest
      (f :: r.1, r.2)

def readBuffer (d : Bytes) : List Frame × Bytes := readBufferAux d.length d

structure RdState where
  buf : Bytes := []
  out : List Frame := []      -- dispatched so far, in order
deriving Repr

/-- one socket read of `chunk` bytes: `data_in += chunk; data_in = on_read(data_in)` -/
def feed (s : RdState) (chunk : Bytes) : RdState :=
  let r := readBuffer (s.buf ++ chunk)
  { buf := r.2, out := s.out ++ r.1 }

/-- `IO.open` on the same object (the documented reconnect pattern): a new byte stream begins; what was dispatched
    stays dispatched.  Whether the carry-over is emptied is read from the source. -/
def reopen (s : RdState) : RdState :=
  { buf := if Gen.Parse.openResetsCarry then [] else s.buf, out := s.out }

/-- readers of one `IO` object over a close/open cycle: `IO.close` stops the loop of the current reader and - if it
    joins it (read from the source) - has seen it end; `IO.open` then starts a new one.  A reader that was not joined
    is still in its poll and is revived when `open` sets the run flag again. -/
def readersAfterReconnect (alive : Nat) : Nat := (if Gen.Parse.closeJoinsReader then 0 else alive) + 1

/-- `k` close/open cycles -/
def readersAfter : Nat → Nat → Nat
  | 0, alive => alive
  | k + 1, alive => readersAfter k (readersAfterReconnect alive)

/-- two readers sharing one carry-over buffer, as `_process_incoming_data` is written (`data_in += recv(); data_in =
    on_read(data_in)` is not atomic): each takes the buffer as it finds it (`snap`), parses, dispatches and writes the
    rest back (`commit`).  The phases of different readers can interleave. -/
inductive RAct
  | arrive (chunk : Bytes)   -- `data_in += recv()` by whichever reader
  | snap (t : Nat)           -- reader t evaluates the argument of `on_read(self.data_in)`
  | commit (t : Nat)         -- reader t dispatches what it parsed and assigns the rest to `data_in`
deriving DecidableEq, Repr

structure Shared where
  st : RdState := {}
  loc : List (Nat × Bytes) := []     -- what each reader took
deriving Repr

def Shared.step (s : Shared) : RAct → Shared
  | .arrive chunk => { s with st := { s.st with buf := s.st.buf ++ chunk } }
  | .snap t => { s with loc := (t, s.st.buf) :: s.loc.filter (·.1 ≠ t) }
  | .commit t =>
    match s.loc.lookup t with
    | none => s
    | some b =>
      let r := readBuffer b
      { st := { buf := r.2, out := s.st.out ++ r.1 }, loc := s.loc.filter (·.1 ≠ t) }

/-- routing of `_read_buffer`: channel 0, a registered channel, or silently dropped -/
inductive Route | chan0 | registered (c : Nat) | dropped
deriving DecidableEq, Repr

def route (registered : List Nat) (f : Frame) : Route :=
  if f.chan = 0 then .chan0
  else if f.chan ∈ registered then .registered f.chan
  else .dropped

end Amqp
