import Amqp.Base.Bytes
import Amqp.Base.PyStr
import Amqp.Gen.Uri
/-
  C18 model: `UriConnection(uri, lazy=True).parameters`.

  amqpstorm's own code (`compatibility.patch_uri`, `UriConnection.__init__`, `_parse_uri_options`,
  the `parameters` literal of `Connection.__init__`) is *generated* into Gen/Uri.lean; this file
  supplies the CPython 3.12 library fragment it runs on, modelled by hand and tied by
  correspondence: `str.find/partition/rpartition/replace/lstrip/lower`, `urllib.parse.urlsplit`,
  `urlparse` (`;params`), the `username/password/hostname/port` accessors, `unquote` (percent
  decoding + UTF-8 with replacement), `parse_qsl`, `int(str)`, and `quote(s, safe='')` for `render`.
  Which parser `__init__` calls (`urlparse` or `urlsplit`) is extracted too (`Gen.Uri.cutsParams`).
  `utf8DecSt` and `unquoteBytesAux` recurse on the immediate tail only, so `decide` evaluates them
  in linear time (nested-pattern recursion made kernel evaluation exponential).

  Not modelled (explicit `Err.outOfModel`, never a silent default): NFKC check of a non-ASCII netloc,
  `int()` of text with non-ASCII characters.  The syntax check of a bracketed host
  (`ipaddress.ip_address`, IPvFuture) is a parameter `v6ok` of the model.
-/
namespace Amqp.Uri
open Amqp

/-! ### Python `str` methods -/

def takeUntil (p : Char → Bool) : Str → Str
  | [] => []
  | c :: cs => if p c then [] else c :: takeUntil p cs

/-- the suffix starting at the first character satisfying `p` (`[]` if there is none) -/
def dropUntil (p : Char → Bool) : Str → Str
  | [] => []
  | c :: cs => if p c then c :: cs else dropUntil p cs

/-- `s.partition(sep)` for a one-character separator: `(before, found, after)` -/
def partition (sep : Char) (s : Str) : Str × Bool × Str :=
  match dropUntil (· == sep) s with
  | [] => (s, false, [])
  | _ :: after => (takeUntil (· == sep) s, true, after)

/-- `s.rpartition(sep)`: `('', False, s)` when the separator does not occur -/
def rpartition (sep : Char) (s : Str) : Str × Bool × Str :=
  match partition sep s.reverse with
  | (a, true, b) => (b.reverse, true, a.reverse)
  | (_, false, _) => ([], false, s)

/-- `s.replace(old, new, 1)` for non-empty `old` -/
def replaceFirst (old new : Str) : Str → Str
  | [] => []
  | c :: cs => if old.isPrefixOf (c :: cs) then new ++ (c :: cs).drop old.length
               else c :: replaceFirst old new cs

/-- `s[:s.find(':')]` (`find` = -1 when absent, so the slice drops the last character) -/
def uptoColon (s : Str) : Str := if s.contains ':' then takeUntil (· == ':') s else s.dropLast

/-- `compatibility.patch_uri` with the branches extracted from the source -/
def patchUri (s : Str) : Str :=
  match Gen.Uri.patchTable.find? (fun t => uptoColon s == t.1) with
  | some (_, old, new) => replaceFirst old new s
  | none => s

/-! ### UTF-8 and percent-encoding -/

/-- UTF-8 bytes of one code point -/
def utf8Enc (c : Char) : List Nat :=
  let n := c.toNat
  if n < 0x80 then [n]
  else if n < 0x800 then [0xC0 + n / 64, 0x80 + n % 64]
  else if n < 0x10000 then [0xE0 + n / 4096, 0x80 + n / 64 % 64, 0x80 + n % 64]
  else [0xF0 + n / 262144, 0x80 + n / 4096 % 64, 0x80 + n / 64 % 64, 0x80 + n % 64]

def utf8 (s : Str) : List Nat := s.flatMap utf8Enc

def replChar : Char := Char.ofNat 0xFFFD

/-- decoder state: idle, or inside a multi-byte sequence: code point bits so far, continuation
    bytes still needed, and the range the next byte must lie in (the second byte of E0/ED/F0/F4
    sequences is restricted: no overlong forms, no surrogates, nothing above U+10FFFF) -/
inductive U8
  | idle
  | need (acc k lo hi : Nat)
deriving DecidableEq, Repr

/-- a byte at the start of a sequence: the characters emitted and the new state -/
def u8Start (b : Nat) : Str × U8 :=
  if b < 0x80 then ([Char.ofNat b], .idle)
  else if b < 0xC2 then ([replChar], .idle)
  else if b < 0xE0 then ([], .need (b - 0xC0) 1 0x80 0xBF)
  else if b < 0xF0 then
    ([], .need (b - 0xE0) 2 (if b = 0xE0 then 0xA0 else 0x80) (if b = 0xED then 0x9F else 0xBF))
  else if b < 0xF5 then
    ([], .need (b - 0xF0) 3 (if b = 0xF0 then 0x90 else 0x80) (if b = 0xF4 then 0x8F else 0xBF))
  else ([replChar], .idle)

/-- one byte: a valid continuation extends the sequence; anything else closes the unfinished
    sequence with one U+FFFD and is then treated as a start byte -/
def u8Step (st : U8) (b : Nat) : Str × U8 :=
  match st with
  | .idle => u8Start b
  | .need acc k lo hi =>
    if lo ≤ b ∧ b ≤ hi then
      (if k ≤ 1 then ([Char.ofNat (acc * 64 + (b - 0x80))], .idle)
       else ([], .need (acc * 64 + (b - 0x80)) (k - 1) 0x80 0xBF))
    else (replChar :: (u8Start b).1, (u8Start b).2)

def utf8DecSt : U8 → List Nat → Str
  | .idle, [] => []
  | .need _ _ _ _, [] => [replChar]
  | st, b :: r => (u8Step st b).1 ++ utf8DecSt (u8Step st b).2 r

/-- `bytes.decode('utf-8', 'replace')` as CPython does it: an invalid start byte, or a lead byte
    with the longest valid run of continuation bytes after it, becomes one U+FFFD -/
def utf8Dec (bs : List Nat) : Str := utf8DecSt .idle bs

/-- the byte two hex digits at the head of `s` denote -/
def hexPair : Str → Option Nat
  | a :: b :: _ =>
    match hexVal a, hexVal b with
    | some x, some y => some (x * 16 + y)
    | _, _ => none
  | _ => none

/-- `skip` characters are dropped (the two hex digits of an escape just consumed) -/
def unquoteBytesAux : Nat → Str → List Nat
  | _, [] => []
  | skip + 1, _ :: rest => unquoteBytesAux skip rest
  | 0, c :: rest =>
    if c == '%' then
      match hexPair rest with
      | some b => b :: unquoteBytesAux 2 rest
      | none => 0x25 :: unquoteBytesAux 0 rest
    else utf8Enc c ++ unquoteBytesAux 0 rest

/-- the bytes `_unquote_impl` produces: `%XX` (two hex digits) becomes that byte, every other
    character its UTF-8 bytes -/
def unquoteBytes (s : Str) : List Nat := unquoteBytesAux 0 s

/-- `urllib.parse.unquote(s)` (encoding utf-8, errors replace) -/
def unquote (s : Str) : Str := utf8Dec (unquoteBytes s)

def unreserved (c : Char) : Bool :=
  c.isAlphanum || c == '_' || c == '.' || c == '-' || c == '~'

def hexU (n : Nat) : Char := if n < 10 then Char.ofNat (48 + n) else Char.ofNat (55 + n)

def pctByte (b : Nat) : Str := ['%', hexU (b / 16), hexU (b % 16)]

def quoteChar (c : Char) : Str := if unreserved c then [c] else (utf8Enc c).flatMap pctByte

/-- `urllib.parse.quote(s, safe='')` -/
def quote (s : Str) : Str := s.flatMap quoteChar

/-! ### `int(str)` and decimal numerals -/

inductive Err
  | valueError      -- `ValueError` out of urlsplit / `.port` / `int()`
  | outOfModel      -- the input leaves the modelled fragment of the library (see the header)
deriving DecidableEq, Repr

def digitVal (c : Char) : Option Nat := if c.isDigit then some (c.toNat - 48) else none

/-- digits with single underscores between them (`int('1_000')`) -/
def digitsVal (acc : Nat) (prevDigit : Bool) : Str → Option Nat
  | [] => if prevDigit then some acc else none
  | c :: cs =>
    if c == '_' then (if prevDigit then digitsVal acc false cs else none)
    else match digitVal c with
      | some d => digitsVal (acc * 10 + d) true cs
      | none => none

/-- ASCII characters `int()` skips around the numeral (tab, LF, VT, FF, CR, space; not FS..US) -/
def pySpace (c : Char) : Bool :=
  let n := c.toNat
  (9 ≤ n && n ≤ 13) || n == 32

def strip (s : Str) : Str := ((s.dropWhile pySpace).reverse.dropWhile pySpace).reverse

/-- `int(s)` for ASCII text: optional sign, then digits -/
def pyInt (s : Str) : Except Err Int :=
  if s.any (fun c => 128 ≤ c.toNat) then .error .outOfModel else
  let t := strip s
  let neg := t.head? == some '-'
  let body := if neg || t.head? == some '+' then t.tail else t
  match digitsVal 0 false body with
  | some n => .ok (if neg then -(n : Int) else n)
  | none => .error .valueError

def digitChar (d : Nat) : Char := Char.ofNat (48 + d)

/-- decimal numeral of `n` (`fuel` ≥ number of digits) -/
def toDecF : Nat → Nat → Str
  | 0, n => [digitChar (n % 10)]
  | fuel + 1, n => if n < 10 then [digitChar n] else toDecF fuel (n / 10) ++ [digitChar (n % 10)]

def toDec (n : Nat) : Str := toDecF n n

/-! ### `urlsplit` / `urlparse` -/

structure Split where
  scheme : Str
  netloc : Str
  path : Str
  query : Str
  fragment : Str
deriving DecidableEq, Repr

def c0OrSpace (c : Char) : Bool := c.toNat ≤ 0x20
def unsafeChar (c : Char) : Bool := c == '\t' || c == '\r' || c == '\n'
def schemeChar (c : Char) : Bool := c.isAlphanum || c == '+' || c == '-' || c == '.'
def netlocDelim (c : Char) : Bool := c == '/' || c == '?' || c == '#'
def isAscii (s : Str) : Bool := s.all (fun c => c.toNat < 128)

/-- `url[:i].lower(), url[i+1:]` when the text before the first ':' is a scheme -/
def splitScheme (url : Str) : Str × Str :=
  match url with
  | [] => ([], url)
  | c0 :: _ =>
    let pre := takeUntil (· == ':') url
    if url.contains ':' && c0.isAlpha && pre.all schemeChar then
      (pre.map Char.toLower, (dropUntil (· == ':') url).drop 1)
    else ([], url)

/-- `url.lstrip(C0 ∪ space)` then removal of tab/CR/LF anywhere -/
def cleanUrl (url : Str) : Str := (url.dropWhile c0OrSpace).filter (fun c => !unsafeChar c)

/-- `_splitnetloc(url, 2)` when `url[:2] == '//'`: (netloc, rest) -/
def splitNetloc (url : Str) : Str × Str :=
  if url.take 2 == ['/', '/'] then (takeUntil netlocDelim (url.drop 2), dropUntil netlocDelim (url.drop 2))
  else ([], url)

/-- `netloc.partition('[')[2].partition(']')[0]`: the text `_check_bracketed_host` is asked about -/
def bracketed (netloc : Str) : Str := (partition ']' (partition '[' netloc).2.2).1

def urlsplit (v6ok : Str → Bool) (url0 : Str) : Except Err Split :=
  let (scheme, url) := splitScheme (cleanUrl url0)
  let (netloc, url) := splitNetloc url
  let lb := netloc.contains '['
  let rb := netloc.contains ']'
  if lb != rb then .error .valueError
  else if lb && !v6ok (bracketed netloc) then .error .valueError
  else
    let (url, _, fragment) := partition '#' url
    let (url, _, query) := partition '?' url
    if !isAscii netloc then .error .outOfModel
    else .ok ⟨scheme, netloc, url, query, fragment⟩

/-- the bracketed host text of a URI, if `urlsplit` consults the bracket check at all -/
def bracketText (uri : Str) : Option Str :=
  let netloc := (splitNetloc (splitScheme (cleanUrl (patchUri uri))).2).1
  if netloc.contains '[' && netloc.contains ']' then some (bracketed netloc) else none

/-- `urllib.parse.uses_params` -/
def usesParams : List Str :=
  [[],
   ['f', 't', 'p'],
   ['h', 'd', 'l'],
   ['p', 'r', 'o', 's', 'p', 'e', 'r', 'o'],
   ['h', 't', 't', 'p'],
   ['i', 'm', 'a', 'p'],
   ['h', 't', 't', 'p', 's'],
   ['s', 'h', 't', 't', 'p'],
   ['r', 't', 's', 'p'],
   ['r', 't', 's', 'p', 's'],
   ['r', 't', 's', 'p', 'u'],
   ['s', 'i', 'p'],
   ['s', 'i', 'p', 's'],
   ['m', 'm', 's'],
   ['s', 'f', 't', 'p'],
   ['t', 'e', 'l']]

/-- `_splitparams(path)` (called only when ';' occurs in `path`): cut `;params` off the last segment -/
def splitParams (p : Str) : Str :=
  match rpartition '/' p with
  | (dir, true, last) =>
    (match partition ';' last with
     | (a, true, _) => dir ++ '/' :: a
     | _ => p)
  | _ => (partition ';' p).1

/-- result of `urlparse(uri)` as `UriConnection.__init__` reads it -/
structure Parsed where
  scheme : Str
  username : Option Str
  password : Option Str
  hostname : Option Str
  port : Option Nat
  path : Str
  query : Str
deriving DecidableEq, Repr

/-- `_userinfo` -/
def userinfo (netloc : Str) : Option Str × Option Str :=
  match rpartition '@' netloc with
  | (ui, true, _) =>
    (match partition ':' ui with
     | (u, true, p) => (some u, some p)
     | (u, false, _) => (some u, none))
  | _ => (none, none)

/-- `_hostinfo` before `if not port: port = None`: (hostname text, port text) of the part after '@' -/
def hostinfoRaw (hi : Str) : Str × Str :=
  match partition '[' hi with
  | (_, true, bracketed) =>
    ((partition ']' bracketed).1, (partition ':' (partition ']' bracketed).2.2).2.2)
  | _ => ((partition ':' hi).1, (partition ':' hi).2.2)

/-- `_hostinfo`: (hostname text, port text or None) -/
def hostinfo (netloc : Str) : Str × Option Str :=
  let r := hostinfoRaw (rpartition '@' netloc).2.2
  (r.1, if r.2 = [] then none else some r.2)

/-- `.hostname`: None when empty; lower-cased up to a '%' (zone id) -/
def hostnameOf (h : Str) : Option Str :=
  if h = [] then none
  else
    let (a, pct, zone) := partition '%' h
    some (a.map Char.toLower ++ (if pct then '%' :: zone else []))

/-- `.port`: ASCII digits only, value at most 65535, else `ValueError` -/
def portOf : Option Str → Except Err (Option Nat)
  | none => .ok none
  | some p =>
    if p.all Char.isDigit then
      match digitsVal 0 false p with
      | some n => if n ≤ 65535 then .ok (some n) else .error .valueError
      | none => .error .valueError
    else .error .valueError

/-- the parser `UriConnection.__init__` calls: `urlparse` (cuts `;params`) or `urlsplit`, as extracted
    from the source (`Gen.Uri.cutsParams`) -/
def urlparse (v6ok : Str → Bool) (url : Str) : Except Err Parsed := do
  let s ← urlsplit v6ok url
  let path := if Gen.Uri.cutsParams && usesParams.contains s.scheme && s.path.contains ';' then splitParams s.path
    else s.path
  let (u, p) := userinfo s.netloc
  let (h, portText) := hostinfo s.netloc
  let port ← portOf portText
  pure ⟨s.scheme, u, p, hostnameOf h, port, path, s.query⟩

/-! ### `parse_qs` -/

/-- `s.split(sep)` for a one-character separator -/
def splitOn (sep : Char) : Str → List Str
  | [] => [[]]
  | c :: cs =>
    match splitOn sep cs with
    | [] => [[c]]          -- unreachable
    | hd :: tl => if c == sep then [] :: hd :: tl else (c :: hd) :: tl

def plusToSpace (s : Str) : Str := s.map (fun c => if c == '+' then ' ' else c)

/-- one `name=value` field of `parse_qsl`: dropped without '=' or with an empty value; '+' means
    space; name and value are unquoted -/
def parseField (nv : Str) : Option (Str × Str) :=
  match partition '=' nv with
  | (name, true, value) =>
    if value = [] then none else some (unquote (plusToSpace name), unquote (plusToSpace value))
  | _ => none

/-- `parse_qsl(qs)`: the `&`-separated fields of a non-empty query -/
def parseQsl (qs : Str) : List (Str × Str) :=
  if qs = [] then [] else (splitOn '&' qs).filterMap parseField

/-- `parse_qs(qs).pop(key, [default])[0]`: the first value given for `key` -/
def firstValue (key : Str) (q : List (Str × Str)) : Option Str :=
  (q.find? (fun kv => kv.1 == key)).map (·.2)

/-- one option as the source reads it: `int(kwargs.pop(key, [dflt])[0])` or without `int` -/
def optValue (spec : OptSpec) (q : List (Str × Str)) : Except Err OptVal :=
  match firstValue spec.key q with
  | none => .ok spec.dflt      -- int(<int default>) is the default itself
  | some v => if spec.toInt then (pyInt v).map .int else .ok (.str v)

/-! ### the connection parameters -/

structure Params where
  hostname : Str
  username : Str
  password : Str
  port : Nat
  virtualHost : Str
  heartbeat : OptVal
  timeout : OptVal
  ssl : Bool
deriving DecidableEq, Repr

instance : DecidableEq (Except Err Params) := fun a b =>
  match a, b with
  | .ok x, .ok y => if h : x = y then isTrue (by rw [h]) else isFalse (fun e => by cases e; exact h rfl)
  | .error x, .error y => if h : x = y then isTrue (by rw [h]) else isFalse (fun e => by cases e; exact h rfl)
  | .ok _, .error _ => isFalse (fun e => by cases e)
  | .error _, .ok _ => isFalse (fun e => by cases e)

/-- `UriConnection(uri, lazy=True).parameters` (the entries the URI determines), or the error raised -/
def connectionParams (v6ok : Str → Bool) (uri : Str) : Except Err Params := do
  let p ← urlparse v6ok (patchUri uri)
  let q := parseQsl p.query
  let hb ← optValue Gen.Uri.pHeartbeat q
  let tmo ← optValue Gen.Uri.pTimeout q
  pure {
    hostname := Gen.Uri.pHostname unquote p.scheme p.hostname p.username p.password p.port p.path
    username := Gen.Uri.pUsername unquote p.scheme p.hostname p.username p.password p.port p.path
    password := Gen.Uri.pPassword unquote p.scheme p.hostname p.username p.password p.port p.path
    port := Gen.Uri.pPort unquote p.scheme p.hostname p.username p.password p.port p.path
    virtualHost := Gen.Uri.pVirtualHost unquote p.scheme p.hostname p.username p.password p.port p.path
    heartbeat := hb
    timeout := tmo
    ssl := Gen.Uri.pSsl unquote p.scheme p.hostname p.username p.password p.port p.path }

/-! ### rendering a URI from its components (the generator side of the round trip) -/

inductive Host
  | name (h : Str)       -- registered name or IPv4 literal
  | v6 (h : Str)         -- IPv6 literal, written in brackets
deriving DecidableEq, Repr

inductive UOpt
  | heartbeat (n : Nat)
  | timeout (n : Nat)
deriving DecidableEq, Repr

/-- the components of a URI.  `user`, `pass`, `vhost` hold *text as written in the URI* for
    `renderRaw` (already percent-encoded) and *plain text* for `render` (which encodes them). -/
structure Components where
  tls : Bool
  user : Option Str
  pass : Option Str
  host : Option Host
  port : Option Nat
  vhost : Option Str
  opts : List UOpt
deriving DecidableEq, Repr

def renderUserinfo : Option Str → Option Str → Str
  | none, none => []
  | some u, none => u ++ ['@']
  | u, some p => u.getD [] ++ ':' :: p ++ ['@']

def renderHost : Option Host → Str
  | none => []
  | some (.name h) => h
  | some (.v6 h) => '[' :: h ++ [']']

def renderPort : Option Nat → Str
  | none => []
  | some n => ':' :: toDec n

def renderPath : Option Str → Str
  | none => []
  | some v => '/' :: v

def renderOpt : UOpt → Str
  | .heartbeat n => ['h', 'e', 'a', 'r', 't', 'b', 'e', 'a', 't', '='] ++ toDec n
  | .timeout n => ['t', 'i', 'm', 'e', 'o', 'u', 't', '='] ++ toDec n

def renderQuery : List UOpt → Str
  | [] => []
  | o :: os => '?' :: renderOpt o ++ os.flatMap (fun o => '&' :: renderOpt o)

/-- the URI whose userinfo and path are the given (already encoded) texts -/
def renderRaw (c : Components) : Str :=
  (if c.tls then ['a', 'm', 'q', 'p', 's', ':', '/', '/'] else ['a', 'm', 'q', 'p', ':', '/', '/']) ++ renderUserinfo c.user c.pass ++
    renderHost c.host ++ renderPort c.port ++ renderPath c.vhost ++ renderQuery c.opts

/-- `quote(·, safe='')` applied to username, password and virtual host -/
def Components.encode (c : Components) : Components :=
  { c with user := c.user.map quote, pass := c.pass.map quote, vhost := c.vhost.map quote }

/-- the canonical URI of plain-text components -/
def render (c : Components) : Str := renderRaw c.encode

/-- which letters of the scheme are written in upper case (URI schemes are case-insensitive; `s` is
    ignored without TLS) -/
structure Caps where
  a : Bool
  m : Bool
  q : Bool
  p : Bool
  s : Bool
deriving DecidableEq, Repr

/-- `amqp://` / `amqps://` in the given spelling -/
def casedPrefix (tls : Bool) (k : Caps) : Str :=
  [if k.a then 'A' else 'a', if k.m then 'M' else 'm', if k.q then 'Q' else 'q', if k.p then 'P' else 'p'] ++
    ((if tls then [if k.s then 'S' else 's'] else []) ++ [':', '/', '/'])

/-- `renderRaw` with the scheme spelled as `k` says -/
def renderRawCased (k : Caps) (c : Components) : Str :=
  casedPrefix c.tls k ++ renderUserinfo c.user c.pass ++
    renderHost c.host ++ renderPort c.port ++ renderPath c.vhost ++ renderQuery c.opts

/-- `render` with the scheme spelled as `k` says -/
def renderCased (k : Caps) (c : Components) : Str := renderRawCased k c.encode

end Amqp.Uri
