import Amqp.Gen.Lifecycle
import Amqp.Gen.Const
/-
  C08 model: the life cycle of a connection and the resources behind it.

  `Connection.close`, `Connection.open`, `IO.close`, `IO.open`, `Channel.open`,
  `_close_remaining_channels`, `Heartbeat.stop` and `Heartbeat._start_new_timer` are *interpreted*:
  the translator turns each method into the list of its statements (step names, `Gen.Lifecycle`),
  the model gives every step name its effect on the resources.  Removing, reordering or adding a
  statement in the source changes the list and with it what the theorems are about.

  Resources are ghost state: the OS socket and the reader thread the IO object refers to, sockets and
  threads it no longer refers to but that are still alive (leaked), armed heartbeat timers.
-/
namespace Amqp.Lifecycle

def closed : Nat := Gen.Const.stateClosed
def closing : Nat := Gen.Const.stateClosing
def opening : Nat := Gen.Const.stateOpening
def open_ : Nat := Gen.Const.stateOpen

inductive Sock | absent | live | shut
deriving DecidableEq, Repr

inductive Rd | absent | running | exited
deriving DecidableEq, Repr

structure Ch where
  state : Nat := 3
  confirming : Bool := false
  inbound : Nat := 0
  errs : Nat := 0
  tags : Nat := 0
deriving DecidableEq, Repr

structure L where
  state : Nat := 0
  errs : Nat := 0
  chans : List (Nat × Ch) := []      -- Connection._channels
  lastId : Option Nat := none
  sock : Sock := .absent             -- IO.socket (and the OS socket behind it)
  reader : Rd := .absent             -- IO._inbound_thread
  ioRunning : Bool := false          -- IO._running
  stale : Bool := false              -- IO.data_in holds the beginning of a frame of a connection that is gone
  leakedSocks : Nat := 0             -- open sockets nothing refers to any more
  leakedReaders : Nat := 0           -- running reader threads nothing refers to any more
  hbRunning : Bool := false
  timers : Nat := 0                  -- armed heartbeat timers
  hbInterval : Nat := 0              -- 0: heartbeats off
deriving DecidableEq, Repr

/-- nothing of the library is alive -/
def Released (s : L) : Prop :=
  s.sock ≠ .live ∧ s.reader ≠ .running ∧ s.leakedSocks = 0 ∧ s.leakedReaders = 0 ∧ s.timers = 0 ∧ s.hbRunning = false

instance (s : L) : Decidable (Released s) := by unfold Released; infer_instance

/-- what `Connection.close()` promises -/
def Clean (s : L) : Prop := s.state = closed ∧ s.chans = [] ∧ Released s

instance (s : L) : Decidable (Clean s) := by unfold Clean; infer_instance

/-! ## Heartbeat.stop() against the timer thread re-arming itself -/
namespace Hb

structure Tm where
  started : Bool := false
  cancelled : Bool := false
  fired : Bool := false
deriving DecidableEq, Repr

structure S where
  running : Bool := true
  lock : Option Bool := none          -- who holds Heartbeat._lock (true: the stopping thread)
  ref : Option Nat := some 0          -- Heartbeat._timer
  timers : List Tm := [{ started := true, fired := true }]   -- timer 0 has just fired: we are in its callback
  stopPc : Nat := 0
  timerPc : Nat := 0
  timerDone : Bool := false
deriving DecidableEq, Repr

/-- the timer thread: `_check_for_life_signs` (running test, bookkeeping under the lock) then `_start_new_timer` -/
def timerSteps : List String := ["test-running", "lock", "unlock"] ++ Gen.Lifecycle.hbArmSteps

def stopSteps : List String := Gen.Lifecycle.hbStopSteps

def setTm (l : List Tm) (i : Nat) (f : Tm → Tm) : List Tm := l.modify i f

/-- one step of thread `who` (true = stop()); `none` = the step is blocked (lock taken) -/
def stepOf (s : S) (who : Bool) (name : String) : Option S :=
  let adv (s : S) : S := if who then { s with stopPc := s.stopPc + 1 } else { s with timerPc := s.timerPc + 1 }
  let finishTimer (s : S) : S :=
    { s with timerDone := true, lock := if s.lock = some false then none else s.lock }
  if name = "lock" then (if s.lock.isNone then some (adv { s with lock := some who }) else none)
  else if name = "unlock" then some (adv { s with lock := none })
  else if name = "clear-running" then some (adv { s with running := false })
  else if name = "cancel-timer" then
    some (adv (match s.ref with
      | some i => { s with timers := setTm s.timers i (fun t => { t with cancelled := true }) }
      | none => s))
  else if name = "drop-timer" then some (adv { s with ref := none })
  else if name = "test-running" then (if s.running then some (adv s) else some (finishTimer s))
  else if name = "create-timer" then some (adv { s with timers := s.timers ++ [{}], ref := some s.timers.length })
  else if name = "start-timer" then
    -- `self._timer.start()` reads the attribute again: stop() may have put None there
    match s.ref with
    | some i => some (adv { s with timers := setTm s.timers i (fun t => { t with started := true }) })
    | none => some (finishTimer s)       -- AttributeError in the timer thread
  else some (adv s)

/-- run one schedule (true = stop() moves); `none` = the schedule asks a blocked thread to move -/
def runSched (stop timer : List String) : List Bool → S → Option S
  | [], s => some s
  | who :: rest, s =>
    let name? := if who then stop[s.stopPc]? else (if s.timerDone then none else timer[s.timerPc]?)
    match name? with
    | none => runSched stop timer rest s             -- that thread has finished: nothing happens
    | some name =>
      match stepOf s who name with
      | none => none
      | some s' => runSched stop timer rest s'

def allBools : Nat → List (List Bool)
  | 0 => [[]]
  | n + 1 => (allBools n).flatMap fun l => [true :: l, false :: l]

/-- every interleaving of the two threads -/
def schedulesOf (stop timer : List String) : List (List Bool) :=
  (allBools (stop.length + timer.length)).filter (fun l => l.count true = stop.length)

def armed (s : S) : Nat := (s.timers.filter (fun t => t.started && !t.cancelled && !t.fired)).length

/-- does some complete interleaving leave an armed timer behind after stop() has returned? -/
def leaksWith (stop timer : List String) : Bool :=
  (schedulesOf stop timer).any fun sched => match runSched stop timer sched {} with
    | some s => (s.stopPc ≥ stop.length && (s.timerDone || s.timerPc ≥ timer.length)) && armed s > 0
    | none => false

def leaks : Bool := leaksWith stopSteps timerSteps

end Hb

/-! ## The regenerated statement lists as programs

Each step name is parsed into a constructor; a name the model does not know becomes `unknown`, which
no expected program contains (the tie theorems `…Program_eq` then fail). -/

inductive IcStep | clearRunning | closeSocket | joinReader | dropSocket | dropPoller | dropThread | unknown
deriving DecidableEq, Repr

def IcStep.parse : String → IcStep
  | "clear-running" => .clearRunning | "close-socket" => .closeSocket | "join-reader" => .joinReader
  | "drop-socket" => .dropSocket | "drop-poller" => .dropPoller | "drop-thread" => .dropThread | _ => .unknown

inductive IoStep | resetBuffer | setRunning | connect | makePoller | startReader | unknown
deriving DecidableEq, Repr

def IoStep.parse : String → IoStep
  | "reset-buffer" => .resetBuffer | "set-running" => .setRunning | "connect" => .connect
  | "make-poller" => .makePoller | "start-reader" => .startReader | _ => .unknown

inductive CStep
  | closingIfNotClosed | hbStop | handshakeIfOpen | swallowConnError | finCloseChannels | finIoClose | finStateClosed | unknown
deriving DecidableEq, Repr

def CStep.parse : String → CStep
  | "closing-if-not-closed" => .closingIfNotClosed | "hb-stop" => .hbStop | "handshake-if-open" => .handshakeIfOpen
  | "swallow-conn-error" => .swallowConnError | "finally:close-channels" => .finCloseChannels
  | "finally:io-close" => .finIoClose | "finally:state-closed" => .finStateClosed | _ => .unknown

inductive OStep
  | stateOpening | clearErrors | rebindErrors | resetChannels | resetLastId | ioOpen | handshake | waitOpen | hbStart | unknown
deriving DecidableEq, Repr

def OStep.parse : String → OStep
  | "state-opening" => .stateOpening | "clear-errors" => .clearErrors | "rebind-errors" => .rebindErrors
  | "reset-channels" => .resetChannels | "reset-last-id" => .resetLastId | "io-open" => .ioOpen
  | "handshake" => .handshake | "wait-open" => .waitOpen | "hb-start" => .hbStart | _ => .unknown

inductive KStep | stateClosed | ioClose | fullClose | unknown
deriving DecidableEq, Repr

def KStep.parse : String → KStep
  | "state-closed" => .stateClosed | "io-close" => .ioClose | "full-close" => .fullClose | _ => .unknown

inductive ChStep | clearInbound | resetReturned | clearErrors | resetConfirm | stateOpening | rpcOpen | stateOpen | unknown
deriving DecidableEq, Repr

def ChStep.parse : String → ChStep
  | "clear-inbound" => .clearInbound | "reset-returned" => .resetReturned | "clear-errors" => .clearErrors
  | "reset-confirm" => .resetConfirm | "state-opening" => .stateOpening | "rpc-open" => .rpcOpen
  | "state-open" => .stateOpen | _ => .unknown

def ioCloseProgram : List IcStep := Gen.Lifecycle.ioCloseSteps.map IcStep.parse
def ioOpenProgram : List IoStep := Gen.Lifecycle.ioOpenSteps.map IoStep.parse
def closeProgram : List CStep := Gen.Lifecycle.closeSteps.map CStep.parse
def openProgram : List OStep := Gen.Lifecycle.openSteps.map OStep.parse
def cleanupProgram : List KStep := Gen.Lifecycle.openFailureCleanup.map KStep.parse
def chanOpenProgram : List ChStep := Gen.Lifecycle.chanOpenSteps.map ChStep.parse
/-- `_close_remaining_channels` per channel: set CLOSED, Channel.close(), unregister -/
def crSetsClosed : Bool := Gen.Lifecycle.closeRemainingSteps.contains "chan-state-closed"
def crCloses : Bool := Gen.Lifecycle.closeRemainingSteps.contains "chan-close"
def crUnregisters : Bool := Gen.Lifecycle.closeRemainingSteps.contains "unregister"

/-! ## IO.close / IO.open -/

def ioCloseStep (s : L) : IcStep → L
  | .clearRunning => { s with ioRunning := false }
  | .closeSocket => if s.sock = .live then { s with sock := .shut } else s
  | .joinReader =>
    -- the reader leaves its loop once the run flag is down (at the latest after one poll time-out);
    -- with the flag still up the join times out and the thread lives on
    if s.reader = .running ∧ s.ioRunning = false then { s with reader := .exited } else s
  | .dropSocket =>
    { s with sock := .absent, leakedSocks := if s.sock = .live then s.leakedSocks + 1 else s.leakedSocks }
  | .dropThread =>
    { s with reader := .absent, leakedReaders := if s.reader = .running then s.leakedReaders + 1 else s.leakedReaders }
  | .dropPoller => s
  | .unknown => s

def ioCloseWith (p : List IcStep) (s : L) : L := p.foldl ioCloseStep s
def ioClose (s : L) : L := ioCloseWith ioCloseProgram s

/-- `IO.open`; `connects = false`: the connect fails (nothing but the run flag is left behind) -/
def ioOpenStep (connects : Bool) (acc : L × Bool) : IoStep → L × Bool
  | .setRunning => if acc.2 then acc else ({ acc.1 with ioRunning := true }, false)
  | .connect =>
    if acc.2 then acc
    else if connects then
      ({ acc.1 with sock := .live,
                    leakedSocks := if acc.1.sock = .live then acc.1.leakedSocks + 1 else acc.1.leakedSocks }, false)
    else (acc.1, true)
  | .startReader =>
    if acc.2 then acc
    else ({ acc.1 with reader := .running,
                       leakedReaders := if acc.1.reader = .running then acc.1.leakedReaders + 1 else acc.1.leakedReaders }, false)
  | .resetBuffer => if acc.2 then acc else ({ acc.1 with stale := false }, false)
  | .makePoller => acc
  | .unknown => acc

def ioOpenWith (p : List IoStep) (s : L) (connects : Bool) : L × Bool := p.foldl (ioOpenStep connects) (s, false)
def ioOpen (s : L) (connects : Bool) : L × Bool := ioOpenWith ioOpenProgram s connects

/-! ## Connection.close -/

inductive CloseEnd | ok | error | timeout
deriving DecidableEq, Repr

def closeCh (c : Ch) : Ch :=
  let c := if crSetsClosed then { c with state := closed } else c
  -- Channel.close() on a closed channel: forget the consumers; finally: drop inbound, CLOSED
  if crCloses then { c with state := closed, tags := 0, inbound := 0 } else c

def closeChannels (s : L) : L :=
  if crUnregisters then { s with chans := [] } else { s with chans := s.chans.map fun p => (p.1, closeCh p.2) }

/-- accumulator: state, is an exception propagating.  `hbLeaks`: can stop() lose the race against the re-arm -/
def closeStep (e : CloseEnd) (hbLeaks : Bool) (acc : L × Bool) : CStep → L × Bool
  | .finCloseChannels => (closeChannels acc.1, acc.2)
  | .finIoClose => (ioClose acc.1, acc.2)
  | .finStateClosed => ({ acc.1 with state := closed }, acc.2)
  | .swallowConnError => (acc.1, false)
  | .closingIfNotClosed =>
    if acc.2 then acc else ((if acc.1.state ≠ closed then { acc.1 with state := closing } else acc.1), false)
  | .hbStop =>
    -- stop() cancels the armed timer; if the re-arm can race with it one may survive
    if acc.2 then acc
    else ({ acc.1 with hbRunning := false, timers := if hbLeaks ∧ acc.1.timers > 0 then 1 else 0 }, false)
  | .handshakeIfOpen =>
    if acc.2 then acc
    else if acc.1.state ≠ closed ∧ acc.1.sock ≠ .absent then
      match e with
      | .ok => ({ acc.1 with state := closed }, false)              -- the reader handled Connection.CloseOk
      | .error => ({ acc.1 with errs := acc.1.errs + 1 }, true)     -- transport failure while waiting
      | .timeout => (acc.1, true)
    else (acc.1, false)
  | .unknown => acc

def closeWith (p : List CStep) (s : L) (e : CloseEnd) (hbLeaks : Bool) : L × Bool := p.foldl (closeStep e hbLeaks) (s, false)

/-- `Connection.close()`: resulting state, and whether an exception escapes; `hbRace`: the heartbeat timer
    fires while close() runs -/
def closeConn (s : L) (e : CloseEnd) (hbRace : Bool := false) : L × Bool :=
  closeWith closeProgram s e (hbRace && Hb.leaks)

/-! ## Connection.open -/

inductive OpenEnd
  | ok
  | connectFail        -- no route / refused
  | refused            -- the broker answers the handshake with Connection.Close
  | transportError     -- the socket dies during the handshake
  | timeout            -- the broker never answers
deriving DecidableEq, Repr

def cleanupStep (s : L) : KStep → L
  | .stateClosed => { s with state := closed }
  | .ioClose => ioClose s
  | .fullClose => (closeConn s .ok).1
  | .unknown => s

def cleanup (s : L) : L := cleanupProgram.foldl cleanupStep s

/-- accumulator: state, has an exception been raised -/
def openStep (o : OpenEnd) (acc : L × Bool) : OStep → L × Bool
  | .stateOpening => if acc.2 then acc else ({ acc.1 with state := opening }, false)
  | .clearErrors => if acc.2 then acc else ({ acc.1 with errs := 0 }, false)
  | .rebindErrors => if acc.2 then acc else ({ acc.1 with errs := 0 }, false)
  | .resetChannels => if acc.2 then acc else ({ acc.1 with chans := [] }, false)
  | .resetLastId => if acc.2 then acc else ({ acc.1 with lastId := none }, false)
  | .ioOpen => if acc.2 then acc else ioOpen acc.1 (o ≠ .connectFail)
  | .handshake => acc
  | .waitOpen =>
    if acc.2 then acc
    else match o with
    | .ok =>
      -- left-over bytes of the previous connection in front of the broker's Connection.Start: the handshake
      -- never parses and the wait times out
      if acc.1.stale then (cleanup acc.1, true) else ({ acc.1 with state := open_ }, false)
    | .connectFail => (acc.1, true)
    | .refused =>
      -- the reader records the broker's reason and sets CLOSED; the waiting check raises it after
      -- running Connection.close()
      (cleanup (closeConn { acc.1 with errs := acc.1.errs + 1, state := closed } .ok).1, true)
    | .transportError =>
      (cleanup (closeConn { acc.1 with errs := acc.1.errs + 1, ioRunning := false, reader := .exited, state := closed } .ok).1, true)
    | .timeout =>
      -- `_wait_for_connection_state` raises 'connection timed out' without closing anything
      (cleanup acc.1, true)
  | .hbStart =>
    if acc.2 then acc
    else if acc.1.hbInterval > 0 then ({ acc.1 with hbRunning := true, timers := acc.1.timers + 1 }, false) else acc
  | .unknown => acc

def openWith (p : List OStep) (s : L) (o : OpenEnd) : L × Bool := p.foldl (openStep o) (s, false)
def openConn (s : L) (o : OpenEnd) : L × Bool := openWith openProgram s o

/-! ## Channel.open (also: re-opening a channel object that was closed) -/

def chanOpenStep (c : Ch) : ChStep → Ch
  | .clearInbound => { c with inbound := 0 }
  | .clearErrors => { c with errs := 0 }
  | .resetConfirm => { c with confirming := false }
  | .stateOpening => { c with state := opening }
  | .stateOpen => { c with state := open_ }
  | .resetReturned => c
  | .rpcOpen => c
  | .unknown => c

def chanOpen (c : Ch) : Ch := chanOpenProgram.foldl chanOpenStep c

/-! ## Histories -/

inductive Op
  | openC (o : OpenEnd)
  | closeC (e : CloseEnd)
  | channel (id : Nat)               -- Connection.channel(): register + open
  | confirm (id : Nat)               -- channel.confirm_deliveries()
  | deliver (id : Nat)               -- a message arrives on the channel (stays in its inbound queue)
  | chanError (id : Nat)             -- a returned message parks an error on the channel
  | chanClose (id : Nat)             -- Channel.close() by the application
  | brokerCloseChan (id : Nat)       -- the broker closes the channel (reason recorded, inbound dropped)
  | chanReopen (id : Nat)            -- Channel.open() on the same object
  | brokerCloseConn                  -- Connection.Close from the broker
  | die                              -- the transport fails, the reader records it and exits
  | diePartial                       -- … in the middle of an inbound frame (its first bytes stay buffered)
deriving DecidableEq, Repr

def modCh (s : L) (id : Nat) (f : Ch → Ch) : L :=
  { s with chans := s.chans.map fun (i, c) => if i = id then (i, f c) else (i, c) }

/-- one operation; `none`: the history is not one the property talks about (open on a connection that
    is not closed, an operation on an unknown channel …) -/
def step (s : L) : Op → Option L
  | .openC o => if s.state ≠ open_ ∧ s.sock ≠ .live ∧ s.reader ≠ .running then some (openConn s o).1 else none
  | .closeC e => some (closeConn s e).1
  | .channel id =>
    -- a number whose previous channel object is CLOSED may be handed out again (the old object is unregistered)
    if s.state = open_ ∧ ((s.chans.lookup id).all fun c => c.state = closed) then
      some { s with chans := s.chans.filter (fun p => p.1 ≠ id) ++ [(id, chanOpen {})], lastId := some id }
    else none
  | .confirm id => if s.state = open_ then some (modCh s id fun c => if c.state = open_ then { c with confirming := true } else c) else none
  | .deliver id => if s.state = open_ then some (modCh s id fun c => if c.state = open_ then { c with inbound := c.inbound + 1 } else c) else none
  | .chanError id => if s.state = open_ then some (modCh s id fun c => if c.state = open_ then { c with errs := c.errs + 1 } else c) else none
  | .chanClose id => some (modCh s id fun c => { c with state := closed, tags := 0, inbound := 0 })
  | .brokerCloseChan id =>
    if s.state = open_ then some (modCh s id fun c => if c.state = open_ then { c with state := closed, tags := 0, inbound := 0, errs := c.errs + 1 } else c)
    else none
  | .chanReopen id => if s.state = open_ then some (modCh s id fun c => if c.state = closed then chanOpen c else c) else none
  | .brokerCloseConn => if s.state = open_ then some { s with state := closed, errs := s.errs + 1 } else none
  | .die =>
    if s.reader = .running then some { s with errs := s.errs + 1, ioRunning := false, reader := .exited } else none
  | .diePartial =>
    if s.reader = .running then some { s with errs := s.errs + 1, ioRunning := false, reader := .exited, stale := true } else none

def run (s : L) : List Op → Option L
  | [] => some s
  | o :: os => match step s o with
    | none => none
    | some s' => run s' os

end Amqp.Lifecycle
