import Amqp.Base.Guard
import Amqp.Gen.C16
/-
  C16 — executable model of "validate the arguments, then act".

  An operation is the list of its steps in source order (`Gen.C16.ops`, regenerated from the source
  on every run).  `run` executes the steps against an environment that supplies
    * the runtime type (MRO) of every argument,
    * the truth of every state condition the operation reads before acting,
    * the verdict of every non-`isinstance` argument test,
    * the failure, if any, of every effect (broker / connection errors raised from rpc_request,
      write_frame, …).
  The outcome is the exception class that escapes (if any) and the list of effects that were
  started — "nothing was written and no client state changed" is `effects = []`.
  Core Lean only.
-/
namespace Amqp

/-- `isinstance(v, (c₁, …, cₙ))` on the MRO of `type(v)` -/
def isinstance (v : Mro) (cs : List Cls) : Bool := cs.any (fun c => v.contains c)

/-- what a documented class name admits.  `str` is the library's notion of a string
    (`compatibility.is_string`: Python-2 `str` is `bytes`, AMQP short/long strings are octets), so a
    parameter documented `str` admits `str` and `bytes`; every other name admits itself.
    (`bool` for a documented `int` needs no rule: `int` is in the MRO of `bool`.) -/
def widen : Cls → List Cls
  | .str => [.str, .bytes]
  | c => [c]

/-- classes a well-typed argument may be an instance of: the documented ones (widened) and the
    class of the declared default (`arguments=None`, `properties=None`) -/
def accept (p : Param) : List Cls := p.doc.flatMap widen ++ p.dflt.toList

/-- the argument is of a documented type -/
def wellTyped (p : Param) (v : Mro) : Bool := isinstance v (accept p)

structure Env where
  /-- MRO of the runtime type of the argument bound to each parameter -/
  args : String → Mro
  /-- state conditions read before acting (consumer tags present, connection closed, …) -/
  cond : String → Bool
  /-- verdict of the non-isinstance tests (`issubclass(message_impl, BaseMessage)`) -/
  opaqueOk : String → Bool
  /-- the k-th effect raises this error (none = succeeds) -/
  fail : Nat → Option Err

structure Outcome where
  raised : Option Err
  effects : List String
  deriving DecidableEq, Repr

/-- execute the steps; `k` counts the effects started so far -/
def run (e : Env) : List Step → Nat → Outcome
  | [], _ => ⟨none, []⟩
  | .guard p cs :: r, k =>
    if isinstance (e.args p) cs then run e r k else ⟨some .invalidArgument, []⟩
  | .opaqueGuard p :: r, k =>
    if e.opaqueOk p then run e r k else ⟨some .invalidArgument, []⟩
  | .stateRaise err c :: r, k =>
    if e.cond c then ⟨some err, []⟩ else run e r k
  | .effect kind :: r, k =>
    match e.fail k with
    | some err => ⟨some err, [kind]⟩
    | none => let o := run e r (k + 1); ⟨o.raised, kind :: o.effects⟩

def runOp (op : OpSpec) (e : Env) : Outcome := run e op.steps 0

/-! ### decidable well-formedness checks on a step list (evaluated on the generated table) -/

def Step.isGuardLike : Step → Bool
  | .guard .. => true
  | .opaqueGuard .. => true
  | _ => false

/-- a step that can raise AMQPInvalidArgument by itself -/
def Step.mayRaiseInvalid : Step → Bool
  | .guard .. => true
  | .opaqueGuard .. => true
  | .stateRaise err _ => err == .invalidArgument
  | .effect _ => false

/-- `p` has a type guard that rejects every value outside `accept p`, and nothing but argument
    tests precedes it (so neither an effect nor another exception can come first) -/
def coveredIn (p : Param) : List Step → Bool
  | .guard q cs :: r => (q == p.name && cs.all (accept p).contains) || coveredIn p r
  | .opaqueGuard _ :: r => coveredIn p r
  | _ => false

/-- the guard on `q` passes every value of a documented type of the parameter named `q` -/
def guardExact (params : List Param) : Step → Bool
  | .guard q cs => params.any (fun p => p.name == q && !p.doc.isEmpty && (accept p).all cs.contains)
  | _ => true

/-- once an effect has started, no later step can raise AMQPInvalidArgument by itself -/
def guardsFirst : List Step → Bool
  | [] => true
  | .effect _ :: r => r.all (fun s => !s.mayRaiseInvalid)
  | _ :: r => guardsFirst r

/-- no state check raises AMQPInvalidArgument -/
def stateErrsOk (steps : List Step) : Bool :=
  steps.all (fun s => match s with | .stateRaise err _ => err != .invalidArgument | _ => true)

/-- all checks for one operation -/
def opOk (op : OpSpec) : Bool :=
  op.params.all (fun p => !p.transmitted || coveredIn p op.steps) &&
  op.steps.all (guardExact op.params) && guardsFirst op.steps && stateErrsOk op.steps

/-- the connection parameters named by the property statement -/
def connRequired : List String :=
  ["hostname", "port", "username", "password", "virtual_host", "timeout", "heartbeat"]

/-- every required connection parameter is a parameter of `Connection.__init__`, is used by the
    socket/handshake, and is covered -/
def connOk (op : OpSpec) : Bool :=
  connRequired.all (fun n => op.params.any (fun p => p.name == n && p.transmitted && coveredIn p op.steps)) &&
  op.steps.all (guardExact op.params) && guardsFirst op.steps && stateErrsOk op.steps

/-- like `coveredIn`, but state checks may precede the guard (Message.nack/reject test
    `not self._method` first) -/
def coveredModuloState (p : Param) : List Step → Bool
  | .guard q cs :: r => (q == p.name && cs.all (accept p).contains) || coveredModuloState p r
  | .opaqueGuard _ :: r => coveredModuloState p r
  | .stateRaise _ _ :: r => coveredModuloState p r
  | _ => false

def messageOpOk (op : OpSpec) : Bool :=
  op.params.all (fun p => !p.transmitted || coveredModuloState p op.steps) &&
  op.steps.all (guardExact op.params) && guardsFirst op.steps && stateErrsOk op.steps

end Amqp

namespace Amqp

/-! ### MROs of the built-in types (for the driver and the examples) -/
def mroStr : Mro := [.str, .object]
def mroBytes : Mro := [.bytes, .object]
def mroInt : Mro := [.int, .object]
def mroBool : Mro := [.bool, .int, .object]
def mroFloat : Mro := [.float, .object]
def mroNone : Mro := [.noneType, .object]
def mroDict : Mro := [.dict, .object]
def mroList : Mro := [.list, .object]

def findOp (ops : List OpSpec) (name : String) : Option OpSpec := ops.find? (fun o => o.name == name)

/-- an environment in which every parameter of `op` is bound to a value of the class of its
    default (or of its first documented class), nothing is wrong with the state and the broker
    answers -/
def defaultMro (p : Param) : Mro :=
  match p.dflt, p.doc with
  | some .bool, _ => mroBool
  | some c, _ => [c, .object]
  | none, c :: _ => [c, .object]
  | none, [] => [.object]

def defaultEnv (op : OpSpec) : Env :=
  { args := fun n => match op.params.find? (fun p => p.name == n) with
      | some p => defaultMro p
      | none => [.object],
    cond := fun _ => false, opaqueOk := fun _ => true, fail := fun _ => none }

def Env.withArg (e : Env) (n : String) (v : Mro) : Env :=
  { e with args := fun m => if m == n then v else e.args m }

end Amqp
