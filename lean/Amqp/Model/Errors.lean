import Amqp.Model.ChanErr
import Amqp.Gen.ChanErr
import Amqp.Gen.Skel
/-
  C07 model: how broker-reported errors are recorded by the reader thread and raised to callers.
  A connection with any number of channels; the reader's handlers as (sequences of) atomic steps in
  the order of the source (the order is regenerated: `Gen.ChanErr`); every operation of a caller
  starts with / polls `Channel.check_for_errors` (`opCheck`).
-/
namespace Amqp.Errors
open Amqp.ChanErr

structure Chan where
  state : Nat := 3
  errs : List Err := []
  tags : List String := []
  inbound : Nat := 0
deriving DecidableEq, Repr

structure C where
  connState : Nat := 3
  connErrs : List Err := []
  chans : List Chan := []
  closeOkSent : List Nat := []      -- channel indices on which a Channel.CloseOk was written
  connCloseCalls : Nat := 0
deriving DecidableEq, Repr

def view (c : C) (i : Nat) : E :=
  match c.chans[i]? with
  | some ch => { connState := c.connState, connErrs := c.connErrs, chState := ch.state, chErrs := ch.errs,
                 connCloseCalls := c.connCloseCalls }
  | none => { connState := c.connState, connErrs := c.connErrs, chState := closed, chErrs := [],
              connCloseCalls := c.connCloseCalls }

def unview (c : C) (i : Nat) (e : E) : C :=
  { c with connState := e.connState, connErrs := e.connErrs, connCloseCalls := e.connCloseCalls,
           chans := c.chans.modify i (fun ch => { ch with state := e.chState, errs := e.chErrs }) }

/-- what any operation on channel `i` does first (and every wait loop does per iteration):
    `Channel.check_for_errors` -/
def opCheck (c : C) (i : Nat) : Option Err × C :=
  let (r, e) := chanCheck (view c i)
  let c' := unview c i e
  -- a raising connection check calls `Connection.close()`: `_close_remaining_channels` force-closes
  -- every registered channel
  if e.connCloseCalls > c.connCloseCalls then
    (r, { c' with chans := c'.chans.map (fun ch => { ch with state := closed, tags := [], inbound := 0 }) })
  else (r, c')

/-- `Channel._basic_return` -/
def onReturn (c : C) (i : Nat) (code : Nat) : C :=
  { c with chans := c.chans.modify i (fun ch => { ch with errs := ch.errs ++ [.msg code] }) }

/-- `Channel._close_channel` (reader thread, one frame handler):
    CLOSING; CloseOk if the connection is up; drop tags; clear inbound; record the reason; CLOSED -/
def onChannelClose (c : C) (i : Nat) (code : Nat) : C :=
  let sendOk : Bool :=
    if c.connState = closed then false
    else if Gen.ChanErr.closeOkBypassesChannelCheck then true
    else
      -- CloseOk goes through Channel.write_frame, i.e. after Channel.check_for_errors (state CLOSING)
      (chanCheck { (view c i) with chState := Gen.Const.stateClosing }).1.isNone
  { c with
    closeOkSent := if sendOk then c.closeOkSent ++ [i] else c.closeOkSent,
    chans := c.chans.modify i (fun ch =>
      { state := closed, tags := [], inbound := 0,
        errs := if Gen.ChanErr.closeReasonAtFront then .chan (some code) :: ch.errs
                else ch.errs ++ [.chan (some code)] }) }

/-- the two effects of `Channel0._close_connection`, in source order -/
inductive ConnCloseStep | reason | state
deriving DecidableEq, Repr

def connCloseSteps : List ConnCloseStep :=
  if Gen.ChanErr.connReasonBeforeState then [.reason, .state] else [.state, .reason]

def connCloseStep (code : Nat) (c : C) : ConnCloseStep → C
  | .reason => if code ≠ 200 then { c with connErrs := c.connErrs ++ [.conn (some code)] } else c
  | .state => { c with connState := closed }

/-- `_close_connection` executed up to (and including) its k-th effect -/
def onConnClosePrefix (c : C) (code : Nat) (k : Nat) : C :=
  (connCloseSteps.take k).foldl (connCloseStep code) c

def onConnClose (c : C) (code : Nat) : C := onConnClosePrefix c code 2

/-- reply code ↦ error_type as `AMQPError.error_type` reports it -/
def errorType (code : Nat) : Option String := Gen.ChanErr.errorTypes.lookup code

end Amqp.Errors

/-! ## The caller's `Channel.check_for_errors` interleaved with the reader's `_close_channel`

Both are short fixed sequences of atomic effects on the channel's state and error list; a schedule
says whose turn it is.  The order of the caller's reads is taken from the regenerated skeleton. -/
namespace Amqp.Errors
open Amqp.ChanErr

inductive RStep | setClosing | reason | setClosed
deriving DecidableEq, Repr

inductive CStep | readClosed | connCheck | excCheck | closedTest
deriving DecidableEq, Repr

/-- does the source read the channel's closed flag before it consults the connection and the
    channel's error list?  (position of `r:is_closed` in the regenerated skeleton) -/
def stateReadFirst : Bool :=
  Gen.Skel.Channel_check_for_errors.idxOf "r:is_closed" <
    Gen.Skel.Channel_check_for_errors.idxOf "call:_connection.check_for_errors"

def readerSteps : List RStep := [.setClosing, .reason, .setClosed]

def callerSteps : List CStep :=
  if stateReadFirst then [.readClosed, .connCheck, .excCheck, .closedTest]
  else [.connCheck, .excCheck, .readClosed, .closedTest]

/-- errors as far as this race is concerned: the broker's close reason (whatever its code and
    text), or the code-less 'channel closed' that `check_for_errors` makes up itself -/
inductive RErr | reason | codeless
deriving DecidableEq, Repr

structure Race where
  chState : Nat := 3
  chErrs : List RErr := []
  flag : Bool := false                   -- the caller's local copy of `is_closed`
  result : Option (Option RErr) := none  -- some none = returned normally; some (some e) = raised e
deriving DecidableEq, Repr

def rstep (r : Race) : RStep → Race
  | .setClosing => { r with chState := Gen.Const.stateClosing }
  | .reason => { r with chErrs := if Gen.ChanErr.closeReasonAtFront then .reason :: r.chErrs
                                 else r.chErrs ++ [.reason] }
  | .setClosed => { r with chState := closed }

def cstep (r : Race) : CStep → Race
  | .readClosed => if r.result.isSome then r else { r with flag := r.chState = closed }
  | .connCheck => r      -- the connection is healthy in this race
  | .excCheck =>
    if r.result.isSome then r else
    match r.chErrs with
    | [] => r
    | x :: rest => { r with result := some (some x), chErrs := if r.chState = open_ then rest else r.chErrs }
  | .closedTest =>
    if r.result.isSome then r else
    if r.flag then { r with result := some (some .codeless) } else { r with result := some none }

/-- run a schedule: `true` = the reader's next step, `false` = the caller's next step -/
def race : List Bool → List RStep → List CStep → Race → Race
  | [], _, _, r => r
  | true :: s, x :: rs, cs, r => race s rs cs (rstep r x)
  | false :: s, rs, y :: cs, r => race s rs cs (cstep r y)
  | _ :: s, rs, cs, r => race s rs cs r

def allBools : Nat → List (List Bool)
  | 0 => [[]]
  | n + 1 => (allBools n).flatMap fun l => [true :: l, false :: l]

/-- all interleavings of n reader steps with m caller steps -/
def merges (n m : Nat) : List (List Bool) := (allBools (n + m)).filter (fun l => l.count true = n)

end Amqp.Errors
