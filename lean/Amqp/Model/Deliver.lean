import Amqp.Gen.Loops
/-
  C03 model: from the frames that arrive on one channel to the messages handed to the application.

  Part 1 (`route`): `Channel.on_frame` — which frames end up in the delivery queue `_inbound`
           (returned-message content is skipped, registered RPC names are claimed by the RPC layer,
           Basic.Deliver / ContentHeader / ContentBody are queued, everything else is handled in place).
  Part 2 (`step`): the reader appends to `_inbound`, the single consuming thread runs
           `_build_message` / `_build_message_headers` / `_build_message_body` as small steps, in any
           interleaving.
-/
namespace Amqp.Deliver

/-- content frames as the delivery queue sees them -/
inductive CF
  | deliver (mid : Nat)                 -- Basic.Deliver (consumer tag, delivery tag, … abstracted as an id)
  | header (size : Nat) (props : Nat)    -- ContentHeader
  | body (b : List UInt8)                -- ContentBody
deriving DecidableEq, Repr

structure Msg where
  mid : Nat
  props : Nat
  body : List UInt8
deriving DecidableEq, Repr

/-- one delivery as the broker sends it: the body split into `pieces` -/
structure Delivery where
  mid : Nat
  props : Nat
  pieces : List (List UInt8)
deriving DecidableEq, Repr

def Delivery.body (d : Delivery) : List UInt8 := d.pieces.flatten
def Delivery.frames (d : Delivery) : List CF :=
  .deliver d.mid :: .header d.body.length d.props :: d.pieces.map CF.body
def Delivery.msg (d : Delivery) : Msg := ⟨d.mid, d.props, d.body⟩
/-- the broker never sends an empty body frame -/
def Delivery.WF (d : Delivery) : Prop := ∀ p ∈ d.pieces, p ≠ []

/-! ## Part 1: routing of one channel's inbound frames -/

/-- what arrives on the channel, as units (content of one message is contiguous on a channel) -/
inductive Item
  | delivery (d : Delivery)
  | returned (code : Nat) (d : Delivery)   -- Basic.Return + header + bodies of the returned message
  | reply (name : String)                  -- a method frame claimed by a pending RPC (DeclareOk, Basic.Ack, …)
  | other (name : String)                  -- Basic.Cancel, Channel.Flow, … handled in place
deriving DecidableEq, Repr

inductive Frame
  | content (f : CF)
  | ret (code : Nat)
  | method (name : String) (registered : Bool)   -- registered = its name is in the RPC table right now
deriving DecidableEq, Repr

def Item.frames : Item → List Frame
  | .delivery d => d.frames.map Frame.content
  | .returned c d => .ret c :: (d.frames.drop 1).map Frame.content
  | .reply n => [.method n true]
  | .other n => [.method n false]

structure RouteSt where
  returnedLeft : Option Int := none    -- `_returned_content_left`: none | -1 (header expected) | bytes left
  inbound : List CF := []              -- what was appended to `_inbound`, in order
  errors : List Nat := []              -- AMQPMessageError codes queued
  claimed : List String := []          -- method frames taken by the RPC layer
  handled : List String := []          -- method frames handled in place
deriving DecidableEq, Repr

/-- `Channel.on_frame` for one frame (content names are never registered here: no `basic.get` runs on
    a consuming channel — its consumer guard; C05/C15) -/
def onFrame (s : RouteSt) (f : Frame) : RouteSt :=
  -- `_skip_returned_content`
  let skip : Option RouteSt :=
    match s.returnedLeft, f with
    | some l, .content (.header n _) => if l = -1 then some { s with returnedLeft := if n = 0 then none else some n } else none
    | some l, .content (.body b) =>
      if l > 0 then some { s with returnedLeft := if l - b.length > 0 then some (l - b.length) else none } else none
    | _, _ => none
  match skip with
  | some s' => s'
  | none =>
    let s := { s with returnedLeft := none }
    match f with
    | .content c => { s with inbound := s.inbound ++ [c] }
    | .ret code => { s with errors := s.errors ++ [code], returnedLeft := some (-1) }
    | .method n true => { s with claimed := s.claimed ++ [n] }
    | .method n false => { s with handled := s.handled ++ [n] }

def routeAll (us : List Item) : RouteSt := (us.flatMap Item.frames).foldl onFrame {}

def deliveriesOf : List Item → List Delivery
  | [] => []
  | .delivery d :: us => d :: deliveriesOf us
  | _ :: us => deliveriesOf us

/-! ## Part 2: reader vs consuming thread on `_inbound` -/

inductive Phase
  | idle
  | body (mid size props : Nat) (acc : List UInt8)   -- inside `_build_message_body`
deriving DecidableEq, Repr

structure S where
  inbound : List CF := []
  future : List CF := []        -- frames the reader has not appended yet (ghost: the rest of the stream)
  phase : Phase := .idle
  out : List Msg := []          -- messages handed to the application, in order
  dropped : Nat := 0            -- pairs discarded by `_build_message_headers` (out-of-order frames)
deriving DecidableEq, Repr

inductive Act
  | append       -- reader: `_inbound.append(frame)`
  | start        -- consumer: `_build_message` when at least two frames are queued
  | piece        -- consumer: one iteration of the `_build_message_body` loop with a frame available
  | finish       -- consumer: the body loop ends (size reached), the message is built
deriving DecidableEq, Repr

def stepN (need : Nat) (s : S) : Act → Option S
  | .append =>
    match s.future with
    | f :: rest => some { s with inbound := s.inbound ++ [f], future := rest }
    | [] => none
  | .start =>
    -- `_build_message`: nothing happens while fewer than `buildStartNeeds` frames are queued (regenerated guard)
    if s.inbound.length < need then none
    else
    match s.phase, s.inbound with
    | .idle, a :: b :: rest =>
      -- `_build_message_headers`: pop two, check their types
      match a, b with
      | .deliver m, .header n p => some { s with inbound := rest, phase := .body m n p [] }
      | _, _ => some { s with inbound := rest, dropped := s.dropped + 1 }
    | .idle, [_] =>
      -- only with a weaker guard: the first `popleft` succeeds, the second raises IndexError, which
      -- `_build_message` swallows - the frame that was popped is gone
      some { s with inbound := [], dropped := s.dropped + 1 }
    | _, _ => none
  | .piece =>
    match s.phase, s.inbound with
    | .body m n p acc, f :: rest =>
      if Gen.Loops.buildBodyContinues acc.length n then
        match f with
        | .body b => if b.isEmpty then none else some { s with inbound := rest, phase := .body m n p (acc ++ b) }
        | _ => none     -- `body_piece.value` on a non-body frame: AttributeError (unreachable: see `Inv`)
      else none
    | _, _ => none
  | .finish =>
    match s.phase with
    | .body m n p acc =>
      if Gen.Loops.buildBodyContinues acc.length n then none
      else some { s with phase := .idle, out := s.out ++ [⟨m, p, acc⟩] }
    | .idle => none

/-- the code as it is -/
def step (s : S) (a : Act) : Option S := stepN Gen.Loops.buildStartNeeds s a

def runN (need : Nat) (s : S) : List Act → Option S
  | [] => some s
  | a :: as => match stepN need s a with
    | none => none
    | some s' => runN need s' as

def run (s : S) : List Act → Option S
  | [] => some s
  | a :: as => match step s a with
    | none => none
    | some s' => run s' as

/-- frames already taken off the queue for the message in progress -/
def poppedSize (s : S) : Nat := match s.phase with | .idle => 0 | .body _ _ _ acc => acc.length

end Amqp.Deliver
