import Amqp.Base.Bytes
import Amqp.Base.Mgmt
import Amqp.Gen.Mgmt
/-
  C19 model: how a Management API call becomes an HTTP request, and how the HTTP outcome becomes a
  return value or an exception.

  * which template, which arguments, quoted or not, which verb, which payload keys: the table
    `Gen.Mgmt.ops`, regenerated from `amqpstorm/management/*.py` on every run;
  * `quote` = `urllib.parse.quote(s, safe)`, `fill` = Python's `template % args` for `%s`,
    `urljoinPath` = the path computation of `urllib.parse.urljoin` (base directory + relative path,
    `segments[1:-1] = filter(None, …)`, dot-segment loop), all re-implemented here for the fragment
    used and tied to CPython/requests by the correspondence run;
  * `request` = `HTTPClient._request` / `_get_json_output` / `_check_for_errors`.

  Text is `List Char` (Python `str` without lone surrogates).  Core Lean only.
-/
namespace Amqp.Mgmt

abbrev Text := List Char

/-- `str.encode('utf-8')` -/
def utf8 (s : Text) : Bytes := s.flatMap String.utf8EncodeChar

/-! ## urllib.parse.quote -/

/-- `_ALWAYS_SAFE`: ASCII letters, digits and `_.-~` -/
def unreserved (b : UInt8) : Bool :=
  (65 ≤ b && b ≤ 90) || (97 ≤ b && b ≤ 122) || (48 ≤ b && b ≤ 57) ||
  b == 95 || b == 46 || b == 45 || b == 126

/-- upper-case hex digit, as `'%{:02X}'.format` -/
def hexU (n : Nat) : Char := if n < 10 then Char.ofNat (48 + n) else Char.ofNat (55 + n)

def quoteByte (safe : Bytes) (b : UInt8) : Text :=
  if unreserved b || safe.contains b then [Char.ofNat b.toNat]
  else ['%', hexU (b.toNat / 16), hexU (b.toNat % 16)]

/-- the `safe` argument: `safe.encode('ascii', 'ignore')` -/
def safeBytes (safe : String) : Bytes := (utf8 safe.toList).filter (· < 128)

/-- `quote(s, safe)`: UTF-8 encode, keep always-safe and `safe` bytes, `%XX` the rest -/
def quoteBytes (safe : Bytes) (bs : Bytes) : Text := bs.flatMap (quoteByte safe)

def quote (safe : String) (s : Text) : Text := quoteBytes (safeBytes safe) (utf8 s)

/-- RFC 3986 percent-decoding of one path segment (what the server does with it).  `none` for a
    malformed escape or a non-ASCII character. -/
def pctDecode : Text → Option Bytes
  | [] => some []
  | c :: rest =>
    if c = '%' then
      match rest with
      | a :: b :: rest' =>
        match hexVal a, hexVal b, pctDecode rest' with
        | some x, some y, some r => some (UInt8.ofNat (x * 16 + y) :: r)
        | _, _, _ => none
      | _ => none
    else if c.toNat < 128 then (pctDecode rest).map (UInt8.ofNat c.toNat :: ·)
    else none

/-! ## `template % args` -/

/-- Python `%`-formatting of a template whose only conversions are `%s`, with `str` operands.
    `none` = `TypeError` (too few / too many operands) or a conversion no template uses. -/
def fill : Text → List Text → Option Text
  | [], vs => if vs.isEmpty then some [] else none
  | c :: rest, vs =>
    if c = '%' then
      match rest, vs with
      | 's' :: rest', v :: vs' => (fill rest' vs').map (v ++ ·)
      | _, _ => none
    else (fill rest vs).map (c :: ·)

/-! ## argument values -/

/-- parameter values of one call: `str` parameters by name; a missing entry is `None` -/
abbrev Env := List (String × Text)

def lookup (env : Env) (p : String) : Option Text := (env.find? (·.1 = p)).map (·.2)

/-- `a or b or …` over `str`/`None` parameters: the first truthy operand, else the last one -/
def pyOrChain (env : Env) : List String → Option Text
  | [] => none
  | [p] => lookup env p
  | p :: ps =>
    match lookup env p with
    | some v => if v.isEmpty then pyOrChain env ps else some v
    | none => pyOrChain env ps

inductive CallErr
  | typeError     -- Python raises TypeError before any request is made
  | unmodelled    -- outside the fragment of urljoin/requests that is modelled
deriving DecidableEq, Repr

/-- the text one `%s` receives -/
def argText (env : Env) (a : Arg) : Except CallErr Text :=
  match a.enc, pyOrChain env a.alts with
  | some safe, some v => .ok (quote safe v)
  | some _, none => .error .typeError            -- quote(None, …)
  | none, some v => .ok v                        -- '%s' % name
  | none, none => .ok "None".toList              -- '%s' % None

def argTexts (env : Env) : List Arg → Except CallErr (List Text)
  | [] => .ok []
  | a :: as =>
    match argText env a, argTexts env as with
    | .ok t, .ok ts => .ok (t :: ts)
    | .error e, _ => .error e
    | _, .error e => .error e

/-- the `path` handed to `HTTPClient.<verb>` -/
def path (e : Endpoint) (env : Env) : Except CallErr Text :=
  match argTexts env e.args with
  | .error err => .error err
  | .ok vals =>
    match fill e.template.toList vals with
    | some p => .ok p
    | none => .error .typeError

/-! ## urljoin -/

/-- `str.split(sep)` -/
def splitOn (sep : Char) : Text → List Text
  | [] => [[]]
  | c :: cs =>
    if c = sep then [] :: splitOn sep cs
    else match splitOn sep cs with
      | [] => [[c]]
      | s :: ss => (c :: s) :: ss

/-- `sep.join(segs)` -/
def joinWith (sep : Char) : List Text → Text
  | [] => []
  | [a] => a
  | a :: rest => a ++ sep :: joinWith sep rest

def filterButLast : List Text → List Text
  | [] => []
  | [z] => [z]
  | x :: xs => if x = [] then filterButLast xs else x :: filterButLast xs

/-- `segments[1:-1] = filter(None, segments[1:-1])` -/
def filterMiddle : List Text → List Text
  | [] => []
  | a :: rest => a :: filterButLast rest

/-- one iteration of urljoin's `for seg in segments` loop -/
def dotStep (acc : List Text) (seg : Text) : List Text :=
  if seg = ['.', '.'] then acc.dropLast
  else if seg = ['.'] then acc
  else acc ++ [seg]

def isDot (seg : Text) : Bool := seg = ['.'] || seg = ['.', '.']

/-- the path of `urljoin(base, rel)` for a base with a network location whose path is `bpath`, and
    a relative reference `rel` that is a pure relative path (no scheme, `//`, `?`, `#`, `;`, and
    not starting with `/`) -/
def baseParts (bpath : Text) : List Text :=
  let bp := splitOn '/' bpath
  if bp.getLast? = some [] then bp else bp.dropLast

def urljoinPath (bpath rel : Text) : Text :=
  let bp := baseParts bpath
  let segs := filterMiddle (bp ++ splitOn '/' rel)
  let res := segs.foldl dotStep []
  let res := if (segs.getLast?.map isDot).getD false then res ++ [[]] else res
  let p := joinWith '/' res
  let p := if p.isEmpty then ['/'] else p
  if p.head? = some '/' then p else '/' :: p

/-- characters that a quoted name or a literal template can contribute; `requests` leaves them alone -/
def pathChar (c : Char) : Bool :=
  ('a' ≤ c && c ≤ 'z') || ('A' ≤ c && c ≤ 'Z') || ('0' ≤ c && c ≤ '9') ||
  c = '-' || c = '.' || c = '_' || c = '~' || c = '%' || c = '/'

def upperHex (c : Char) : Bool := ('0' ≤ c && c ≤ '9') || ('A' ≤ c && c ≤ 'F')

/-- every `%` starts an upper-case escape of a byte that is not an always-safe character (so that
    neither `requests.utils.requote_uri` nor urllib3's normalisation rewrites it) -/
def wellEscaped : Text → Bool
  | [] => true
  | c :: rest =>
    if c = '%' then
      match rest with
      | a :: b :: rest' =>
        upperHex a && upperHex b &&
          (match hexVal a, hexVal b with
           | some x, some y => !unreserved (UInt8.ofNat (x * 16 + y))
           | _, _ => false) && wellEscaped rest'
      | _ => false
    else wellEscaped rest

/-- an API base URL as the harness supplies it: `origin` = `scheme://host[:port]` in canonical
    (lower-case) form, `bpath` = its path -/
structure Base where
  origin : Text
  bpath : Text

def baseChar (c : Char) : Bool :=
  ('a' ≤ c && c ≤ 'z') || ('A' ≤ c && c ≤ 'Z') || ('0' ≤ c && c ≤ '9') ||
  c = '-' || c = '.' || c = '_' || c = '~' || c = '/'

def Base.ok (b : Base) : Bool :=
  (b.bpath.isEmpty || b.bpath.head? = some '/') && b.bpath.all baseChar &&
  !(b.bpath.head? = some '/' && (b.bpath.drop 1).head? = some '/')

/-- the URL of the prepared request: `urljoin(base, 'api/' + path)`, which `requests` then leaves
    unchanged on this fragment -/
def url (base : Base) (e : Endpoint) (env : Env) : Except CallErr Text :=
  match path e env with
  | .error err => .error err
  | .ok p =>
    let rel := Gen.Mgmt.pathPrefix.toList ++ p
    if base.ok && rel.all pathChar && wellEscaped rel && rel.head? ≠ some '/' then
      .ok (base.origin ++ urljoinPath base.bpath rel)
    else .error .unmodelled

/-- the HTTP method on the wire -/
def httpMethod (e : Endpoint) : Option String :=
  if e.verb = "get" ∨ e.verb = "list" then some "GET"
  else if e.verb = "put" then some "PUT"
  else if e.verb = "post" then some "POST"
  else if e.verb = "delete" then some "DELETE"
  else none

/-! ## outcome of `HTTPClient._request` -/

/-- what came back in the response body, as far as the client looks at it -/
inductive Body
  | notJson                 -- empty or unparsable: `response.json()` raises ValueError
  | jsonNull                -- the JSON value `null`
  | errorObject             -- a JSON object with an "error" member
  | object                  -- any other JSON object
  | other                   -- a JSON array, string, number or boolean
deriving DecidableEq, Repr

inductive Transport
  | failed                              -- `session.request` raised a `requests.RequestException`
  | response (status : Nat) (body : Body)
deriving DecidableEq, Repr

/-- value returned to the caller -/
inductive Ret
  | none | object | other
deriving DecidableEq, Repr

inductive Outcome
  | returned (v : Ret)
  | apiError (status : Nat)
  | apiConnectionError
  | escaped (cls : String)              -- any other exception
deriving DecidableEq, Repr

/-- `requests.Response.raise_for_status` -/
def raisesForStatus (status : Nat) : Bool := 400 ≤ status && status < 600

/-- `HTTPClient._request` after the request has been sent -/
def request : Transport → Outcome
  | .failed => .apiConnectionError
  | .response status body =>
    if raisesForStatus status then .apiError status
    else match body with
      | .errorObject => .apiError status
      | .notJson => .returned .none
      | .jsonNull => .returned .none
      | .object => .returned .object
      | .other => .returned .other

/-- What a public method does with the client's result.  `plain`: returned as it is.
    `iterates`: `for x in result` (Basic.get building Message objects, ManagementApi.top,
    and HTTPClient.list indexing the first page when `page_size` is given). -/
inductive PostKind | plain | iterates
deriving DecidableEq, Repr

def postKind (e : Endpoint) (paginated : Bool) : PostKind :=
  if e.post ≠ "" then .iterates
  else if e.verb = "list" ∧ paginated then .iterates
  else .plain

/-- outcome of the public method for one HTTP exchange.  `iterates` over `None` raises TypeError;
    over JSON of another shape than the documented one the result depends on the contents and is
    not modelled (`documented` says that the body has the documented shape). -/
def callOutcome (k : PostKind) (documented : Bool) (t : Transport) : Option Outcome :=
  match k, request t with
  | .plain, o => some o
  | .iterates, .returned .none => some (.escaped "TypeError")
  | .iterates, .returned v => if documented then some (.returned v) else none
  | .iterates, o => some o

def findOp (op guard : String) : Option Endpoint :=
  Gen.Mgmt.ops.find? (fun e => e.op = op ∧ e.guard = guard)

end Amqp.Mgmt
