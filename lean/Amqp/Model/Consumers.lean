import Amqp.Gen.Close
/-
  C14 model: the client's consumer bookkeeping (`BaseChannel._consumer_tags`,
  `Channel._consumer_callbacks`) against the broker's consumer table, with any number of
  application threads (consume / cancel under `channel.lock`, `stop_consuming`), the reader
  (broker-initiated Basic.Cancel) and the consuming thread (dispatch by tag).
-/
namespace Amqp.Consumers

inductive Cur
  | consuming (tid : Nat) (tag : String) (cb : Nat) (phase : Nat)   -- 2 = ConsumeOk received, 3 = tag recorded
  | cancelling (tid : Nat) (tag : String)                            -- CancelOk received, tag not yet dropped
deriving DecidableEq, Repr

structure S where
  broker : List String := []          -- the broker's consumer table for this channel
  tags : List String := []            -- `channel.consumer_tags`
  callbacks : List (String × Nat) := []   -- `_consumer_callbacks` (newest binding first)
  lock : Option Nat := none           -- holder of `channel.lock`
  cur : Option Cur := none            -- the lock holder's operation in progress
  inflight : List String := []        -- Basic.Cancel frames from the broker not yet processed by the reader
  used : List String := []            -- ghost: every tag the broker ever confirmed
  dispatched : List (String × Option Nat) := []   -- ghost: (tag, callback found) per delivery; none = KeyError
  cancelsSeen : List String := []     -- ghost: Basic.Cancel frames the broker received from the client
deriving DecidableEq, Repr

/-- is a `consume()` for `tag` between the broker's confirmation and recording the tag? -/
def isAdding (cur : Option Cur) (tag : String) : Bool :=
  match cur with
  | some (.consuming _ x _ 2) => x == tag
  | _ => false

inductive Act
  | acquire (t : Nat)
  | consumeRpc (t : Nat) (tag : String) (cb : Nat)   -- Basic.Consume → ConsumeOk(tag) (tag chosen by client or broker)
  | consumeAdd (t : Nat)                             -- `_consume_add_and_get_tag`
  | consumeStore (t : Nat)                           -- `_consumer_callbacks[tag] = callback`
  | cancelRpc (t : Nat) (tag : String)               -- Basic.Cancel → CancelOk
  | cancelRemove (t : Nat)                           -- `remove_consumer_tag(tag)`
  | release (t : Nat)
  | brokerCancel (tag : String)                      -- broker cancels a consumer (queue deleted, …)
  | readerCancel                                     -- reader: `_basic_cancel`
  | dispatch (tag : String)                          -- consuming thread: `_consumer_callbacks[tag](message)`
deriving DecidableEq, Repr

def step (s : S) : Act → Option S
  | .acquire t => if s.lock = none then some { s with lock := some t } else none
  | .consumeRpc t tag cb =>
    if s.lock = some t ∧ s.cur = none ∧ tag ∉ s.used then
      some { s with broker := s.broker ++ [tag], used := s.used ++ [tag], cur := some (.consuming t tag cb 2) }
    else none
  | .consumeAdd t =>
    match s.cur with
    | some (.consuming t' tag cb 2) =>
      if t' = t then some { s with tags := if tag ∈ s.tags then s.tags else s.tags ++ [tag],
                                   cur := some (.consuming t tag cb 3) } else none
    | _ => none
  | .consumeStore t =>
    match s.cur with
    | some (.consuming t' tag cb 3) =>
      if t' = t then some { s with callbacks := (tag, cb) :: s.callbacks, cur := none } else none
    | _ => none
  | .cancelRpc t tag =>
    if s.lock = some t ∧ s.cur = none then
      some { s with broker := s.broker.filter (· ≠ tag), cancelsSeen := s.cancelsSeen ++ [tag],
                    cur := some (.cancelling t tag) }
    else none
  | .cancelRemove t =>
    match s.cur with
    | some (.cancelling t' tag) =>
      if t' = t then some { s with tags := s.tags.filter (· ≠ tag), cur := none } else none
    | _ => none
  | .release t => if s.lock = some t ∧ s.cur = none then some { s with lock := none } else none
  | .brokerCancel tag =>
    -- assumption: the broker does not cancel a consumer before the `consume()` call that created it
    -- has recorded the tag (see Props/C14 `early_broker_cancel_loses_track`)
    if tag ∈ s.broker ∧ isAdding s.cur tag = false then some { s with broker := s.broker.filter (· ≠ tag), inflight := s.inflight ++ [tag] } else none
  | .readerCancel =>
    match s.inflight with
    | x :: rest => some { s with inflight := rest, tags := s.tags.filter (· ≠ x) }
    | [] => none
  | .dispatch tag =>
    -- `process_data_events`: if the tag has no callback yet and the source waits for the channel lock,
    -- the look-up happens only once the lock is free (the thread is blocked meanwhile)
    if Gen.Close.dispatchWaitsForLock ∧ (s.callbacks.lookup tag).isNone ∧ s.lock.isSome then none
    else some { s with dispatched := s.dispatched ++ [(tag, s.callbacks.lookup tag)] }

def run (s : S) : List Act → Option S
  | [] => some s
  | a :: as => match step s a with
    | none => none
    | some s' => run s' as

/-- the consumer whose `consume()` has the broker's confirmation but has not recorded the tag yet -/
def adding (s : S) (x : String) : Prop := ∃ t cb, s.cur = some (.consuming t x cb 2)
/-- the consumer whose `cancel()` has the broker's confirmation but has not dropped the tag yet -/
def removing (s : S) (x : String) : Prop := ∃ t, s.cur = some (.cancelling t x)

theorem isAdding_false (cur : Option Cur) (tag : String) (h : isAdding cur tag = false) :
    ∀ t cb, cur ≠ some (.consuming t tag cb 2) := by
  intro t cb hc
  subst hc
  simp [isAdding] at h

end Amqp.Consumers
