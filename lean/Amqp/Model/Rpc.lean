import Amqp.Base.Dict
/-
  C05 / C13 / C15 model: the per-channel RPC correlation table (`amqpstorm/rpc.py`) and the callers,
  reader and broker around it.

  Part 1 mirrors the methods of `Rpc` as pure functions on the two dicts.
  Part 2 is a transition system: any number of caller threads (rpc_request / basic.get /
  confirm-publish all follow register → write → take* → remove under `rpc.lock`), the reader thread
  dispatching frames in arrival order, and a broker that answers the oldest outstanding request and
  may emit unsolicited frames at any time.
-/
namespace Amqp.Rpc
open Amqp

/-- an inbound frame as the correlation layer sees it: its `name`; `tag` identifies what it belongs
    to (the request it answers / the unsolicited sequence number); `reply` is ghost (broker's intent) -/
structure Frm where
  name : String
  tag : Nat
  reply : Bool
  size : Nat := 0          -- ContentHeader: announced body size
  data : List UInt8 := []  -- ContentBody: payload; method frames: an opaque rendering of their fields
deriving DecidableEq, Repr

structure T where
  request : List (String × Nat) := []       -- `_request`: frame name ↦ uuid
  response : List (Nat × List Frm) := []    -- `_response`: uuid ↦ frames received so far
  nextUid : Nat := 0                        -- stands for uuid4(): fresh on every call
deriving DecidableEq, Repr

/-- `Rpc.on_frame`: `(true, _)` = consumed as a reply; `(false, _)` = falls through -/
def onFrame (t : T) (f : Frm) : Bool × T :=
  match Dict.get t.request f.name with
  | none => (false, t)
  | some uid =>
    match Dict.get t.response uid with
    | none => (true, t)        -- KeyError in the real code (never reachable: see `Inv`)
    | some fs => (true, { t with response := Dict.set t.response uid (fs ++ [f]) })

/-- `Rpc.register_request` -/
def registerRequest (t : T) (names : List String) : Nat × T :=
  let uid := t.nextUid
  (uid, { request := names.foldl (fun r n => Dict.set r n uid) t.request,
          response := Dict.set t.response uid [],
          nextUid := uid + 1 })

/-- `Rpc.remove` = `remove_request` + `remove_response` -/
def remove (t : T) (uid : Nat) : T :=
  { t with request := t.request.filter (fun p => p.2 ≠ uid), response := Dict.del t.response uid }

/-- `_get_response_frame`: pop the first frame of `uid` if any -/
def popResponse (t : T) (uid : Nat) : Option Frm × T :=
  match Dict.get t.response uid with
  | some (f :: fs) => (some f, { t with response := Dict.set t.response uid fs })
  | _ => (none, t)

/-- `_wait_for_request`'s loop test `not self._response[uuid]` -/
def ready (t : T) (uid : Nat) : Bool :=
  match Dict.get t.response uid with
  | some (_ :: _) => true
  | _ => false

/-! ## Transition system -/

structure Caller where
  tid : Nat
  uid : Nat
  reqId : Nat
  names : List String
  sent : Bool
deriving Repr

structure S where
  t : T := {}
  lock : Option Nat := none                  -- holder of `rpc.lock`
  cur : Option Caller := none                -- the holder's registration
  handled : List Frm := []                   -- frames that fell through to normal channel handling
  pending : List (Nat × List String) := []   -- broker: requests received and not yet answered (FIFO)
  inflight : List Frm := []                  -- broker → client, not yet dispatched by the reader
  nextReq : Nat := 0
  unsol : List Frm := []                     -- ghost: every unsolicited frame emitted, in order
  taken : List (Nat × Frm) := []             -- ghost: (request id of the taker, frame taken)
deriving Repr

inductive Act
  | acquire (tid : Nat)
  | register (tid : Nat) (names : List String)
  | send (tid : Nat)                 -- the request frame reaches the broker
  | take (tid : Nat)                 -- wait loop sees a frame; `_get_response_frame` pops it
  | remove (tid : Nat)               -- `Rpc.remove(uuid)`
  | release (tid : Nat)
  | reply (fs : List Frm)            -- broker answers the oldest outstanding request
  | unsolicited (f : Frm)            -- broker emits a frame nobody asked for
  | dispatch                         -- reader: `Channel.on_frame` on the next inbound frame
deriving Repr

def hasReply (fs : List Frm) : Bool := fs.any (·.reply)

def step (s : S) : Act → Option S
  | .acquire tid => if s.lock = none then some { s with lock := some tid } else none
  | .register tid names =>
    if s.lock = some tid ∧ s.cur.isNone ∧ names ≠ [] then
      let (uid, t') := registerRequest s.t names
      some { s with t := t', cur := some ⟨tid, uid, s.nextReq, names, false⟩, nextReq := s.nextReq + 1 }
    else none
  | .send tid =>
    match s.cur with
    | some c => if c.tid = tid ∧ ¬ c.sent then
        some { s with cur := some { c with sent := true }, pending := s.pending ++ [(c.reqId, c.names)] }
      else none
    | none => none
  | .take tid =>
    match s.cur with
    | some c => if c.tid = tid ∧ c.sent then
        match popResponse s.t c.uid with
        | (some f, t') => some { s with t := t', taken := s.taken ++ [(c.reqId, f)] }
        | (none, _) => none
      else none
    | none => none
  | .remove tid =>
    match s.cur with
    | some c =>
      -- the caller removes its registration once it has consumed the whole reply
      -- (or before it was sent: the write raised an error that was pending on the channel)
      if c.tid = tid ∧ (¬ c.sent ∨ (s.pending = [] ∧ ¬ hasReply s.inflight ∧ ¬ ready s.t c.uid)) then
        some { s with t := remove s.t c.uid, cur := none }
      else none
    | none => none
  | .release tid => if s.lock = some tid ∧ s.cur.isNone then some { s with lock := none } else none
  | .reply fs =>
    match s.pending with
    | (rid, names) :: rest =>
      if fs ≠ [] ∧ fs.all (fun f => f.reply ∧ f.tag = rid ∧ f.name ∈ names) then
        some { s with pending := rest, inflight := s.inflight ++ fs }
      else none
    | [] => none
  | .unsolicited f =>
    if ¬ f.reply then some { s with inflight := s.inflight ++ [f], unsol := s.unsol ++ [f] } else none
  | .dispatch =>
    match s.inflight with
    | f :: rest =>
      let (consumed, t') := onFrame s.t f
      some { s with t := t', inflight := rest, handled := if consumed then s.handled else s.handled ++ [f] }
    | [] => none

def run (s : S) : List Act → Option S
  | [] => some s
  | a :: as => match step s a with
    | none => none
    | some s' => run s' as

def init : S := {}

end Amqp.Rpc
