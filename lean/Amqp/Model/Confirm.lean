import Amqp.Model.Rpc
import Amqp.Model.ChanErr
import Amqp.Gen.RpcWait
import Amqp.Gen.ChanErr
/-
  C13 model: `Basic._publish_confirm` on a channel in confirm mode, as a function of what the reader
  dispatches while the publisher waits (it holds `rpc.lock` for the whole call).
-/
namespace Amqp.Confirm
open Amqp Amqp.Rpc Amqp.ChanErr

/-- what the reader thread processes on this channel while the publisher waits -/
inductive Ev
  | ack (seq : Nat)             -- Basic.Ack
  | nack (seq : Nat)            -- Basic.Nack
  | ret (code : Nat)            -- Basic.Return (`_basic_return`: queue AMQPMessageError)
  | chanClose (code : Nat)      -- Channel.Close from the broker (`_close_channel`)
  | connClose (code : Nat)      -- Connection.Close from the broker (`_close_connection`)
  | connLost                    -- transport failure recorded by the IO layer
deriving DecidableEq, Repr

inductive Outcome
  | returned (ok : Bool) (seq : Nat)   -- publish returned True/False; `seq` = delivery tag of the frame it consumed
  | raised (e : Err)
  | timeout
deriving DecidableEq, Repr

structure St where
  t : T := {}
  e : E := {}
deriving DecidableEq, Repr

def confirmNames : List String := ["Basic.Ack", "Basic.Nack"]

/-- the reader handles one event -/
def dispatch (s : St) : Ev → St
  | .ack q => { s with t := (onFrame s.t { name := "Basic.Ack", tag := q, reply := true }).2 }
  | .nack q => { s with t := (onFrame s.t { name := "Basic.Nack", tag := q, reply := true }).2 }
  | .ret c => { s with e := { s.e with chErrs := s.e.chErrs ++ [.msg c] } }
  | .chanClose c =>
    -- `_close_channel`: …, record the reason, CLOSED.  Where the reason goes is regenerated (C07).
    { s with e := { s.e with chErrs := (if Gen.ChanErr.closeReasonAtFront then .chan (some c) :: s.e.chErrs
                                        else s.e.chErrs ++ [.chan (some c)]), chState := closed } }
  | .connClose c =>
    { s with e := { s.e with connErrs := s.e.connErrs ++ (if c = 200 then [] else [.conn (some c)]), connState := closed } }
  | .connLost => { s with e := { s.e with connErrs := s.e.connErrs ++ [.conn none] } }

/-- one iteration's `connection_adapter.check_for_errors()` inside `Rpc._wait_for_request`,
    including the handling of a queued AMQPMessageError (regenerated from the source) -/
def waitCheck (e : E) : Option Err × E :=
  match chanCheck e with
  | (some (.msg c), e') =>
    if Gen.RpcWait.defersMessageError then
      if Gen.RpcWait.deferralRequiresOpen && e'.chState ≠ open_ then (some (.msg c), e')
      else (none, if Gen.RpcWait.keepsDeferredError then { e' with chErrs := .msg c :: e'.chErrs } else e')
    else (some (.msg c), e')
  | r => r

/-- `get_request(uuid, raw=True)`: wait until a frame is there, pop it.  `sched` is the schedule of
    the reader relative to the waiting publisher: the i-th batch is what the reader processes
    between the publisher's i-th and (i+1)-th loop iteration (any batching = any interleaving at
    iteration granularity).  `inl (some e)` = the wait raised e; batches run out = RPC time-out. -/
def waitTake (uid : Nat) : (sched : List (List Ev)) → St → (Option Err ⊕ Frm) × St × List (List Ev)
  | sched, s =>
    if ready s.t uid then
      match popResponse s.t uid with
      | (some f, t') => (.inr f, { s with t := t' }, sched)
      | (none, t') => (.inl none, { s with t := t' }, sched)
    else
      match waitCheck s.e with
      | (some err, e') => (.inl (some err), { s with e := e' }, sched)
      | (none, e') =>
        match sched with
        | [] => (.inl none, { s with e := e' }, [])
        | batch :: rest => waitTake uid rest (batch.foldl dispatch { s with e := e' })

/-- `_publish_confirm(frames_out, mandatory)` -/
def publishConfirm (mandatory : Bool) (s : St) (evs : List (List Ev)) : Outcome × St × List (List Ev) :=
  let (uid, t1) := registerRequest s.t confirmNames
  -- `write_frames` → `check_for_errors` first (an error pending at entry raises before anything is sent)
  match chanCheck s.e with
  | (some err, e') => (.raised err, { t := t1, e := e' }, evs)
  | (none, e0) =>
    match waitTake uid evs { t := t1, e := e0 } with
    | (.inl (some err), s1, rest) => (.raised err, s1, rest)
    | (.inl none, s1, rest) => (.timeout, { s1 with t := remove s1.t uid }, rest)
    | (.inr f, s1, rest) =>
      let s2 := { s1 with t := remove s1.t uid }
      if mandatory then
        match chanCheckExceptions s2.e with
        | (some err, e') => (.raised err, { s2 with e := e' }, rest)
        | (none, e') => (.returned (f.name = "Basic.Ack") f.tag, { s2 with e := e' }, rest)
      else (.returned (f.name = "Basic.Ack") f.tag, s2, rest)

end Amqp.Confirm
