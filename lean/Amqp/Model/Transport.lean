import Amqp.Model.Errors
import Amqp.Gen.Transport
/-
  C06 model: a transport failure and the threads that must learn about it.

  Time is virtual (milliseconds).  The connection with its channels is the C07 model `Errors.C`.
  * the IO layer (reader / writer / poller) records a failure in *its* error list; whether that list
    is the one the connection inspects is regenerated from the source (`Gen.Transport.sameErrorList`);
  * any number of application threads sit in wait loops (RPC reply, connection state, message body,
    consuming loops): each iteration runs `check_for_errors` on its channel, then sleeps IDLE_WAIT;
  * time cannot pass the moment at which a sleeping thread is due (it wakes up and polls).
-/
namespace Amqp.Transport
open Amqp.ChanErr Amqp.Errors

inductive Outcome
  | raised (e : Err) (at_ : Nat)
  | returned (at_ : Nat)          -- the call completed normally before anything went wrong
deriving DecidableEq, Repr

structure Waiter where
  chan : Option Nat          -- `some i`: the loop runs Channel.check_for_errors of channel i;
                             -- `none`: it runs Connection.check_for_errors (open/close handshake waits)
  entered : Nat              -- when the thread made the call
  nextPoll : Nat             -- virtual time of its next iteration
  extra : Nat := 0           -- additional IDLE_WAIT sleeps per iteration (start_consuming: one more)
  consuming : Bool := false  -- a consuming loop (start_consuming, build_inbound_messages): it ends when the channel is closed
  blocked : Bool := false    -- inside a raising check, waiting for the connection lock (Connection.close())
  result : Option Outcome := none
deriving DecidableEq, Repr

structure T where
  c : C := {}
  ioErrs : List Err := []            -- a *separate* list, used only if IO does not share the connection's
  now : Nat := 0
  socketDead : Option Nat := none    -- time at which the peer closed / reset (not yet noticed by the reader)
  faultAt : Option Nat := none       -- time at which the IO layer recorded the failure
  readerRunning : Bool := true
  waiters : List Waiter := []
  lockHolder : Option Nat := none    -- the waiter that holds the connection lock while it waits
                                     -- (Connection.close() for CloseOk, Connection.channel() for OpenOk)
deriving DecidableEq, Repr

def idleWait : Nat := Gen.Const.idleWaitMs
def pollTimeout : Nat := Gen.Const.pollTimeoutMs

inductive Act
  | enterWait (chan : Option Nat) (extra : Nat) (lock : Bool) (consuming : Bool := false)
                                -- a thread starts waiting (first check immediately); `lock`: it took the
                                -- connection lock before (only loops with one sleep per iteration do)
  | die                         -- the peer closes or resets the socket (environment)
  | readerNotices               -- reader: poll returns (readable/EOF or error), `_receive` classifies it as fatal
  | writerFails                 -- a writer gets EPIPE/ECONNRESET from send()
  | pollerFails                 -- the poller raises select.error (not EINTR)
  | poll (i : Nat)              -- waiter i runs `check_for_errors` to completion
  | stuck (i : Nat)             -- waiter i's check found the failure but Connection.close() waits for the lock
  | leave (i : Nat)             -- waiter i's call returns normally (its reply arrived)
  | brokerReturn (ch code : Nat) -- the reader parks a returned message (AMQPMessageError) on channel ch
  | adv (d : Nat)               -- time passes
deriving DecidableEq, Repr

/-- the IO layer records a failure -/
def record (t : T) : T :=
  let t := { t with faultAt := t.faultAt.orElse (fun _ => some t.now) }
  if Gen.Transport.sameErrorList && Gen.Transport.noEraseAfterIoOpen then { t with c := { t.c with connErrs := t.c.connErrs ++ [.conn none] } }
  else { t with ioErrs := t.ioErrs ++ [.conn none] }

/-- time between two checks of a waiter -/
def period (w : Waiter) : Nat := (1 + w.extra) * idleWait

/-- `Connection.check_for_errors` called directly (not through a channel) -/
def connOpCheck (c : C) : Option Err × C :=
  let e : E := { connState := c.connState, connErrs := c.connErrs, chState := closed, chErrs := [],
                 connCloseCalls := c.connCloseCalls }
  let (r, e') := connCheck e
  let c' := { c with connState := e'.connState, connErrs := e'.connErrs, connCloseCalls := e'.connCloseCalls }
  if e'.connCloseCalls > c.connCloseCalls then
    (r, { c' with chans := c'.chans.map (fun ch => { ch with state := closed, tags := [], inbound := 0 }) })
  else (r, c')

def check (c : C) : Option Nat → Option Err × C
  | some i => opCheck c i
  | none => connOpCheck c

/-- a thread blocked on the connection lock proceeds as soon as the lock is free -/
def release (now : Nat) (w : Waiter) : Waiter :=
  if w.blocked then { w with blocked := false, nextPoll := now } else w

/-- waiter i is done; if it held the connection lock the threads queued on it continue -/
def finish (t : T) (i : Nat) (w : Waiter) (r : Outcome) (c' : C) : T :=
  let ws := t.waiters.set i { w with result := some r }
  if t.lockHolder = some i then { t with c := c', waiters := ws.map (release t.now), lockHolder := none }
  else { t with c := c', waiters := ws }

def chanOk (c : C) : Option Nat → Bool
  | some i => decide (i < c.chans.length)
  | none => true

/-- does the check raise something that makes the caller close the connection (anything but a parked
    returned-message error)? -/
def raisesFatal (c : C) (ch : Option Nat) : Bool :=
  match (check c ch).1 with
  | some e => !e.isMsg
  | none => false

def active (w : Waiter) : Bool := w.result.isNone && !w.blocked

def step (t : T) : Act → Option T
  | .enterWait ch k lock cons =>
    if chanOk t.c ch && (!lock || (t.lockHolder.isNone && k == 0)) then
      some { t with waiters := t.waiters ++ [{ chan := ch, entered := t.now, nextPoll := t.now, extra := k, consuming := cons }],
                    lockHolder := if lock then some t.waiters.length else t.lockHolder }
    else none
  | .die => if t.socketDead.isNone then some { t with socketDead := some t.now } else none
  | .readerNotices =>
    -- the reader sits in poll() for at most POLL_TIMEOUT; a dead socket makes poll return at once
    -- (also after a local close: recv on the closed socket fails and is recorded once more)
    if (t.socketDead.isSome ∨ t.c.connState = closed) ∧ t.readerRunning then some { record t with readerRunning := false }
    else none
  | .writerFails => if t.socketDead.isSome ∨ t.c.connState = closed then some (record t) else none
  | .pollerFails => if t.readerRunning then some (record t) else none
  | .poll i =>
    match t.waiters[i]? with
    | some w =>
      if active w then
        match check t.c w.chan with
        | (some e, c') =>
          if e.isMsg then
            -- a returned-message error met inside a reply wait is put back and the wait goes on
            -- (`Rpc._wait_for_request`); it is raised once the reply is in
            some { t with waiters := t.waiters.set i { w with nextPoll := t.now + period w } }
          -- a raising check runs Connection.close(), which takes the connection lock
          else if t.lockHolder = none ∨ t.lockHolder = some i then some (finish t i w (.raised e t.now) c')
          else none
        | (none, c') => some { t with c := c', waiters := t.waiters.set i { w with nextPoll := t.now + period w } }
      else none
    | none => none
  | .stuck i =>
    match t.waiters[i]? with
    | some w =>
      if active w ∧ raisesFatal t.c w.chan ∧ t.lockHolder.isSome ∧ t.lockHolder ≠ some i then
        -- `Connection.check_for_errors` has already set the state to CLOSED when close() blocks
        some { t with c := { t.c with connState := closed }, waiters := t.waiters.set i { w with blocked := true } }
      else none
    | none => none
  | .leave i =>
    match t.waiters[i]? with
    | some w =>
      -- a consuming loop that finds its channel closed looks at the connection's error list before it returns
      -- (regenerated): once a failure is recorded it cannot end normally
      if active w ∧ ¬ (w.consuming = true ∧ Gen.Transport.consumeLoopsCheckOnExit = true ∧ t.c.connErrs ≠ []) then
        some (finish t i w (.returned t.now) t.c)
      else none
    | none => none
  | .brokerReturn ch code =>
    if t.readerRunning then some { t with c := onReturn t.c ch code } else none
  | .adv d =>
    -- time may pass only up to the earliest moment a waiter is due; and a reader blocked in poll
    -- notices a dead socket before time moves on
    if t.waiters.all (fun w => !active w || t.now + d ≤ w.nextPoll) ∧
       ¬ (t.socketDead.isSome ∧ t.readerRunning ∧ d > 0) then some { t with now := t.now + d }
    else none

def run (t : T) : List Act → Option T
  | [] => some t
  | a :: as => match step t a with
    | none => none
    | some t' => run t' as

end Amqp.Transport
