import Amqp.Gen.Loops
/-
  C03 (and C14) model: `Channel.start_consuming` against the reader thread.

  One iteration of the loop is a list of micro-steps, regenerated from the source
  (`Gen.Loops.consumeLoop`): `read` looks at the channel's consumer tags and keeps the answer,
  `drain` is `process_data_events()` (everything queued is handed to the callbacks, in order),
  `exit?` leaves the loop when the last look found no consumer.  After the last micro-step the
  thread sleeps and starts the next iteration.

  The reader thread queues complete deliveries (frame-level assembly is `Model/Deliver.lean`) and
  removes consumers (broker-initiated Basic.Cancel, or the CancelOk of an application's cancel).
  The broker delivers only to a live consumer and the reader dispatches frames in wire order, so a
  delivery is queued only while the channel still lists a consumer.  Other threads may add
  consumers while at least one is active.  Any interleaving of these with the micro-steps of the
  consuming thread is a run.  Closing the channel is not part of this model (C06, C11).
-/
namespace Amqp.ConsumeLoop

inductive Op
  | read
  | drain
  | exitq
deriving DecidableEq, Repr

def parseOp : String → Option Op
  | "read" => some .read
  | "drain" => some .drain
  | "exit?" => some .exitq
  | _ => none

/-- the loop body as extracted from the source (`none`: a token the model does not know) -/
def program : Option (List Op) := Gen.Loops.consumeLoop.mapM parseOp

structure S where
  prog : List Op
  pc : Nat := 0                -- next micro-step of the iteration; `prog.length` = asleep before the next one
  sampled : Bool := true       -- what the last `read` saw: is any consumer left?
  tags : Nat                   -- consumers the channel lists
  inbound : List Nat := []     -- complete deliveries queued by the reader, oldest first
  handed : List Nat := []      -- deliveries handed to their callbacks, in order
  log : List Nat := []         -- ghost: every delivery the reader queued, in order
  done : Bool := false         -- `start_consuming` has returned
deriving DecidableEq, Repr

def init (prog : List Op) (tags : Nat) : S := { prog := prog, tags := tags }

inductive Act
  | deliver (m : Nat)   -- reader: a complete delivery is queued
  | cancel              -- a consumer goes away
  | add                 -- a consumer is added while another is active
  | consumer            -- the consuming thread performs its next micro-step
deriving DecidableEq, Repr

def stepOp (s : S) : Op → S
  | .read => { s with sampled := decide (0 < s.tags), pc := s.pc + 1 }
  | .drain => { s with handed := s.handed ++ s.inbound, inbound := [], pc := s.pc + 1 }
  | .exitq => if s.sampled then { s with pc := s.pc + 1 } else { s with done := true }

def step (s : S) : Act → Option S
  | .deliver m => if 0 < s.tags then some { s with inbound := s.inbound ++ [m], log := s.log ++ [m] } else none
  | .cancel => if 0 < s.tags then some { s with tags := s.tags - 1 } else none
  | .add => if 0 < s.tags then some { s with tags := s.tags + 1 } else none
  | .consumer =>
    if s.done then none
    else match s.prog[s.pc]? with
      | some op => some (stepOp s op)
      | none => some { s with pc := 0 }

def run (s : S) : List Act → Option S
  | [] => some s
  | a :: as => (step s a).bind (fun s' => run s' as)

/-- the consuming thread alone, `k` micro-steps (stops when it has returned) -/
def spin : Nat → S → S
  | 0, s => s
  | k + 1, s => match step s .consumer with
    | some s' => spin k s'
    | none => s

end Amqp.ConsumeLoop
