import Amqp.Base.Bytes
import Amqp.Gen.Const
import Amqp.Gen.Negotiate
import Amqp.Gen.Handshake
import Amqp.Gen.Lifecycle
/-
  C09 model: the connection handshake as `Channel0.on_frame` / `Connection.open` perform it.

  What the code *says* is generated (Gen/Handshake.lean, Gen/Negotiate.lean, Gen/Const.lean): the
  `on_frame` dispatch chain, the mechanism if/elif chain with the kind of test it uses, the
  credential format, the Connection.Open argument, the `_close_connection` kernel, `_negotiate`,
  what TuneOk carries, the time-out comparison and the 30 s / 10 ms constants.  This file supplies
  the interpreter for those tables: Python's `str.split()`, `in`, the frame-driven state machine,
  `check_for_errors` and the polling loop of `_wait_for_connection_state`.

  Threads: the inbound thread (`deliver`, `eof`) and the caller blocked in `open()` (`poll`) are
  interleaved by an arbitrary action list; one `deliver` is one `Channel0.on_frame` call, one `poll`
  one iteration of the wait loop.  Core Lean only.
-/
namespace Amqp.Handshake
open Amqp Amqp.Gen.Handshake

/-! ## Python `str.split()` and `in` -/

/-- `str.isspace()` for one code point (CPython 3.12 / Unicode 15: the 29 whitespace code points) -/
def isPyWs (c : Char) : Bool :=
  let n := c.toNat
  (9 ≤ n && n ≤ 13) || (28 ≤ n && n ≤ 32) || n == 0x85 || n == 0xa0 || n == 0x1680 ||
  (0x2000 ≤ n && n ≤ 0x200a) || n == 0x2028 || n == 0x2029 || n == 0x202f || n == 0x205f || n == 0x3000

def isSpace (c : Char) : Bool := c == ' '

/-- the maximal separator-free prefix … -/
def takeTok (sep : Char → Bool) : List Char → List Char
  | [] => []
  | c :: cs => if sep c then [] else c :: takeTok sep cs

/-- … and what follows it -/
def dropTok (sep : Char → Bool) : List Char → List Char
  | [] => []
  | c :: cs => if sep c then c :: cs else dropTok sep cs

/-- the non-empty maximal separator-free runs of `s`, left to right (fuel = length) -/
def tokensFuel (sep : Char → Bool) : Nat → List Char → List (List Char)
  | 0, _ => []
  | _ + 1, [] => []
  | n + 1, c :: cs =>
    if sep c then tokensFuel sep n cs
    else (c :: takeTok sep cs) :: tokensFuel sep n (dropTok sep cs)

/-- `s.split()` when `sep = isPyWs`; the non-empty elements of `s.split(' ')` when `sep = isSpace` -/
def tokens (sep : Char → Bool) (s : List Char) : List (List Char) := tokensFuel sep s.length s

/-- Python `lit in s` on strings (substring test) -/
def isInfix (lit : List Char) : List Char → Bool
  | [] => lit.isEmpty
  | c :: cs => lit.isPrefixOf (c :: cs) || isInfix lit cs

/-! ## The offer as `_send_start_ok` sees it -/

/-- `try_utf8_decode(frame_in.mechanisms)`: pamqp hands over `bytes`; a non-empty valid UTF-8 value
    becomes `str`, anything else (empty, undecodable) stays `bytes` -/
inductive Offer
  | text (s : List Char)
  | raw
deriving DecidableEq, Repr

def decodeOffer (b : Bytes) : Offer :=
  if b.isEmpty then .raw
  else match String.fromUTF8? (ByteArray.mk b.toArray) with
    | some s => .text s.toList
    | none => .raw

/-- `'<lit>' in <haystack>`; `none` = TypeError (`str in bytes`) -/
def testBranch (b : MechBranch) : Offer → Option Bool
  | .text s =>
    match b.kind with
    | .substring => some (isInfix b.lit s)
    | .tokenWs => some ((tokens isPyWs s).contains b.lit)
    | .tokenSpace => some ((tokens isSpace s).contains b.lit)
  | .raw =>
    match b.kind with
    | .substring => none                 -- 'EXTERNAL' in b'…' raises TypeError
    | _ => some false                    -- a list of bytes objects never contains a str

inductive MechResult
  | chosen (b : MechBranch)
  | unsupported
  | typeError
deriving DecidableEq, Repr

def chooseFrom : List MechBranch → Offer → MechResult
  | [], _ => .unsupported
  | b :: bs, o =>
    match testBranch b o with
    | none => .typeError
    | some true => .chosen b
    | some false => chooseFrom bs o

/-- the if/elif chain of `_send_start_ok` -/
def chooseMech (o : Offer) : MechResult := chooseFrom mechBranches o

/-! ## Frames, configuration, state -/

/-- what the broker can send on channel 0 -/
inductive BFrame
  | start (offer : Offer)      -- Connection.Start; `offer` = try_utf8_decode(frame_in.mechanisms)
  | tune (channelMax frameMax heartbeat : Int)
  | openOk
  | close (code : Int)
  | closeOk
  | blocked
  | unblocked
  | heartbeat
  | other
deriving DecidableEq, Repr

def BFrame.name : BFrame → FName
  | .start _ => .start
  | .tune .. => .tune
  | .openOk => .openOk
  | .close _ => .close
  | .closeOk => .closeOk
  | .blocked => .blocked
  | .unblocked => .unblocked
  | .heartbeat => .heartbeat
  | .other => .other

/-- what the client writes -/
inductive CFrame
  | header
  | startOk (mechanism response : String)
  | tuneOk (channelMax frameMax heartbeat : Int)
  | open (vhost : String)
deriving DecidableEq, Repr

structure Config where
  username : String
  password : String
  vhost : String
  heartbeat : Int
  /-- environment fact, not C09's: does IO append its socket errors to the list `check_for_errors`
      inspects?  (`open()` rebinding `_exceptions` makes this false: D1/C06) -/
  ioShared : Bool := false
deriving Repr

/-- every error the handshake can produce is an `AMQPConnectionError` -/
inductive Err
  | unsupported          -- 'Unsupported Security Mechanism(s)'
  | remote (code : Option Int)   -- Connection.Close from the broker
  | closed               -- 'connection closed' (closed without a recorded reason)
  | socket               -- appended by IO
  | timeout              -- 'connection timed out'
deriving DecidableEq, Repr

def Err.code : Err → Option Int
  | .remote c => c
  | _ => none

structure St where
  state : Nat := Gen.Const.stateClosed
  excs : List Err := []          -- Connection.exceptions
  ioExcs : List Err := []        -- IO's list when it is a different object
  chanMax : Int := Gen.Const.maxChannels
  frameMax : Int := Gen.Const.maxFrameSize
  blocked : Bool := false
  sent : List CFrame := []       -- everything written to the socket, in order
  readerAlive : Bool := false
  readerCrashed : Bool := false  -- an exception escaped `on_frame` in the inbound thread
  seen : List BFrame := []       -- ghost: frames dispatched to Channel0 so far
  elapsedMs : Nat := 0           -- since `_wait_for_connection_state` started
deriving DecidableEq, Repr

def write (st : St) (f : CFrame) : St := { st with sent := st.sent ++ [f] }

def credentials (cfg : Config) : Cred → String
  | .plain => plainCredentials cfg.username cfg.password cfg.vhost
  | .literal s => s

/-- `_send_start_ok` -/
def sendStartOk (cfg : Config) (st : St) (offer : Offer) : St :=
  match chooseMech offer with
  | .chosen b => write st (.startOk b.mechanism (credentials cfg b.cred))
  | .unsupported =>
    if unsupportedFailsWithoutWriting then { st with excs := st.excs ++ [.unsupported] } else st
  | .typeError => { st with readerAlive := false, readerCrashed := true }

/-- `_send_tune_ok` (values from Gen.Negotiate) -/
def sendTuneOk (cfg : Config) (st : St) (c f h : Int) : St :=
  let st := { st with chanMax := Gen.Negotiate.storedChannelMax c f cfg.heartbeat,
                      frameMax := Gen.Negotiate.storedFrameMax c f cfg.heartbeat }
  let _ := h
  write st (.tuneOk (Gen.Negotiate.sentChannelMax c f cfg.heartbeat)
                    (Gen.Negotiate.sentFrameMax c f cfg.heartbeat)
                    (Gen.Negotiate.sentHeartbeat c f cfg.heartbeat))

/-- `_close_connection` -/
def closeConnection (st : St) (code : Int) : St :=
  let st := { st with state := closeState }
  if closeIsError code then { st with excs := st.excs ++ [.remote (closeErrorCode code)] } else st

/-- one handler action of the dispatch chain, applied to the frame being handled; a crashed handler
    skips the rest of the chain -/
def exec (cfg : Config) (f : BFrame) (st : St) (a : HAct) : St :=
  if st.readerCrashed then st else
  match a, f with
  | .ret, _ => st
  | .closeConnection, .close code => closeConnection st code
  | .closeConnectionOk, _ => { st with state := closeOkState }
  | .blocked, _ => { st with blocked := true }
  | .unblocked, _ => { st with blocked := false }
  | .setState s, _ => { st with state := s }
  | .storeServerProps, _ => st
  | .sendStartOk, .start m => sendStartOk cfg st m
  | .sendTuneOk, .tune c fm h => sendTuneOk cfg st c fm h
  | .sendOpen, _ => write st (.open (openVhost cfg.username cfg.password cfg.vhost))
  | _, _ => st      -- a handler applied to a frame of another type: not reachable with the generated table

def actsFor (n : FName) : List HAct := (dispatch.lookup n).getD []

/-- `Channel0.on_frame` -/
def onFrame (cfg : Config) (st : St) (f : BFrame) : St :=
  (actsFor f.name).foldl (exec cfg f) { st with seen := st.seen ++ [f] }

/-! ## `Connection.open` -/

inductive Outcome
  | pending
  | opened
  | failed (e : Err)
deriving DecidableEq, Repr

/-- `open()` up to and including `_send_handshake`; `ioOk = false`: `IO.open` raised (no route, refused) -/
def openStart (ioOk : Bool) : St × Outcome :=
  let st : St := { state := Gen.Const.stateOpening }
  if ioOk then (write { st with readerAlive := true } .header, .pending)
  else (st, .failed .socket)

/-- `check_for_errors` (and the `close()` it performs before raising) -/
def checkForErrors (st : St) : St × Option Err :=
  let closeAll (s : St) : St := { s with state := Gen.Const.stateClosed, readerAlive := false }
  match st.excs with
  | [] =>
    if st.state ≠ Gen.Const.stateClosed then (st, none)
    else (closeAll { st with excs := [.closed] }, some .closed)
  | e :: _ => (closeAll st, some e)

inductive Act
  | deliver (f : BFrame)     -- inbound thread: `_read_buffer` hands one channel-0 frame to `on_frame`
  | eof                      -- inbound thread: recv failed / returned b'' ; IO records the error and stops
  | poll (extraMs : Nat)     -- caller: one iteration of `_wait_for_connection_state`; the sleep takes IDLE_WAIT + extra
deriving DecidableEq, Repr

def step (cfg : Config) (st : St) : Act → St × Outcome
  | .deliver f => if st.readerAlive then (onFrame cfg st f, .pending) else (st, .pending)
  | .eof =>
    if st.readerAlive then
      let st := { st with readerAlive := false }
      (if cfg.ioShared then { st with excs := st.excs ++ [.socket] }
       else { st with ioExcs := st.ioExcs ++ [.socket] }, .pending)
    else (st, .pending)
  | .poll extra =>
    if st.state = Gen.Const.stateOpen then (st, .opened)
    else match checkForErrors st with
      | (st', some e) => (st', .failed e)
      | (st', none) =>
        if waitTimedOut st'.elapsedMs then (st', .failed .timeout)
        else ({ st' with elapsedMs := st'.elapsedMs + Gen.Const.idleWaitMs + extra }, .pending)

/-- run the interleaving until `open()` returns or raises -/
def run (cfg : Config) : St → List Act → St × Outcome
  | st, [] => (st, .pending)
  | st, a :: as =>
    match step cfg st a with
    | (st', .pending) => run cfg st' as
    | r => r

/-- what `open()` does when the guarded handshake raises, before re-raising (regenerated, `Gen.Lifecycle`) -/
def failCleanup (st : St) : St :=
  let st := if Gen.Lifecycle.openFailureCleanup.contains "state-closed" then { st with state := Gen.Const.stateClosed } else st
  if Gen.Lifecycle.openFailureCleanup.contains "io-close" then { st with readerAlive := false } else st

/-- `Connection.open()` against an interleaving of reader and caller actions -/
def openConn (cfg : Config) (ioOk : Bool) (as : List Act) : St × Outcome :=
  match openStart ioOk with
  | (st, .pending) => run cfg st as
  | r => r

/-- `open()` as the caller sees it: a failure inside the guarded handshake is followed by the cleanup
    (C08's subject) before the exception leaves `open()` -/
def openConnFinal (cfg : Config) (ioOk : Bool) (as : List Act) : St × Outcome :=
  match openConn cfg ioOk as with
  | (st', .failed e) => if ioOk then (failCleanup st', .failed e) else (st', .failed e)
  | r => r

/-- the statement skeletons the step functions above were written against -/
def expectedOpenSkel : List String :=
  ["state:2", "excs:reset", "channels:reset", "lastid:reset", "io.open", "send_handshake", "wait:3", "heartbeat.start"]
def expectedCheckSkel : List String :=
  ["noexc:open:return", "noexc:closed:append", "state:0", "close", "raise:first"]
def expectedWaitSkel : List String := ["check_for_errors", "timeout-test", "sleep"]

end Amqp.Handshake
