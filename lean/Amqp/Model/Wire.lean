import Amqp.Model.Parse
/-
  C01 model: any number of threads calling `IO.write_to_socket` (through `Connection.write_frame(s)`)
  on one socket.  State = what the broker has received so far, who holds `_wr_lock` and what is left
  of its buffer, who is waiting.  Ghost: the list of whole buffers in lock-acquisition order.
-/
namespace Amqp.Wire
open Amqp

abbrev Tid := Nat

structure S where
  wire : Bytes := []                       -- bytes received by the broker, in order
  holder : Option (Tid × Bytes) := none    -- lock owner and the unsent remainder of its buffer
  waiting : List (Tid × List Frame) := []  -- threads inside write_to_socket before the acquire
  log : List (List Frame) := []            -- ghost: frames of each call, in lock-acquisition order
  failed : Bool := false                   -- a fatal socket error truncated a buffer (socket dead)
  begun : List (List Frame) := []          -- ghost: frames of every call so far, in call order
deriving Repr

inductive Act
  | begin (t : Tid) (fs : List Frame)   -- write_frame / write_frames: one buffer = all frames of the call
  | acquire (t : Tid)                   -- `_wr_lock.acquire()` succeeds
  | send (t : Tid) (k : Nat)            -- `socket.send(buf[total:])` accepted k bytes
  | stutter (t : Tid)                   -- EAGAIN / EWOULDBLOCK (`continue`) or socket.timeout (`pass`)
  | release (t : Tid)                   -- loop finished: `finally: _wr_lock.release()`
  | fail (t : Tid)                      -- fatal socket error: append exception, return (lock released)
deriving Repr

def remainder (s : S) : Bytes := match s.holder with | some (_, r) => r | none => []

def step (s : S) : Act → Option S
  | .begin t fs =>
    if s.waiting.any (·.1 = t) ∨ (s.holder.map (·.1) = some t) then none
    else some { s with waiting := s.waiting ++ [(t, fs)], begun := s.begun ++ [fs] }
  | .acquire t =>
    match s.holder, s.waiting.find? (·.1 = t) with
    | none, some (_, fs) =>
      some { s with holder := some (t, encodeAll fs), log := s.log ++ [fs],
                    waiting := s.waiting.filter (·.1 ≠ t) }
    | _, _ => none
  | .send t k =>
    match s.holder with
    | some (t', r) =>
      if t' = t ∧ 1 ≤ k ∧ k ≤ r.length ∧ ¬ s.failed then
        some { s with wire := s.wire ++ r.take k, holder := some (t, r.drop k) }
      else none
    | none => none
  | .stutter t =>
    match s.holder with
    | some (t', r) => if t' = t ∧ r ≠ [] then some s else none
    | none => none
  | .release t =>
    match s.holder with
    | some (t', r) => if t' = t ∧ r = [] then some { s with holder := none } else none
    | none => none
  | .fail t =>
    match s.holder with
    | some (t', r) => if t' = t ∧ r ≠ [] then some { s with holder := none, failed := true } else none
    | none => none

def run (s : S) : List Act → Option S
  | [] => some s
  | a :: as => match step s a with
    | none => none
    | some s' => run s' as

def init : S := {}

def Reachable (s : S) : Prop := ∃ as, run init as = some s

/-- all frames handed to the socket layer so far, call after call -/
def framesLogged (s : S) : List Frame := s.log.flatten

end Amqp.Wire
