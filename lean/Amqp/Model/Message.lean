import Amqp.Model.Text
import Amqp.Model.Publish
/-
  C17 model, part 2: `Message` (constructor, decoded views with their cache, raw views, setters,
  `create`), `Basic._handle_utf8_payload` + `Basic.publish`'s content frames, and the consumer side
  (`Channel._build_message/_build_message_headers/_build_message_body`).  Guards, key names, filled
  keys, accessor tables and field lists are the generated ones (Gen/Message.lean).
-/
namespace Amqp

/-- a `Message` object: the raw slots of `BaseMessage` plus `_decode_cache` (three possible keys) -/
structure Msg where
  autoDecode : Bool
  body : PyVal
  method : PyVal
  properties : Dict
  cBody : Option PyVal := none
  cMethod : Option PyVal := none
  cProps : Option PyVal := none
deriving Repr

/-- `Message(channel, body, method, properties, auto_decode)`: `_properties = properties or {}`
    (`none` = the argument was `None`), empty cache.  `auto` is the truthiness of `auto_decode`. -/
def Msg.new (auto : Bool) (body method : PyVal) (props : Option Dict) : Msg :=
  { autoDecode := auto, body := body, method := method, properties := props.getD [] }

/-- `Message.body` (property): value returned and the state afterwards -/
def Msg.readBody (m : Msg) : PyVal × Msg :=
  if Gen.Message.bodyReturnsRaw m.autoDecode then (m.body, m)
  else match m.cBody with
    | some v => (v, m)
    | none => let v := tryDecode m.body; (v, { m with cBody := some v })

/-- `Message._try_decode_utf8_content(content, key)` on one cache slot -/
def viewContent (auto : Bool) (content : PyVal) (cache : Option PyVal) : PyVal × Option PyVal :=
  if Gen.Message.contentReturnsRaw auto content.truthy then (content, cache)
  else match cache with
    | some v => (v, cache)
    | none => let v := decodeContent content; (v, some v)

/-- `Message.method` -/
def Msg.readMethod (m : Msg) : PyVal × Msg :=
  let r := viewContent m.autoDecode m.method m.cMethod
  (r.1, { m with cMethod := r.2 })

/-- `Message.properties` -/
def Msg.readProps (m : Msg) : PyVal × Msg :=
  let r := viewContent m.autoDecode (.dict m.properties) m.cProps
  (r.1, { m with cProps := r.2 })

/-- `d.update(o)` -/
def dictUpdate (d o : Dict) : Dict := o.foldl (fun acc p => dictSet acc p.1 p.2) d

/-- `Message._update_properties(name, value)` -/
def Msg.update (m : Msg) (name : String) (v : PyVal) : Msg :=
  let c :=
    if Gen.Message.updateTouchesCache m.autoDecode m.cProps.isSome then
      match m.cProps with
      | some (.dict d) =>
        some (.dict (if Gen.Message.updateDecodesCached
                     then dictUpdate d (decodeDict [(.str name, v)])
                     else dictSet d (.str name) v))
      | c => c
    else m.cProps
  { m with cProps := c, properties := dictSet m.properties (.str name) v }

/-- `message.<attr> = v`; `none` = AttributeError (`__slots__`, no such property setter) -/
def Msg.setAttr (m : Msg) (attr : String) (v : PyVal) : Option Msg :=
  match Gen.Message.setters.find? (fun p => p.1 = attr) with
  | some p => some (m.update p.2 v)
  | none => none

/-- `message.<attr>` for the property getters: `self.properties.get(key)` -/
def Msg.getAttr (m : Msg) (attr : String) : Option (PyVal × Msg) :=
  match Gen.Message.getters.find? (fun p => p.1 = attr) with
  | some p =>
    let r := m.readProps
    match r.1 with
    | .dict d => some (dictGet d (.str p.2), r.2)
    | _ => none
  | none => none

/-- a raw slot by attribute name (`_channel` is opaque) -/
def Msg.slot (m : Msg) (attr : String) : PyVal :=
  if attr = "_body" then m.body
  else if attr = "_method" then m.method
  else if attr = "_properties" then .dict m.properties
  else .other attr

/-- `BaseMessage.to_dict()` -/
def Msg.toDict (m : Msg) : Dict := Gen.Message.toDictFields.map (fun p => (.str p.1, m.slot p.2))

/-- `BaseMessage.to_tuple()` -/
def Msg.toTuple (m : Msg) : List PyVal := Gen.Message.toTupleFields.map m.slot

/-- `Message.create`: the properties the new message carries.  `fresh` supplies the generated
    values (a uuid4 string, `datetime.utcnow()`). -/
def createProps (fresh : Gen.Message.Fill → String → PyVal) (props : Dict) : Dict :=
  Gen.Message.createFills.foldl
    (fun d p => if dictHas d (.str p.1) then d else dictSet d (.str p.1) (fresh p.2 p.1)) props

/-- `Message.create(channel, body, properties)` (`none` = `None`); the caller's dict is copied by
    `dict(properties or {})` before anything is written (checked by the translator) -/
def Msg.create (fresh : Gen.Message.Fill → String → PyVal) (body : PyVal) (props : Option Dict) : Msg :=
  Msg.new Gen.Message.createAutoDecode body .none (some (createProps fresh (props.getD [])))

/-! ## publish → consume -/

/-- the keyword arguments `pamqp.specification.Basic.Properties(**properties)` accepts (pamqp 2.3.0,
    third party; any other key is a TypeError) -/
def basicPropertyNames : List String :=
  ["content_type", "content_encoding", "headers", "delivery_mode", "priority", "correlation_id",
   "reply_to", "expiration", "message_id", "timestamp", "message_type", "user_id", "app_id",
   "cluster_id"]

def propsAccepted (d : Dict) : Bool :=
  d.all fun p => match p.1 with
    | .str s => basicPropertyNames.contains s
    | _ => false

/-- frames on a channel as far as content delivery is concerned -/
inductive CFrame where
  | publish                                 -- Basic.Publish (outbound)
  | deliver (method : Dict)                 -- Basic.Deliver (inbound), `dict(frame)`
  | header (size : Nat) (props : Dict)      -- ContentHeader with the Basic.Properties handed to pamqp
  | body (p : Bytes)                        -- ContentBody
  | other                                   -- any other frame
deriving Repr

inductive PubErr where
  | encode          -- str body: LookupError / UnicodeEncodeError / TypeError from `bytes(body, encoding=…)`
  | badProperty     -- TypeError from Basic.Properties(**properties)
deriving Repr, DecidableEq

/-- `Basic._handle_utf8_payload`: returns the encoded body and the (mutated) properties dict.
    `codec enc s` is `bytes(s, encoding=enc)` (`none` = it raises). -/
def handlePayload (codec : PyVal → String → Option Bytes) (body : PyBody) (props : Dict) :
    Except PubErr (Bytes × Dict) :=
  let key : PyKey := .str Gen.Message.encodingKey
  let props' := if dictHas props key then props else dictSet props key (.str Gen.Message.defaultEncoding)
  match body with
  | .bytes b => .ok (b, props')
  | .text s =>
    match codec (dictGet props' key) s with
    | some b => .ok (b, props')
    | none => .error .encode

/-- `Basic.publish` (after argument validation; `none` = `properties=None`).  `properties or {}`: a
    `None` or *empty* dict of the caller is replaced by a fresh dict, so only a non-empty caller dict
    is written to (it receives the default `content_encoding`).  Returns the caller's dict as it is
    afterwards and the frames handed to `write_frames`. -/
def publish17 (maxF : Int) (codec : PyVal → String → Option Bytes) (body : PyBody) (props : Option Dict) :
    Except PubErr (Option Dict × List CFrame) :=
  match handlePayload codec body (props.getD []) with
  | .error e => .error e
  | .ok (b, props') =>
    if propsAccepted props' then
      let caller := match props with
        | some d => if d.isEmpty then some d else some props'
        | none => none
      .ok (caller, .publish :: .header b.length props' :: (splitBody maxF b).map .body)
    else .error .badProperty

inductive BodyRes where
  | done (body : Bytes) (rest : List CFrame)
  | wait                -- inbound queue exhausted before `body_size` bytes: the loop sleeps and retries
  | attrError           -- the popped frame has no `.value` (not a ContentBody): AttributeError
deriving Repr

/-- `Channel._build_message_body(body_size)` on the current inbound queue -/
def buildBody (size : Nat) : Bytes → List CFrame → BodyRes
  | acc, [] => if acc.length < size then .wait else .done acc []
  | acc, f :: rest =>
    if acc.length < size then
      match f with
      | .body p => if p.isEmpty then .done acc rest else buildBody size (acc ++ p) rest
      | _ => .attrError
    else .done acc (f :: rest)

inductive BuildRes where
  | msg (m : Msg) (rest : List CFrame)
  | notYet                          -- fewer than two frames queued: returns None, nothing popped
  | dropped (rest : List CFrame)    -- out-of-order frames: both popped, None returned
  | wait
  | attrError
deriving Repr

/-- `Channel._build_message(auto_decode, Message)`.  `wire` is what pamqp's property codec plus
    `dict(content_header.properties)` make of the published properties (third party, opaque). -/
def buildMessage (auto : Bool) (wire : Dict → Dict) : List CFrame → BuildRes
  | .deliver m :: .header size props :: rest =>
    match buildBody size [] rest with
    | .done b rest' => .msg (Msg.new auto (.bytes b) (.dict m) (some (wire props))) rest'
    | .wait => .wait
    | .attrError => .attrError
  | _ :: _ :: rest => .dropped rest
  | _ => .notYet

end Amqp
