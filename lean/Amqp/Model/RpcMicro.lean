import Amqp.Model.Rpc
import Amqp.Gen.RpcWait
/-
  C05 / C15: the correlation tables at the granularity of single dict operations.

  `Model/Rpc.lean` treats `register_request` and `remove` as atomic.  They are not: the caller thread
  performs one dict assignment / deletion at a time and the reader thread may run `Rpc.on_frame`
  between any two of them (a reply that arrives late, after the caller's time-out, does exactly that).
  This model interleaves the reader with every single step.  The order of the steps inside
  `register_request` and `remove` is read from the source (`Gen.RpcWait.registerResponseFirst`,
  `removeRequestFirst`); `on_frame` reports the `KeyError` the real code would raise in the reader
  thread when a frame name maps to an identifier that has no reply slot.
-/
namespace Amqp.RpcMicro
open Amqp Amqp.Rpc

inductive Phase
  | idle
  | reg (uid : Nat) (todo : List String) (respDone : Bool)   -- inside `register_request`
  | wait (uid : Nat)                                         -- registered: write, wait, take frames
  | rem (uid : Nat) (todo : List String) (respDone : Bool)   -- inside `remove`
deriving DecidableEq, Repr

structure S where
  t : T := {}
  phase : Phase := .idle
  keyErrors : Nat := 0          -- `KeyError`s raised by `on_frame` (in the reader thread)
  consumed : List Frm := []     -- frames `on_frame` took as replies
  fell : List Frm := []         -- frames that fell through to the channel
deriving Repr

inductive Ev
  | begin (names : List String)   -- `register_request(names)` is entered (callers are serialised by `rpc.lock`)
  | regStep                       -- its next dict assignment
  | pop                           -- `_get_response_frame`
  | beginRemove                   -- `remove(uuid)` is entered: `list(self._request)` is snapshotted
  | remStep                       -- its next dict deletion
  | frame (f : Frm)               -- the reader runs `on_frame(f)`
deriving Repr

/-- `Rpc.on_frame` with the failure made visible: `(consumed, keyError, tables)` -/
def onFrameK (t : T) (f : Frm) : Bool × Bool × T :=
  match Dict.get t.request f.name with
  | none => (false, false, t)
  | some uid =>
    match Dict.get t.response uid with
    | none => (true, true, t)
    | some fs => (true, false, { t with response := Dict.set t.response uid (fs ++ [f]) })

/-- the frame names currently mapped to `uid`, in the order the loop of `remove_request` deletes them:
    `list(self._request)` is insertion order, the association list has the latest binding first.
    (Assigning to an existing key moves it in the association list but not in a Python dict; the name lists
    amqpstorm registers are literals without a repeated name around another one.) -/
def keysOf (t : T) (uid : Nat) : List String := ((t.request.filter (fun p => p.2 = uid)).map (·.1)).reverse

/-- leave `register_request` / `remove` when nothing is left to do -/
def norm (s : S) : S :=
  match s.phase with
  | .reg uid [] true => { s with phase := .wait uid }
  | .rem _ [] true => { s with phase := .idle }
  | _ => s

def setResp (s : S) (uid : Nat) : T := { s.t with response := Dict.set s.t.response uid [] }
def setReq (s : S) (n : String) (uid : Nat) : T := { s.t with request := Dict.set s.t.request n uid }
def delResp (s : S) (uid : Nat) : T := { s.t with response := Dict.del s.t.response uid }
def delReq (s : S) (n : String) : T := { s.t with request := Dict.del s.t.request n }

/-- `rf`: `register_request` creates the reply slot first; `mf`: `remove` drops the name mappings first -/
def stepP (rf mf : Bool) (s : S) : Ev → Option S
  | .begin names =>
    match s.phase with
    | .idle => some { s with phase := .reg s.t.nextUid names false, t := { s.t with nextUid := s.t.nextUid + 1 } }
    | _ => none
  | .regStep =>
    match s.phase with
    | .reg uid todo rd =>
      if rf then
        if !rd then some (norm { s with t := setResp s uid, phase := .reg uid todo true })
        else match todo with
          | n :: rest => some (norm { s with t := setReq s n uid, phase := .reg uid rest true })
          | [] => none
      else
        match todo with
        | n :: rest => some (norm { s with t := setReq s n uid, phase := .reg uid rest rd })
        | [] => if !rd then some (norm { s with t := setResp s uid, phase := .reg uid [] true }) else none
    | _ => none
  | .pop =>
    match s.phase with
    | .wait uid => some { s with t := (popResponse s.t uid).2 }
    | _ => none
  | .beginRemove =>
    match s.phase with
    | .wait uid => some (norm { s with phase := .rem uid (keysOf s.t uid) (!Dict.has s.t.response uid) })
    | _ => none
  | .remStep =>
    match s.phase with
    | .rem uid todo rd =>
      if mf then
        match todo with
        | n :: rest => some (norm { s with t := delReq s n, phase := .rem uid rest rd })
        | [] => if !rd then some (norm { s with t := delResp s uid, phase := .rem uid [] true }) else none
      else
        if !rd then some (norm { s with t := delResp s uid, phase := .rem uid todo true })
        else match todo with
          | n :: rest => some (norm { s with t := delReq s n, phase := .rem uid rest true })
          | [] => none
    | _ => none
  | .frame f =>
    let r := onFrameK s.t f
    some { s with t := r.2.2, keyErrors := s.keyErrors + (if r.2.1 then 1 else 0),
                  consumed := if r.1 && !r.2.1 then s.consumed ++ [f] else s.consumed,
                  fell := if r.1 then s.fell else s.fell ++ [f] }

/-- the code as it is: both orders are read from the source -/
def step (s : S) (e : Ev) : Option S :=
  stepP Gen.RpcWait.registerResponseFirst Gen.RpcWait.removeRequestFirst s e

def runP (rf mf : Bool) (s : S) : List Ev → Option S
  | [] => some s
  | e :: es => match stepP rf mf s e with
    | none => none
    | some s' => runP rf mf s' es

def run (s : S) : List Ev → Option S
  | [] => some s
  | e :: es => match step s e with
    | none => none
    | some s' => run s' es

def init : S := {}

end Amqp.RpcMicro
