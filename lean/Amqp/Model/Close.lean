import Amqp.Model.Errors
import Amqp.Gen.Close
/-
  C11 model: the close handshakes.
  (a) broker-initiated channel close: `Errors.onChannelClose` (C07 model) — CloseOk count.
  (b) application `Channel.close()`: `chanClose` (one closer) and a two-closer race.
  (c) `Connection.close()` by any number of threads: transition system `ConnClose`.
-/
namespace Amqp.Close
open Amqp.ChanErr

/-! ### stop_consuming: Python's `for tag in <list>` over a list that `basic.cancel` shrinks -/

/-- `for tag in tags: cancel(tag)` where cancel removes `tag` from the same list object:
    index-based iteration over the mutating list.  Returns the tags for which Basic.Cancel was sent. -/
def cancelLoopInPlace : (fuel : Nat) → (idx : Nat) → (tags : List String) → List String
  | 0, _, _ => []
  | fuel + 1, idx, tags =>
    match tags[idx]? with
    | none => []
    | some t => t :: cancelLoopInPlace fuel (idx + 1) (tags.erase t)

/-- `Channel.stop_consuming` on an open channel: which Basic.Cancel frames go out -/
def stopConsuming (tags : List String) : List String :=
  if Gen.Close.stopIteratesCopy then tags else cancelLoopInPlace tags.length 0 tags

/-! ### (b) Channel.close(reply_code, reply_text), one closer -/

inductive Sent
  | cancel (tag : String)
  | close (code : Nat) (text : String)
deriving DecidableEq, Repr

/-- how the Channel.Close RPC ends -/
inductive RpcEnd | closeOk | connectionError | timeout
deriving DecidableEq, Repr

structure ChanSt where
  connClosed : Bool := false
  state : Nat := 3
  tags : List String := []
  inbound : Nat := 0
deriving DecidableEq, Repr

/-- result: frames written, final channel, whether an exception escapes -/
def chanClose (c : ChanSt) (code : Nat) (text : String) (cancelsFail : Bool) (e : RpcEnd) :
    List Sent × ChanSt × Bool :=
  if c.connClosed ∨ (if Gen.Close.closeBacksOffUnlessOpen then c.state ≠ open_ else c.state = closed) then
    -- forced path: stop_consuming (nothing is sent on a channel that is not open …) ; finally: CLOSED
    -- (on a CLOSING/OPENING channel with consumers `stop_consuming` would still try to cancel: state ≠ CLOSED)
    let cancels := if c.state ≠ closed ∧ ¬ c.connClosed then (stopConsuming c.tags).map Sent.cancel else []
    (cancels, { c with state := closed, tags := [], inbound := 0 }, false)
  else
    let cancels := (stopConsuming c.tags).map Sent.cancel
    -- `except AMQPChannelError: self.remove_consumer_tag()`: a failing cancel does not stop the close
    let cancels' := if cancelsFail then cancels.take 1 else cancels
    let frames := cancels' ++ [Sent.close code text]
    (frames, { c with state := closed, tags := [], inbound := 0 }, e ≠ .closeOk)

/-! ### (b') two threads calling Channel.close() at the same time (no lock protects the test-and-set) -/

structure Race2 where
  state : Nat := 3
  closesSent : Nat := 0
  pc1 : Nat := 0      -- 0 = before the `is_open` test, 1 = passed it, 2 = CLOSING set, 3 = Close sent, 4 = done
  pc2 : Nat := 0
deriving DecidableEq, Repr

def stepRace2 (r : Race2) (who : Bool) : Race2 :=
  let pc := if who then r.pc1 else r.pc2
  let setpc (n : Nat) (r : Race2) : Race2 := if who then { r with pc1 := n } else { r with pc2 := n }
  match pc with
  | 0 => if r.state = open_ then setpc 1 r else setpc 4 { r with state := closed }   -- the test (forced path otherwise)
  | 1 => setpc 2 { r with state := Gen.Const.stateClosing }                            -- set_state(CLOSING)
  | 2 => setpc 3 { r with closesSent := r.closesSent + 1 }                              -- rpc_request(Channel.Close)
  | 3 => setpc 4 { r with state := closed }                                             -- finally: CLOSED
  | _ => r

/-! ### (c) Connection.close() from any number of threads -/

structure Conn where
  state : Nat := 3
  socket : Bool := true
  lock : Option Nat := none
  sent : Nat := 0                 -- Connection.Close frames written
  pcs : List (Nat × Nat) := []    -- thread ↦ program counter inside close()
deriving DecidableEq, Repr

def pcOf (c : Conn) (t : Nat) : Nat := (c.pcs.lookup t).getD 0
def setPc (c : Conn) (t n : Nat) : Conn := { c with pcs := (t, n) :: c.pcs.filter (·.1 ≠ t) }

inductive Act
  | enter (t : Nat)        -- acquire the connection lock (if the source takes it), pc 0 → 1
  | begin (t : Nat)        -- `if not self.is_closed: set CLOSING`; heartbeat.stop  (1 → 2)
  | maybeSend (t : Nat)    -- `if not self.is_closed and self.socket: send Connection.Close` (2 → 3)
  | wait (t : Nat)         -- `_wait_for_connection_state(CLOSED)` returns or raises (3 → 4)
  | finish (t : Nat)       -- finally: close channels, io.close (socket gone), CLOSED; release; return (4 → 0:
                           -- the thread may call close() again)
  | closeOk                -- reader: Connection.CloseOk / Connection.Close from the broker → CLOSED
deriving DecidableEq, Repr

def step (c : Conn) : Act → Option Conn
  | .enter t =>
    if pcOf c t ≠ 0 then none
    else if Gen.Close.connCloseUnderLock then
      (if c.lock = none then some (setPc { c with lock := some t } t 1) else none)
    else some (setPc c t 1)
  | .begin t =>
    if pcOf c t ≠ 1 then none
    else some (setPc (if c.state ≠ closed then { c with state := Gen.Const.stateClosing } else c) t 2)
  | .maybeSend t =>
    if pcOf c t ≠ 2 then none
    else some (setPc (if c.state ≠ closed ∧ c.socket then { c with sent := c.sent + 1 } else c) t 3)
  | .wait t => if pcOf c t ≠ 3 then none else some (setPc c t 4)
  | .finish t =>
    if pcOf c t ≠ 4 then none
    else some (setPc { c with state := closed, socket := false,
                              lock := if c.lock = some t then none else c.lock } t 0)
  | .closeOk => some { c with state := closed }

def run (c : Conn) : List Act → Option Conn
  | [] => some c
  | a :: as => match step c a with
    | none => none
    | some c' => run c' as

/-! ### (d) close() and check_for_errors() with a connection error already recorded

`Connection.check_for_errors` with a non-empty error list: (`set_state(CLOSED)`;) `close()`; `raise`.
`Connection.close()` waits for CLOSED in a loop whose first statement is `check_for_errors()` — the two call each
other.  The recursion is the source's; `fuel` stands for the interpreter's recursion limit. -/

structure CE where
  state : Nat := 3
  socket : Bool := true
  sent : Nat := 0               -- Connection.Close frames written
  overflow : Bool := false      -- RecursionError
deriving DecidableEq, Repr

/-- `close()` entered while an error is recorded; `setsClosed`: does `check_for_errors` mark the connection
    CLOSED before calling `close()` -/
def closeE (setsClosed : Bool) : Nat → CE → CE
  | 0, c => { c with overflow := true }
  | fuel + 1, c =>
    let c1 := if c.state ≠ closed then { c with state := Gen.Const.stateClosing } else c
    let c2 :=
      if c1.state ≠ closed ∧ c1.socket then
        -- send_close_connection(); _wait_for_connection_state: check_for_errors() raises at once
        let c3 := { c1 with sent := c1.sent + 1 }
        closeE setsClosed fuel (if setsClosed then { c3 with state := closed } else c3)
      else c1
    -- except AMQPConnectionError: pass; finally: channels, io.close(), CLOSED
    { c2 with state := closed, socket := false }

/-- an operation's `check_for_errors()` with an error recorded -/
def checkE (setsClosed : Bool) (fuel : Nat) (c : CE) : CE :=
  closeE setsClosed fuel (if setsClosed then { c with state := closed } else c)

end Amqp.Close
