import Amqp.Gen.Close
/-
  C14, sequential part: consumer tags are names the application may use again.  A history of
  consume / cancel / broker-cancel / deliver on one channel, against the obvious specification: a
  map from tag to the callback of the *latest* consume with that tag.  How `consume()` stores the
  callback is read from the source (`Gen.Close.consumeStoreOverwrites`).
-/
namespace Amqp.TagReuse

inductive Op
  | consume (tag : String) (cb : Nat)     -- consume() returned: tag recorded, callback stored
  | cancel (tag : String)                 -- basic.cancel(tag) returned
  | brokerCancel (tag : String)           -- Basic.Cancel from the broker was processed
  | deliver (tag : String)                -- process_data_events hands one delivery for `tag` out
deriving DecidableEq, Repr

structure R where
  tags : List String := []
  callbacks : List (String × Nat) := []            -- `_consumer_callbacks`, newest binding first
  out : List (String × Option Nat) := []           -- (tag, callback the delivery was handed to)
deriving DecidableEq, Repr

/-- `self._channel._consumer_callbacks[tag] = callback` (or, if the source says so, `setdefault`) -/
def storeP (ow : Bool) (cbs : List (String × Nat)) (tag : String) (cb : Nat) : List (String × Nat) :=
  if ow then (tag, cb) :: cbs
  else if (cbs.lookup tag).isSome then cbs else (tag, cb) :: cbs

def stepP (ow : Bool) (r : R) : Op → R
  | .consume tag cb => { r with tags := if tag ∈ r.tags then r.tags else r.tags ++ [tag], callbacks := storeP ow r.callbacks tag cb }
  | .cancel tag => { r with tags := r.tags.filter (· ≠ tag) }
  | .brokerCancel tag => { r with tags := r.tags.filter (· ≠ tag) }
  | .deliver tag => { r with out := r.out ++ [(tag, r.callbacks.lookup tag)] }

/-- the code as it is -/
def step (r : R) (op : Op) : R := stepP Gen.Close.consumeStoreOverwrites r op
def run (ops : List Op) : R := ops.foldl step {}
def runP (ow : Bool) (ops : List Op) : R := ops.foldl (stepP ow) {}

/-! the specification -/
structure Spec where
  live : List String := []
  latest : String → Option Nat := fun _ => none
  out : List (String × Option Nat) := []

def Spec.step (s : Spec) : Op → Spec
  | .consume tag cb => { s with live := if tag ∈ s.live then s.live else s.live ++ [tag],
                                latest := fun t => if t = tag then some cb else s.latest t }
  | .cancel tag => { s with live := s.live.filter (· ≠ tag) }
  | .brokerCancel tag => { s with live := s.live.filter (· ≠ tag) }
  | .deliver tag => { s with out := s.out ++ [(tag, s.latest tag)] }

def Spec.run (ops : List Op) : Spec := ops.foldl Spec.step {}

end Amqp.TagReuse
