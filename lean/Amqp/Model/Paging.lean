import Amqp.Base.Paging
import Amqp.Gen.Paging
/-
  C20 model: `HTTPClient.list` (amqpstorm/management/http_client.py) and the listing wrappers
  `Queue/Exchange/Connection/Channel.list`, as the code is.

  Regenerated from the source (Gen/Paging.lean) and *used* here: first page, default of
  `.get('page', d)`, the `while` test, the next-page expression, the key written in the loop, the
  ordered parameter plan (`params[key] = value` with guard and value source) and the wrapper table.
  The order of the reply-consuming statements (which decides where a malformed reply raises and
  where the loop breaks) is hand-written against `expectedFirstSkeleton` / `expectedLoopSkeleton`;
  `Props/C20.lean` proves the generated skeletons equal to them.

  The server is any function of (index of the request, request): arbitrary deterministic histories,
  including servers whose content changes between requests, error replies and malformed JSON.
  The loop has no bound in the code; the model takes fuel and reports `outOfFuel` explicitly.
-/
namespace Amqp.Paging
open Amqp

/-! ## Requests -/

/-- insertion-ordered `params` dict -/
abbrev Params := List (String × PVal)

/-- `params[k] = v` -/
def Params.set (ps : Params) (k : String) (v : PVal) : Params :=
  if ps.any (fun kv => kv.1 == k) then ps.map (fun kv => if kv.1 == k then (k, v) else kv)
  else ps ++ [(k, v)]

def Params.get (ps : Params) (k : String) : Option PVal :=
  (ps.find? (fun kv => kv.1 == k)).map (·.2)

/-- the value of a string-valued parameter -/
def Params.getStr (ps : Params) (k : String) : Option String :=
  match ps.get k with
  | some (.str s) => some s
  | _ => none

/-- one `self._request('get', path, params=params)` -/
structure Request where
  path : String
  params : Params
deriving DecidableEq, Repr

/-- how `requests` puts a value on the wire (`None` values are dropped) -/
def PVal.wire : PVal → Option String
  | .none => Option.none
  | .str s => some s
  | .int n => some (toString n)
  | .bool b => some (if b then "True" else "False")

/-- the decoded query string, in order -/
def Request.query (r : Request) : List (String × String) :=
  r.params.filterMap fun kv => kv.2.wire.map (fun v => (kv.1, v))

/-! ## Replies -/

/-- a JSON object reply, reduced to the keys the client reads (absent key = none) -/
structure PageReply (α : Type) where
  page : Option Int
  pageCount : Option Int
  items : Option (List α)
deriving DecidableEq, Repr

inductive Reply (α : Type)
  | error                      -- `_request` raises ApiError / ApiConnectionError
  | listing (xs : List α)      -- a JSON array (what an unpaginated GET returns)
  | page (r : PageReply α)     -- a JSON object
deriving DecidableEq, Repr

/-- reply to the i-th request (0-based) of one `list` call -/
abbrev Server (α : Type) := Nat → Request → Reply α

inductive PyErr
  | apiError | keyError | typeError | attributeError
deriving DecidableEq, Repr

inductive Res (α : Type)
  | ok (xs : List α)           -- a list is returned
  | object (r : PageReply α)   -- the unpaginated branch returns whatever JSON came back
  | raised (e : PyErr)
  | outOfFuel                  -- the loop was still running when the fuel ran out
deriving DecidableEq, Repr

structure Outcome (α : Type) where
  requests : List Request
  result : Res α
deriving DecidableEq, Repr

def Outcome.push {α} (rq : Request) (o : Outcome α) : Outcome α :=
  { o with requests := rq :: o.requests }

/-! ## Parameter plan interpreter -/

/-- `str(use_regex)` for bools when the source does it, then `.lower()` / nothing -/
def flagText (boolToStr : Bool) : PyFlag → Option String
  | .str s => some s
  | .bool b => if boolToStr then some (if b then "True" else "False") else none
  | _ => none

def evalSrc (name : Option String) (flag : PyFlag) (page pageSize : Int) : Src → Except PyErr PVal
  | .nameArg => .ok (match name with | some s => .str s | none => .none)
  | .flagLower b2s =>
    match flagText b2s flag with
    | some s => .ok (.str s.toLower)
    | none => .error .attributeError       -- `.lower()` on a bool/int/None
  | .flagRaw b2s =>
    match flagText b2s flag, flag with
    | some s, _ => .ok (.str s)
    | none, .bool b => .ok (.bool b)
    | none, .int n => .ok (.int n)
    | none, _ => .ok .none
  | .pageVar => .ok (.int page)
  | .pageSizeArg => .ok (.int pageSize)
  | .constBool b => .ok (.bool b)
  | .constInt n => .ok (.int n)
  | .constStr s => .ok (.str s)

def guardHolds (name : Option String) (flag : PyFlag) : Guard → Bool
  | .always => true
  | .nameNotNone => name.isSome
  | .nameTruthy => match name with | some s => s != "" | none => false
  | .flagTruthy => flag.truthy

/-- run a list of `params[key] = value` statements -/
def applyRules (name : Option String) (flag : PyFlag) (page pageSize : Int) :
    List ParamRule → Params → Except PyErr Params
  | [], ps => .ok ps
  | r :: rs, ps =>
    if guardHolds name flag r.guard then
      match evalSrc name flag page pageSize r.src with
      | .ok v => applyRules name flag page pageSize rs (ps.set r.key v)
      | .error e => .error e
    else applyRules name flag page pageSize rs ps

/-- the params before the `page_size is None` test -/
def baseParams (name : Option String) (flag : PyFlag) : Except PyErr Params :=
  applyRules name flag 0 0 Gen.Paging.baseRules []

/-- the params of the first paginated request -/
def pagedParams (name : Option String) (flag : PyFlag) (pageSize : Int) (base : Params) : Except PyErr Params :=
  applyRules name flag Gen.Paging.firstPage pageSize Gen.Paging.pagedRules base

/-! ## The loop -/

def expectedFirstSkeleton : List String :=
  ["num=reply[page_count]", "cur=reply.get(page,default)", "results.extend(reply[items])"]

def expectedLoopSkeleton : List String :=
  ["set-param", "request", "cur=reply[page]", "num=reply[page_count]", "items=reply.get(items)",
   "if-not-items-break", "results.extend(items)"]

/-- `while num_pages > current_page: ...` with `params` = `ps` (mutated in place by the loop),
    `idx` requests made so far, `acc` = `results`.  Returns the requests made from here on. -/
def listLoop {α} (srv : Server α) (path : String) :
    (fuel : Nat) → (idx : Nat) → (ps : Params) → (cur numPages : Int) → (acc : List α) → Outcome α
  | 0, _, _, cur, np, acc =>
    if Gen.Paging.loopTest np cur then ⟨[], .outOfFuel⟩ else ⟨[], .ok acc⟩
  | fuel + 1, idx, ps, cur, np, acc =>
    if Gen.Paging.loopTest np cur then
      let ps' := ps.set Gen.Paging.loopPageKey (.int (Gen.Paging.nextPage cur))   -- set-param
      let rq : Request := ⟨path, ps'⟩
      Outcome.push rq <|
        match srv idx rq with                                                     -- request
        | .error => ⟨[], .raised .apiError⟩
        | .listing _ => ⟨[], .raised .typeError⟩      -- list indices must be integers
        | .page r =>
          match r.page with                                                       -- cur=reply[page]
          | none => ⟨[], .raised .keyError⟩
          | some pg =>
            match r.pageCount with                                                -- num=reply[page_count]
            | none => ⟨[], .raised .keyError⟩
            | some pc =>
              match r.items with                                                  -- items=reply.get(items)
              | none => ⟨[], .ok acc⟩                                             -- if-not-items-break
              | some [] => ⟨[], .ok acc⟩
              | some (x :: xs) => listLoop srv path fuel (idx + 1) ps' pg pc (acc ++ x :: xs)
    else ⟨[], .ok acc⟩

/-- `HTTPClient.list(path, name, page_size, use_regex)` against `srv` -/
def listAll {α} (srv : Server α) (fuel : Nat) (path : String) (name : Option String) (flag : PyFlag)
    (pageSize : Option Int) : Outcome α :=
  match baseParams name flag with
  | .error e => ⟨[], .raised e⟩
  | .ok base =>
    match pageSize with
    | none =>
      let rq : Request := ⟨path, base⟩
      Outcome.push rq <|
        match srv 0 rq with
        | .error => ⟨[], .raised .apiError⟩
        | .listing xs => ⟨[], .ok xs⟩
        | .page r => ⟨[], .object r⟩
    | some p =>
      match pagedParams name flag p base with
      | .error e => ⟨[], .raised e⟩
      | .ok ps =>
        let rq : Request := ⟨path, ps⟩
        Outcome.push rq <|
          match srv 0 rq with
          | .error => ⟨[], .raised .apiError⟩
          | .listing _ => ⟨[], .raised .typeError⟩
          | .page r =>
            match r.pageCount with                                     -- num=reply[page_count]
            | none => ⟨[], .raised .keyError⟩
            | some np =>
              let cur := r.page.getD Gen.Paging.pageDefault           -- cur=reply.get(page,default)
              match r.items with                                       -- results.extend(reply[items])
              | none => ⟨[], .raised .keyError⟩
              | some xs => listLoop srv path fuel 1 ps cur np xs

/-! ## Wrappers -/

def isUnreserved (c : Char) : Bool :=
  c.isAlphanum || c == '_' || c == '.' || c == '-' || c == '~'

def hexUpper (n : Nat) : Char := if n < 10 then Char.ofNat (48 + n) else Char.ofNat (55 + n)

/-- `urllib.parse.quote(s, '')` -/
def quote (s : String) : String :=
  String.ofList (s.toList.flatMap fun c =>
    if isUnreserved c then [c]
    else (String.singleton c).toUTF8.toList.flatMap fun b => ['%', hexUpper (b.toNat / 16), hexUpper (b.toNat % 16)])

def ListCall.path (c : ListCall) (vhost : String) : String :=
  if c.takesVhost then c.pathPre ++ (if c.quotesVhost then quote vhost else vhost) ++ c.pathPost
  else c.pathPre ++ c.pathPost

/-- the call site a wrapper reaches (`show_all` only exists where `showAllCall` does) -/
def Wrapper.call (w : Wrapper) (showAll : Bool) : ListCall :=
  match w.showAllCall with
  | some c => if showAll then c else w.mainCall
  | none => w.mainCall

/-- a wrapper's `list(virtual_host, show_all, name, page_size, use_regex)`; an absent keyword at
    the call site means `HTTPClient.list`'s own default (None / None / False) -/
def wrapperList {α} (w : Wrapper) (srv : Server α) (fuel : Nat) (vhost : String) (showAll : Bool)
    (name : Option String) (flag : PyFlag) (pageSize : Option Int) : Outcome α :=
  let c := w.call showAll
  listAll srv fuel (c.path vhost) (if c.passName then name else none)
    (if c.passRegex then flag else .bool false) (if c.passPageSize then pageSize else none)

/-! ## The well-behaved server (RabbitMQ's paginated listing) -/

/-- pages needed for `n` items of page size `p` -/
def pageCount (n p : Nat) : Nat := (n + p - 1) / p

/-- A server holding `xs` that honours `name`/`use_regex` through `sel name use_regex item`,
    answers a request without `page` with the whole (filtered) array and a paginated one with
    `{page, page_count, items}`; a page outside 1..max 1 page_count, or a page size ≤ 0, is an error. -/
def goodServer {α} (sel : Option String → Option String → α → Bool) (xs : List α) : Server α :=
  fun _ rq =>
    let ys := xs.filter (sel (rq.params.getStr "name") (rq.params.getStr "use_regex"))
    match rq.params.get "page", rq.params.get "page_size" with
    | none, none => .listing ys
    | some (.int k), some (.int p) =>
      let pc := pageCount ys.length p.toNat
      if 0 < p ∧ 1 ≤ k ∧ (k = 1 ∨ k ≤ pc) then
        .page ⟨some k, some pc, some ((ys.drop ((k.toNat - 1) * p.toNat)).take p.toNat)⟩
      else .error
    | _, _ => .error

end Amqp.Paging
