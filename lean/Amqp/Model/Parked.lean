/-
  C07 model: the errors parked on an open channel (returned mandatory messages) and the threads that
  raise them.  `Channel.check_for_exceptions` takes the head of the list and raises it; on an open
  channel the taking is ONE step (`list.pop(0)` - tie: `Props/C07.lean`, `skel_Channel_check_for_exceptions`),
  so however many threads use the channel at once, their takes happen in some order.
  The second half models the two-step variant (read the head, delete the head later) that the
  property forbids, for the negation witness.
-/
namespace Amqp.Parked

/-- one call on an open channel: `(what it raises, what stays parked)` -/
def take : List Nat → Option Nat × List Nat
  | [] => (none, [])
  | e :: r => (some e, r)

/-- `n` calls by any threads, in the order in which their pops happen: (raised, in order; still parked) -/
def takes : Nat → List Nat → List Nat × List Nat
  | 0, q => ([], q)
  | n + 1, q =>
    match take q with
    | (some e, r) => let p := takes n r; (e :: p.1, p.2)
    | (none, r) => takes n r

/-! two-step variant: `read t` = thread `t` looks at the head, `del t` = it deletes whatever is the
    head by then and raises what it looked at -/
inductive Op
  | read (t : Nat)
  | del (t : Nat)
deriving DecidableEq, Repr

structure S where
  q : List Nat
  looked : List (Nat × Nat) := []   -- thread ↦ the error it read
  raised : List Nat := []
deriving DecidableEq, Repr

def stepNA (s : S) : Op → S
  | .read t => match s.q with
    | e :: _ => { s with looked := (t, e) :: s.looked }
    | [] => s
  | .del t => match s.looked.lookup t with
    | some e => { s with q := s.q.drop 1, looked := s.looked.filter (·.1 ≠ t), raised := s.raised ++ [e] }
    | none => s

def runNA (s : S) (ops : List Op) : S := ops.foldl stepNA s

end Amqp.Parked
