import Amqp.Gen.Const
/-
  Error bookkeeping of a connection and one of its channels (`Stateful.exceptions`,
  `Connection.check_for_errors`, `Channel.check_for_errors`, `Channel.check_for_exceptions`),
  shared by the C07 / C11 / C13 models.
-/
namespace Amqp.ChanErr

/-- the library's exception classes, with the broker's reply code where there is one -/
inductive Err
  | conn (code : Option Nat)      -- AMQPConnectionError (code none = 'connection closed' / transport)
  | chan (code : Option Nat)      -- AMQPChannelError (code none = 'channel closed' / rpc time-out)
  | msg (code : Nat)              -- AMQPMessageError (returned message)
deriving DecidableEq, Repr

def Err.isMsg : Err → Bool
  | .msg _ => true
  | _ => false

structure E where
  connState : Nat := 3            -- Stateful: 0 CLOSED 1 CLOSING 2 OPENING 3 OPEN
  connErrs : List Err := []       -- connection.exceptions
  chState : Nat := 3
  chErrs : List Err := []         -- channel.exceptions
  connCloseCalls : Nat := 0       -- ghost: how often check_for_errors invoked Connection.close()
deriving DecidableEq, Repr

def closed : Nat := Gen.Const.stateClosed
def open_ : Nat := Gen.Const.stateOpen

/-- `Connection.check_for_errors`: `none` = returns; `some e` = raises e -/
def connCheck (e : E) : Option Err × E :=
  match e.connErrs with
  | [] =>
    if e.connState ≠ closed then (none, e)
    else
      let e' := { e with connErrs := [.conn none], connState := closed, connCloseCalls := e.connCloseCalls + 1 }
      (some (.conn none), e')
  | x :: _ => (some x, { e with connState := closed, connCloseCalls := e.connCloseCalls + 1 })

/-- `Channel.check_for_exceptions` -/
def chanCheckExceptions (e : E) : Option Err × E :=
  match e.chErrs with
  | [] => (none, e)
  | x :: rest => (some x, if e.chState = open_ then { e with chErrs := rest } else e)

/-- `Channel.check_for_errors` -/
def chanCheck (e : E) : Option Err × E :=
  match connCheck e with
  | (some x, e') => (some x, { e' with chState := closed })
  | (none, e') =>
    match chanCheckExceptions e' with
    | (some x, e'') => (some x, e'')
    | (none, e'') => if e''.chState = closed then (some (.chan none), e'') else (none, e'')

end Amqp.ChanErr
