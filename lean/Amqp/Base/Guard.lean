/-
  Syntax of the argument-guard tables (C16): what the translator emits into `Gen/C16.lean` and what
  `Model/Guards.lean` gives a semantics to.  Core Lean only.

  A Python value is abstracted to the MRO of its type (`type(v).__mro__`), an arbitrary list of
  classes; `isinstance(v, C)` is membership.  User-defined classes are `Cls.other n`, so the universe
  of classes (and of MROs) is unbounded.
-/
namespace Amqp

/-- Python classes that occur in guards, documentation and the value catalogue; `other n` is any
    further class (user subclasses, OrderedDict, Decimal, …) -/
inductive Cls where
  | str | bytes | int | bool | float | noneType | dict | list | tuple | function | type_ | object
  | other (n : Nat)
  deriving DecidableEq, Repr

/-- `type(v).__mro__` -/
abbrev Mro := List Cls

/-- exception classes distinguished by the model -/
inductive Err where
  | invalidArgument | channelError | connectionError | messageError | other
  deriving DecidableEq, Repr

/-- one step of an operation, in source order -/
inductive Step where
  /-- `if not isinstance(param, classes): raise AMQPInvalidArgument`; `x is None` is
      `isinstance(x, NoneType)`; `is_string`/`is_integer` are resolved to their class tuples -/
  | guard (param : String) (classes : List Cls)
  /-- `AMQPInvalidArgument` raised on a condition over `param` that is not an `isinstance` test
      (e.g. `issubclass(message_impl, BaseMessage)`) -/
  | opaqueGuard (param : String)
  /-- `if <state condition>: raise <another error>`; the condition reads client state only -/
  | stateRaise (err : Err) (cond : String)
  /-- anything else that is not a pure local computation: lock acquisition, `rpc_request`,
      `write_frame(s)`, attribute/`dict` stores, calls into other components -/
  | effect (kind : String)
  deriving DecidableEq, Repr

structure Param where
  name : String
  /-- classes named by the `:param <type> name:` line ([] = undocumented or not a checkable type) -/
  doc : List Cls
  /-- class of the declared default value, if any -/
  dflt : Option Cls
  /-- flows into a pamqp frame constructor / is used by the handshake or the socket -/
  transmitted : Bool
  deriving DecidableEq, Repr

structure OpSpec where
  name : String
  params : List Param
  steps : List Step
  deriving DecidableEq, Repr

def Cls.show : Cls → String
  | .str => "str" | .bytes => "bytes" | .int => "int" | .bool => "bool" | .float => "float"
  | .noneType => "NoneType" | .dict => "dict" | .list => "list" | .tuple => "tuple"
  | .function => "function" | .type_ => "type" | .object => "object" | .other n => s!"other{n}"

def Cls.parse (s : String) : Option Cls :=
  match s with
  | "str" => some .str | "bytes" => some .bytes | "int" => some .int | "bool" => some .bool
  | "float" => some .float | "NoneType" => some .noneType | "dict" => some .dict
  | "list" => some .list | "tuple" => some .tuple | "function" => some .function
  | "type" => some .type_ | "object" => some .object
  | _ => if s.startsWith "other" then (s.drop 5).toNat?.map .other else none

def Err.show : Err → String
  | .invalidArgument => "InvalidArgument" | .channelError => "ChannelError"
  | .connectionError => "ConnectionError" | .messageError => "MessageError" | .other => "Other"

def Err.parse : String → Option Err
  | "InvalidArgument" => some .invalidArgument | "ChannelError" => some .channelError
  | "ConnectionError" => some .connectionError | "MessageError" => some .messageError
  | "Other" => some .other | _ => none

end Amqp
