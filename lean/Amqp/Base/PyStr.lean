/-
  Python `str` as a list of code points, and the few `str`/`or` idioms the generated URI kernels
  (Gen/Uri.lean) use.  Core Lean only.
-/
namespace Amqp

/-- a Python `str`: a sequence of code points (Lean `Char` excludes lone surrogates) -/
abbrev Str := List Char

/-- `x or d` where `x` is `None` or a `str` (`None` and `''` are falsy) -/
def strOr (x : Option Str) (d : Str) : Str :=
  match x with
  | none => d
  | some s => if s = [] then d else s

/-- `s or d` on a `str` -/
def strOrS (s d : Str) : Str := if s = [] then d else s

/-- `x or d` where `x` is `None` or an `int` (`None` and `0` are falsy) -/
def natOr (x : Option Nat) (d : Nat) : Nat :=
  match x with
  | none => d
  | some n => if n = 0 then d else n

/-- a value stored in `Connection.parameters` that came out of the query string: either still the
    text of the option or the result of `int(...)` -/
inductive OptVal
  | int (i : Int)
  | str (s : Str)
deriving DecidableEq, Repr

/-- `int(kwargs.pop(key, [dflt])[0])` / `kwargs.pop(key, [dflt])[0]` as written in the source -/
structure OptSpec where
  key : Str
  dflt : OptVal
  toInt : Bool
deriving DecidableEq, Repr

end Amqp
