/-
  Bytes, big-endian integers.  Core Lean only (no Mathlib) so that the driver links.
-/
namespace Amqp

abbrev Bytes := List UInt8

def be16 (n : Nat) : Bytes := [UInt8.ofNat (n / 256), UInt8.ofNat (n % 256)]

def be32 (n : Nat) : Bytes :=
  [UInt8.ofNat (n / 16777216), UInt8.ofNat (n / 65536 % 256),
   UInt8.ofNat (n / 256 % 256), UInt8.ofNat (n % 256)]

def dec16 (a b : UInt8) : Nat := a.toNat * 256 + b.toNat

def dec32 (a b c d : UInt8) : Nat :=
  a.toNat * 16777216 + b.toNat * 65536 + c.toNat * 256 + d.toNat

theorem dec16_be16 (n : Nat) (h : n < 65536) :
    dec16 (UInt8.ofNat (n / 256)) (UInt8.ofNat (n % 256)) = n := by
  simp only [dec16, UInt8.toNat_ofNat']
  omega

theorem dec32_be32 (n : Nat) (h : n < 4294967296) :
    dec32 (UInt8.ofNat (n / 16777216)) (UInt8.ofNat (n / 65536 % 256))
      (UInt8.ofNat (n / 256 % 256)) (UInt8.ofNat (n % 256)) = n := by
  simp only [dec32, UInt8.toNat_ofNat']
  omega

@[simp] theorem be16_length (n : Nat) : (be16 n).length = 2 := rfl
@[simp] theorem be32_length (n : Nat) : (be32 n).length = 4 := rfl

/-- hex rendering used by the line protocol -/
def hexDigit (n : Nat) : Char :=
  if n < 10 then Char.ofNat (48 + n) else Char.ofNat (87 + n)

def toHex (b : Bytes) : String :=
  String.ofList (b.flatMap fun x => [hexDigit (x.toNat / 16), hexDigit (x.toNat % 16)])

def hexVal (c : Char) : Option Nat :=
  if '0' ≤ c ∧ c ≤ '9' then some (c.toNat - 48)
  else if 'a' ≤ c ∧ c ≤ 'f' then some (c.toNat - 87)
  else if 'A' ≤ c ∧ c ≤ 'F' then some (c.toNat - 55)
  else none

def ofHexChars : List Char → Option Bytes
  | [] => some []
  | [_] => none
  | a :: b :: rest => do
      let x ← hexVal a
      let y ← hexVal b
      let r ← ofHexChars rest
      pure (UInt8.ofNat (x * 16 + y) :: r)

/-- "-" denotes the empty byte string on the wire protocol -/
def ofHex (s : String) : Option Bytes :=
  if s = "-" then some [] else ofHexChars s.toList

end Amqp
