/-
  Row types of the Management API endpoint table (`Gen/Mgmt.lean`, regenerated from
  `amqpstorm/management/*.py` on every run).  Core Lean only.
-/
namespace Amqp.Mgmt

/-- How one `%s` of a path template is filled. -/
structure Arg where
  /-- `some safe`: the value goes through `quote(value, safe)`; `none`: interpolated as it is -/
  enc : Option String
  /-- the value: `a or b or …` over these parameters (a single name for a plain parameter) -/
  alts : List String
deriving DecidableEq, Repr

/-- One HTTP call site of a public Management API method, under the path condition `guard`. -/
structure Endpoint where
  /-- `Class.method` -/
  op : String
  /-- path condition in canonical source text (`""` = unconditional) -/
  guard : String
  /-- `get`/`put`/`post`/`delete` (`HTTPClient.<verb>`), `list` (`HTTPClient.list`), or
      `call:<Class.method>` when the method delegates to another public method -/
  verb : String
  /-- path template (value of the module constant), `%s` place-holders -/
  template : String
  args : List Arg
  /-- `payload=json.dumps({key: value, …})`: key ↦ canonical value expression over the parameters -/
  body : List (String × String)
  headers : List (String × String)
  /-- keyword arguments passed through to `HTTPClient.list` / the delegate -/
  pass : List (String × String)
  /-- `""` when the HTTP client's result is returned as it is, otherwise what is done to it -/
  post : String
deriving DecidableEq, Repr

end Amqp.Mgmt
