/-
  Types shared by the generated tables of `Gen/Paging.lean` and the model `Model/Paging.lean`
  (management listings, property C20).  Core Lean only.
-/
namespace Amqp.Paging

/-- the Python values a caller can pass as `use_regex` -/
inductive PyFlag
  | none
  | bool (b : Bool)
  | int (n : Int)
  | str (s : String)
deriving DecidableEq, Repr

/-- Python truthiness -/
def PyFlag.truthy : PyFlag → Bool
  | .none => false
  | .bool b => b
  | .int n => n != 0
  | .str s => s != ""

/-- a value stored in the `params` dict handed to `requests` -/
inductive PVal
  | none                -- Python None: `requests` drops the parameter
  | str (s : String)
  | int (n : Int)
  | bool (b : Bool)     -- rendered by `requests` as "True"/"False"
deriving DecidableEq, Repr

/-- condition under which `HTTPClient.list` stores a parameter -/
inductive Guard
  | always
  | nameNotNone         -- `if name is not None:`
  | nameTruthy          -- `if name:`
  | flagTruthy          -- `if use_regex:`
deriving DecidableEq, Repr

/-- where the stored value comes from -/
inductive Src
  | nameArg                         -- `name`
  | flagLower (boolToStr : Bool)    -- `use_regex.lower()`; bools go through `str()` first iff `boolToStr`
  | flagRaw (boolToStr : Bool)      -- `use_regex` as is (after the optional `str()` of bools)
  | pageVar                         -- the current page variable
  | pageSizeArg                     -- `page_size`
  | constBool (b : Bool)
  | constInt (n : Int)
  | constStr (s : String)
deriving DecidableEq, Repr

/-- one `params[key] = value` statement of `HTTPClient.list` -/
structure ParamRule where
  key : String
  guard : Guard
  src : Src
deriving DecidableEq, Repr

/-- one `self.http_client.list(...)` call site of a listing wrapper -/
structure ListCall where
  pathPre : String          -- path template up to its `%s` (the whole path when there is none)
  pathPost : String         -- path template after the `%s`
  takesVhost : Bool         -- the template has one `%s`, filled with `virtual_host`
  quotesVhost : Bool        -- ... after `quote(virtual_host, '')`
  passName : Bool           -- `name=name`       (false: keyword absent, HTTPClient.list's default applies)
  passRegex : Bool          -- `use_regex=use_regex`
  passPageSize : Bool       -- `page_size=page_size`
deriving DecidableEq, Repr

/-- a public `list` method of a management handler class -/
structure Wrapper where
  op : String                      -- e.g. "queue.list"
  defaultPageSize : Option Int     -- default of the `page_size` parameter (none = None)
  defaultVhost : Option String     -- default of `virtual_host` (none = no such parameter)
  showAllCall : Option ListCall    -- call made when `show_all` is truthy (none = no such parameter)
  mainCall : ListCall
deriving DecidableEq, Repr

end Amqp.Paging
