/-
  Python integer semantics used by the generated kernels (Gen/*.lean).  Core Lean only.
-/
namespace Amqp

/-- `a or b` on Python ints (0 is falsy) -/
def pyOr (a b : Int) : Int := if a ≠ 0 then a else b
/-- `a and b` on Python ints -/
def pyAnd (a b : Int) : Int := if a ≠ 0 then b else a
/-- `a // b` for b ≠ 0 (floor division); b = 0 raises ZeroDivisionError in Python: totalised to 0,
    every use site proves the divisor positive. -/
def pyFloorDiv (a b : Int) : Int := Int.fdiv a b
/-- `int(math.ceil(a / float(b)))`: exact ceiling for |a|,|b| < 2^53 (IEEE double), b > 0.
    b ≤ 0 is totalised (b = 0 raises ZeroDivisionError in Python); use sites prove b > 0. -/
def pyCeilDiv (a b : Int) : Int := if b > 0 then (a + b - 1) / b else 0

end Amqp
