import Amqp.Base.Bytes
/-
  Python value ADT used by the text-handling model (C17).  Core Lean only.

  * `PyKey`: the hashable values that occur as dictionary keys in AMQP tables and in the harness
    (text, bytes, ints).  Python's `1 == True == 1.0` key identification is outside the model: the
    generators produce no bool/float/None/tuple keys (stated as an assumption in the evidence).
  * `PyVal.ntuple tag xs`: an instance of a *subclass* of `tuple` (`time.struct_time`, which is what
    pamqp 2.x produces for the `timestamp` property, or a namedtuple): `isinstance(v, tuple)` holds,
    `type(v) is tuple` does not.
  * `PyVal.float r`: opaque, identified by `repr`; `PyVal.other tag`: any other object (datetime, …).
  * dicts are insertion-ordered association lists (CPython ≥ 3.7); `dictSet` is `d[k] = v`.
-/
namespace Amqp

inductive PyKey where
  | str (s : String)
  | bytes (b : Bytes)
  | int (i : Int)
deriving Repr, DecidableEq, Inhabited

inductive PyVal where
  | none
  | bool (b : Bool)
  | int (i : Int)
  | float (repr : String)
  | str (s : String)
  | bytes (b : Bytes)
  | list (xs : List PyVal)
  | tuple (xs : List PyVal)
  | ntuple (tag : String) (xs : List PyVal)
  | dict (kvs : List (PyKey × PyVal))
  | other (tag : String)
deriving Repr, Inhabited

abbrev Dict := List (PyKey × PyVal)

/-- the classes the anchored code tests with `isinstance` -/
inductive Kind where
  | dict | list | tuple | bytes | str
deriving Repr, DecidableEq

/-- the decoders a container element can be handed to -/
inductive Dec where
  | decDict | decList | decTuple | scalar
deriving Repr, DecidableEq

/-- `isinstance(v, K)` (a `struct_time`/namedtuple *is* a tuple) -/
def PyVal.isInstance : PyVal → Kind → Bool
  | .dict _, .dict => true
  | .list _, .list => true
  | .tuple _, .tuple => true
  | .ntuple _ _, .tuple => true
  | .bytes _, .bytes => true
  | .str _, .str => true
  | _, _ => false

/-- Python truthiness -/
def PyVal.truthy : PyVal → Bool
  | .none => false
  | .bool b => b
  | .int i => i ≠ 0
  | .float r => r ≠ "0.0" && r ≠ "-0.0"
  | .str s => s ≠ ""
  | .bytes b => !b.isEmpty
  | .list xs => !xs.isEmpty
  | .tuple xs => !xs.isEmpty
  | .ntuple _ xs => !xs.isEmpty
  | .dict kvs => !kvs.isEmpty
  | .other _ => true

def PyKey.toVal : PyKey → PyVal
  | .str s => .str s
  | .bytes b => .bytes b
  | .int i => .int i

/-- `k in d` -/
def dictHas (d : Dict) (k : PyKey) : Bool := d.any (fun p => p.1 = k)

/-- `d.get(k)` (`None` when absent) -/
def dictGet (d : Dict) (k : PyKey) : PyVal :=
  match d.find? (fun p => p.1 = k) with
  | some p => p.2
  | none => .none

/-- `d[k] = v`: an existing key keeps its position, a new key is appended -/
def dictSet : Dict → PyKey → PyVal → Dict
  | [], k, v => [(k, v)]
  | (k', v') :: rest, k, v => if k' = k then (k', v) :: rest else (k', v') :: dictSet rest k v

/-- `bytes.decode('utf-8')`; `none` = UnicodeDecodeError.  Lean's validity predicate is
    "the UTF-8 encoding of a list of Unicode scalar values" (strict, like CPython). -/
def utf8Decode (b : Bytes) : Option String := String.fromUTF8? ⟨b.toArray⟩

/-- `str.encode('utf-8')` -/
def utf8Encode (s : String) : Bytes := s.toUTF8.data.toList

end Amqp
