/-
  Python dicts as association lists (unique keys by construction: `dset` removes the old binding).
  Insertion order is not modelled (no anchored code depends on it except `list(self._request)`
  iteration in `remove_request`, whose result is order-independent).
-/
namespace Amqp.Dict

variable {K V : Type} [DecidableEq K]

def get (l : List (K × V)) (k : K) : Option V := (l.find? (fun p => p.1 = k)).map (·.2)
def del (l : List (K × V)) (k : K) : List (K × V) := l.filter (fun p => p.1 ≠ k)
def set (l : List (K × V)) (k : K) (v : V) : List (K × V) := (k, v) :: del l k
def has (l : List (K × V)) (k : K) : Bool := (get l k).isSome

theorem get_del_same (l : List (K × V)) (k : K) : get (del l k) k = none := by
  induction l with
  | nil => rfl
  | cons p l ih =>
    by_cases h : p.1 = k
    · simp only [del] at ih ⊢; rw [List.filter_cons_of_neg (by simp [h])]; exact ih
    · simp only [del, get] at ih ⊢
      rw [List.filter_cons_of_pos (by simp [h]), List.find?_cons_of_neg (by simp [h])]; exact ih

theorem get_del_ne (l : List (K × V)) (k c : K) (h : c ≠ k) : get (del l k) c = get l c := by
  induction l with
  | nil => rfl
  | cons p l ih =>
    by_cases hp : p.1 = k
    · simp only [del, get] at ih ⊢
      rw [List.filter_cons_of_neg (by simp [hp]), ih, List.find?_cons_of_neg (by simp [hp]; exact fun e => h e.symm)]
    · simp only [del, get] at ih ⊢
      rw [List.filter_cons_of_pos (by simp [hp])]
      by_cases hc : p.1 = c
      · rw [List.find?_cons_of_pos (by simp [hc]), List.find?_cons_of_pos (by simp [hc])]
      · rw [List.find?_cons_of_neg (by simp [hc]), List.find?_cons_of_neg (by simp [hc]), ih]

theorem get_set_same (l : List (K × V)) (k : K) (v : V) : get (set l k v) k = some v := by
  simp [set, get]

theorem get_set_ne (l : List (K × V)) (k c : K) (v : V) (h : c ≠ k) : get (set l k v) c = get l c := by
  simp only [set, get]
  rw [List.find?_cons_of_neg (by simp; exact fun e => h e.symm)]
  exact get_del_ne l k c h

theorem get_nil (k : K) : get ([] : List (K × V)) k = none := rfl

end Amqp.Dict
