import Amqp.Model.Handshake
/-
  Helper lemmas for C09: the tokenizer meets its declarative specification; field-wise effects of
  the `on_frame` handlers; invariants of the reader/caller interleaving.
-/
namespace Amqp.Handshake
open Amqp Amqp.Gen.Handshake

/-! ## `tokens` = the maximal separator-free blocks -/

/-- `t` is a non-empty separator-free block of `s`, delimited on each side by a separator or by the
    end of the string: the declarative meaning of "`t` is one of the mechanisms in the list `s`" -/
def IsToken (sep : Char → Bool) (s t : List Char) : Prop :=
  t ≠ [] ∧ (∀ c ∈ t, sep c = false) ∧ ∃ pre post, s = pre ++ t ++ post ∧
    (pre = [] ∨ ∃ p x, pre = p ++ [x] ∧ sep x = true) ∧
    (post = [] ∨ ∃ x q, post = x :: q ∧ sep x = true)

variable (sep : Char → Bool)

theorem takeTok_append_dropTok (s : List Char) : takeTok sep s ++ dropTok sep s = s := by
  induction s with
  | nil => rfl
  | cons c cs ih => by_cases h : sep c <;> simp [takeTok, dropTok, h, ih]

theorem takeTok_nosep (s : List Char) : ∀ c ∈ takeTok sep s, sep c = false := by
  induction s with
  | nil => simp [takeTok]
  | cons c cs ih =>
    by_cases h : sep c
    · simp [takeTok, h]
    · simp only [takeTok, h, Bool.false_eq_true, ↓reduceIte, List.mem_cons]
      rintro x (rfl | hx)
      · simpa using h
      · exact ih x hx

theorem dropTok_head (s : List Char) :
    dropTok sep s = [] ∨ ∃ x q, dropTok sep s = x :: q ∧ sep x = true := by
  induction s with
  | nil => simp [dropTok]
  | cons c cs ih =>
    by_cases h : sep c
    · right; exact ⟨c, cs, by simp [dropTok, h], h⟩
    · simpa [dropTok, h] using ih

theorem dropTok_length_le (s : List Char) : (dropTok sep s).length ≤ s.length := by
  induction s with
  | nil => simp [dropTok]
  | cons c cs ih =>
    by_cases h : sep c
    · simp [dropTok, h]
    · simp only [dropTok, h, Bool.false_eq_true, ↓reduceIte, List.length_cons]; omega

theorem takeTok_append_of_nosep (a b : List Char) (ha : ∀ c ∈ a, sep c = false)
    (hb : b = [] ∨ ∃ x q, b = x :: q ∧ sep x = true) : takeTok sep (a ++ b) = a := by
  induction a with
  | nil =>
    rcases hb with rfl | ⟨x, q, rfl, hx⟩
    · rfl
    · simp [takeTok, hx]
  | cons c cs ih =>
    have hc : sep c = false := ha c (by simp)
    simp only [List.cons_append, takeTok, hc, Bool.false_eq_true, ↓reduceIte, List.cons.injEq, true_and]
    exact ih (fun x hx => ha x (by simp [hx]))

theorem dropTok_append_sep (p r : List Char) (x : Char) (hx : sep x = true) :
    ∃ p', dropTok sep (p ++ [x] ++ r) = p' ++ [x] ++ r := by
  induction p with
  | nil => exact ⟨[], by simp [dropTok, hx]⟩
  | cons a p ih =>
    by_cases h : sep a
    · exact ⟨a :: p, by simp [dropTok, h]⟩
    · obtain ⟨p', hp'⟩ := ih
      exact ⟨p', by simpa [dropTok, h] using hp'⟩

theorem mem_tokensFuel_sound (t : List Char) :
    ∀ n s, t ∈ tokensFuel sep n s → IsToken sep s t := by
  intro n
  induction n with
  | zero => intro s h; simp [tokensFuel] at h
  | succ n ih =>
    intro s h
    cases s with
    | nil => simp [tokensFuel] at h
    | cons c cs =>
      by_cases hc : sep c
      · simp only [tokensFuel, hc, ↓reduceIte] at h
        obtain ⟨hne, hns, pre, post, heq, hl, hr⟩ := ih cs h
        refine ⟨hne, hns, c :: pre, post, by simp [heq], ?_, hr⟩
        right
        rcases hl with rfl | ⟨p, x, rfl, hx⟩
        · exact ⟨[], c, rfl, hc⟩
        · exact ⟨c :: p, x, rfl, hx⟩
      · simp only [tokensFuel, hc, Bool.false_eq_true, ↓reduceIte, List.mem_cons] at h
        have hcf : sep c = false := by simpa using hc
        rcases h with rfl | h
        · refine ⟨by simp, ?_, [], dropTok sep cs, ?_, Or.inl rfl, dropTok_head sep cs⟩
          · intro x hx
            rcases List.mem_cons.1 hx with rfl | hx
            · exact hcf
            · exact takeTok_nosep sep cs x hx
          · simp [takeTok_append_dropTok]
        · obtain ⟨hne, hns, pre, post, heq, hl, hr⟩ := ih _ h
          refine ⟨hne, hns, c :: takeTok sep cs ++ pre, post, ?_, ?_, hr⟩
          · calc c :: cs = c :: (takeTok sep cs ++ dropTok sep cs) := by rw [takeTok_append_dropTok]
              _ = c :: takeTok sep cs ++ pre ++ t ++ post := by rw [heq]; simp [List.append_assoc]
          · right
            rcases hl with rfl | ⟨p, x, rfl, hx⟩
            · -- the block would start right at the separator that ended the previous one
              exfalso
              cases t with
              | nil => exact hne rfl
              | cons t0 ts =>
                have h0 : sep t0 = false := hns t0 (by simp)
                rcases dropTok_head sep cs with hd | ⟨x, q, hd, hx⟩
                · rw [hd] at heq; simp at heq
                · rw [hd] at heq
                  simp only [List.nil_append, List.cons_append, List.cons.injEq] at heq
                  rw [heq.1] at hx; rw [hx] at h0; cases h0
            · exact ⟨c :: takeTok sep cs ++ p, x, by simp [List.append_assoc], hx⟩

theorem mem_tokensFuel_complete (t post : List Char) (hne : t ≠ []) (hns : ∀ c ∈ t, sep c = false)
    (hr : post = [] ∨ ∃ x q, post = x :: q ∧ sep x = true) :
    ∀ n pre, (pre ++ t ++ post).length ≤ n → (pre = [] ∨ ∃ p x, pre = p ++ [x] ∧ sep x = true) →
      t ∈ tokensFuel sep n (pre ++ t ++ post) := by
  intro n
  induction n with
  | zero =>
    intro pre hlen _
    cases t with
    | nil => exact absurd rfl hne
    | cons a b => simp at hlen
  | succ n ih =>
    intro pre hlen hl
    cases pre with
    | nil =>
      cases t with
      | nil => exact absurd rfl hne
      | cons c t' =>
        have hc : sep c = false := hns c (by simp)
        have htk : takeTok sep (t' ++ post) = t' :=
          takeTok_append_of_nosep sep t' post (fun x hx => hns x (by simp [hx])) hr
        simp [tokensFuel, hc, htk]
    | cons c pre' =>
      have hl' : pre' = [] ∨ ∃ p x, pre' = p ++ [x] ∧ sep x = true := by
        rcases hl with h | ⟨p, x, hp, hx⟩
        · cases h
        · cases p with
          | nil => left; simp at hp; exact hp.2
          | cons p0 p' => right; simp at hp; exact ⟨p', x, hp.2, hx⟩
      by_cases hc : sep c
      · simp only [List.cons_append, tokensFuel, hc, ↓reduceIte]
        apply ih pre' _ hl'
        simp at hlen ⊢; omega
      · simp only [List.cons_append, tokensFuel, hc, Bool.false_eq_true, ↓reduceIte, List.mem_cons]
        right
        -- `pre'` ends in a separator, so the block after the current one still contains `t`
        rcases hl' with rfl | ⟨p, x, rfl, hx⟩
        · exfalso
          rcases hl with h | ⟨p, x, hp, hx⟩
          · cases h
          · cases p with
            | nil => simp at hp; rw [hp] at hc; exact hc hx
            | cons p0 p' => simp at hp
        · obtain ⟨p', hp'⟩ := dropTok_append_sep sep p (t ++ post) x hx
          have e : p ++ [x] ++ t ++ post = p ++ [x] ++ (t ++ post) := by simp [List.append_assoc]
          rw [e, hp']
          have e2 : p' ++ [x] ++ (t ++ post) = p' ++ [x] ++ t ++ post := by simp [List.append_assoc]
          rw [e2]
          apply ih (p' ++ [x]) _ (Or.inr ⟨p', x, rfl, hx⟩)
          have hle := dropTok_length_le sep (p ++ [x] ++ (t ++ post))
          rw [hp'] at hle
          simp [List.append_assoc] at hlen hle ⊢
          omega

/-- the tokenizer returns exactly the delimited separator-free blocks -/
theorem mem_tokens_iff (s t : List Char) : t ∈ tokens sep s ↔ IsToken sep s t := by
  constructor
  · exact mem_tokensFuel_sound sep t _ s
  · rintro ⟨hne, hns, pre, post, rfl, hl, hr⟩
    exact mem_tokensFuel_complete sep t post hne hns hr _ pre (Nat.le_refl _) hl

/-! ## The dispatch chain as generated -/

theorem actsFor_heartbeat : actsFor .heartbeat = [.ret] := by decide
theorem actsFor_close : actsFor .close = [.closeConnection] := by decide
theorem actsFor_closeOk : actsFor .closeOk = [.closeConnectionOk] := by decide
theorem actsFor_blocked : actsFor .blocked = [.blocked] := by decide
theorem actsFor_unblocked : actsFor .unblocked = [.unblocked] := by decide
theorem actsFor_openOk : actsFor .openOk = [.setState Gen.Const.stateOpen] := by decide
theorem actsFor_start : actsFor .start = [.storeServerProps, .sendStartOk] := by decide
theorem actsFor_tune : actsFor .tune = [.sendTuneOk, .sendOpen] := by decide
theorem actsFor_other : actsFor .other = [] := by decide

/-- only the OpenOk branch contains a state change to OPEN; Close/CloseOk go to CLOSED -/
theorem closeState_ne_open : closeState ≠ Gen.Const.stateOpen := by decide
theorem closeOkState_ne_open : closeOkState ≠ Gen.Const.stateOpen := by decide

/-! ## Field-wise effects of the handlers -/

theorem sendStartOk_fields (cfg : Config) (st : St) (m : Offer) :
    (sendStartOk cfg st m).state = st.state ∧ (sendStartOk cfg st m).seen = st.seen ∧
    (sendStartOk cfg st m).elapsedMs = st.elapsedMs := by
  unfold sendStartOk
  split
  · simp [write]
  · split <;> simp
  · simp

theorem sendTuneOk_fields (cfg : Config) (st : St) (c f h : Int) :
    (sendTuneOk cfg st c f h).state = st.state ∧ (sendTuneOk cfg st c f h).seen = st.seen ∧
    (sendTuneOk cfg st c f h).elapsedMs = st.elapsedMs := by
  simp [sendTuneOk, write]

theorem closeConnection_fields (st : St) (code : Int) :
    (closeConnection st code).state = closeState ∧ (closeConnection st code).seen = st.seen ∧
    (closeConnection st code).elapsedMs = st.elapsedMs := by
  unfold closeConnection
  split <;> simp

/-- one handler action never touches the ghost history or the clock, and leaves the state alone,
    sets it to a non-OPEN value, or is the `setState` of the table -/
theorem exec_fields (cfg : Config) (f : BFrame) (st : St) (a : HAct) :
    (exec cfg f st a).seen = st.seen ∧ (exec cfg f st a).elapsedMs = st.elapsedMs ∧
    ((exec cfg f st a).state = st.state ∨ (exec cfg f st a).state ≠ Gen.Const.stateOpen ∨
      a = .setState Gen.Const.stateOpen) := by
  unfold exec
  split
  · simp
  · split
    · simp
    · rename_i code
      have := closeConnection_fields st code
      exact ⟨this.2.1, this.2.2, Or.inr (Or.inl (by rw [this.1]; exact closeState_ne_open))⟩
    · exact ⟨rfl, rfl, Or.inr (Or.inl closeOkState_ne_open)⟩
    · simp
    · simp
    · rename_i s
      refine ⟨rfl, rfl, ?_⟩
      by_cases hs : s = Gen.Const.stateOpen
      · right; right; rw [hs]
      · right; left; exact hs
    · simp
    · rename_i m
      have := sendStartOk_fields cfg st m
      exact ⟨this.2.1, this.2.2, Or.inl this.1⟩
    · rename_i c fm h
      have := sendTuneOk_fields cfg st c fm h
      exact ⟨this.2.1, this.2.2, Or.inl this.1⟩
    · simp [write]
    · simp

theorem foldl_exec_fields (cfg : Config) (f : BFrame) (acts : List HAct) :
    ∀ st : St, (acts.foldl (exec cfg f) st).seen = st.seen ∧
      (acts.foldl (exec cfg f) st).elapsedMs = st.elapsedMs ∧
      ((acts.foldl (exec cfg f) st).state = Gen.Const.stateOpen →
        st.state = Gen.Const.stateOpen ∨ HAct.setState Gen.Const.stateOpen ∈ acts) := by
  induction acts with
  | nil => intro st; simp
  | cons a as ih =>
    intro st
    obtain ⟨h1, h2, h3⟩ := ih (exec cfg f st a)
    obtain ⟨e1, e2, e3⟩ := exec_fields cfg f st a
    refine ⟨by simp [List.foldl, h1, e1], by simp [List.foldl, h2, e2], ?_⟩
    intro hopen
    rcases h3 (by simpa [List.foldl] using hopen) with h | h
    · rcases e3 with e | e | e
      · left; rw [← e]; exact h
      · exact absurd h e
      · right; simp [e]
    · right; simp [h]

/-- `on_frame` appends the frame to the history, leaves the clock alone, and can only produce the
    state OPEN (from another state) when the frame is Connection.OpenOk -/
theorem onFrame_fields (cfg : Config) (st : St) (f : BFrame) :
    (onFrame cfg st f).seen = st.seen ++ [f] ∧ (onFrame cfg st f).elapsedMs = st.elapsedMs ∧
    ((onFrame cfg st f).state = Gen.Const.stateOpen → st.state = Gen.Const.stateOpen ∨ f = .openOk) := by
  unfold onFrame
  obtain ⟨h1, h2, h3⟩ := foldl_exec_fields cfg f (actsFor f.name) { st with seen := st.seen ++ [f] }
  refine ⟨h1, h2, ?_⟩
  intro ho
  rcases h3 ho with h | h
  · left; exact h
  · right
    cases f <;> simp [BFrame.name, actsFor_start, actsFor_tune, actsFor_close, actsFor_closeOk,
      actsFor_blocked, actsFor_unblocked, actsFor_heartbeat, actsFor_other] at h ⊢

/-! ## The interleaving -/

/-- the frames an action list hands to `Channel0.on_frame` -/
def delivered : List Act → List BFrame
  | [] => []
  | .deliver f :: as => f :: delivered as
  | _ :: as => delivered as

def countPolls : List Act → Nat
  | [] => 0
  | .poll _ :: as => countPolls as + 1
  | _ :: as => countPolls as

theorem mem_delivered {f : BFrame} : ∀ {as : List Act}, f ∈ delivered as ↔ Act.deliver f ∈ as
  | [] => by simp [delivered]
  | a :: as => by
    cases a <;> simp [delivered, mem_delivered (as := as)]

theorem checkForErrors_cases (st : St) :
    (checkForErrors st = (st, none) ∧ st.excs = [] ∧ st.state ≠ Gen.Const.stateClosed) ∨
    (∃ e, (checkForErrors st).2 = some e ∧ (checkForErrors st).1.state = Gen.Const.stateClosed ∧
      (checkForErrors st).1.seen = st.seen ∧ (checkForErrors st).1.sent = st.sent ∧
      ((∃ es, st.excs = e :: es) ∨ (st.excs = [] ∧ st.state = Gen.Const.stateClosed ∧ e = .closed))) := by
  unfold checkForErrors
  cases hx : st.excs with
  | nil =>
    by_cases hs : st.state = Gen.Const.stateClosed
    · right; exact ⟨.closed, by simp [hs], by simp [hs], by simp [hs], by simp [hs], Or.inr ⟨rfl, hs, rfl⟩⟩
    · left; simp [hs]
  | cons e es => right; exact ⟨e, by simp, by simp, by simp, by simp, Or.inl ⟨es, rfl⟩⟩

/-- what one step does to the history, and when it can leave the state OPEN or report success -/
theorem step_fields (cfg : Config) (st : St) (a : Act) :
    ((step cfg st a).1.seen = st.seen ∨ ∃ f, a = .deliver f ∧ (step cfg st a).1.seen = st.seen ++ [f]) ∧
    ((step cfg st a).1.state = Gen.Const.stateOpen →
      st.state = Gen.Const.stateOpen ∨ a = .deliver .openOk) ∧
    ((step cfg st a).2 = .opened → st.state = Gen.Const.stateOpen ∧ (step cfg st a).1 = st) := by
  cases a with
  | deliver f =>
    by_cases ha : st.readerAlive
    · obtain ⟨h1, _, h3⟩ := onFrame_fields cfg st f
      refine ⟨Or.inr ⟨f, rfl, by simp [step, ha, h1]⟩, ?_, by simp [step, ha]⟩
      intro ho
      rcases h3 (by simpa [step, ha] using ho) with h | h
      · exact Or.inl h
      · exact Or.inr (by rw [h])
    · simp only [step, ha]
      exact ⟨Or.inl rfl, fun h => Or.inl h, by simp⟩
  | eof =>
    by_cases ha : st.readerAlive <;> by_cases hs : cfg.ioShared <;> simp [step, ha, hs]
  | poll extra =>
    by_cases ho : st.state = Gen.Const.stateOpen
    · simp [step, ho]
    · rcases checkForErrors_cases st with ⟨hc, _, _⟩ | ⟨e, hc, hcs, hseen, _, _⟩
      · simp only [step, ho, ↓reduceIte, hc]
        split <;> simp [ho]
      · have : checkForErrors st = ((checkForErrors st).1, some e) := by rw [← hc]
        simp only [step, ho, ↓reduceIte]
        rw [this]
        refine ⟨Or.inl hseen, ?_, by simp⟩
        intro h
        rw [hcs] at h
        exact absurd h (by decide)

theorem run_fields (cfg : Config) : ∀ (as : List Act) (st : St),
    (∀ f ∈ (run cfg st as).1.seen, f ∈ st.seen ∨ f ∈ delivered as) ∧
    ((run cfg st as).1.state = Gen.Const.stateOpen →
      st.state = Gen.Const.stateOpen ∨ BFrame.openOk ∈ delivered as) ∧
    ((run cfg st as).2 = .opened → (run cfg st as).1.state = Gen.Const.stateOpen)
  | [], st => by
    simp only [run]
    exact ⟨fun f hf => Or.inl hf, fun h => Or.inl h, by simp⟩
  | a :: as, st => by
    obtain ⟨s1, s2, s3⟩ := step_fields cfg st a
    obtain ⟨r1, r2, r3⟩ := run_fields cfg as (step cfg st a).1
    have hd : ∀ f, Act.deliver f = a → f ∈ delivered (a :: as) := by
      intro f hf; subst hf; simp [delivered]
    have hsub : ∀ f, f ∈ delivered as → f ∈ delivered (a :: as) := by
      intro f hf; cases a <;> simp [delivered, hf]
    cases hout : (step cfg st a).2 with
    | pending =>
      have hrun : run cfg st (a :: as) = run cfg (step cfg st a).1 as := by
        have : step cfg st a = ((step cfg st a).1, .pending) := by rw [← hout]
        rw [run, this]
      rw [hrun]
      refine ⟨?_, ?_, r3⟩
      · intro f hf
        rcases r1 f hf with h | h
        · rcases s1 with e | ⟨g, rfl, e⟩
          · rw [e] at h; exact Or.inl h
          · rw [e] at h
            rcases List.mem_append.1 h with h | h
            · exact Or.inl h
            · simp at h; subst h; exact Or.inr (hd _ rfl)
        · exact Or.inr (hsub f h)
      · intro ho
        rcases r2 ho with h | h
        · rcases s2 h with h | h
          · exact Or.inl h
          · exact Or.inr (hd _ h.symm)
        · exact Or.inr (hsub _ h)
    | opened =>
      have hrun : run cfg st (a :: as) = ((step cfg st a).1, .opened) := by
        have : step cfg st a = ((step cfg st a).1, .opened) := by rw [← hout]
        rw [run, this]
      obtain ⟨hso, hst⟩ := s3 hout
      rw [hrun]
      simp only
      rw [hst]
      exact ⟨fun f hf => Or.inl hf, fun _ => Or.inl hso, fun _ => hso⟩
    | failed e =>
      have hrun : run cfg st (a :: as) = ((step cfg st a).1, .failed e) := by
        have : step cfg st a = ((step cfg st a).1, .failed e) := by rw [← hout]
        rw [run, this]
      rw [hrun]
      refine ⟨?_, ?_, by simp⟩
      · intro f hf
        rcases s1 with h | ⟨g, rfl, h⟩
        · rw [h] at hf; exact Or.inl hf
        · rw [h] at hf
          rcases List.mem_append.1 hf with h | h
          · exact Or.inl h
          · simp at h; subst h; exact Or.inr (hd _ rfl)
      · intro ho
        rcases s2 ho with h | h
        · exact Or.inl h
        · exact Or.inr (hd _ h.symm)

/-! ## Errors are only ever appended; the wait is bounded -/

theorem exec_excs (cfg : Config) (f : BFrame) (st : St) (a : HAct) :
    ∃ extra, (exec cfg f st a).excs = st.excs ++ extra := by
  unfold exec
  split
  · exact ⟨[], by simp⟩
  · split
    · exact ⟨[], by simp⟩
    · unfold closeConnection
      split
      · exact ⟨_, rfl⟩
      · exact ⟨[], by simp⟩
    · exact ⟨[], by simp⟩
    · exact ⟨[], by simp⟩
    · exact ⟨[], by simp⟩
    · exact ⟨[], by simp⟩
    · exact ⟨[], by simp⟩
    · unfold sendStartOk
      split
      · exact ⟨[], by simp [write]⟩
      · split
        · exact ⟨_, rfl⟩
        · exact ⟨[], by simp⟩
      · exact ⟨[], by simp⟩
    · exact ⟨[], by simp [sendTuneOk, write]⟩
    · exact ⟨[], by simp [write]⟩
    · exact ⟨[], by simp⟩

theorem foldl_exec_excs (cfg : Config) (f : BFrame) (acts : List HAct) :
    ∀ st : St, ∃ extra, (acts.foldl (exec cfg f) st).excs = st.excs ++ extra := by
  induction acts with
  | nil => intro st; exact ⟨[], by simp⟩
  | cons a as ih =>
    intro st
    obtain ⟨x1, h1⟩ := exec_excs cfg f st a
    obtain ⟨x2, h2⟩ := ih (exec cfg f st a)
    exact ⟨x1 ++ x2, by simp [List.foldl, h2, h1, List.append_assoc]⟩

theorem onFrame_excs (cfg : Config) (st : St) (f : BFrame) :
    ∃ extra, (onFrame cfg st f).excs = st.excs ++ extra := by
  unfold onFrame
  exact foldl_exec_excs cfg f _ _

/-- a step that is not a poll leaves the clock alone and keeps the first recorded error first -/
theorem step_nonpoll (cfg : Config) (st : St) (a : Act) (ha : ∀ x, a ≠ .poll x) :
    (step cfg st a).2 = .pending ∧ (step cfg st a).1.elapsedMs = st.elapsedMs ∧
    ∃ extra, (step cfg st a).1.excs = st.excs ++ extra := by
  cases a with
  | deliver f =>
    by_cases hr : st.readerAlive
    · refine ⟨by simp [step, hr], ?_, ?_⟩
      · simp only [step, hr, ↓reduceIte]; exact (onFrame_fields cfg st f).2.1
      · simp only [step, hr, ↓reduceIte]; exact onFrame_excs cfg st f
    · refine ⟨by simp [step, hr], by simp [step, hr], [], by simp [step, hr]⟩
  | eof =>
    by_cases hr : st.readerAlive <;> by_cases hs : cfg.ioShared
    · refine ⟨by simp [step, hr, hs], by simp [step, hr, hs], [.socket], by simp [step, hr, hs]⟩
    · refine ⟨by simp [step, hr, hs], by simp [step, hr, hs], [], by simp [step, hr, hs]⟩
    · refine ⟨by simp [step, hr], by simp [step, hr], [], by simp [step, hr]⟩
    · refine ⟨by simp [step, hr], by simp [step, hr], [], by simp [step, hr]⟩
  | poll x => exact absurd rfl (ha x)

theorem step_poll_pending (cfg : Config) (st : St) (x : Nat)
    (h : (step cfg st (.poll x)).2 = .pending) :
    waitTimedOut st.elapsedMs = false ∧
    (step cfg st (.poll x)).1.elapsedMs = st.elapsedMs + Gen.Const.idleWaitMs + x := by
  by_cases ho : st.state = Gen.Const.stateOpen
  · simp [step, ho] at h
  · rcases checkForErrors_cases st with ⟨hc, _, _⟩ | ⟨e, hc, _⟩
    · simp only [step, ho, ↓reduceIte, hc] at h ⊢
      by_cases ht : waitTimedOut st.elapsedMs = true
      · simp [ht] at h
      · have ht' : waitTimedOut st.elapsedMs = false := by simpa using ht
        simp [ht']
    · have : checkForErrors st = ((checkForErrors st).1, some e) := by rw [← hc]
      simp only [step, ho, ↓reduceIte] at h
      rw [this] at h
      simp at h

/-- a poll with a recorded error and a state other than OPEN raises that error -/
theorem step_poll_exc (cfg : Config) (st : St) (x : Nat) (e : Err) (es : List Err)
    (hx : st.excs = e :: es) (ho : st.state ≠ Gen.Const.stateOpen) :
    (step cfg st (.poll x)).2 = .failed e := by
  simp [step, ho, checkForErrors, hx]

/-- as long as `open()` is still waiting after `k ≥ 1` polls, the first `k-1` sleeps fit into the
    time-out window -/
theorem pending_bound (cfg : Config) : ∀ (as : List Act) (st : St),
    (run cfg st as).2 = .pending → 1 ≤ countPolls as →
    Gen.Const.idleWaitMs * (countPolls as - 1) + st.elapsedMs ≤ Gen.Const.connStateTimeoutS * 1000
  | [], _ => by simp [countPolls]
  | a :: as, st => by
    intro hp hc
    cases hout : (step cfg st a).2 with
    | pending =>
      have hrun : run cfg st (a :: as) = run cfg (step cfg st a).1 as := by
        have : step cfg st a = ((step cfg st a).1, .pending) := by rw [← hout]
        rw [run, this]
      rw [hrun] at hp
      cases a with
      | poll x =>
        obtain ⟨ht, he⟩ := step_poll_pending cfg st x hout
        have hto : st.elapsedMs ≤ Gen.Const.connStateTimeoutS * 1000 := by
          unfold waitTimedOut at ht
          simp only [decide_eq_false_iff_not, Nat.not_lt, gt_iff_lt] at ht
          exact ht
        by_cases hz : countPolls as = 0
        · simp [countPolls, hz]; exact hto
        · have ih := pending_bound cfg as _ hp (by omega)
          rw [he] at ih
          simp only [countPolls]
          have : Gen.Const.idleWaitMs * (countPolls as + 1 - 1) =
              Gen.Const.idleWaitMs * (countPolls as - 1) + Gen.Const.idleWaitMs := by
            have : countPolls as + 1 - 1 = (countPolls as - 1) + 1 := by omega
            rw [this, Nat.mul_succ]
          omega
      | deliver f =>
        have hn := step_nonpoll cfg st (.deliver f) (by intro x h; cases h)
        have ih := pending_bound cfg as _ hp (by simpa [countPolls] using hc)
        rw [hn.2.1] at ih
        simpa [countPolls] using ih
      | eof =>
        have hn := step_nonpoll cfg st .eof (by intro x h; cases h)
        have ih := pending_bound cfg as _ hp (by simpa [countPolls] using hc)
        rw [hn.2.1] at ih
        simpa [countPolls] using ih
    | opened =>
      have : step cfg st a = ((step cfg st a).1, .opened) := by rw [← hout]
      rw [run, this] at hp; cases hp
    | failed e =>
      have : step cfg st a = ((step cfg st a).1, .failed e) := by rw [← hout]
      rw [run, this] at hp; cases hp

/-- once an error is recorded and no OpenOk follows, the next poll raises the *first* recorded error -/
theorem run_fails_of_exc (cfg : Config) : ∀ (as : List Act) (st : St) (e : Err) (es : List Err),
    st.excs = e :: es → st.state ≠ Gen.Const.stateOpen → BFrame.openOk ∉ delivered as →
    1 ≤ countPolls as → (run cfg st as).2 = .failed e
  | [], _, _, _ => by simp [countPolls]
  | a :: as, st, e, es => by
    intro hx ho hno hc
    cases a with
    | poll x =>
      have h := step_poll_exc cfg st x e es hx ho
      have : step cfg st (.poll x) = ((step cfg st (.poll x)).1, .failed e) := by rw [← h]
      rw [run, this]
    | deliver f =>
      obtain ⟨hpend, _, extra, hex⟩ := step_nonpoll cfg st (.deliver f) (by intro x h; cases h)
      have hrun : run cfg st (.deliver f :: as) = run cfg (step cfg st (.deliver f)).1 as := by
        have : step cfg st (.deliver f) = ((step cfg st (.deliver f)).1, .pending) := by rw [← hpend]
        rw [run, this]
      rw [hrun]
      have hf : f ≠ .openOk := by
        intro h; apply hno; simp [delivered, h]
      apply run_fails_of_exc cfg as _ e (es ++ extra) (by rw [hex, hx]; rfl)
      · intro h
        rcases (step_fields cfg st (.deliver f)).2.1 h with h | h
        · exact ho h
        · injection h with h; exact hf h
      · intro h; apply hno; simp [delivered, h]
      · simpa [countPolls] using hc
    | eof =>
      obtain ⟨hpend, _, extra, hex⟩ := step_nonpoll cfg st .eof (by intro x h; cases h)
      have hrun : run cfg st (.eof :: as) = run cfg (step cfg st .eof).1 as := by
        have : step cfg st .eof = ((step cfg st .eof).1, .pending) := by rw [← hpend]
        rw [run, this]
      rw [hrun]
      apply run_fails_of_exc cfg as _ e (es ++ extra) (by rw [hex, hx]; rfl)
      · intro h
        rcases (step_fields cfg st .eof).2.1 h with h | h
        · exact ho h
        · cases h
      · intro h; apply hno; simpa [delivered] using h
      · simpa [countPolls] using hc

end Amqp.Handshake
