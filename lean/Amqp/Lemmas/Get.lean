import Amqp.Model.Get
import Amqp.Lemmas.Rpc
namespace Amqp.Get
open Amqp Amqp.Rpc

/-- the correlation table holds exactly one registration, `uid`'s -/
def Shape (t : T) (uid : Nat) : Prop := (∀ p ∈ t.request, p.2 = uid) ∧ ∃ fs, t.response = [(uid, fs)]

theorem shape_register (t : T) (names : List String) (hr : t.request = []) (hp : t.response = []) :
    Shape (registerRequest t names).2 (registerRequest t names).1 := by
  simp only [registerRequest, hr, hp]
  exact ⟨foldl_set_vals _ _ [] (by simp), [], by simp [Dict.set, Dict.del]⟩

theorem shape_onFrame (t : T) (uid : Nat) (f : Frm) (h : Shape t uid) : Shape (onFrame t f).2 uid := by
  obtain ⟨h1, fs, h2⟩ := h
  unfold onFrame
  split
  · exact ⟨h1, fs, h2⟩
  · rename_i u hu
    have hmem : (f.name, u) ∈ t.request := by
      simp only [Dict.get, Option.map_eq_some_iff] at hu
      obtain ⟨p, hp, rfl⟩ := hu
      have := List.mem_of_find?_eq_some hp
      have hk := List.find?_some hp
      simp at hk; rw [← hk]; exact this
    have : u = uid := h1 _ hmem
    subst this
    rw [h2, dict_single_get]
    exact ⟨h1, fs ++ [f], by simp [dict_single_set]⟩

theorem shape_pop (t : T) (uid : Nat) (h : Shape t uid) : Shape (popResponse t uid).2 uid := by
  obtain ⟨h1, fs, h2⟩ := h
  unfold popResponse
  rw [h2, dict_single_get]
  rcases fs with _ | ⟨f, rest⟩
  · exact ⟨h1, [], h2⟩
  · exact ⟨h1, rest, by simp [dict_single_set]⟩

theorem shape_waitTake (uid : Nat) : ∀ (fuel : Nat) (e : Env), Shape e.t uid → Shape (waitTake uid fuel e).2.t uid := by
  intro fuel
  induction fuel with
  | zero => intro e h; exact h
  | succ k ih =>
    intro e h
    simp only [waitTake]
    split
    · exact shape_pop e.t uid h
    · split
      · exact h
      · rename_i f rest _
        exact ih _ (shape_onFrame e.t uid f h)

theorem shape_bodyLoop (uid size : Nat) : ∀ (fuel : Nat) (e : Env) (body : List UInt8), Shape e.t uid →
    Shape (bodyLoop uid size fuel e body).2.t uid := by
  intro fuel
  induction fuel with
  | zero => intro e body h; exact h
  | succ k ih =>
    intro e body h
    simp only [bodyLoop]
    split
    · have hw := shape_waitTake uid (e.arrivals.length + 1) e h
      split
      · rename_i e' heq; rw [heq] at hw; exact hw
      · rename_i piece e' heq
        rw [heq] at hw
        split
        · exact hw
        · exact ih e' _ hw
    · exact h

theorem remove_shape_empty (t : T) (uid : Nat) (h : Shape t uid) :
    (remove t uid).request = [] ∧ (remove t uid).response = [] := by
  obtain ⟨h1, fs, h2⟩ := h
  constructor
  · simp only [remove]
    apply List.filter_eq_nil_iff.mpr
    intro p hp; simp [h1 p hp]
  · simp only [remove, h2, dict_single_del]

/-- the registration made by `get` -/
def Reg (t : T) (uid : Nat) : Prop :=
  (∀ n, Dict.get t.request n = if n ∈ getNames then some uid else none) ∧
  (∀ p ∈ t.request, p.2 = uid) ∧ t.response = [(uid, [])]

theorem reg_register (t : T) (hr : t.request = []) (hp : t.response = []) :
    Reg (registerRequest t getNames).2 (registerRequest t getNames).1 := by
  simp only [registerRequest, hr, hp]
  refine ⟨fun n => by rw [foldl_set_get]; simp [Dict.get], foldl_set_vals _ _ [] (by simp), by simp [Dict.set, Dict.del]⟩

/-- with the response list empty, the next expected frame is dispatched and handed to the caller,
    and the table is back to where it was -/
theorem waitTake_next (t : T) (uid : Nat) (h : Reg t uid) (f : Frm) (hf : f.name ∈ getNames)
    (rest hd : List Frm) (k : Nat) :
    waitTake uid (k + 2) { t := t, arrivals := f :: rest, handled := hd } =
      (some f, { t := t, arrivals := rest, handled := hd }) := by
  obtain ⟨h1, _, h3⟩ := h
  have hnr : ready t uid = false := by simp [ready, h3, dict_single_get]
  have hon : onFrame t f = (true, { t with response := [(uid, [f])] }) := by
    simp only [onFrame, h1, hf, if_true, h3, dict_single_get, dict_single_set, List.nil_append]
  simp only [waitTake, hnr, hon, Bool.false_eq_true, if_false, if_true]
  have hr2 : ready { t with response := [(uid, [f])] } uid = true := by simp [ready, dict_single_get]
  simp only [hr2, if_true, popResponse, dict_single_get, dict_single_set]
  congr 2
  cases t; simp_all

theorem waitTake_nothing (t : T) (uid : Nat) (h : Reg t uid) (hd : List Frm) (k : Nat) :
    waitTake uid (k + 1) { t := t, arrivals := [], handled := hd } =
      (none, { t := t, arrivals := [], handled := hd }) := by
  have hnr : ready t uid = false := by simp [ready, h.2.2, dict_single_get]
  simp [waitTake, hnr]

end Amqp.Get

namespace Amqp.Get
open Amqp Amqp.Rpc

def IsPiece (p : Frm) : Prop := p.name = "ContentBody" ∧ p.data ≠ []

theorem piece_names (p : Frm) (h : IsPiece p) : p.name ∈ getNames := by
  simp [getNames, h.1]

theorem getBodyContinues_iff (n size : Nat) : Gen.Loops.getBodyContinues n size = true ↔ n < size := by
  simp [Gen.Loops.getBodyContinues]

/-- `_get_content_body` consumes exactly the body frames that make up `size` bytes -/
theorem bodyLoop_spec (t : T) (uid size : Nat) (h : Reg t uid) :
    ∀ (pieces : List Frm) (body : List UInt8) (rest hd : List Frm) (fuel : Nat),
    (∀ p ∈ pieces, IsPiece p) →
    body.length + (pieces.flatMap (·.data)).length = size →
    pieces.length + 1 ≤ fuel →
    bodyLoop uid size fuel { t := t, arrivals := pieces ++ rest, handled := hd } body =
      (some (body ++ pieces.flatMap (·.data)), { t := t, arrivals := rest, handled := hd }) := by
  intro pieces
  induction pieces with
  | nil =>
    intro body rest hd fuel _ hsum hfuel
    simp at hsum
    rcases fuel with _ | k
    · omega
    · have : Gen.Loops.getBodyContinues body.length size = false := by
        rcases h' : Gen.Loops.getBodyContinues body.length size with _ | _
        · rfl
        · have := (getBodyContinues_iff _ _).mp h'; omega
      simp [bodyLoop, this]
  | cons p ps ih =>
    intro body rest hd fuel hp hsum hfuel
    rcases fuel with _ | k
    · simp at hfuel
    · have hpiece := hp p (by simp)
      have hlen : 0 < p.data.length := List.length_pos_iff.mpr hpiece.2
      simp only [List.flatMap_cons, List.length_append] at hsum
      have hlt : Gen.Loops.getBodyContinues body.length size = true := (getBodyContinues_iff _ _).mpr (by omega)
      simp only [bodyLoop, hlt, if_true, List.cons_append]
      have hw := waitTake_next t uid h p (piece_names p hpiece) (ps ++ rest) hd (ps ++ rest).length
      simp only [List.length_cons] at hw ⊢
      rw [hw]
      have hne : p.data.isEmpty = false := by
        rcases hd' : p.data with _ | ⟨x, xs⟩
        · exact absurd hd' hpiece.2
        · rfl
      simp only [hne, Bool.false_eq_true, if_false]
      rw [ih (body ++ p.data) rest hd k (fun q hq => hp q (by simp [hq]))
            (by simp only [List.length_append]; omega) (by simp at hfuel; omega)]
      simp [List.flatMap_cons, List.append_assoc]

end Amqp.Get
