import Amqp.Model.Confirm
import Amqp.Lemmas.Get
namespace Amqp.Confirm
open Amqp Amqp.Rpc Amqp.ChanErr

theorem gen_defers : Gen.RpcWait.defersMessageError = true := by decide
theorem gen_requires_open : Gen.RpcWait.deferralRequiresOpen = true := by decide
theorem gen_front : Gen.ChanErr.closeReasonAtFront = true := by decide
theorem gen_keeps : Gen.RpcWait.keepsDeferredError = true := by decide

/-- connection and channel open, no connection error, only returned-message errors queued -/
structure Quiet (e : E) : Prop where
  conn : e.connState = open_
  cerr : e.connErrs = []
  ch : e.chState = open_
  msgs : ∀ x ∈ e.chErrs, x.isMsg = true

theorem open_ne_closed : open_ ≠ closed := by decide

theorem connCheck_quiet (e : E) (h : Quiet e) : connCheck e = (none, e) := by
  simp [connCheck, h.cerr, h.conn, open_ne_closed]

/-- with the deferral in place, a queued AMQPMessageError does not disturb the wait -/
theorem waitCheck_quiet (e : E) (h : Quiet e) : waitCheck e = (none, e) := by
  unfold waitCheck chanCheck
  rw [connCheck_quiet e h]
  simp only
  rcases hc : e.chErrs with _ | ⟨x, rest⟩
  · simp [chanCheckExceptions, hc, h.ch, open_ne_closed]
  · have hx : x.isMsg = true := h.msgs x (by simp [hc])
    rcases x with _ | _ | c
    · simp [Err.isMsg] at hx
    · simp [Err.isMsg] at hx
    · simp only [chanCheckExceptions, hc, h.ch, if_true, gen_defers, gen_requires_open, gen_keeps, Bool.true_and]
      simp only [ne_eq, not_true_eq_false, decide_false, Bool.false_eq_true, if_false]
      have hch := h.ch
      cases e; simp_all

theorem fold_rets (rs : List Nat) : ∀ (s : St),
    (rs.map Ev.ret).foldl dispatch s = { s with e := { s.e with chErrs := s.e.chErrs ++ rs.map Err.msg } } := by
  induction rs with
  | nil => intro s; simp
  | cons r rs ih =>
    intro s
    simp only [List.map_cons, List.foldl_cons, ih, dispatch, List.append_assoc, List.cons_append, List.nil_append]

theorem quiet_add_msgs (e : E) (h : Quiet e) (rs : List Nat) :
    Quiet { e with chErrs := e.chErrs ++ rs.map Err.msg } :=
  ⟨h.conn, h.cerr, h.ch, fun x hx => by
    simp only [List.mem_append, List.mem_map] at hx
    rcases hx with hx | ⟨r, _, rfl⟩
    · exact h.msgs x hx
    · rfl⟩

/-- the registration made by a confirm publish -/
def RegC (t : T) (uid : Nat) : Prop :=
  (∀ n, Dict.get t.request n = if n ∈ confirmNames then some uid else none) ∧
  (∀ p ∈ t.request, p.2 = uid) ∧ t.response = [(uid, [])]

theorem regc_register (t : T) (hr : t.request = []) (hp : t.response = []) :
    RegC (registerRequest t confirmNames).2 (registerRequest t confirmNames).1 := by
  simp only [registerRequest, hr, hp]
  exact ⟨fun n => by rw [foldl_set_get]; simp [Dict.get], foldl_set_vals _ _ [] (by simp), by simp [Dict.set, Dict.del]⟩

/-- the verdict events and the frames they put into the response list -/
def verdictFrm : Ev → Option Frm
  | .ack q => some { name := "Basic.Ack", tag := q, reply := true }
  | .nack q => some { name := "Basic.Nack", tag := q, reply := true }
  | _ => none

theorem dispatch_verdict (s : St) (uid : Nat) (h : RegC s.t uid) (v : Ev) (f : Frm) (hv : verdictFrm v = some f) :
    dispatch s v = { s with t := { s.t with response := [(uid, [f])] } } := by
  obtain ⟨h1, _, h3⟩ := h
  rcases v with q | q | _ | _ | _ | _
  · simp only [verdictFrm, Option.some.injEq] at hv
    subst hv
    simp only [dispatch, onFrame, h1, confirmNames]
    simp [h3, dict_single_get, dict_single_set]
  · simp only [verdictFrm, Option.some.injEq] at hv
    subst hv
    simp only [dispatch, onFrame, h1, confirmNames]
    simp [h3, dict_single_get, dict_single_set]
  all_goals simp [verdictFrm] at hv

/-- Main lemma: whatever the batching of `rets ++ [verdict]`, the wait ends by taking exactly the
    verdict frame, with all returned-message errors still queued in arrival order. -/
theorem waitTake_verdict (uid : Nat) (v : Ev) (f : Frm) (hv : verdictFrm v = some f) :
    ∀ (sched : List (List Ev)) (rs : List Nat) (s : St),
    RegC s.t uid → Quiet s.e → sched.flatten = rs.map Ev.ret ++ [v] →
    ∃ rest, waitTake uid sched s =
      (.inr f, { t := s.t, e := { s.e with chErrs := s.e.chErrs ++ rs.map Err.msg } }, rest) := by
  intro sched
  induction sched with
  | nil => intro rs s _ _ hf; simp at hf
  | cons b bs ih =>
    intro rs s hreg hq hf
    have hnr : ready s.t uid = false := by simp [ready, hreg.2.2, dict_single_get]
    unfold waitTake
    simp only [hnr, Bool.false_eq_true, if_false, waitCheck_quiet s.e hq]
    have hse : ({ s with e := s.e } : St) = s := by cases s; rfl
    rw [hse]
    -- where does the verdict sit: in this batch or later?
    simp only [List.flatten_cons] at hf
    by_cases hlen : b.length ≤ rs.length
    · -- the batch consists of returns only
      have hb : b = (rs.take b.length).map Ev.ret := by
        have := congrArg (List.take b.length) hf
        rw [List.take_left' rfl, List.take_append_of_le_length (by simpa using hlen)] at this
        rw [List.map_take]; exact this
      have hbs : bs.flatten = (rs.drop b.length).map Ev.ret ++ [v] := by
        have := congrArg (List.drop b.length) hf
        rw [List.drop_left' rfl, List.drop_append_of_le_length (by simpa using hlen)] at this
        rw [List.map_drop]; exact this
      rw [hb, fold_rets]
      obtain ⟨rest, hrest⟩ := ih (rs.drop b.length)
        { s with e := { s.e with chErrs := s.e.chErrs ++ (rs.take b.length).map Err.msg } }
        hreg (quiet_add_msgs s.e hq _) hbs
      refine ⟨rest, ?_⟩
      rw [hrest]
      simp only [List.append_assoc, ← List.map_append, List.take_append_drop]
    · -- the batch contains the verdict as its last element (nothing follows the verdict)
      have hlen' : rs.length < b.length := by omega
      have htot := congrArg List.length hf
      simp only [List.length_append, List.length_map, List.length_cons, List.length_nil] at htot
      have hbl : b.length = rs.length + 1 := by omega
      have hbsl : bs.flatten = [] := by
        apply List.eq_nil_of_length_eq_zero; omega
      have hb : b = rs.map Ev.ret ++ [v] := by rw [hbsl, List.append_nil] at hf; exact hf
      rw [hb, List.foldl_append, fold_rets]
      simp only [List.foldl_cons, List.foldl_nil]
      have hd := dispatch_verdict { s with e := { s.e with chErrs := s.e.chErrs ++ rs.map Err.msg } } uid hreg v f hv
      simp only at hd ⊢
      rw [hd]
      -- next iteration: the frame is there
      cases bs with
      | nil =>
        refine ⟨[], ?_⟩
        unfold waitTake
        simp [ready, dict_single_get, popResponse, dict_single_set, hreg.2.2]
        cases s; rename_i t e; cases t; simp_all [RegC]
      | cons b2 bs2 =>
        refine ⟨b2 :: bs2, ?_⟩
        unfold waitTake
        simp [ready, dict_single_get, popResponse, dict_single_set, hreg.2.2]
        cases s; rename_i t e; cases t; simp_all [RegC]

end Amqp.Confirm

namespace Amqp.Confirm
open Amqp Amqp.Rpc Amqp.ChanErr

/-- events that end the wait with an error, and the error they produce -/
def fatalErr : Ev → Option Err
  | .chanClose c => some (.chan (some c))
  | .connClose c => if c = 200 then none else some (.conn (some c))
  | .connLost => some (.conn none)
  | _ => none

theorem waitCheck_after_fatal (e : E) (h : Quiet e) (t : T) (v : Ev) (err : Err) (hv : fatalErr v = some err) :
    (waitCheck (dispatch { t := t, e := e } v).e).1 = some err ∧ (dispatch { t := t, e := e } v).t = t := by
  rcases v with q | q | c | c | c | _
  · simp [fatalErr] at hv
  · simp [fatalErr] at hv
  · simp [fatalErr] at hv
  · simp only [fatalErr, Option.some.injEq] at hv; subst hv
    simp [dispatch, gen_front, waitCheck, chanCheck, connCheck, h.cerr, h.conn, open_ne_closed, chanCheckExceptions,
      closed, open_, Gen.Const.stateClosed, Gen.Const.stateOpen]
  · simp only [fatalErr] at hv
    split at hv
    · cases hv
    · rename_i hc
      simp only [Option.some.injEq] at hv; subst hv
      simp [dispatch, hc, waitCheck, chanCheck, connCheck, h.cerr]
  · simp only [fatalErr, Option.some.injEq] at hv; subst hv
    simp [dispatch, waitCheck, chanCheck, connCheck, h.cerr]

theorem waitTake_fatal (uid : Nat) (v : Ev) (err : Err) (hv : fatalErr v = some err) :
    ∀ (sched : List (List Ev)) (rs : List Nat) (s : St),
    RegC s.t uid → Quiet s.e → sched.flatten = rs.map Ev.ret ++ [v] →
    (waitTake uid sched s).1 = .inl (some err) ∧ (waitTake uid sched s).2.1.t = s.t := by
  intro sched
  induction sched with
  | nil => intro rs s _ _ hf; simp at hf
  | cons b bs ih =>
    intro rs s hreg hq hf
    have hnr : ready s.t uid = false := by simp [ready, hreg.2.2, dict_single_get]
    unfold waitTake
    simp only [hnr, Bool.false_eq_true, if_false, waitCheck_quiet s.e hq]
    have hse : ({ s with e := s.e } : St) = s := by cases s; rfl
    rw [hse]
    simp only [List.flatten_cons] at hf
    by_cases hlen : b.length ≤ rs.length
    · have hb : b = (rs.take b.length).map Ev.ret := by
        have := congrArg (List.take b.length) hf
        rw [List.take_left' rfl, List.take_append_of_le_length (by simpa using hlen)] at this
        rw [List.map_take]; exact this
      have hbs : bs.flatten = (rs.drop b.length).map Ev.ret ++ [v] := by
        have := congrArg (List.drop b.length) hf
        rw [List.drop_left' rfl, List.drop_append_of_le_length (by simpa using hlen)] at this
        rw [List.map_drop]; exact this
      rw [hb, fold_rets]
      exact ih (rs.drop b.length)
        { s with e := { s.e with chErrs := s.e.chErrs ++ (rs.take b.length).map Err.msg } }
        hreg (quiet_add_msgs s.e hq _) hbs
    · have htot := congrArg List.length hf
      simp only [List.length_append, List.length_map, List.length_cons, List.length_nil] at htot
      have hbsl : bs.flatten = [] := by
        apply List.eq_nil_of_length_eq_zero; omega
      have hb : b = rs.map Ev.ret ++ [v] := by rw [hbsl, List.append_nil] at hf; exact hf
      rw [hb, List.foldl_append, fold_rets]
      simp only [List.foldl_cons, List.foldl_nil]
      have hk := waitCheck_after_fatal { s.e with chErrs := s.e.chErrs ++ rs.map Err.msg } (quiet_add_msgs s.e hq rs) s.t v err hv
      obtain ⟨hk1, hk2⟩ := hk
      have hnr2 : ready (dispatch { t := s.t, e := { s.e with chErrs := s.e.chErrs ++ rs.map Err.msg } } v).t uid = false := by
        rw [hk2]; exact hnr
      unfold waitTake
      simp only [hnr2, Bool.false_eq_true, if_false]
      rcases hw : waitCheck (dispatch { t := s.t, e := { s.e with chErrs := s.e.chErrs ++ rs.map Err.msg } } v).e with ⟨r, e2⟩
      rw [hw] at hk1
      simp only at hk1
      subst hk1
      exact ⟨rfl, hk2⟩

end Amqp.Confirm
