import Amqp.Model.Alloc
namespace Amqp.Alloc

theorem lookup_filter_ne (k c : Nat) (l : List (Nat × Nat)) (h : c ≠ k) :
    (l.filter (·.1 ≠ k)).lookup c = l.lookup c := by
  induction l with
  | nil => rfl
  | cons p l ih =>
    obtain ⟨a, b⟩ := p
    by_cases hak : a = k
    · rw [List.filter_cons_of_neg (by simp [hak]), ih, List.lookup_cons]
      have : (c == a) = false := by rw [hak]; simp [h]
      simp [this]
    · rw [List.filter_cons_of_pos (by simp [hak]), List.lookup_cons, List.lookup_cons, ih]

theorem lookup_filter_same (k : Nat) (l : List (Nat × Nat)) :
    (l.filter (·.1 ≠ k)).lookup k = none := by
  induction l with
  | nil => rfl
  | cons p l ih =>
    obtain ⟨a, b⟩ := p
    by_cases hak : a = k
    · rw [List.filter_cons_of_neg (by simp [hak]), ih]
    · rw [List.filter_cons_of_pos (by simp [hak]), List.lookup_cons, ih]
      have : (k == a) = false := by simp; exact fun h => hak h.symm
      simp [this]

theorem lookup_dset_same (k v : Nat) (l : List (Nat × Nat)) : (dset k v l).lookup k = some v := by
  simp [dset, List.lookup_cons]

theorem lookup_dset_ne (k v c : Nat) (l : List (Nat × Nat)) (h : c ≠ k) :
    (dset k v l).lookup c = l.lookup c := by
  have : (c == k) = false := by simp [h]
  rw [dset, List.lookup_cons, this]
  exact lookup_filter_ne k c l h

theorem lookup_ddel_ne (k c : Nat) (l : List (Nat × Nat)) (h : c ≠ k) :
    (ddel k l).lookup c = l.lookup c := lookup_filter_ne k c l h

theorem lookup_ddel_same (k : Nat) (l : List (Nat × Nat)) : (ddel k l).lookup k = none :=
  lookup_filter_same k l

theorem skips_iff (st : Nat) : Gen.Alloc.skips st = true ↔ st ≠ Gen.Const.stateClosed := by
  simp [Gen.Alloc.skips, Gen.Const.stateClosed]

theorem scanFrom_some (a : A) : ∀ (fuel lo i : Nat), scanFrom a fuel lo = some i →
    lo ≤ i ∧ i < lo + fuel ∧ free a i = true := by
  intro fuel
  induction fuel with
  | zero => intro lo i h; simp [scanFrom] at h
  | succ f ih =>
    intro lo i h
    simp only [scanFrom] at h
    split at h
    · rename_i hf; cases h; exact ⟨Nat.le_refl _, by omega, hf⟩
    · obtain ⟨h1, h2, h3⟩ := ih (lo + 1) i h
      exact ⟨by omega, by omega, h3⟩

theorem scanFrom_none (a : A) : ∀ (fuel lo : Nat), scanFrom a fuel lo = none ↔
    ∀ j, lo ≤ j → j < lo + fuel → free a j = false := by
  intro fuel
  induction fuel with
  | zero => intro lo; simp [scanFrom]; intro j h1 h2; omega
  | succ f ih =>
    intro lo
    simp only [scanFrom]
    constructor
    · intro h
      split at h
      · cases h
      · rename_i hf
        intro j h1 h2
        rcases Nat.eq_or_lt_of_le h1 with rfl | hlt
        · simpa using hf
        · exact (ih (lo + 1)).mp h j (by omega) (by omega)
    · intro h
      have h0 := h lo (Nat.le_refl _) (by omega)
      rw [if_neg (by simp [h0])]
      exact (ih (lo + 1)).mpr (fun j h1 h2 => h j (by omega) (by omega))

theorem scanLo_eq (a : A) : scanLo a = if a.last ≠ 0 then a.last else 1 := by
  simp only [scanLo, Gen.Alloc.scanLo, pyOr]
  split <;> split <;> omega

theorem scanHi_eq (a : A) : scanHi a = a.max + 1 := by
  simp only [scanHi, Gen.Alloc.scanHi]; omega

theorem free_last_irrel (a : A) (l : Nat) (i : Nat) : free { a with last := l } i = free a i := rfl

theorem scanFrom_last_irrel (a : A) (l : Nat) : ∀ fuel lo, scanFrom { a with last := l } fuel lo = scanFrom a fuel lo := by
  intro fuel
  induction fuel with
  | zero => intro lo; rfl
  | succ f ih => intro lo; simp only [scanFrom, free_last_irrel, ih]

theorem scanAll_some (a : A) (i : Nat) (h : scanAll a = some i) :
    (if a.last ≠ 0 then a.last else 1) ≤ i ∧ i ≤ a.max ∧ free a i = true := by
  obtain ⟨h1, h2, h3⟩ := scanFrom_some a _ _ _ h
  simp only [scanLo_eq, scanHi_eq] at h1 h2
  exact ⟨h1, by omega, h3⟩

theorem scanAll_none (a : A) (h : scanAll a = none) :
    ∀ j, (if a.last ≠ 0 then a.last else 1) ≤ j → j ≤ a.max → free a j = false := by
  have := (scanFrom_none a _ _).mp h
  simp only [scanLo_eq, scanHi_eq] at this
  intro j h1 h2
  exact this j h1 (by omega)

theorem scanAll_last0 (a : A) : scanAll { a with last := 0 } = scanFrom a a.max 1 := by
  simp only [scanAll, scanLo_eq, scanHi_eq, scanFrom_last_irrel]
  simp

/-- what `nextId` returns and what it does to the registry -/
theorem nextId_some (a : A) (i : Nat) (a' : A) (h : nextId a = (some i, a')) :
    1 ≤ i ∧ i ≤ a.max ∧ free a i = true ∧ a'.chans = ddel i a.chans ∧ a'.objs = a.objs ∧
    a'.last = i ∧ a'.max = a.max := by
  unfold nextId at h
  split at h
  · rename_i j hj
    cases h
    obtain ⟨h1, h2, h3⟩ := scanAll_some a _ hj
    refine ⟨?_, h2, h3, rfl, rfl, rfl, rfl⟩
    split at h1 <;> omega
  · split at h
    · split at h
      · rename_i j hj
        cases h
        obtain ⟨h1, h2, h3⟩ := scanAll_some _ _ hj
        simp only [ne_eq, not_true_eq_false, if_false] at h1
        exact ⟨h1, h2, h3, rfl, rfl, rfl, rfl⟩
      · cases h
    · cases h

theorem nextId_none (a : A) (a' : A) (h : nextId a = (none, a')) :
    (∀ i, 1 ≤ i → i ≤ a.max → free a i = false) ∧ a'.chans = a.chans ∧ a'.objs = a.objs ∧ a'.max = a.max := by
  unfold nextId at h
  split at h
  · cases h
  · rename_i hnone
    split at h
    · split at h
      · cases h
      · rename_i hnone2
        cases h
        have := scanAll_none _ hnone2
        simp only [ne_eq, not_true_eq_false, if_false] at this
        exact ⟨fun i h1 h2 => this i h1 h2, rfl, rfl, rfl⟩
    · rename_i hl
      cases h
      have hl0 : a.last = 0 := by simpa using hl
      have := scanAll_none a hnone
      simp only [hl0, ne_eq, not_true_eq_false, if_false] at this
      exact ⟨fun i h1 h2 => this i h1 h2, rfl, rfl, rfl⟩

/-- when every id in 1..max is taken, `nextId` raises -/
theorem nextId_exhausted (a : A) (h : ∀ i, 1 ≤ i → i ≤ a.max → free a i = false) : (nextId a).1 = none := by
  rcases hn : nextId a with ⟨_ | i, a'⟩
  · rfl
  · obtain ⟨h1, h2, h3, _⟩ := nextId_some a i a' hn
    rw [h i h1 h2] at h3; cases h3

end Amqp.Alloc
