import Amqp.Model.Heartbeat
/-
  C12 lemmas: one inductive invariant of the heartbeat model (`Inv`), preserved by every step.
  Core Lean only.
-/
namespace Amqp.Hb
open Amqp.Gen.Heartbeat

structure Inv (s : St) : Prop where
  ivNonneg : ∀ v, s.interval = some v → 0 ≤ v
  runIv : s.running = true → startDisabled s.interval = false
  tOut : s.lastOut ≤ s.now
  tIn : s.lastIn ≤ s.now
  tReset : s.lastReset ≤ s.now
  timersLo : ∀ t ∈ s.timers, s.now ≤ t.2
  timersHi : ∀ t ∈ s.timers, t.2 ≤ s.lastReset + s.ivl
  armed : s.running = true → s.pc = .idle → s.timers ≠ []
  rNonneg : 0 ≤ s.reads
  wNonneg : 0 ≤ s.writes
  /-- a counted write happened after the last reset -/
  wOut : 0 < s.writes → s.lastReset ≤ s.lastOut
  /-- a counted read happened after the last reset; no counted read: nothing arrived since -/
  rIn : 0 < s.reads → s.lastReset ≤ s.lastIn
  rIn0 : s.reads = 0 → s.lastIn ≤ s.lastReset
  thr : s.running = true → 0 ≤ s.threshold ∧ s.threshold ≤ 1
  pcRun : s.pc = .sent ∨ s.pc = .evald false ∨ s.pc = .cleared → s.running = true
  pcDead : s.pc = .evald true → s.running = false
  clearedNow : s.pc = .cleared → s.lastReset = s.now
  -- silence
  silIdle : s.running = true → s.connOpen = true → s.pc = .idle → s.lastReset ≤ s.lastOut + s.ivl
  silBusy : s.running = true → s.connOpen = true → s.pc ≠ .idle → s.now ≤ s.lastOut + s.ivl
  -- detection latency
  detA1 : s.running = true → s.pc = .idle ∨ s.pc = .cleared → s.threshold ≤ 0 →
    s.lastReset ≤ s.lastIn + s.ivl
  detA2 : s.running = true → s.pc = .idle ∨ s.pc = .cleared → s.lastReset ≤ s.lastIn + 2 * s.ivl
  detB0 : s.running = true → s.pc = .sent → 0 < s.reads → s.now ≤ s.lastIn + s.ivl
  detB1 : s.running = true → s.pc = .sent → s.threshold ≤ 0 → s.now ≤ s.lastIn + 2 * s.ivl
  detB2 : s.running = true → s.pc = .sent → s.now ≤ s.lastIn + 3 * s.ivl
  detC1 : s.running = true → s.pc = .evald false → s.threshold ≤ 0 → s.now ≤ s.lastIn + s.ivl
  detC2 : s.running = true → s.pc = .evald false → s.now ≤ s.lastIn + 2 * s.ivl
  -- a single timer chain
  scLen : s.multi = false → s.timers.length ≤ 1
  scBusy : s.multi = false → s.pc ≠ .idle → s.timers = []
  scDl : s.multi = false → ∀ t ∈ s.timers, t.2 = s.lastReset + s.ivl
  scSent : s.multi = false → s.pc = .sent → s.now = s.lastReset + s.ivl

theorem intervalNum_nonneg (t : Int) : 0 ≤ intervalNum t := by
  simp only [intervalNum]; omega

theorem inv_init (T : Option Int) : Inv (init T) := by
  constructor <;> simp [init, mkInterval, St.ivl, initReads, initWrites, initThreshold]
  · intro v _; exact intervalNum_nonneg v

theorem ivl_pos {s : St} (h : Inv s) (hr : s.running = true) : 0 < s.ivl := by
  have h1 := h.runIv hr
  have h2 := h.ivNonneg
  unfold St.ivl
  cases hi : s.interval with
  | none => simp [hi, startDisabled] at h1
  | some v =>
    have := h2 v hi
    simp [hi, startDisabled] at h1
    simp only [timerInterval]
    omega

/-- `ivl` only depends on `interval` -/
def ivlOf (i : Option Int) : Nat :=
  match i with
  | some v => (timerInterval v).toNat
  | none => 0

theorem ivl_eq (s : St) : s.ivl = ivlOf s.interval := rfl

macro "inv_finish" : tactic => `(tactic| (intros; simp_all <;> omega))

macro "inv_destruct " h:ident : tactic => `(tactic|
  obtain ⟨h1, h2, h3, h4, h5, h6, h7, h8, h9, h10, h11, h12, h12', h13, h14, h15, h16, h17, h18, h19, h20,
    h21, h22, h23, h24, h25, h26, h27, h28, h29⟩ := $h)

theorem inv_read {s s' : St} (h : Inv s) (hs : step s .read = some s') : Inv s' := by
  simp only [step, Option.some.injEq] at hs
  subst hs
  inv_destruct h
  constructor <;> simp only [ivl_eq, readIncr] at * <;> try assumption
  all_goals inv_finish

theorem inv_write {s s' : St} (h : Inv s) (hs : step s .write = some s') : Inv s' := by
  simp only [step, Option.some.injEq] at hs
  subst hs
  inv_destruct h
  constructor <;> simp only [ivl_eq, writeIncr] at * <;> try assumption
  all_goals inv_finish

theorem inv_setOpen {s s' : St} (b : Bool) (h : Inv s) (hs : step s (.setOpen b) = some s') : Inv s' := by
  simp only [step, Option.some.injEq] at hs
  subst hs
  have hI := ivl_pos h
  have harm : s.running = true → s.pc = .idle → ∃ t ∈ s.timers, s.now ≤ t.2 ∧ t.2 ≤ s.lastReset + s.ivl := by
    intro hr hp
    have := h.armed hr hp
    cases ht : s.timers with
    | nil => exact absurd ht this
    | cons t ts =>
      have hm : t ∈ s.timers := by simp [ht]
      exact ⟨t, by simp, h.timersLo t hm, h.timersHi t hm⟩
  inv_destruct h
  cases b
  · constructor <;> simp only [ivl_eq] at * <;> try assumption
    all_goals inv_finish
  · constructor <;> simp only [ivl_eq] at * <;> try assumption
    all_goals inv_finish

theorem inv_adv {s s' : St} (d : Nat) (h : Inv s) (hs : step s (.adv d) = some s') : Inv s' := by
  simp only [step] at hs
  split at hs
  · rename_i hg
    obtain ⟨hpc, hd, hall⟩ := hg
    simp only [Option.some.injEq] at hs
    subst hs
    have hall' : ∀ t ∈ s.timers, s.now + d ≤ t.2 := by
      intro t ht
      have := (List.all_eq_true.mp hall) t ht
      simpa using this
    have hnow : s.running = true → s.now + d ≤ s.lastReset + s.ivl := by
      intro hr
      have := h.armed hr hpc
      cases ht : s.timers with
      | nil => exact absurd ht this
      | cons t ts =>
        have hm : t ∈ s.timers := by simp [ht]
        have := hall' t hm
        have := h.timersHi t hm
        omega
    inv_destruct h
    constructor <;> simp only [ivl_eq] at * <;> try assumption
    all_goals inv_finish
  · cases hs

theorem mem_cancel {c : Option Nat} {ts : List (Nat × Nat)} {t : Nat × Nat} (h : t ∈ cancel c ts) : t ∈ ts := by
  cases c with
  | none => simpa [cancel] using h
  | some id => simp only [cancel, List.mem_filter] at h; exact h.1

theorem length_cancel (c : Option Nat) (ts : List (Nat × Nat)) : (cancel c ts).length ≤ ts.length := by
  cases c with
  | none => simp [cancel]
  | some id => simp only [cancel]; exact List.length_filter_le _ _

theorem inv_stop {s s' : St} (h : Inv s) (hs : step s .stop = some s') : Inv s' := by
  simp only [step] at hs
  split at hs
  · rename_i hpc
    simp only [Option.some.injEq] at hs
    subst hs
    have hlen := length_cancel s.cur s.timers
    have hmem : ∀ t ∈ cancel s.cur s.timers, t ∈ s.timers := fun t ht => mem_cancel ht
    have hLo : ∀ t ∈ cancel s.cur s.timers, s.now ≤ t.2 := fun t ht => h.timersLo t (hmem t ht)
    have hHi : ∀ t ∈ cancel s.cur s.timers, t.2 ≤ s.lastReset + s.ivl := fun t ht => h.timersHi t (hmem t ht)
    have hDl : s.multi = false → ∀ t ∈ cancel s.cur s.timers, t.2 = s.lastReset + s.ivl :=
      fun hm t ht => h.scDl hm t (hmem t ht)
    generalize cancel s.cur s.timers = ts at *
    inv_destruct h
    constructor <;> simp only [ivl_eq] at * <;> try assumption
    all_goals inv_finish
  · cases hs

theorem inv_start {s s' : St} (l : Bool) (h : Inv s) (hs : step s (.start l) = some s') : Inv s' := by
  simp only [step] at hs
  split at hs
  · rename_i hpc
    split at hs
    · simp only [Option.some.injEq] at hs
      subst hs; exact h
    · rename_i hdis
      cases hi : s.interval with
      | none => simp [hi, startDisabled] at hdis
      | some v =>
        have hv : 0 < v := by
          have := h.ivNonneg v hi
          simp [hi, startDisabled] at hdis
          omega
        simp only [startNewTimer, hi, Option.some.injEq] at hs
        simp only [St.ivl] at hs
        subst hs
        have hIv : s.ivl = (timerInterval v).toNat := by simp [St.ivl, hi]
        have hIpos : 0 < s.ivl := by rw [hIv]; simp only [timerInterval]; omega
        have hLo : ∀ t ∈ s.timers ++ [(s.nextId, s.now + (timerInterval v).toNat)], s.now ≤ t.2 := by
          intro t ht
          rcases List.mem_append.mp ht with ht | ht
          · exact h.timersLo t ht
          · simp at ht; subst ht; simp
        have hHi : ∀ t ∈ s.timers ++ [(s.nextId, s.now + (timerInterval v).toNat)], t.2 ≤ s.now + s.ivl := by
          intro t ht
          rcases List.mem_append.mp ht with ht | ht
          · have := h.timersHi t ht; have := h.tReset; omega
          · simp at ht; subst ht; simp [hIv]
        have hne : s.timers ++ [(s.nextId, s.now + (timerInterval v).toNat)] ≠ [] := by simp
        have hLen : (s.multi || !s.timers.isEmpty) = false →
            (s.timers ++ [(s.nextId, s.now + (timerInterval v).toNat)]).length ≤ 1 := by
          intro hm
          simp only [Bool.or_eq_false_iff, Bool.not_eq_false', List.isEmpty_iff] at hm
          simp [hm.2]
        have hDl : (s.multi || !s.timers.isEmpty) = false →
            ∀ t ∈ s.timers ++ [(s.nextId, s.now + (timerInterval v).toNat)], t.2 = s.now + s.ivl := by
          intro hm t ht
          simp only [Bool.or_eq_false_iff, Bool.not_eq_false', List.isEmpty_iff] at hm
          simp only [hm.2, List.nil_append, List.mem_singleton] at ht
          subst ht; simp [hIv]
        generalize s.timers ++ [(s.nextId, s.now + (timerInterval v).toNat)] = ts at *
        inv_destruct h
        constructor <;> simp only [ivl_eq, startThreshold, startReads, startWrites, hi] at * <;> try assumption
        all_goals inv_finish
  · cases hs

theorem filter_single {ts : List (Nat × Nat)} {id dl : Nat} (hlen : ts.length ≤ 1) (hm : (id, dl) ∈ ts) :
    ts.filter (fun t => t.1 != id) = [] := by
  match ts, hlen, hm with
  | [t], _, hm =>
    simp only [List.mem_singleton] at hm
    subst hm
    simp

set_option maxHeartbeats 1600000 in
theorem inv_fire {s s' : St} (id : Nat) (h : Inv s) (hs : step s (.fire id) = some s') : Inv s' := by
  simp only [step] at hs
  split at hs
  · rename_i hg
    obtain ⟨hpc, hmem⟩ := hg
    have hnowHi : s.now ≤ s.lastReset + s.ivl := h.timersHi _ hmem
    have hsub : ∀ t ∈ s.timers.filter (fun t => t.1 != id), t ∈ s.timers := fun t ht => (List.mem_filter.mp ht).1
    have hLo : ∀ t ∈ s.timers.filter (fun t => t.1 != id), s.now ≤ t.2 := fun t ht => h.timersLo t (hsub t ht)
    have hHi : ∀ t ∈ s.timers.filter (fun t => t.1 != id), t.2 ≤ s.lastReset + s.ivl :=
      fun t ht => h.timersHi t (hsub t ht)
    have hEmpty : s.multi = false → s.timers.filter (fun t => t.1 != id) = [] :=
      fun hm => filter_single (h.scLen hm) hmem
    have hNowEq : s.multi = false → s.now = s.lastReset + s.ivl := fun hm => h.scDl hm _ hmem
    generalize s.timers.filter (fun t => t.1 != id) = ts at *
    inv_destruct h
    split at hs
    · rename_i hrun
      split at hs
      · rename_i hsend
        simp only [sendTest, decide_eq_true_eq] at hsend
        simp only [sendHeartbeat] at hs
        split at hs
        · simp only [Option.some.injEq] at hs
          subst hs
          constructor <;> simp only [ivl_eq, writeIncr] at * <;> try assumption
          all_goals inv_finish
        · simp only [Option.some.injEq] at hs
          subst hs
          constructor <;> simp only [ivl_eq] at * <;> try assumption
          all_goals inv_finish
      · rename_i hsend
        simp only [sendTest, decide_eq_true_eq] at hsend
        simp only [Option.some.injEq] at hs
        subst hs
        constructor <;> simp only [ivl_eq] at * <;> try assumption
        all_goals inv_finish
    · simp only [Option.some.injEq] at hs
      subst hs
      constructor <;> simp only [ivl_eq] at * <;> try assumption
      all_goals inv_finish
  · cases hs

set_option maxHeartbeats 1600000 in
theorem inv_eval {s s' : St} (h : Inv s) (hs : step s .eval = some s') : Inv s' := by
  simp only [step] at hs
  split at hs
  · rename_i hpc
    have hrun : s.running = true := h.pcRun (Or.inl hpc)
    inv_destruct h
    split at hs
    · rename_i hmiss
      simp only [missTest, decide_eq_true_eq] at hmiss
      split at hs
      · rename_i hdead
        simp only [deadTest, thresholdMiss] at hdead
        split at hs
        · simp only [Option.some.injEq] at hs
          subst hs
          constructor <;> simp only [ivl_eq, thresholdMiss] at * <;> try assumption
          all_goals inv_finish
        · simp only [Option.some.injEq] at hs
          subst hs
          constructor <;> simp only [ivl_eq, thresholdMiss] at * <;> try assumption
          all_goals inv_finish
      · rename_i hdead
        simp only [deadTest, thresholdMiss] at hdead
        simp only [Option.some.injEq] at hs
        subst hs
        constructor <;> simp only [ivl_eq, thresholdMiss] at * <;> try assumption
        all_goals inv_finish
    · rename_i hmiss
      simp only [missTest, decide_eq_true_eq] at hmiss
      simp only [Option.some.injEq] at hs
      subst hs
      constructor <;> simp only [ivl_eq, thresholdHit] at * <;> try assumption
      all_goals inv_finish
  · cases hs

set_option maxHeartbeats 1600000 in
theorem inv_clear {s s' : St} (h : Inv s) (hs : step s .clear = some s') : Inv s' := by
  simp only [step] at hs
  split at hs
  · rename_i dead hpc
    simp only [Option.some.injEq] at hs
    subst hs
    have hHi : ∀ t ∈ s.timers, t.2 ≤ s.now + s.ivl := by
      intro t ht; have := h.timersHi t ht; have := h.tReset; omega
    have hEmpty : s.multi = false → s.timers = [] := fun hm => h.scBusy hm (by simp [hpc])
    inv_destruct h
    cases dead
    · constructor <;> simp only [ivl_eq, resetReads, resetWrites] at * <;> try assumption
      all_goals inv_finish
    · constructor <;> simp only [ivl_eq, resetReads, resetWrites] at * <;> try assumption
      all_goals inv_finish
  · cases hs

set_option maxHeartbeats 1600000 in
theorem inv_rearm {s s' : St} (h : Inv s) (hs : step s .rearm = some s') : Inv s' := by
  simp only [step] at hs
  split at hs
  · rename_i hpc
    have hrun : s.running = true := h.pcRun (Or.inr (Or.inr hpc))
    have hdis := h.runIv hrun
    cases hi : s.interval with
    | none => simp [hi, startDisabled] at hdis
    | some v =>
      simp only [startNewTimer, hrun, hi, if_true, Option.some.injEq] at hs
      subst hs
      have hreset : s.lastReset = s.now := h.clearedNow hpc
      have hLo : ∀ t ∈ s.timers ++ [(s.nextId, s.now + s.ivl)], s.now ≤ t.2 := by
        intro t ht
        rcases List.mem_append.mp ht with ht | ht
        · exact h.timersLo t ht
        · simp at ht; subst ht; simp
      have hHi : ∀ t ∈ s.timers ++ [(s.nextId, s.now + s.ivl)], t.2 ≤ s.lastReset + s.ivl := by
        intro t ht
        rcases List.mem_append.mp ht with ht | ht
        · exact h.timersHi t ht
        · simp at ht; subst ht; simp [hreset]
      have hne : s.timers ++ [(s.nextId, s.now + s.ivl)] ≠ [] := by simp
      have hLen : s.multi = false → (s.timers ++ [(s.nextId, s.now + s.ivl)]).length ≤ 1 := by
        intro hm
        have := h.scBusy hm (by simp [hpc])
        simp [this]
      have hDl : s.multi = false → ∀ t ∈ s.timers ++ [(s.nextId, s.now + s.ivl)], t.2 = s.lastReset + s.ivl := by
        intro hm t ht
        have := h.scBusy hm (by simp [hpc])
        simp only [this, List.nil_append, List.mem_singleton] at ht
        subst ht; simp [hreset]
      generalize s.timers ++ [(s.nextId, s.now + s.ivl)] = ts at *
      inv_destruct h
      constructor <;> simp only [ivl_eq, hi] at * <;> try assumption
      all_goals inv_finish
  · cases hs

theorem inv_step {s s' : St} (a : Act) (h : Inv s) (hs : step s a = some s') : Inv s' := by
  cases a with
  | adv d => exact inv_adv d h hs
  | read => exact inv_read h hs
  | write => exact inv_write h hs
  | fire id => exact inv_fire id h hs
  | eval => exact inv_eval h hs
  | clear => exact inv_clear h hs
  | rearm => exact inv_rearm h hs
  | start l => exact inv_start l h hs
  | stop => exact inv_stop h hs
  | setOpen b => exact inv_setOpen b h hs

theorem inv_run {s s' : St} (as : List Act) (h : Inv s) (hs : run s as = some s') : Inv s' := by
  induction as generalizing s with
  | nil => simp only [run, Option.some.injEq] at hs; subst hs; exact h
  | cons a as ih =>
    simp only [run] at hs
    split at hs
    · rename_i s1 h1; exact ih (inv_step a h h1) hs
    · cases hs

/-- every state reachable from the initial state of any timeout satisfies the invariant -/
theorem inv_reachable (T : Option Int) (as : List Act) {s : St} (hs : run (init T) as = some s) : Inv s :=
  inv_run as (inv_init T) hs

end Amqp.Hb
