import Amqp.Model.RpcMicro
namespace Amqp.RpcMicro
open Amqp Amqp.Rpc

theorem genRegister : Gen.RpcWait.registerResponseFirst = true := by decide
theorem genRemove : Gen.RpcWait.removeRequestFirst = true := by decide

section dict
variable {K V : Type} [DecidableEq K]

theorem mem_del {l : List (K × V)} {k : K} {p : K × V} : p ∈ Dict.del l k ↔ p ∈ l ∧ p.1 ≠ k := by
  simp [Dict.del, List.mem_filter]

theorem mem_set {l : List (K × V)} {k : K} {v : V} {p : K × V} :
    p ∈ Dict.set l k v ↔ p = (k, v) ∨ (p ∈ l ∧ p.1 ≠ k) := by
  simp [Dict.set, mem_del]

theorem get_some_mem {l : List (K × V)} {k : K} {v : V} (h : Dict.get l k = some v) : (k, v) ∈ l := by
  unfold Dict.get at h
  rcases hf : l.find? (fun p => p.1 = k) with _ | p
  · simp [hf] at h
  · simp [hf] at h
    have hm := List.mem_of_find?_eq_some hf
    have hk := List.find?_some hf
    simp at hk
    rcases p with ⟨a, b⟩
    simp at hk h
    subst hk; subst h; exact hm

theorem has_set_same (l : List (K × V)) (k : K) (v : V) : Dict.has (Dict.set l k v) k = true := by
  simp [Dict.has, Dict.get_set_same]

theorem has_set_of_has (l : List (K × V)) (k c : K) (v : V) (h : Dict.has l c = true) :
    Dict.has (Dict.set l k v) c = true := by
  by_cases hc : c = k
  · subst hc; exact has_set_same l c v
  · simpa [Dict.has, Dict.get_set_ne l k c v hc] using h

theorem get_none_of_no_key {l : List (K × V)} {k : K} (h : ∀ p ∈ l, p.1 ≠ k) : Dict.get l k = none := by
  unfold Dict.get
  rw [List.find?_eq_none.2 (by intro p hp; simpa using h p hp)]
  rfl
end dict

/-- Everything in the tables belongs to the call in progress; between calls they are empty. -/
def J (s : S) : Prop :=
  match s.phase with
  | .idle => s.t.request = [] ∧ s.t.response = []
  | .reg _ _ false => s.t.request = [] ∧ s.t.response = []
  | .reg uid _ true => Dict.has s.t.response uid = true ∧ (∀ p ∈ s.t.request, p.2 = uid) ∧ (∀ q ∈ s.t.response, q.1 = uid)
  | .wait uid => Dict.has s.t.response uid = true ∧ (∀ p ∈ s.t.request, p.2 = uid) ∧ (∀ q ∈ s.t.response, q.1 = uid)
  | .rem uid todo false => Dict.has s.t.response uid = true ∧ (∀ p ∈ s.t.request, p.2 = uid ∧ p.1 ∈ todo) ∧
      (∀ q ∈ s.t.response, q.1 = uid)
  | .rem _ _ true => False

theorem keysOf_mem {t : T} {uid : Nat} {p : String × Nat} (hp : p ∈ t.request) (hu : p.2 = uid) :
    p.1 ∈ keysOf t uid := by
  simp only [keysOf, List.mem_reverse, List.mem_map, List.mem_filter]
  exact ⟨p, ⟨hp, by simp [hu]⟩, rfl⟩

/-- under `J` a frame never finds a name mapped to a missing reply slot -/
theorem onFrameK_ok (s : S) (h : J s) (f : Frm) : (onFrameK s.t f).2.1 = false := by
  unfold onFrameK
  rcases hg : Dict.get s.t.request f.name with _ | uid
  · simp
  · have hm := get_some_mem hg
    have hhas : Dict.has s.t.response uid = true := by
      unfold J at h
      rcases hp : s.phase with _ | ⟨u, todo, rd⟩ | u | ⟨u, todo, rd⟩
      · rw [hp] at h; simp at h; rw [h.1] at hm; simp at hm
      · rcases rd with _ | _
        · rw [hp] at h; simp at h; rw [h.1] at hm; simp at hm
        · rw [hp] at h; simp at h; have := h.2.1 _ _ hm; subst this; exact h.1
      · rw [hp] at h; simp at h; have := h.2.1 _ _ hm; subst this; exact h.1
      · rcases rd with _ | _
        · rw [hp] at h; simp at h; have := (h.2.1 _ _ hm).1; subst this; exact h.1
        · rw [hp] at h; simp at h
    simp only [Dict.has] at hhas
    rcases hr : Dict.get s.t.response uid with _ | fs
    · simp [hr] at hhas
    · simp [hr]

theorem onFrameK_tables (t : T) (f : Frm) :
    (onFrameK t f).2.2 = t ∨ ∃ uid fs, (f.name, uid) ∈ t.request ∧
      (onFrameK t f).2.2 = { t with response := Dict.set t.response uid (fs ++ [f]) } := by
  unfold onFrameK
  rcases hg : Dict.get t.request f.name with _ | uid
  · left; simp
  · rcases hr : Dict.get t.response uid with _ | fs
    · left; simp [hr]
    · right; exact ⟨uid, fs, get_some_mem hg, by simp [hr]⟩

/-- overwriting the reply slot of an identifier some name is mapped to keeps `J`
    (stated for any `S` that differs from `s` in `t.response` only) -/
theorem J_resp_set (s : S) (h : J s) (n : String) (uid : Nat) (v : List Frm) (hm : (n, uid) ∈ s.t.request)
    (s' : S) (hp : s'.phase = s.phase) (hq : s'.t.request = s.t.request)
    (hr : s'.t.response = Dict.set s.t.response uid v) : J s' := by
  unfold J at h ⊢
  rw [hp]
  rcases hph : s.phase with _ | ⟨u, todo, rd⟩ | u | ⟨u, todo, rd⟩
  · rw [hph] at h; simp at h; rw [h.1] at hm; simp at hm
  · rcases rd with _ | _
    · rw [hph] at h; simp at h; rw [h.1] at hm; simp at hm
    · rw [hph] at h; simp only at h ⊢
      have hu : uid = u := h.2.1 _ hm
      subst hu
      rw [hq, hr]
      refine ⟨has_set_same _ _ _, h.2.1, ?_⟩
      intro q hq'; rcases mem_set.1 hq' with e | ⟨hin, _⟩
      · rw [e]
      · exact h.2.2 q hin
  · rw [hph] at h; simp only at h ⊢
    have hu : uid = u := h.2.1 _ hm
    subst hu
    rw [hq, hr]
    refine ⟨has_set_same _ _ _, h.2.1, ?_⟩
    intro q hq'; rcases mem_set.1 hq' with e | ⟨hin, _⟩
    · rw [e]
    · exact h.2.2 q hin
  · rcases rd with _ | _
    · rw [hph] at h; simp only at h ⊢
      have hu : uid = u := (h.2.1 _ hm).1
      subst hu
      rw [hq, hr]
      refine ⟨has_set_same _ _ _, h.2.1, ?_⟩
      intro q hq'; rcases mem_set.1 hq' with e | ⟨hin, _⟩
      · rw [e]
      · exact h.2.2 q hin
    · rw [hph] at h; simp at h

theorem norm_keyErrors (s : S) : (norm s).keyErrors = s.keyErrors := by
  unfold norm; split <;> rfl
theorem norm_t (s : S) : (norm s).t = s.t := by
  unfold norm; split <;> rfl

/-- `norm` only renames a finished `reg`/`rem` phase; `J` of the result, given the facts about the tables -/
theorem J_norm_reg (s : S) (uid : Nat) (todo : List String) (hp : s.phase = .reg uid todo true)
    (h : Dict.has s.t.response uid = true ∧ (∀ p ∈ s.t.request, p.2 = uid) ∧ (∀ q ∈ s.t.response, q.1 = uid)) :
    J (norm s) := by
  unfold norm
  rw [hp]
  rcases todo with _ | ⟨n, rest⟩
  · simp only [J]; exact h
  · simp only [J, hp]; exact h

/-- **one step**: `J` is preserved and the reader does not fail -/
theorem step_inv (s s' : S) (e : Ev) (h : J s) (hs : step s e = some s') :
    J s' ∧ s'.keyErrors = s.keyErrors := by
  cases e with
  | begin names =>
    simp only [step, stepP] at hs
    rcases hph : s.phase with _ | ⟨u, todo, rd⟩ | u | ⟨u, todo, rd⟩ <;> rw [hph] at hs <;> simp at hs
    subst hs
    unfold J at h ⊢; rw [hph] at h
    simpa using h
  | regStep =>
    simp only [step, stepP] at hs
    rcases hph : s.phase with _ | ⟨u, todo, rd⟩ | u | ⟨u, todo, rd⟩ <;> rw [hph] at hs <;> simp at hs
    rw [genRegister] at hs
    simp only [if_true] at hs
    unfold J at h; rw [hph] at h
    rcases rd with _ | _
    · simp at hs h
      subst hs
      refine ⟨?_, by rw [norm_keyErrors]⟩
      apply J_norm_reg _ u todo rfl
      simp only [setResp, h.1, h.2]
      refine ⟨has_set_same _ _ _, by simp, ?_⟩
      intro q hq; rcases mem_set.1 hq with e | ⟨hin, _⟩
      · rw [e]
      · simp at hin
    · simp at hs
      simp only at h
      rcases todo with _ | ⟨n, rest⟩
      · simp at hs
      · simp at hs
        subst hs
        refine ⟨?_, by rw [norm_keyErrors]⟩
        apply J_norm_reg _ u rest rfl
        simp only [setReq]
        refine ⟨h.1, ?_, h.2.2⟩
        intro p hp; rcases mem_set.1 hp with e | ⟨hin, _⟩
        · rw [e]
        · exact h.2.1 p hin
  | pop =>
    simp only [step, stepP] at hs
    rcases hph : s.phase with _ | ⟨u, todo, rd⟩ | u | ⟨u, todo, rd⟩ <;> rw [hph] at hs <;> simp at hs
    subst hs
    refine ⟨?_, rfl⟩
    unfold J at h ⊢; rw [hph] at h
    simp only [hph] at h ⊢
    unfold popResponse
    rcases hg : Dict.get s.t.response u with _ | fs
    · simpa using h
    · rcases fs with _ | ⟨f, fs⟩
      · simpa using h
      · simp only
        refine ⟨has_set_same _ _ _, h.2.1, ?_⟩
        intro q hq; rcases mem_set.1 hq with e | ⟨hin, _⟩
        · rw [e]
        · exact h.2.2 q hin
  | beginRemove =>
    simp only [step, stepP] at hs
    rcases hph : s.phase with _ | ⟨u, todo, rd⟩ | u | ⟨u, todo, rd⟩ <;> rw [hph] at hs <;> simp at hs
    subst hs
    unfold J at h; rw [hph] at h; simp only at h
    refine ⟨?_, by rw [norm_keyErrors]⟩
    have hn : norm { s with phase := Phase.rem u (keysOf s.t u) !Dict.has s.t.response u } =
        { s with phase := Phase.rem u (keysOf s.t u) false } := by
      rw [h.1]; unfold norm; simp
    rw [hn]
    unfold J; simp only
    exact ⟨h.1, fun p hp => ⟨h.2.1 p hp, keysOf_mem hp (h.2.1 p hp)⟩, h.2.2⟩
  | remStep =>
    simp only [step, stepP] at hs
    rcases hph : s.phase with _ | ⟨u, todo, rd⟩ | u | ⟨u, todo, rd⟩ <;> rw [hph] at hs <;> simp at hs
    rw [genRemove] at hs
    simp only [if_true] at hs
    unfold J at h; rw [hph] at h
    rcases rd with _ | _
    · simp only at h
      rcases todo with _ | ⟨n, rest⟩
      · simp at hs
        subst hs
        refine ⟨?_, by rw [norm_keyErrors]⟩
        have hreq : s.t.request = [] := by
          apply List.eq_nil_iff_forall_not_mem.2
          intro p hp; have := (h.2.1 p hp).2; simp at this
        unfold norm J; simp only [delResp]
        refine ⟨hreq, ?_⟩
        apply List.eq_nil_iff_forall_not_mem.2
        intro q hq
        have := mem_del.1 hq
        exact this.2 (h.2.2 q this.1)
      · simp at hs
        subst hs
        refine ⟨?_, by rw [norm_keyErrors]⟩
        unfold norm J; simp only [delReq]
        refine ⟨h.1, ?_, h.2.2⟩
        intro p hp
        have hm := mem_del.1 hp
        have := h.2.1 p hm.1
        refine ⟨this.1, ?_⟩
        rcases List.mem_cons.1 this.2 with e | e
        · exact absurd e hm.2
        · exact e
    · simp at h
  | frame f =>
    simp only [step, stepP] at hs
    have hk := onFrameK_ok s h f
    injection hs with hs
    subst hs
    refine ⟨?_, by simp [hk]⟩
    rcases onFrameK_tables s.t f with e | ⟨uid, fs, hm, e⟩
    · unfold J at h ⊢; simp only [e]; exact h
    · exact J_resp_set s h f.name uid (fs ++ [f]) hm _ rfl (by simp [e]) (by simp [e])

theorem run_inv (evs : List Ev) : ∀ (s s' : S), J s → run s evs = some s' → J s' ∧ s'.keyErrors = s.keyErrors := by
  induction evs with
  | nil => intro s s' h hr; simp [run] at hr; subst hr; exact ⟨h, rfl⟩
  | cons e es ih =>
    intro s s' h hr
    simp only [run] at hr
    rcases hst : step s e with _ | s1
    · simp [hst] at hr
    · simp only [hst] at hr
      obtain ⟨h1, k1⟩ := step_inv s s1 e h hst
      obtain ⟨h2, k2⟩ := ih s1 s' h1 hr
      exact ⟨h2, k2.trans k1⟩

theorem J_init : J init := by simp [J, init]

end Amqp.RpcMicro
