import Amqp.Model.Paging
/-
  Helper lemmas for C20 (core Lean only).
-/
set_option linter.unusedSimpArgs false
namespace Amqp.Paging
open Amqp

/-! ## chunk arithmetic -/

theorem lt_pageCount_iff (n p k : Nat) (hp : 0 < p) : k < pageCount n p ↔ k * p < n := by
  unfold pageCount
  rw [Nat.lt_iff_add_one_le, Nat.le_div_iff_mul_le hp, Nat.succ_mul]
  omega

theorem pageCount_zero (p : Nat) (hp : 0 < p) : pageCount 0 p = 0 := by
  have := lt_pageCount_iff 0 p 0 hp
  omega

theorem take_add_chunk {α} (ys : List α) (k p : Nat) :
    ys.take (k * p) ++ (ys.drop (k * p)).take p = ys.take ((k + 1) * p) := by
  rw [Nat.succ_mul, List.take_add]

theorem chunk_ne_nil {α} (ys : List α) (k p : Nat) (hp : 0 < p) (hk : k < pageCount ys.length p) :
    (ys.drop (k * p)).take p ≠ [] := by
  have h := (lt_pageCount_iff ys.length p k hp).1 hk
  intro hnil
  have := congrArg List.length hnil
  simp [List.length_take, List.length_drop] at this
  omega

theorem take_all_of_pageCount_le {α} (ys : List α) (k p : Nat) (hp : 0 < p)
    (hk : pageCount ys.length p ≤ k) : ys.take (k * p) = ys := by
  apply List.take_of_length_le
  have h := lt_pageCount_iff ys.length p k hp
  omega

/-! ## what the requests must look like -/

/-- what ends up in `use_regex` for a flag on which `HTTPClient.list` does not raise -/
def regexParam : PyFlag → Option String
  | .bool true => some "true"
  | .str s => if s = "" then none else some s.toLower
  | _ => none

/-- flags on which `HTTPClient.list` raises AttributeError: truthy ints -/
def flagRaises : PyFlag → Bool
  | .int n => n != 0
  | _ => false

def expBase (name rx : Option String) : Params :=
  (match name with | some s => [("name", PVal.str s)] | none => []) ++
  (match rx with | some s => [("use_regex", PVal.str s)] | none => [])

def expPaged (name rx : Option String) (k p : Int) : Params :=
  expBase name rx ++ [("page", .int k), ("page_size", .int p), ("pagination", .bool true)]

theorem true_lower : "True".toLower = "true" := by decide +kernel

theorem baseParams_ok (name : Option String) (flag : PyFlag) (h : flagRaises flag = false) :
    baseParams name flag = .ok (expBase name (regexParam flag)) := by
  cases name <;> rcases flag with _ | b | n | s
  all_goals first
    | (cases b <;> simp [baseParams, Gen.Paging.baseRules, applyRules, guardHolds, evalSrc, flagText, expBase,
        regexParam, PyFlag.truthy, Params.set, flagRaises, true_lower])
    | (by_cases hs : s = "" <;> simp [baseParams, Gen.Paging.baseRules, applyRules, guardHolds, evalSrc, flagText, expBase,
        regexParam, PyFlag.truthy, Params.set, flagRaises, hs])
    | (simp [baseParams, Gen.Paging.baseRules, applyRules, guardHolds, evalSrc, flagText, expBase,
        regexParam, PyFlag.truthy, Params.set, flagRaises] at h ⊢ <;> exact h)

theorem baseParams_raises (name : Option String) (n : Int) (h : n ≠ 0) :
    baseParams name (.int n) = .error .attributeError := by
  cases name <;>
    simp [baseParams, Gen.Paging.baseRules, applyRules, guardHolds, evalSrc, flagText, PyFlag.truthy, Params.set, h]

theorem pagedParams_ok (name rx : Option String) (flag : PyFlag) (p : Int) :
    pagedParams name flag p (expBase name rx) = .ok (expPaged name rx 1 p) := by
  cases name <;> cases rx <;>
    simp [pagedParams, Gen.Paging.pagedRules, Gen.Paging.firstPage, applyRules, guardHolds, evalSrc, expBase, expPaged, Params.set]

theorem set_page (name rx : Option String) (k k' p : Int) :
    (expPaged name rx k p).set Gen.Paging.loopPageKey (.int k') = expPaged name rx k' p := by
  cases name <;> cases rx <;> simp [Gen.Paging.loopPageKey, expBase, expPaged, Params.set]

theorem get_name (name rx : Option String) (k p : Int) :
    (expPaged name rx k p).getStr "name" = name := by
  cases name <;> cases rx <;> simp [expBase, expPaged, Params.get, Params.getStr]

theorem get_rx (name rx : Option String) (k p : Int) :
    (expPaged name rx k p).getStr "use_regex" = rx := by
  cases name <;> cases rx <;> simp [expBase, expPaged, Params.get, Params.getStr]

theorem get_page (name rx : Option String) (k p : Int) :
    (expPaged name rx k p).get "page" = some (.int k) ∧ (expPaged name rx k p).get "page_size" = some (.int p) := by
  cases name <;> cases rx <;> simp [expBase, expPaged, Params.get]


/-- the items the server holds for a caller's filter -/
def held {α} (sel : Option String → Option String → α → Bool) (xs : List α) (name rx : Option String) : List α :=
  xs.filter (sel name rx)

theorem good_reply {α} (sel : Option String → Option String → α → Bool) (xs : List α) (path : String)
    (name rx : Option String) (k p i : Nat) (hp : 0 < p) (hk : 1 ≤ k)
    (hr : k = 1 ∨ k ≤ pageCount (held sel xs name rx).length p) :
    goodServer sel xs i ⟨path, expPaged name rx (k : Int) (p : Int)⟩ =
      .page ⟨some (k : Int), some (pageCount (held sel xs name rx).length p : Nat),
             some (((held sel xs name rx).drop ((k - 1) * p)).take p)⟩ := by
  unfold goodServer
  simp only [get_name, get_rx, (get_page name rx k p).1, (get_page name rx k p).2, held, Int.toNat_natCast]
  split
  · simp
  · rename_i hn
    exfalso; apply hn
    refine ⟨by omega, by omega, ?_⟩
    rcases hr with h | h
    · left; omega
    · right; exact_mod_cast h


/-- the request the property demands for page `k` -/
def pageRequest (path : String) (name rx : Option String) (p k : Nat) : Request :=
  ⟨path, expPaged name rx (k : Int) (p : Int)⟩

theorem loop_good {α} (sel : Option String → Option String → α → Bool) (xs : List α) (path : String)
    (name rx : Option String) (p : Nat) (hp : 0 < p) :
    ∀ (fuel k idx : Nat) (acc : List α), 1 ≤ k → pageCount (held sel xs name rx).length p ≤ fuel + k →
      acc = (held sel xs name rx).take (k * p) →
      listLoop (goodServer sel xs) path fuel idx (expPaged name rx (k : Int) (p : Int)) (k : Int)
        (pageCount (held sel xs name rx).length p : Nat) acc =
      ⟨(List.range' (k + 1) (pageCount (held sel xs name rx).length p - k)).map (pageRequest path name rx p),
       .ok (held sel xs name rx)⟩ := by
  intro fuel
  induction fuel with
  | zero =>
    intro k idx acc hk hf hacc
    have hle : pageCount (held sel xs name rx).length p ≤ k := by omega
    have ht : Gen.Paging.loopTest (pageCount (held sel xs name rx).length p : Nat) (k : Int) = false := by
      simp [Gen.Paging.loopTest]; omega
    simp only [listLoop, ht]
    have h0 : pageCount (held sel xs name rx).length p - k = 0 := by omega
    simp [h0, hacc, take_all_of_pageCount_le _ k p hp hle]
  | succ fuel ih =>
    intro k idx acc hk hf hacc
    by_cases hlt : k < pageCount (held sel xs name rx).length p
    · have ht : Gen.Paging.loopTest (pageCount (held sel xs name rx).length p : Nat) (k : Int) = true := by
        simp [Gen.Paging.loopTest]; omega
      have hnext : Gen.Paging.nextPage (k : Int) = ((k + 1 : Nat) : Int) := by
        simp [Gen.Paging.nextPage]
      simp only [listLoop, ht, if_true, hnext, set_page]
      rw [good_reply sel xs path name rx (k + 1) p idx hp (by omega) (Or.inr (by omega))]
      simp only [Nat.add_sub_cancel]
      obtain ⟨x, rest, hch⟩ := List.exists_cons_of_ne_nil (chunk_ne_nil (held sel xs name rx) k p hp hlt)
      simp only [hch]
      rw [← hch, ih (k + 1) (idx + 1) _ (by omega) (by omega) (by rw [hacc, take_add_chunk])]
      have : pageCount (held sel xs name rx).length p - k = (pageCount (held sel xs name rx).length p - (k + 1)) + 1 := by omega
      rw [this, List.range'_succ]
      simp [Outcome.push, pageRequest]
    · have hle : pageCount (held sel xs name rx).length p ≤ k := by omega
      have ht : Gen.Paging.loopTest (pageCount (held sel xs name rx).length p : Nat) (k : Int) = false := by
        simp [Gen.Paging.loopTest]; omega
      simp only [listLoop, ht]
      have h0 : pageCount (held sel xs name rx).length p - k = 0 := by omega
      simp [h0, hacc, take_all_of_pageCount_le _ k p hp hle]

/-! ## `listAll` against the well-behaved server; termination against any echoing server -/

theorem listAll_good {α} (sel : Option String → Option String → α → Bool) (xs : List α) (path : String)
    (name : Option String) (flag : PyFlag) (p fuel : Nat) (hp : 0 < p) (hflag : flagRaises flag = false)
    (hfuel : pageCount (held sel xs name (regexParam flag)).length p ≤ fuel + 1) :
    listAll (goodServer sel xs) fuel path name flag (some (p : Int)) =
      ⟨(List.range' 1 (max 1 (pageCount (held sel xs name (regexParam flag)).length p))).map
          (pageRequest path name (regexParam flag) p),
       .ok (held sel xs name (regexParam flag))⟩ := by
  unfold listAll
  simp only [baseParams_ok name flag hflag, pagedParams_ok]
  have h1 := good_reply sel xs path name (regexParam flag) 1 p 0 hp (Nat.le_refl 1) (Or.inl rfl)
  simp only [Int.natCast_one] at h1
  rw [h1]
  simp only [Option.getD_some, Nat.sub_self, Nat.zero_mul, List.drop_zero]
  have h2 := loop_good sel xs path name (regexParam flag) p hp fuel 1 1
    ((held sel xs name (regexParam flag)).take p) (Nat.le_refl 1) (by omega) (by simp)
  simp only [Int.natCast_one] at h2
  rw [h2]
  have : max 1 (pageCount (held sel xs name (regexParam flag)).length p) =
      (pageCount (held sel xs name (regexParam flag)).length p - 1) + 1 := by omega
  rw [this, List.range'_succ]
  simp [Outcome.push, pageRequest]

theorem get_set_self (ps : Params) (k : String) (v : PVal) : (ps.set k v).get k = some v := by
  unfold Params.set Params.get
  split
  · rename_i h
    induction ps with
    | nil => simp at h
    | cons a t ih =>
      simp only [List.map_cons, List.find?_cons]
      by_cases ha : a.1 == k
      · simp [ha]
      · have ha' : (a.1 == k) = false := by simpa using ha
        simp only [List.any_cons, ha', Bool.false_or] at h
        simp only [ha', Bool.false_eq_true, if_false]
        exact ih h
  · rename_i h
    simp only [List.find?_append]
    have : List.find? (fun kv => kv.1 == k) ps = none := by
      simp only [List.find?_eq_none]
      intro x hx hxk
      exact h (List.any_eq_true.2 ⟨x, hx, hxk⟩)
    simp [this]


/-- the server echoes the requested page (when it reports one) and never reports more than `N` pages -/
def Echoes {α} (srv : Server α) (N : Int) : Prop :=
  ∀ i rq r, srv i rq = .page r →
    (∀ pg, r.page = some pg → rq.params.get "page" = some (.int pg)) ∧
    (∀ pc, r.pageCount = some pc → pc ≤ N)

theorem loop_terminates {α} (srv : Server α) (N : Int) (h : Echoes srv N) (path : String) :
    ∀ (fuel idx : Nat) (ps : Params) (cur np : Int) (acc : List α), np ≤ N → N ≤ cur + fuel →
      (listLoop srv path fuel idx ps cur np acc).result ≠ .outOfFuel ∧
      ((listLoop srv path fuel idx ps cur np acc).requests.length : Int) ≤ max 0 (N - cur) := by
  intro fuel
  induction fuel with
  | zero =>
    intro idx ps cur np acc hnp hN
    have ht : Gen.Paging.loopTest np cur = false := by simp [Gen.Paging.loopTest]; omega
    simp [listLoop, ht]; omega
  | succ fuel ih =>
    intro idx ps cur np acc hnp hN
    by_cases ht : Gen.Paging.loopTest np cur = true
    · have hgt : cur < np := by simpa [Gen.Paging.loopTest] using ht
      simp only [listLoop, ht, if_true]
      generalize hrq : (⟨path, ps.set Gen.Paging.loopPageKey (.int (Gen.Paging.nextPage cur))⟩ : Request) = rq
      have hget : rq.params.get "page" = some (.int (cur + 1)) := by
        rw [← hrq]; exact get_set_self ps "page" _
      cases hs : srv idx rq with
      | error =>
        simp [Outcome.push]
        omega
      | listing l => simp [Outcome.push]; omega
      | page r =>
        dsimp only
        obtain ⟨hpg, hpc⟩ := h idx rq r hs
        cases hp : r.page with
        | none => simp [Outcome.push]; omega
        | some pg =>
          have hpg' := hpg pg hp
          rw [hget] at hpg'
          have hpgeq : pg = cur + 1 := by injection hpg' with h1; injection h1 with h2; exact h2.symm
          cases hc : r.pageCount with
          | none => simp [Outcome.push]; omega
          | some pc =>
            have hpcN := hpc pc hc
            cases hi : r.items with
            | none => simp [Outcome.push]; omega
            | some l =>
              cases l with
              | nil => simp [Outcome.push]; omega
              | cons x l' =>
                have := ih (idx + 1) rq.params pg pc (acc ++ x :: l') hpcN (by omega)
                rw [← hrq] at this
                dsimp only at this
                simp only [Outcome.push]
                refine ⟨this.1, ?_⟩
                simp only [List.length_cons, Int.natCast_add, Int.natCast_one]
                have h2 := this.2
                omega
    · have ht' : Gen.Paging.loopTest np cur = false := by simpa using ht
      simp [listLoop, ht']; omega


theorem flagRaises_eq (flag : PyFlag) (h : flagRaises flag = true) : ∃ n, n ≠ 0 ∧ flag = .int n := by
  cases flag <;> simp [flagRaises] at h
  exact ⟨_, h, rfl⟩

theorem listAll_terminates {α} (srv : Server α) (N : Int) (h : Echoes srv N) (path : String)
    (name : Option String) (flag : PyFlag) (ps : Option Int) (fuel : Nat) (hf : N ≤ fuel + 1) :
    (listAll srv fuel path name flag ps).result ≠ .outOfFuel ∧
    ((listAll srv fuel path name flag ps).requests.length : Int) ≤ max 1 N := by
  unfold listAll
  by_cases hfl : flagRaises flag = true
  · obtain ⟨n, hn, rfl⟩ := flagRaises_eq flag hfl
    simp [baseParams_raises name n hn]
    omega
  · have hfl' : flagRaises flag = false := by simpa using hfl
    simp only [baseParams_ok name flag hfl']
    cases ps with
    | none =>
      dsimp only
      cases srv 0 ⟨path, expBase name (regexParam flag)⟩ <;> simp [Outcome.push] <;> omega
    | some p =>
      simp only [pagedParams_ok]
      cases hs : srv 0 ⟨path, expPaged name (regexParam flag) 1 p⟩ with
      | error => simp [Outcome.push]; omega
      | listing l => simp [Outcome.push]; omega
      | page r =>
        dsimp only
        obtain ⟨hpg, hpc⟩ := h 0 _ r hs
        cases hc : r.pageCount with
        | none => simp [Outcome.push]; omega
        | some np =>
          have hnp := hpc np hc
          have hcur : r.page.getD Gen.Paging.pageDefault = 1 := by
            cases hp : r.page with
            | none => simp [Gen.Paging.pageDefault]
            | some pg =>
              have := hpg pg hp
              rw [(get_page name (regexParam flag) 1 p).1] at this
              injection this with h1; injection h1 with h2
              simp [← h2]
          cases hi : r.items with
          | none => simp [Outcome.push]; omega
          | some l =>
            dsimp only
            rw [hcur]
            have := loop_terminates srv N h path fuel 1 (expPaged name (regexParam flag) 1 p) 1 np l hnp (by omega)
            refine ⟨this.1, ?_⟩
            simp only [Outcome.push, List.length_cons, Int.natCast_add, Int.natCast_one]
            have h2 := this.2
            omega

theorem pageCount_le (n p : Nat) (hp : 0 < p) : pageCount n p ≤ n := by
  rcases Nat.eq_zero_or_pos n with h | h
  · subst h; rw [pageCount_zero p hp]; exact Nat.le_refl 0
  · have := lt_pageCount_iff n p n hp
    have h2 : n ≤ n * p := Nat.le_mul_of_pos_right n hp
    omega

theorem goodServer_echoes {α} (sel : Option String → Option String → α → Bool) (xs : List α) :
    Echoes (goodServer sel xs) xs.length := by
  intro i rq r h
  unfold goodServer at h
  split at h
  · cases h
  · rename_i k p hk hp
    dsimp only at h
    split at h
    · rename_i hc
      cases h
      refine ⟨?_, ?_⟩
      · intro pg hpg; cases hpg; exact hk
      · intro pc hpc; cases hpc
        have h1 := pageCount_le (List.filter (sel (rq.params.getStr "name") (rq.params.getStr "use_regex")) xs).length p.toNat (by omega)
        have h2 := List.length_filter_le (sel (rq.params.getStr "name") (rq.params.getStr "use_regex")) xs
        omega
    · cases h
  · cases h

theorem hexUpper_unreserved : ∀ n, n < 16 → isUnreserved (hexUpper n) = true := by decide

/-- `quote(s, '')` emits only unreserved characters and `%` -/
theorem quote_chars (s : String) : ∀ c ∈ (quote s).toList, isUnreserved c = true ∨ c = '%' := by
  intro c hc
  simp only [quote, String.toList_ofList, List.mem_flatMap] at hc
  obtain ⟨a, _, hca⟩ := hc
  split at hca
  · rename_i hu
    simp only [List.mem_singleton] at hca
    subst hca; exact Or.inl hu
  · simp only [List.mem_flatMap] at hca
    obtain ⟨b, _, hcb⟩ := hca
    simp only [List.mem_cons, List.not_mem_nil, or_false] at hcb
    have hb : b.toNat < 256 := UInt8.toNat_lt b
    rcases hcb with h | h | h
    · exact Or.inr h
    · subst h; exact Or.inl (hexUpper_unreserved _ (by omega))
    · subst h; exact Or.inl (hexUpper_unreserved _ (by omega))

end Amqp.Paging
