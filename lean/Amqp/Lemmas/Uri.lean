import Amqp.Model.Uri
/-
  Lemmas for C18: UTF-8 / percent-encoding round trips, decimal numerals, string splitting.
  Core Lean only.
-/
namespace Amqp.Uri
open Amqp

/-! ### UTF-8 -/

theorem char_range (c : Char) : c.toNat < 0xD800 ∨ (0xDFFF < c.toNat ∧ c.toNat < 0x110000) := by
  have := c.valid
  unfold UInt32.isValidChar Nat.isValidChar at this
  exact this

theorem utf8DecSt_cons (st : U8) (b : Nat) (r : List Nat) :
    utf8DecSt st (b :: r) = (u8Step st b).1 ++ utf8DecSt (u8Step st b).2 r := by
  cases st <;> rfl

theorem utf8Dec_enc (c : Char) (rest : List Nat) :
    utf8Dec (utf8Enc c ++ rest) = c :: utf8Dec rest := by
  have hv := char_range c
  have hc : Char.ofNat c.toNat = c := Char.ofNat_toNat c
  unfold utf8Enc utf8Dec
  by_cases h1 : c.toNat < 0x80
  · simp only [h1, if_true, List.cons_append, List.nil_append]
    rw [utf8DecSt_cons]
    simp only [u8Step, u8Start, if_pos h1, hc, List.cons_append, List.nil_append]
  · by_cases h2 : c.toNat < 0x800
    · simp only [h1, h2, if_true, if_false, List.cons_append, List.nil_append]
      rw [utf8DecSt_cons]
      simp only [u8Step, u8Start]
      rw [if_neg (by omega), if_neg (by omega), if_pos (by omega)]
      simp only [List.nil_append]
      rw [utf8DecSt_cons]
      simp only [u8Step]
      rw [if_pos (by omega), if_pos (by omega)]
      have : (0xC0 + c.toNat / 64 - 0xC0) * 64 + (0x80 + c.toNat % 64 - 0x80) = c.toNat := by omega
      simp only [this, hc, List.cons_append, List.nil_append]
    · by_cases h3 : c.toNat < 0x10000
      · simp only [h1, h2, h3, if_true, if_false, List.cons_append, List.nil_append]
        rw [utf8DecSt_cons]
        simp only [u8Step, u8Start]
        rw [if_neg (by omega), if_neg (by omega), if_neg (by omega), if_pos (by omega)]
        simp only [List.nil_append]
        rw [utf8DecSt_cons]
        simp only [u8Step]
        rw [if_pos (by split <;> split <;> omega), if_neg (by omega)]
        simp only [List.nil_append]
        rw [utf8DecSt_cons]
        simp only [u8Step]
        rw [if_pos (by omega), if_pos (by omega)]
        have : ((0xE0 + c.toNat / 4096 - 0xE0) * 64 + (0x80 + c.toNat / 64 % 64 - 0x80)) * 64 +
            (0x80 + c.toNat % 64 - 0x80) = c.toNat := by omega
        simp only [this, hc, List.cons_append, List.nil_append]
      · simp only [h1, h2, h3, if_false, List.cons_append, List.nil_append]
        rw [utf8DecSt_cons]
        simp only [u8Step, u8Start]
        rw [if_neg (by omega), if_neg (by omega), if_neg (by omega), if_neg (by omega),
          if_pos (by omega)]
        simp only [List.nil_append]
        rw [utf8DecSt_cons]
        simp only [u8Step]
        rw [if_pos (by split <;> split <;> omega), if_neg (by omega)]
        simp only [List.nil_append]
        rw [utf8DecSt_cons]
        simp only [u8Step]
        rw [if_pos (by omega), if_neg (by omega)]
        simp only [List.nil_append]
        rw [utf8DecSt_cons]
        simp only [u8Step]
        rw [if_pos (by omega), if_pos (by omega)]
        have : (((0xF0 + c.toNat / 262144 - 0xF0) * 64 + (0x80 + c.toNat / 4096 % 64 - 0x80)) * 64 +
            (0x80 + c.toNat / 64 % 64 - 0x80)) * 64 + (0x80 + c.toNat % 64 - 0x80) = c.toNat := by omega
        simp only [this, hc, List.cons_append, List.nil_append]

theorem utf8Dec_utf8_append (s : Str) (rest : List Nat) :
    utf8Dec (utf8 s ++ rest) = s ++ utf8Dec rest := by
  induction s with
  | nil => rfl
  | cons c cs ih =>
    simp only [utf8, List.flatMap_cons, List.append_assoc] at ih ⊢
    rw [utf8Dec_enc, ih]; rfl

/-- decoding the UTF-8 encoding of any text gives the text back -/
theorem utf8Dec_utf8 (s : Str) : utf8Dec (utf8 s) = s := by
  have := utf8Dec_utf8_append s []
  simpa [utf8Dec, utf8DecSt] using this

/-! ### percent-encoding -/

theorem hexVal_hexU : ∀ x, x < 16 → hexVal (hexU x) = some x := by decide

theorem utf8Enc_lt (c : Char) : ∀ b ∈ utf8Enc c, b < 256 := by
  have hv := char_range c
  intro b hb
  unfold utf8Enc at hb
  simp only [] at hb
  split at hb
  · simp at hb; omega
  · split at hb
    · simp at hb; omega
    · split at hb
      · simp at hb; omega
      · simp at hb; omega

theorem unquoteBytes_cons_ne (c : Char) (t : Str) (h : c ≠ '%') :
    unquoteBytes (c :: t) = utf8Enc c ++ unquoteBytes t := by
  simp [unquoteBytes, unquoteBytesAux, h]

theorem unquoteBytes_pct (b : Nat) (hb : b < 256) (t : Str) :
    unquoteBytes (pctByte b ++ t) = b :: unquoteBytes t := by
  have h1 := hexVal_hexU (b / 16) (by omega)
  have h2 := hexVal_hexU (b % 16) (by omega)
  simp only [unquoteBytes, pctByte, List.cons_append, List.nil_append, unquoteBytesAux, beq_self_eq_true,
    if_true, hexPair, h1, h2]
  congr 1
  omega

theorem unquoteBytes_pcts (bs : List Nat) (h : ∀ b ∈ bs, b < 256) (t : Str) :
    unquoteBytes (bs.flatMap pctByte ++ t) = bs ++ unquoteBytes t := by
  induction bs with
  | nil => rfl
  | cons b bs ih =>
    simp only [List.flatMap_cons, List.append_assoc, List.cons_append]
    rw [unquoteBytes_pct b (h b (by simp)), ih (fun x hx => h x (by simp [hx]))]

theorem unreserved_ne_pct (c : Char) (h : unreserved c = true) : c ≠ '%' := by
  rintro rfl; revert h; decide

theorem unquoteBytes_quoteChar (c : Char) (t : Str) :
    unquoteBytes (quoteChar c ++ t) = utf8Enc c ++ unquoteBytes t := by
  unfold quoteChar
  split
  · rename_i h
    exact unquoteBytes_cons_ne c t (unreserved_ne_pct c h)
  · exact unquoteBytes_pcts _ (utf8Enc_lt c) t

theorem unquoteBytes_quote (s t : Str) :
    unquoteBytes (quote s ++ t) = utf8 s ++ unquoteBytes t := by
  induction s with
  | nil => rfl
  | cons c cs ih =>
    simp only [quote, utf8, List.flatMap_cons, List.append_assoc] at ih ⊢
    rw [unquoteBytes_quoteChar, ih]

/-- percent-decoding the percent-encoding of any text gives the text back -/
theorem unquote_quote (s : Str) : unquote (quote s) = s := by
  have := unquoteBytes_quote s []
  simp only [List.append_nil] at this
  unfold unquote
  rw [this]
  have h2 : unquoteBytes [] = [] := rfl
  rw [h2, List.append_nil, utf8Dec_utf8]

/-- characters `quote(s, safe='')` can produce: unreserved ones, '%' and hex digits -/
def tok (c : Char) : Bool := c.isAlphanum || c == '_' || c == '.' || c == '-' || c == '~' || c == '%'

theorem hexU_tok : ∀ x, x < 16 → tok (hexU x) = true := by decide

theorem quoteChar_tok (c : Char) : ∀ x ∈ quoteChar c, tok x = true := by
  intro x hx
  unfold quoteChar at hx
  split at hx
  · rename_i h
    simp only [List.mem_singleton] at hx
    subst hx
    simp only [unreserved, Bool.or_eq_true] at h
    simp only [tok, Bool.or_eq_true]
    rcases h with ((((h | h) | h) | h) | h) <;> simp [h]
  · simp only [List.mem_flatMap] at hx
    obtain ⟨b, hb, hx⟩ := hx
    have := utf8Enc_lt c b hb
    simp only [pctByte, List.mem_cons, List.not_mem_nil, or_false] at hx
    rcases hx with rfl | rfl | rfl
    · decide
    · exact hexU_tok _ (by omega)
    · exact hexU_tok _ (by omega)

theorem quote_tok (s : Str) : ∀ x ∈ quote s, tok x = true := by
  intro x hx
  simp only [quote, List.mem_flatMap] at hx
  obtain ⟨c, _, hx⟩ := hx
  exact quoteChar_tok c x hx

theorem quote_ne_nil (s : Str) (h : s ≠ []) : quote s ≠ [] := by
  cases s with
  | nil => exact absurd rfl h
  | cons c cs =>
    simp only [quote, List.flatMap_cons]
    unfold quoteChar
    split
    · simp
    · have hv := char_range c
      unfold utf8Enc
      simp only []
      split
      · simp [pctByte]
      · split
        · simp [pctByte]
        · split <;> simp [pctByte]

/-! ### splitting -/

theorem takeUntil_stop (p : Char → Bool) (a : Str) (c : Char) (b : Str)
    (ha : ∀ x ∈ a, p x = false) (hc : p c = true) :
    takeUntil p (a ++ c :: b) = a ∧ dropUntil p (a ++ c :: b) = c :: b := by
  induction a with
  | nil => simp [takeUntil, dropUntil, hc]
  | cons x xs ih =>
    have hx := ha x (by simp)
    have := ih (fun y hy => ha y (by simp [hy]))
    simp [takeUntil, dropUntil, hx, this]

theorem takeUntil_none (p : Char → Bool) (a : Str) (ha : ∀ x ∈ a, p x = false) :
    takeUntil p a = a ∧ dropUntil p a = [] := by
  induction a with
  | nil => simp [takeUntil, dropUntil]
  | cons x xs ih =>
    have hx := ha x (by simp)
    have := ih (fun y hy => ha y (by simp [hy]))
    simp [takeUntil, dropUntil, hx, this]

theorem partition_found (sep : Char) (a b : Str) (ha : ∀ x ∈ a, x ≠ sep) :
    partition sep (a ++ sep :: b) = (a, true, b) := by
  have := takeUntil_stop (· == sep) a sep b (fun x hx => by simpa using ha x hx) (by simp)
  simp [partition, this.1, this.2]

theorem partition_none (sep : Char) (a : Str) (ha : ∀ x ∈ a, x ≠ sep) :
    partition sep a = (a, false, []) := by
  have := takeUntil_none (· == sep) a (fun x hx => by simpa using ha x hx)
  simp [partition, this.2]

theorem rpartition_found (sep : Char) (a b : Str) (hb : ∀ x ∈ b, x ≠ sep) :
    rpartition sep (a ++ sep :: b) = (a, true, b) := by
  have h : (a ++ sep :: b).reverse = b.reverse ++ sep :: a.reverse := by simp
  have := partition_found sep b.reverse a.reverse (fun x hx => hb x (by simpa using hx))
  simp [rpartition, h, this]

theorem rpartition_none (sep : Char) (a : Str) (ha : ∀ x ∈ a, x ≠ sep) :
    rpartition sep a = ([], false, a) := by
  have := partition_none sep a.reverse (fun x hx => ha x (by simpa using hx))
  simp [rpartition, this]

theorem contains_false (sep : Char) (a : Str) (ha : ∀ x ∈ a, x ≠ sep) : a.contains sep = false := by
  cases h : a.contains sep with
  | false => rfl
  | true => exact absurd rfl (ha sep (by simpa using h))

theorem splitOn_ne_nil (sep : Char) (a : Str) : splitOn sep a ≠ [] := by
  cases a with
  | nil => simp [splitOn]
  | cons x xs =>
    simp only [splitOn]
    split <;> (try split) <;> simp

theorem splitOn_none (sep : Char) (a : Str) (ha : ∀ x ∈ a, x ≠ sep) : splitOn sep a = [a] := by
  induction a with
  | nil => rfl
  | cons x xs ih =>
    have hx := ha x (by simp)
    simp [splitOn, ih (fun y hy => ha y (by simp [hy])), hx]

theorem splitOn_found (sep : Char) (a b : Str) (ha : ∀ x ∈ a, x ≠ sep) :
    splitOn sep (a ++ sep :: b) = a :: splitOn sep b := by
  induction a with
  | nil =>
    simp only [List.nil_append, splitOn]
    cases h : splitOn sep b with
    | nil => exact absurd h (splitOn_ne_nil sep b)
    | cons hd tl => simp
  | cons x xs ih =>
    have hx := ha x (by simp)
    simp [splitOn, ih (fun y hy => ha y (by simp [hy])), hx]

theorem class_ne (K : Char → Bool) (c d : Char) (h : K c = true) (hd : K d = false) : c ≠ d := by
  rintro rfl; simp [h] at hd

theorem ne_of_class {K : Char → Bool} {s : Str} (h : ∀ x ∈ s, K x = true) (d : Char)
    (hd : K d = false) : ∀ x ∈ s, x ≠ d :=
  fun x hx => class_ne K x d (h x hx) hd

/-! ### decimal numerals -/

theorem isDigit_range (c : Char) (h : c.isDigit = true) : 48 ≤ c.toNat ∧ c.toNat ≤ 57 := by
  simp only [Char.isDigit, Bool.and_eq_true, decide_eq_true_eq, UInt32.le_iff_toNat_le] at h
  exact h

theorem digitChar_isDigit : ∀ d, d < 10 → (digitChar d).isDigit = true ∧ (digitChar d).toNat = 48 + d := by
  decide

def decStep (a : Nat) (c : Char) : Nat := a * 10 + (c.toNat - 48)

theorem digitsVal_digits (ds : Str) (h : ∀ c ∈ ds, c.isDigit = true) (acc : Nat) (pd : Bool) :
    digitsVal acc pd ds =
      if ds = [] then (if pd then some acc else none) else some (ds.foldl decStep acc) := by
  induction ds generalizing acc pd with
  | nil => simp [digitsVal]
  | cons c cs ih =>
    have hc := h c (by simp)
    have hne : c ≠ '_' := class_ne Char.isDigit c '_' hc (by decide)
    simp only [digitsVal, beq_iff_eq, hne, if_false, digitVal, hc, if_true]
    rw [ih (fun x hx => h x (by simp [hx]))]
    simp only [List.foldl_cons, decStep, reduceCtorEq, if_false, if_true]
    split
    · rename_i h0; subst h0; rfl
    · rfl

theorem toDecF_digits (f n : Nat) : ∀ c ∈ toDecF f n, c.isDigit = true := by
  induction f generalizing n with
  | zero =>
    intro c hc
    simp only [toDecF, List.mem_singleton] at hc
    subst hc
    exact (digitChar_isDigit _ (by omega)).1
  | succ f ih =>
    intro c hc
    simp only [toDecF] at hc
    split at hc
    · simp only [List.mem_singleton] at hc
      subst hc
      exact (digitChar_isDigit _ (by omega)).1
    · simp only [List.mem_append, List.mem_singleton] at hc
      rcases hc with hc | rfl
      · exact ih _ c hc
      · exact (digitChar_isDigit _ (by omega)).1

theorem toDecF_ne_nil (f n : Nat) : toDecF f n ≠ [] := by
  cases f with
  | zero => simp [toDecF]
  | succ f => simp only [toDecF]; split <;> simp

theorem toDecF_val (f n : Nat) (h : n ≤ f) : (toDecF f n).foldl decStep 0 = n := by
  induction f generalizing n with
  | zero =>
    have : n = 0 := by omega
    subst this
    simp [toDecF, decStep, (digitChar_isDigit 0 (by omega)).2]
  | succ f ih =>
    simp only [toDecF]
    split
    · rename_i h10
      simp [decStep, (digitChar_isDigit n h10).2]
    · rw [List.foldl_append, ih (n / 10) (by omega)]
      simp only [List.foldl_cons, List.foldl_nil, decStep, (digitChar_isDigit (n % 10) (by omega)).2]
      omega

theorem toDec_digits (n : Nat) : ∀ c ∈ toDec n, c.isDigit = true := toDecF_digits n n
theorem toDec_ne_nil (n : Nat) : toDec n ≠ [] := toDecF_ne_nil n n

theorem digitsVal_toDec (n : Nat) : digitsVal 0 false (toDec n) = some n := by
  rw [digitsVal_digits _ (toDec_digits n), if_neg (toDec_ne_nil n)]
  exact congrArg some (toDecF_val n n (Nat.le_refl n))

theorem portOf_toDec (n : Nat) (h : n ≤ 65535) : portOf (some (toDec n)) = .ok (some n) := by
  have hall : (toDec n).all Char.isDigit = true := by
    simpa [List.all_eq_true] using toDec_digits n
  simp [portOf, hall, digitsVal_toDec, h]

theorem dropWhile_none (p : Char → Bool) (l : Str) (h : ∀ x ∈ l, p x = false) : l.dropWhile p = l := by
  cases l with
  | nil => rfl
  | cons x xs => simp [List.dropWhile, h x (by simp)]

theorem digit_not_space (c : Char) (h : c.isDigit = true) : pySpace c = false := by
  have := isDigit_range c h
  simp only [pySpace, Bool.or_eq_false_iff, Bool.and_eq_false_iff, decide_eq_false_iff_not, beq_eq_false_iff_ne]
  omega

theorem pyInt_toDec (n : Nat) : pyInt (toDec n) = .ok (n : Int) := by
  have hd := toDec_digits n
  have hany : (toDec n).any (fun c => decide (128 ≤ c.toNat)) = false := by
    simp only [List.any_eq_false, decide_eq_true_eq]
    intro c hc
    have := isDigit_range c (hd c hc)
    omega
  have hstrip : strip (toDec n) = toDec n := by
    unfold strip
    rw [dropWhile_none _ _ (fun x hx => digit_not_space x (hd x hx)),
      dropWhile_none _ _ (fun x hx => digit_not_space x (hd x (by simpa using hx)))]
    simp
  have hhead : ∀ d : Char, Char.isDigit d = false → ((toDec n).head? == some d) = false := by
    intro d hdd
    cases h : toDec n with
    | nil => rfl
    | cons c cs =>
      have : c ≠ d := class_ne Char.isDigit c d (hd c (by simp [h])) hdd
      simp [this]
  simp only [pyInt, hany, hstrip, hhead '-' (by decide), hhead '+' (by decide), Bool.false_eq_true,
    if_false, Bool.or_self, digitsVal_toDec]

/-! ### unquote on text without escapes -/

theorem unquoteBytes_noPct (s : Str) (h : ∀ c ∈ s, c ≠ '%') : unquoteBytes s = utf8 s := by
  induction s with
  | nil => rfl
  | cons c cs ih =>
    rw [unquoteBytes_cons_ne c cs (h c (by simp)), ih (fun x hx => h x (by simp [hx]))]
    simp [utf8]

theorem unquote_noPct (s : Str) (h : ∀ c ∈ s, c ≠ '%') : unquote s = s := by
  unfold unquote
  rw [unquoteBytes_noPct s h, utf8Dec_utf8]

theorem plusToSpace_id (s : Str) (h : ∀ c ∈ s, c ≠ '+') : plusToSpace s = s := by
  induction s with
  | nil => rfl
  | cons c cs ih =>
    have := h c (by simp)
    simp only [plusToSpace, List.map_cons, beq_iff_eq, this, if_false] at ih ⊢
    rw [ih (fun x hx => h x (by simp [hx]))]

/-! ### the query -/

def optKey : UOpt → Str
  | .heartbeat _ => ['h', 'e', 'a', 'r', 't', 'b', 'e', 'a', 't']
  | .timeout _ => ['t', 'i', 'm', 'e', 'o', 'u', 't']

def optNum : UOpt → Nat
  | .heartbeat n => n
  | .timeout n => n

theorem renderOpt_eq (o : UOpt) : renderOpt o = optKey o ++ '=' :: toDec (optNum o) := by
  cases o <;> simp [renderOpt, optKey, optNum]

theorem optKey_alpha (o : UOpt) : ∀ x ∈ optKey o, x.isAlpha = true := by
  cases o <;> (simp only [optKey]; decide)

theorem renderOpt_class (o : UOpt) : ∀ x ∈ renderOpt o, (x.isAlphanum || x == '=') = true := by
  intro x hx
  rw [renderOpt_eq] at hx
  simp only [List.mem_append, List.mem_cons] at hx
  rcases hx with hx | rfl | hx
  · have := optKey_alpha o x hx
    simp [Char.isAlphanum, this]
  · decide
  · have := toDec_digits _ x hx
    simp [Char.isAlphanum, this]

/-- the text after '?' -/
def queryText : List UOpt → Str
  | [] => []
  | o :: os => renderOpt o ++ os.flatMap (fun o => '&' :: renderOpt o)

theorem renderQuery_eq (os : List UOpt) :
    renderQuery os = if os = [] then [] else '?' :: queryText os := by
  cases os <;> simp [renderQuery, queryText]

theorem queryText_class (os : List UOpt) :
    ∀ x ∈ queryText os, (x.isAlphanum || x == '=' || x == '&') = true := by
  intro x hx
  cases os with
  | nil => simp [queryText] at hx
  | cons o os =>
    simp only [queryText, List.mem_append, List.mem_flatMap, List.mem_cons] at hx
    rcases hx with hx | ⟨o', _, rfl | hx⟩
    · have := renderOpt_class o x hx
      simp only [Bool.or_eq_true] at this ⊢
      exact Or.inl this
    · decide
    · have := renderOpt_class o' x hx
      simp only [Bool.or_eq_true] at this ⊢
      exact Or.inl this

theorem splitOn_query (o : UOpt) (os : List UOpt) :
    splitOn '&' (renderOpt o ++ os.flatMap (fun o => '&' :: renderOpt o)) = (o :: os).map renderOpt := by
  induction os generalizing o with
  | nil =>
    simp only [List.flatMap_nil, List.append_nil, List.map_cons, List.map_nil]
    exact splitOn_none '&' _ (ne_of_class (renderOpt_class o) '&' (by decide))
  | cons o' os ih =>
    simp only [List.flatMap_cons, List.cons_append, List.map_cons]
    rw [splitOn_found '&' _ _ (ne_of_class (renderOpt_class o) '&' (by decide)), ih o']
    rfl

theorem field_parse (o : UOpt) : parseField (renderOpt o) = some (optKey o, toDec (optNum o)) := by
  unfold parseField
  have hk : ∀ x ∈ optKey o, x ≠ '=' := ne_of_class (optKey_alpha o) '=' (by decide)
  rw [renderOpt_eq, partition_found '=' _ _ hk]
  simp only [toDec_ne_nil, if_false]
  have h1 : plusToSpace (optKey o) = optKey o :=
    plusToSpace_id _ (ne_of_class (optKey_alpha o) '+' (by decide))
  have h2 : plusToSpace (toDec (optNum o)) = toDec (optNum o) :=
    plusToSpace_id _ (ne_of_class (toDec_digits _) '+' (by decide))
  rw [h1, h2, unquote_noPct _ (ne_of_class (optKey_alpha o) '%' (by decide)),
    unquote_noPct _ (ne_of_class (toDec_digits _) '%' (by decide))]

theorem parseQsl_query (os : List UOpt) :
    parseQsl (queryText os) = os.map (fun o => (optKey o, toDec (optNum o))) := by
  cases os with
  | nil => simp [parseQsl, queryText]
  | cons o os =>
    have hne : queryText (o :: os) ≠ [] := by
      simp only [queryText, renderOpt_eq]
      cases o <;> simp [optKey]
    unfold parseQsl
    rw [if_neg hne]
    simp only [queryText]
    rw [splitOn_query]
    generalize o :: os = l
    induction l with
    | nil => rfl
    | cons a l ih =>
      simp only [List.map_cons, List.filterMap_cons]
      rw [field_parse a]
      simp only [ih]

/-- the first value stated for an option -/
def firstOpt (key : Str) (os : List UOpt) : Option Nat :=
  (os.find? (fun o => optKey o == key)).map optNum

theorem firstValue_query (key : Str) (os : List UOpt) :
    firstValue key (os.map (fun o => (optKey o, toDec (optNum o)))) = (firstOpt key os).map toDec := by
  simp only [firstValue, firstOpt, List.find?_map, Option.map_map]
  rfl

theorem optValue_query (spec : OptSpec) (hs : spec.toInt = true) (os : List UOpt) :
    optValue spec (parseQsl (queryText os)) =
      .ok (match firstOpt spec.key os with
           | some n => .int n
           | none => spec.dflt) := by
  unfold optValue
  rw [parseQsl_query, firstValue_query]
  cases firstOpt spec.key os with
  | none => rfl
  | some n => simp [hs, pyInt_toDec, Except.map]

/-! ### character classes of a rendered URI -/

theorem alnum_range (c : Char) (h : c.isAlphanum = true) : 48 ≤ c.toNat ∧ c.toNat ≤ 122 := by
  simp only [Char.isAlphanum, Char.isAlpha, Char.isUpper, Char.isLower, Char.isDigit, Bool.or_eq_true,
    Bool.and_eq_true, decide_eq_true_eq, UInt32.le_iff_toNat_le] at h
  have : c.toNat = c.val.toNat := rfl
  have e1 : 'A'.val.toNat = 65 := rfl
  have e2 : 'Z'.val.toNat = 90 := rfl
  have e3 : 'a'.val.toNat = 97 := rfl
  have e4 : 'z'.val.toNat = 122 := rfl
  have e5 : '0'.val.toNat = 48 := rfl
  have e6 : '9'.val.toNat = 57 := rfl
  have e7 : (48 : UInt32).toNat = 48 := rfl
  have e8 : (57 : UInt32).toNat = 57 := rfl
  omega

/-- RFC 3986 sub-delims: legal unescaped in userinfo and in a path segment -/
def subDelims : List Char := ['!', '$', '&', '\'', '(', ')', '*', '+', ',', ';', '=']

/-- every character a rendered URI can contain -/
def urlCh (c : Char) : Bool :=
  c.isAlphanum || (['_', '.', '-', '~', '%', ':', '/', '?', '[', ']', '@'] ++ subDelims).contains c

theorem urlCh_of_alnum (c : Char) (h : c.isAlphanum = true) : urlCh c = true := by simp [urlCh, h]

theorem urlCh_of_mem (c : Char)
    (h : c ∈ ['_', '.', '-', '~', '%', ':', '/', '?', '[', ']', '@'] ++ subDelims) : urlCh c = true := by
  simp only [urlCh, Bool.or_eq_true, List.contains_iff_mem]
  exact Or.inr h

theorem urlCh_range (c : Char) (h : urlCh c = true) : 33 ≤ c.toNat ∧ c.toNat ≤ 126 := by
  simp only [urlCh, Bool.or_eq_true, List.contains_iff_mem] at h
  rcases h with h | h
  · have := alnum_range c h; omega
  · have key : ∀ d ∈ ['_', '.', '-', '~', '%', ':', '/', '?', '[', ']', '@'] ++ subDelims,
        33 ≤ d.toNat ∧ d.toNat ≤ 126 := by decide
    exact key c h

theorem urlCh_safe (c : Char) (h : urlCh c = true) : unsafeChar c = false := by
  have hr := urlCh_range c h
  simp only [unsafeChar, Bool.or_eq_false_iff, beq_eq_false_iff_ne]
  refine ⟨⟨?_, ?_⟩, ?_⟩ <;> (rintro rfl; revert hr; decide)

theorem urlCh_of_tok (c : Char) (h : tok c = true) : urlCh c = true := by
  simp only [tok, Bool.or_eq_true, beq_iff_eq] at h
  rcases h with ((((h | h) | h) | h) | h) | h
  · exact urlCh_of_alnum c h
  all_goals (subst h; decide)

def hostCh (c : Char) : Bool := c.isAlphanum || c == '-' || c == '.' || c == '_'
def v6Ch (c : Char) : Bool := c.isAlphanum || c == ':' || c == '.'

def subDelim (c : Char) : Bool := subDelims.contains c
/-- characters of a username as written in a URI: unreserved, escapes, sub-delims -/
def userCh (c : Char) : Bool := tok c || subDelim c
/-- password text may also contain ':' -/
def passCh (c : Char) : Bool := userCh c || c == ':'
/-- a path segment may also contain '@' -/
def pathCh (c : Char) : Bool := passCh c || c == '@'

theorem urlCh_of_pathCh (c : Char) (h : pathCh c = true) : urlCh c = true := by
  simp only [pathCh, passCh, userCh, subDelim, Bool.or_eq_true, beq_iff_eq, List.contains_iff_mem] at h
  rcases h with ((h | h) | h) | h
  · exact urlCh_of_tok c h
  · exact urlCh_of_mem c (by simp [h])
  · subst h; decide
  · subst h; decide

theorem pathCh_of_passCh (c : Char) (h : passCh c = true) : pathCh c = true := by simp [pathCh, h]
theorem pathCh_of_userCh (c : Char) (h : userCh c = true) : pathCh c = true := by simp [pathCh, passCh, h]
theorem userCh_of_tok (c : Char) (h : tok c = true) : userCh c = true := by simp [userCh, h]

theorem urlCh_of_hostCh (c : Char) (h : hostCh c = true) : urlCh c = true := by
  simp only [hostCh, Bool.or_eq_true, beq_iff_eq] at h
  rcases h with ((h | h) | h) | h
  · exact urlCh_of_alnum c h
  all_goals (subst h; decide)

theorem urlCh_of_v6Ch (c : Char) (h : v6Ch c = true) : urlCh c = true := by
  simp only [v6Ch, Bool.or_eq_true, beq_iff_eq] at h
  rcases h with (h | h) | h
  · exact urlCh_of_alnum c h
  all_goals (subst h; decide)

theorem urlCh_of_digit (c : Char) (h : c.isDigit = true) : urlCh c = true :=
  urlCh_of_alnum c (by simp [Char.isAlphanum, h])

theorem filter_safe (s : Str) (h : ∀ x ∈ s, urlCh x = true) :
    s.filter (fun c => !unsafeChar c) = s := by
  rw [List.filter_eq_self]
  intro x hx
  simp [urlCh_safe x (h x hx)]

def httpPrefix (tls : Bool) : Str :=
  if tls then ['h', 't', 't', 'p', 's', ':', '/', '/'] else ['h', 't', 't', 'p', ':', '/', '/']

def httpScheme (tls : Bool) : Str := if tls then ['h', 't', 't', 'p', 's'] else ['h', 't', 't', 'p']

theorem httpPrefix_urlCh (tls : Bool) : ∀ x ∈ httpPrefix tls, urlCh x = true := by
  cases tls <;> decide

theorem cleanUrl_http (tls : Bool) (r : Str) (h : ∀ x ∈ r, urlCh x = true) :
    cleanUrl (httpPrefix tls ++ r) = httpPrefix tls ++ r := by
  have hall : ∀ x ∈ httpPrefix tls ++ r, urlCh x = true := by
    intro x hx
    rcases List.mem_append.1 hx with hx | hx
    · exact httpPrefix_urlCh tls x hx
    · exact h x hx
  unfold cleanUrl
  have : (httpPrefix tls ++ r).dropWhile c0OrSpace = httpPrefix tls ++ r := by
    cases tls <;> simp [httpPrefix, List.dropWhile, c0OrSpace]
  rw [this, filter_safe _ hall]

theorem splitScheme_http (tls : Bool) (r : Str) :
    splitScheme (httpPrefix tls ++ r) = (httpScheme tls, '/' :: '/' :: r) := by
  cases tls <;>
    simp [httpPrefix, httpScheme, splitScheme, takeUntil, dropUntil, schemeChar, List.contains_cons]

/-- what the parsing lemmas need to know about the scheme text `P` (`…://`) that reaches `urlsplit`:
    the clean-up leaves it alone and it splits into the (lower-cased) scheme `S` and `//…` -/
structure PrefixOk (P S : Str) : Prop where
  clean : ∀ r, (∀ x ∈ r, urlCh x = true) → cleanUrl (P ++ r) = P ++ r
  split : ∀ r, splitScheme (P ++ r) = (S, '/' :: '/' :: r)

theorem httpPrefixOk (tls : Bool) : PrefixOk (httpPrefix tls) (httpScheme tls) :=
  ⟨cleanUrl_http tls, splitScheme_http tls⟩

theorem splitNetloc_parts (NL REST : Str) (hNL : ∀ x ∈ NL, netlocDelim x = false)
    (hR : REST = [] ∨ ∃ c t, REST = c :: t ∧ netlocDelim c = true) :
    splitNetloc ('/' :: '/' :: (NL ++ REST)) = (NL, REST) := by
  simp only [splitNetloc, List.take, beq_self_eq_true, if_true, List.drop]
  rcases hR with rfl | ⟨c, t, rfl, hc⟩
  · have := takeUntil_none netlocDelim NL hNL
    simp [this]
  · have := takeUntil_stop netlocDelim NL c t hNL hc
    simp [this]

/-! ### urlsplit on a rendered URI -/

theorem tok_props (x : Char) (h : tok x = true) :
    x ≠ '?' ∧ x ≠ '#' ∧ x ≠ ';' ∧ x ≠ '/' ∧ x ≠ ':' ∧ x ≠ '@' ∧ x ≠ '[' ∧ x ≠ ']' :=
  ⟨class_ne tok x _ h (by decide), class_ne tok x _ h (by decide), class_ne tok x _ h (by decide),
   class_ne tok x _ h (by decide), class_ne tok x _ h (by decide), class_ne tok x _ h (by decide),
   class_ne tok x _ h (by decide), class_ne tok x _ h (by decide)⟩

def qCh (x : Char) : Bool := x.isAlphanum || x == '=' || x == '&'

theorem urlCh_of_qCh (c : Char) (h : qCh c = true) : urlCh c = true := by
  simp only [qCh, Bool.or_eq_true, beq_iff_eq] at h
  rcases h with (h | h) | h
  · exact urlCh_of_alnum c h
  all_goals (subst h; decide)

/-- shape of a rendered path: absent, or '/' followed by segment text -/
def PathOk (PATH : Str) : Prop := PATH = [] ∨ ∃ t, PATH = '/' :: t ∧ ∀ x ∈ t, pathCh x = true

theorem urlsplit_parts (v6ok : Str → Bool) (P S : Str) (hPS : PrefixOk P S) (NL PATH : Str) (os : List UOpt)
    (hNL : ∀ x ∈ NL, urlCh x = true ∧ netlocDelim x = false)
    (hbr : NL.contains '[' = NL.contains ']' ∧ (NL.contains '[' = true → v6ok (bracketed NL) = true))
    (hP : PathOk PATH) :
    urlsplit v6ok (P ++ (NL ++ (PATH ++ renderQuery os))) =
      .ok ⟨S, NL, PATH, queryText os, []⟩ := by
  have hQ := queryText_class os
  -- character facts
  have hPu : ∀ x ∈ PATH, urlCh x = true ∧ x ≠ '?' ∧ x ≠ '#' := by
    intro x hx
    rcases hP with rfl | ⟨t, rfl, ht⟩
    · simp at hx
    · rcases List.mem_cons.1 hx with rfl | hx
      · decide
      · exact ⟨urlCh_of_pathCh x (ht x hx), class_ne pathCh x _ (ht x hx) (by decide),
          class_ne pathCh x _ (ht x hx) (by decide)⟩
  have hQu : ∀ x ∈ renderQuery os, urlCh x = true ∧ x ≠ '#' := by
    intro x hx
    rw [renderQuery_eq] at hx
    split at hx
    · simp at hx
    · rcases List.mem_cons.1 hx with rfl | hx
      · decide
      · have := hQ x hx
        exact ⟨urlCh_of_qCh x this, class_ne qCh x '#' this (by decide)⟩
  have hall : ∀ x ∈ NL ++ (PATH ++ renderQuery os), urlCh x = true := by
    intro x hx
    simp only [List.mem_append] at hx
    rcases hx with hx | hx | hx
    · exact (hNL x hx).1
    · exact (hPu x hx).1
    · exact (hQu x hx).1
  have hR : PATH ++ renderQuery os = [] ∨
      ∃ c t, PATH ++ renderQuery os = c :: t ∧ netlocDelim c = true := by
    rcases hP with rfl | ⟨t, rfl, _⟩
    · rw [renderQuery_eq]
      split
      · exact Or.inl rfl
      · exact Or.inr ⟨'?', _, rfl, by decide⟩
    · exact Or.inr ⟨'/', _, rfl, by decide⟩
  have hfrag : partition '#' (PATH ++ renderQuery os) = (PATH ++ renderQuery os, false, []) :=
    partition_none '#' _ (by
      intro x hx
      rcases List.mem_append.1 hx with hx | hx
      · exact (hPu x hx).2.2
      · exact (hQu x hx).2)
  have hquery : partition '?' (PATH ++ renderQuery os) = (PATH, !(os == []), queryText os) := by
    rw [renderQuery_eq]
    cases os with
    | nil =>
      simp only [if_true, List.append_nil]
      rw [partition_none '?' PATH (fun x hx => (hPu x hx).2.1)]
      rfl
    | cons o os =>
      simp only [reduceCtorEq, if_false]
      rw [partition_found '?' PATH _ (fun x hx => (hPu x hx).2.1)]
      rfl
  have hascii : isAscii NL = true := by
    simp only [isAscii, List.all_eq_true, decide_eq_true_eq]
    intro x hx
    have := urlCh_range x (hNL x hx).1
    omega
  unfold urlsplit
  rw [hPS.clean _ hall, hPS.split]
  simp only []
  rw [splitNetloc_parts NL _ (fun x hx => (hNL x hx).2) hR]
  simp only [hbr.1, bne_self_eq_false, Bool.false_eq_true, if_false]
  have hv : (NL.contains ']' && !v6ok (bracketed NL)) = false := by
    cases h : NL.contains ']' with
    | false => rfl
    | true => simp [hbr.2 (hbr.1.trans h)]
  simp only [hv, Bool.false_eq_true, if_false, hfrag, hquery, hascii, Bool.not_true]

/-! ### specification side: well-formed components and the parameters they state -/

def Host.text : Host → Str
  | .name h => h
  | .v6 h => h

/-- a host as the property's quantifier describes it: a non-empty registered name / IPv4 literal
    over letters, digits, '-', '.', '_', or an IPv6 literal (hex digits, ':' and '.') that the
    bracket check (`v6ok`, i.e. Python's `ipaddress`) accepts -/
def Host.WF (v6ok : Str → Bool) : Host → Prop
  | .name h => h ≠ [] ∧ ∀ x ∈ h, hostCh x = true
  | .v6 h => h ≠ [] ∧ (∀ x ∈ h, v6Ch x = true) ∧ v6ok h = true

structure Components.WF (v6ok : Str → Bool) (c : Components) : Prop where
  host : ∀ h, c.host = some h → h.WF v6ok
  port : ∀ n, c.port = some n → 0 < n ∧ n ≤ 65535

def guest : Str := ['g', 'u', 'e', 's', 't']
def localhost : Str := ['l', 'o', 'c', 'a', 'l', 'h', 'o', 's', 't']

/-- a credential / vhost component: the stated text, or the default when absent or empty -/
def orDefault (x : Option Str) (d : Str) : Str :=
  match x with
  | none => d
  | some u => if u = [] then d else u

def firstHb : List UOpt → Option Nat
  | [] => none
  | .heartbeat n :: _ => some n
  | .timeout _ :: r => firstHb r

def firstTmo : List UOpt → Option Nat
  | [] => none
  | .timeout n :: _ => some n
  | .heartbeat _ :: r => firstTmo r

/-- the parameters a URI rendered from `c` states (documented defaults written out literally) -/
def expected (c : Components) : Params where
  hostname := match c.host with
    | none => localhost
    | some h => h.text.map Char.toLower
  username := orDefault c.user guest
  password := orDefault c.pass guest
  port := match c.port with
    | none => if c.tls then 5671 else 5672
    | some n => n
  virtualHost := orDefault c.vhost ['/']
  heartbeat := .int (match firstHb c.opts with | some n => n | none => 60)
  timeout := .int (match firstTmo c.opts with | some n => n | none => 10)
  ssl := c.tls

theorem firstOpt_hb (os : List UOpt) :
    firstOpt ['h', 'e', 'a', 'r', 't', 'b', 'e', 'a', 't'] os = firstHb os := by
  induction os with
  | nil => rfl
  | cons o os ih =>
    cases o with
    | heartbeat n => simp [firstOpt, firstHb, optKey, optNum]
    | timeout n =>
      simp only [firstOpt, firstHb, List.find?_cons] at ih ⊢
      have : (optKey (.timeout n) == ['h', 'e', 'a', 'r', 't', 'b', 'e', 'a', 't']) = false := by
        simp only [optKey]; decide
      simp [this, ih]

theorem firstOpt_tmo (os : List UOpt) :
    firstOpt ['t', 'i', 'm', 'e', 'o', 'u', 't'] os = firstTmo os := by
  induction os with
  | nil => rfl
  | cons o os ih =>
    cases o with
    | timeout n => simp [firstOpt, firstTmo, optKey, optNum]
    | heartbeat n =>
      simp only [firstOpt, firstTmo, List.find?_cons] at ih ⊢
      have : (optKey (.heartbeat n) == ['t', 'i', 'm', 'e', 'o', 'u', 't']) = false := by
        simp only [optKey]; decide
      simp [this, ih]

/-! ### netloc -/

theorem partition_port (h : Str) (hh : ∀ x ∈ h, x ≠ ':') (port : Option Nat) :
    partition ':' (h ++ renderPort port) = (h, port.isSome, (port.map toDec).getD []) := by
  cases port with
  | none => simpa [renderPort] using partition_none ':' h hh
  | some n => simpa [renderPort] using partition_found ':' h (toDec n) hh

theorem portText (port : Option Nat) :
    (if (port.map toDec).getD [] = [] then none else some ((port.map toDec).getD [])) = port.map toDec := by
  cases port with
  | none => rfl
  | some n => simp [toDec_ne_nil]

theorem renderPort_class (port : Option Nat) :
    ∀ x ∈ renderPort port, (x.isDigit || x == ':') = true := by
  intro x hx
  cases port with
  | none => simp [renderPort] at hx
  | some n =>
    simp only [renderPort, List.mem_cons] at hx
    rcases hx with rfl | hx
    · decide
    · simp [toDec_digits n x hx]

def pCh (x : Char) : Bool := x.isDigit || x == ':'

theorem urlCh_of_pCh (c : Char) (h : pCh c = true) : urlCh c = true := by
  simp only [pCh, Bool.or_eq_true, beq_iff_eq] at h
  rcases h with h | h
  · exact urlCh_of_digit c h
  · subst h; decide

/-- `_hostinfo` on the host/port part -/
theorem hostinfoRaw_hp (host : Option Host) (port : Option Nat) (v6ok : Str → Bool)
    (hw : ∀ h, host = some h → h.WF v6ok) :
    hostinfoRaw (renderHost host ++ renderPort port) =
      ((host.map Host.text).getD [], (port.map toDec).getD []) := by
  unfold hostinfoRaw
  have hp := renderPort_class port
  cases host with
  | none =>
    simp only [renderHost, List.nil_append, Option.map_none, Option.getD_none]
    have h1 := partition_none '[' _ (ne_of_class (K := pCh) hp '[' (by decide))
    have h2 := partition_port [] (by simp) port
    simp only [List.nil_append] at h2
    simp only [h1, h2]
  | some h =>
    cases h with
    | name h =>
      have hwf := hw _ rfl
      simp only [Host.WF] at hwf
      simp only [renderHost, Option.map_some, Option.getD_some, Host.text]
      have hno : ∀ x ∈ h ++ renderPort port, x ≠ '[' := by
        intro x hx
        rcases List.mem_append.1 hx with hx | hx
        · exact class_ne hostCh x _ (hwf.2 x hx) (by decide)
        · exact class_ne pCh x _ (hp x hx) (by decide)
      simp only [partition_none '[' _ hno, partition_port h (ne_of_class hwf.2 ':' (by decide)) port]
    | v6 h =>
      have hwf := hw _ rfl
      simp only [Host.WF] at hwf
      simp only [renderHost, Option.map_some, Option.getD_some, Host.text, List.cons_append,
        List.append_assoc, List.nil_append]
      have h1 := partition_found '[' [] (h ++ (']' :: renderPort port)) (by simp)
      simp only [List.nil_append] at h1
      have h2 := partition_found ']' h (renderPort port) (ne_of_class hwf.2.1 ']' (by decide))
      have h3 := partition_port [] (by simp) port
      simp only [List.nil_append] at h3
      simp only [h1, h2, h3]

theorem hostinfo_hp (UI : Str) (host : Option Host) (port : Option Nat) (v6ok : Str → Bool)
    (hw : ∀ h, host = some h → h.WF v6ok)
    (hr : (rpartition '@' (UI ++ (renderHost host ++ renderPort port))).2.2 =
      renderHost host ++ renderPort port) :
    hostinfo (UI ++ (renderHost host ++ renderPort port)) =
      ((host.map Host.text).getD [], port.map toDec) := by
  unfold hostinfo
  simp only [hr, hostinfoRaw_hp host port v6ok hw, portText]

theorem hostnameOf_text (h : Str) (hne : h ≠ []) (hp : ∀ x ∈ h, x ≠ '%') :
    hostnameOf h = some (h.map Char.toLower) := by
  unfold hostnameOf
  rw [if_neg hne, partition_none '%' h hp]
  simp

theorem hostnameOf_host (v6ok : Str → Bool) (host : Option Host) (hw : ∀ h, host = some h → h.WF v6ok) :
    hostnameOf ((host.map Host.text).getD []) = host.map (fun h => h.text.map Char.toLower) := by
  cases host with
  | none => rfl
  | some h =>
    have hwf := hw _ rfl
    cases h with
    | name h =>
      simp only [Host.WF] at hwf
      simpa [Host.text] using hostnameOf_text h hwf.1 (ne_of_class hwf.2 '%' (by decide))
    | v6 h =>
      simp only [Host.WF] at hwf
      simpa [Host.text] using hostnameOf_text h hwf.1 (ne_of_class hwf.2.1 '%' (by decide))

/-! ### userinfo -/

/-- the username text `urlparse` reports for a rendered userinfo -/
def uiUser : Option Str → Option Str → Option Str
  | none, none => none
  | some u, none => some u
  | u, some _ => some (u.getD [])

/-- characters of a rendered userinfo (including its ':' and '@' separators) -/
abbrev uCh : Char → Bool := pathCh

theorem renderUserinfo_class (u p : Option Str) (hu : ∀ e, u = some e → ∀ x ∈ e, userCh x = true)
    (hp : ∀ e, p = some e → ∀ x ∈ e, passCh x = true) :
    ∀ x ∈ renderUserinfo u p, uCh x = true := by
  intro x hx
  cases u <;> cases p <;>
    simp only [renderUserinfo, List.mem_append, List.mem_cons, List.not_mem_nil, or_false,
      Option.getD_none, Option.getD_some] at hx
  · rcases hx with (hx | rfl | hx) | rfl
    · exact absurd hx (by simp)
    · decide
    · exact pathCh_of_passCh x (hp _ rfl x hx)
    · decide
  · rcases hx with hx | rfl
    · exact pathCh_of_userCh x (hu _ rfl x hx)
    · decide
  · rcases hx with (hx | rfl | hx) | rfl
    · exact pathCh_of_userCh x (hu _ rfl x hx)
    · decide
    · exact pathCh_of_passCh x (hp _ rfl x hx)
    · decide

theorem userinfo_render (u p : Option Str) (HP : Str) (hHP : ∀ x ∈ HP, x ≠ '@')
    (hu : ∀ e, u = some e → ∀ x ∈ e, userCh x = true)
    (hp : ∀ e, p = some e → ∀ x ∈ e, passCh x = true) :
    userinfo (renderUserinfo u p ++ HP) = (uiUser u p, p) ∧
    (rpartition '@' (renderUserinfo u p ++ HP)).2.2 = HP := by
  have case2 : ∀ (a b : Str), (∀ x ∈ a, userCh x = true) → (∀ x ∈ b, passCh x = true) →
      userinfo ((a ++ ':' :: b ++ ['@']) ++ HP) = (some a, some b) ∧
      (rpartition '@' ((a ++ ':' :: b ++ ['@']) ++ HP)).2.2 = HP := by
    intro a b ha hb
    have e : (a ++ ':' :: b ++ ['@']) ++ HP = (a ++ ':' :: b) ++ '@' :: HP := by simp
    rw [e]
    have := rpartition_found '@' (a ++ ':' :: b) HP hHP
    simp only [userinfo, this, partition_found ':' a b (ne_of_class ha ':' (by decide)), and_self]
  cases u with
  | none =>
    cases p with
    | none =>
      have := rpartition_none '@' HP hHP
      simp [renderUserinfo, userinfo, this, uiUser]
    | some b =>
      have := case2 [] b (by simp) (hp _ rfl)
      simpa [renderUserinfo, uiUser] using this
  | some a =>
    cases p with
    | none =>
      have e : (a ++ ['@']) ++ HP = a ++ '@' :: HP := by simp
      have := rpartition_found '@' a HP hHP
      simp only [renderUserinfo, uiUser, e, userinfo, this,
        partition_none ':' a (ne_of_class (hu _ rfl) ':' (by decide)), and_self]
    | some b =>
      have := case2 a b (hu _ rfl) (hp _ rfl)
      simpa [renderUserinfo, uiUser] using this

/-- a decoded credential / vhost: the percent-decoded text as written, or the default when the
    component is absent or empty -/
def decodedOr (x : Option Str) (d : Str) : Str :=
  match x with
  | none => d
  | some e => if e = [] then d else unquote e

/-- the credential that reaches the parameters: `unquote(<reported text> or 'guest')` -/
theorem cred_eq (x : Option Str) : unquote (strOr x guest) = decodedOr x guest := by
  have hg : unquote guest = guest := unquote_noPct guest (by decide)
  cases x with
  | none => exact hg
  | some e =>
    simp only [strOr, decodedOr]
    split
    · exact hg
    · rfl

/-! ### host/port part -/

def hpCh (x : Char) : Bool := x.isAlphanum || x == '-' || x == '.' || x == '_' || x == ':' || x == '[' || x == ']'

theorem renderHP_class (v6ok : Str → Bool) (host : Option Host) (port : Option Nat)
    (hw : ∀ h, host = some h → h.WF v6ok) :
    ∀ x ∈ renderHost host ++ renderPort port, hpCh x = true := by
  intro x hx
  have hd : ∀ x, pCh x = true → hpCh x = true := by
    intro x h
    simp only [pCh, Bool.or_eq_true, beq_iff_eq] at h
    rcases h with h | h
    · simp [hpCh, Char.isAlphanum, h]
    · subst h; decide
  have hh : ∀ x, hostCh x = true → hpCh x = true := by
    intro x h
    simp only [hostCh, Bool.or_eq_true, beq_iff_eq] at h
    rcases h with ((h | h) | h) | h
    · simp [hpCh, h]
    all_goals (subst h; decide)
  have h6 : ∀ x, v6Ch x = true → hpCh x = true := by
    intro x h
    simp only [v6Ch, Bool.or_eq_true, beq_iff_eq] at h
    rcases h with (h | h) | h
    · simp [hpCh, h]
    all_goals (subst h; decide)
  rcases List.mem_append.1 hx with hx | hx
  · cases host with
    | none => simp [renderHost] at hx
    | some h =>
      have hwf := hw _ rfl
      cases h with
      | name h => exact hh x (hwf.2 x hx)
      | v6 h =>
        simp only [renderHost, List.mem_cons, List.mem_append, List.not_mem_nil, or_false] at hx
        rcases hx with (rfl | hx) | rfl
        · decide
        · exact h6 x (hwf.2.1 x hx)
        · decide
  · exact hd x (renderPort_class port x hx)

theorem urlCh_of_hpCh (c : Char) (h : hpCh c = true) : urlCh c = true := by
  simp only [hpCh, Bool.or_eq_true, beq_iff_eq] at h
  rcases h with (((((h | h) | h) | h) | h) | h) | h
  · exact urlCh_of_alnum c h
  all_goals (subst h; decide)

theorem urlCh_of_uCh (c : Char) (h : uCh c = true) : urlCh c = true := urlCh_of_pathCh c h

/-- bracket facts of a rendered netloc -/
theorem netloc_brackets (v6ok : Str → Bool) (UI : Str) (hUI : ∀ x ∈ UI, uCh x = true)
    (host : Option Host) (port : Option Nat) (hw : ∀ h, host = some h → h.WF v6ok) :
    let NL := UI ++ (renderHost host ++ renderPort port)
    NL.contains '[' = NL.contains ']' ∧ (NL.contains '[' = true → v6ok (bracketed NL) = true) := by
  intro NL
  have hp := renderPort_class port
  have plain : (∀ x ∈ renderHost host, hostCh x = true) →
      NL.contains '[' = NL.contains ']' ∧ (NL.contains '[' = true → v6ok (bracketed NL) = true) := by
    intro hh
    have hno : ∀ d, uCh d = false → hostCh d = false → pCh d = false → ∀ x ∈ NL, x ≠ d := by
      intro d h1 h2 h3 x hx
      simp only [NL, List.mem_append] at hx
      rcases hx with hx | hx | hx
      · exact class_ne uCh x d (hUI x hx) h1
      · exact class_ne hostCh x d (hh x hx) h2
      · exact class_ne pCh x d (hp x hx) h3
    have h1 := contains_false '[' NL (hno '[' (by decide) (by decide) (by decide))
    have h2 := contains_false ']' NL (hno ']' (by decide) (by decide) (by decide))
    rw [h1, h2]
    simp
  cases host with
  | none => exact plain (by simp [renderHost])
  | some h =>
    have hwf := hw _ rfl
    cases h with
    | name h => exact plain (by simpa [renderHost] using hwf.2)
    | v6 h =>
      simp only [Host.WF] at hwf
      have e : NL = UI ++ '[' :: (h ++ ']' :: renderPort port) := by simp [NL, renderHost]
      have c1 : NL.contains '[' = true := by rw [e]; simp
      have c2 : NL.contains ']' = true := by rw [e]; simp
      refine ⟨by rw [c1, c2], fun _ => ?_⟩
      have hb : bracketed NL = h := by
        rw [e]
        unfold bracketed
        rw [partition_found '[' UI _ (ne_of_class hUI '[' (by decide))]
        simp only []
        rw [partition_found ']' h _ (ne_of_class hwf.2.1 ']' (by decide))]
      rw [hb]; exact hwf.2.2

/-! ### patch_uri and urlparse on a rendered URI -/

def amqpPrefix (tls : Bool) : Str :=
  if tls then ['a', 'm', 'q', 'p', 's', ':', '/', '/'] else ['a', 'm', 'q', 'p', ':', '/', '/']

theorem patchUri_amqp (tls : Bool) (r : Str) : patchUri (amqpPrefix tls ++ r) = httpPrefix tls ++ r := by
  cases tls <;>
    simp [amqpPrefix, httpPrefix, patchUri, Gen.Uri.patchTable, uptoColon, takeUntil, replaceFirst,
      List.isPrefixOf]

/-- the text of username / password / vhost as written in a URI stays inside its component:
    username without ':' and '@', password without '@', vhost without '?' and '#', none of them with
    '/', brackets, blanks or control characters (unreserved, `%`, sub-delims; plus ':' in the password
    and ':' '@' in the vhost) -/
structure Components.EncOk (c : Components) : Prop where
  user : ∀ e, c.user = some e → ∀ x ∈ e, userCh x = true
  pass : ∀ e, c.pass = some e → ∀ x ∈ e, passCh x = true
  vhost : ∀ e, c.vhost = some e → ∀ x ∈ e, pathCh x = true

theorem renderPath_ok (v : Option Str) (hv : ∀ e, v = some e → ∀ x ∈ e, pathCh x = true) :
    PathOk (renderPath v) := by
  cases v with
  | none => exact Or.inl rfl
  | some v => exact Or.inr ⟨v, rfl, hv v rfl⟩

theorem renderRaw_eq (c : Components) :
    renderRaw c = amqpPrefix c.tls ++ ((renderUserinfo c.user c.pass ++ (renderHost c.host ++ renderPort c.port)) ++
      (renderPath c.vhost ++ renderQuery c.opts)) := by
  simp only [renderRaw, amqpPrefix, List.append_assoc]

/-- everything of a rendered URI after the scheme prefix -/
def renderBody (c : Components) : Str :=
  (renderUserinfo c.user c.pass ++ (renderHost c.host ++ renderPort c.port)) ++
    (renderPath c.vhost ++ renderQuery c.opts)

/-- what the parser called by `UriConnection.__init__` reports for a rendered URI whose scheme prefix
    is written as `pre`, becomes `P` under `patch_uri` and is reported as scheme `S` -/
theorem urlparse_body' (v6ok : Str → Bool) (pre P S : Str) (hpatch : ∀ r, patchUri (pre ++ r) = P ++ r)
    (hPS : PrefixOk P S) (c : Components) (hwh : ∀ h, c.host = some h → h.WF v6ok)
    (he : c.EncOk) :
    urlparse v6ok (patchUri (pre ++ renderBody c)) =
      match portOf (c.port.map toDec) with
      | .ok port => .ok
        ⟨S, uiUser c.user c.pass, c.pass,
         c.host.map (fun h => h.text.map Char.toLower), port, renderPath c.vhost, queryText c.opts⟩
      | .error e => .error e := by
  have hHP := renderHP_class v6ok c.host c.port hwh
  have hUI := renderUserinfo_class c.user c.pass he.user he.pass
  have hNL : ∀ x ∈ renderUserinfo c.user c.pass ++ (renderHost c.host ++ renderPort c.port),
      urlCh x = true ∧ netlocDelim x = false := by
    intro x hx
    rcases List.mem_append.1 hx with hx | hx
    · refine ⟨urlCh_of_uCh x (hUI x hx), ?_⟩
      have a := class_ne uCh x '/' (hUI x hx) (by decide)
      have b := class_ne uCh x '?' (hUI x hx) (by decide)
      have d := class_ne uCh x '#' (hUI x hx) (by decide)
      simp [netlocDelim, a, b, d]
    · refine ⟨urlCh_of_hpCh x (hHP x hx), ?_⟩
      have a := class_ne hpCh x '/' (hHP x hx) (by decide)
      have b := class_ne hpCh x '?' (hHP x hx) (by decide)
      have d := class_ne hpCh x '#' (hHP x hx) (by decide)
      simp [netlocDelim, a, b, d]
  have hbr := netloc_brackets v6ok _ hUI c.host c.port hwh
  have hsplit := urlsplit_parts v6ok P S hPS _ (renderPath c.vhost) c.opts hNL hbr (renderPath_ok c.vhost he.vhost)
  have hui := userinfo_render c.user c.pass (renderHost c.host ++ renderPort c.port)
    (ne_of_class hHP '@' (by decide)) he.user he.pass
  have hhi := hostinfo_hp _ c.host c.port v6ok hwh hui.2
  -- the source calls `urlsplit`: no `;params` are cut off the path
  have hcut : Gen.Uri.cutsParams = false := rfl
  rw [renderBody, hpatch]
  unfold urlparse
  simp only [hsplit, bind, Except.bind, hcut, Bool.false_and, Bool.false_eq_true, if_false, hui.1, hhi,
    hostnameOf_host v6ok c.host hwh, pure, Except.pure]
  cases portOf (c.port.map toDec) <;> rfl

/-- what the parser called by `UriConnection.__init__` reports for `patch_uri` of a rendered URI -/
theorem urlparse_render' (v6ok : Str → Bool) (c : Components) (hwh : ∀ h, c.host = some h → h.WF v6ok)
    (he : c.EncOk) :
    urlparse v6ok (patchUri (renderRaw c)) =
      match portOf (c.port.map toDec) with
      | .ok port => .ok
        ⟨httpScheme c.tls, uiUser c.user c.pass, c.pass,
         c.host.map (fun h => h.text.map Char.toLower), port, renderPath c.vhost, queryText c.opts⟩
      | .error e => .error e := by
  rw [renderRaw_eq]
  exact urlparse_body' v6ok _ _ _ (patchUri_amqp c.tls) (httpPrefixOk c.tls) c hwh he

theorem portOf_toDec_big (n : Nat) (h : 65535 < n) : portOf (some (toDec n)) = .error .valueError := by
  have hall : (toDec n).all Char.isDigit = true := by
    simpa [List.all_eq_true] using toDec_digits n
  simp [portOf, hall, digitsVal_toDec, Nat.not_le.2 h]

theorem urlparse_render (v6ok : Str → Bool) (c : Components) (hw : c.WF v6ok) (he : c.EncOk) :
    urlparse v6ok (patchUri (renderRaw c)) = .ok
      ⟨httpScheme c.tls, uiUser c.user c.pass, c.pass,
       c.host.map (fun h => h.text.map Char.toLower), c.port, renderPath c.vhost, queryText c.opts⟩ := by
  have hport : portOf (c.port.map toDec) = .ok c.port := by
    cases hp : c.port with
    | none => rfl
    | some n => exact portOf_toDec n (hw.port n hp).2
  rw [urlparse_render' v6ok c hw.host he, hport]

theorem urlparse_body (v6ok : Str → Bool) (pre P S : Str) (hpatch : ∀ r, patchUri (pre ++ r) = P ++ r)
    (hPS : PrefixOk P S) (c : Components) (hw : c.WF v6ok) (he : c.EncOk) :
    urlparse v6ok (patchUri (pre ++ renderBody c)) = .ok
      ⟨S, uiUser c.user c.pass, c.pass,
       c.host.map (fun h => h.text.map Char.toLower), c.port, renderPath c.vhost, queryText c.opts⟩ := by
  have hport : portOf (c.port.map toDec) = .ok c.port := by
    cases hp : c.port with
    | none => rfl
    | some n => exact portOf_toDec n (hw.port n hp).2
  rw [urlparse_body' v6ok pre P S hpatch hPS c hw.host he, hport]

/-! ### the scheme in any spelling -/

def amqpScheme (tls : Bool) : Str := if tls then ['a', 'm', 'q', 'p', 's'] else ['a', 'm', 'q', 'p']

/-- no letter that counts is upper case -/
def Caps.isLower (tls : Bool) (k : Caps) : Bool := !k.a && !k.m && !k.q && !k.p && !(tls && k.s)

/-- what `patch_uri` makes of the scheme prefix: `http(s)://` for the all-lower-case spelling (the
    only one its case-sensitive comparison recognises), otherwise the text as written -/
def patchedPrefix (tls : Bool) (k : Caps) : Str := if k.isLower tls then httpPrefix tls else casedPrefix tls k

/-- the scheme `urlsplit` then reports (it lower-cases) -/
def reportedScheme (tls : Bool) (k : Caps) : Str := if k.isLower tls then httpScheme tls else amqpScheme tls

theorem patchUri_cased (tls : Bool) (k : Caps) (r : Str) :
    patchUri (casedPrefix tls k ++ r) = patchedPrefix tls k ++ r := by
  obtain ⟨a, m, q, p, s⟩ := k
  cases tls <;> cases a <;> cases m <;> cases q <;> cases p <;> cases s <;>
    simp [casedPrefix, patchedPrefix, Caps.isLower, httpPrefix, patchUri, Gen.Uri.patchTable, uptoColon, takeUntil,
      replaceFirst, List.isPrefixOf]

theorem casedPrefix_urlCh (tls : Bool) (k : Caps) : ∀ x ∈ casedPrefix tls k, urlCh x = true := by
  obtain ⟨a, m, q, p, s⟩ := k
  cases tls <;> cases a <;> cases m <;> cases q <;> cases p <;> cases s <;> decide

theorem patchedPrefixOk (tls : Bool) (k : Caps) : PrefixOk (patchedPrefix tls k) (reportedScheme tls k) := by
  by_cases hl : k.isLower tls = true
  · unfold patchedPrefix reportedScheme
    rw [if_pos hl, if_pos hl]
    exact httpPrefixOk tls
  · unfold patchedPrefix reportedScheme
    rw [if_neg hl, if_neg hl]
    refine ⟨?_, ?_⟩
    · intro r h
      have hall : ∀ x ∈ casedPrefix tls k ++ r, urlCh x = true := by
        intro x hx
        rcases List.mem_append.1 hx with hx | hx
        · exact casedPrefix_urlCh tls k x hx
        · exact h x hx
      unfold cleanUrl
      have : (casedPrefix tls k ++ r).dropWhile c0OrSpace = casedPrefix tls k ++ r := by
        obtain ⟨a, m, q, p, s⟩ := k
        cases a <;> simp [casedPrefix, List.dropWhile, c0OrSpace]
      rw [this, filter_safe _ hall]
    · intro r
      obtain ⟨a, m, q, p, s⟩ := k
      cases tls <;> cases a <;> cases m <;> cases q <;> cases p <;> cases s <;>
        simp [casedPrefix, amqpScheme, splitScheme, takeUntil, dropUntil, schemeChar, List.contains_cons]

theorem renderRawCased_eq (k : Caps) (c : Components) :
    renderRawCased k c = casedPrefix c.tls k ++ renderBody c := by
  simp only [renderRawCased, renderBody, List.append_assoc]

/-- the canonical encoding keeps every component inside its character class -/
theorem encode_ok (c : Components) : c.encode.EncOk := by
  refine ⟨?_, ?_, ?_⟩ <;> intro e he x hx <;>
    simp only [Components.encode, Option.map_eq_some_iff] at he <;>
    obtain ⟨s, _, rfl⟩ := he
  · exact userCh_of_tok x (quote_tok s x hx)
  · simp [passCh, userCh_of_tok x (quote_tok s x hx)]
  · exact pathCh_of_userCh x (userCh_of_tok x (quote_tok s x hx))

theorem decodedOr_quote (x : Option Str) (d : Str) : decodedOr (x.map quote) d = orDefault x d := by
  cases x with
  | none => rfl
  | some s =>
    simp only [Option.map_some, decodedOr, orDefault]
    by_cases h : s = []
    · subst h; rfl
    · simp only [quote_ne_nil s h, h, if_false]
      exact unquote_quote s

end Amqp.Uri
