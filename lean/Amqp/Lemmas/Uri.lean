import Amqp.Model.Uri
/-
  Lemmas for C18: UTF-8 / percent-encoding round trips, decimal numerals, string splitting.
  Core Lean only.
-/
namespace Amqp.Uri
open Amqp

/-! ### UTF-8 -/

theorem char_range (c : Char) : c.toNat < 0xD800 ∨ (0xDFFF < c.toNat ∧ c.toNat < 0x110000) := by
  have := c.valid
  unfold UInt32.isValidChar Nat.isValidChar at this
  exact this

theorem utf8Dec_enc (c : Char) (rest : List Nat) :
    utf8Dec (utf8Enc c ++ rest) = c :: utf8Dec rest := by
  have hv := char_range c
  have hc : Char.ofNat c.toNat = c := Char.ofNat_toNat c
  unfold utf8Enc
  by_cases h1 : c.toNat < 0x80
  · simp only [h1, if_true, List.cons_append, List.nil_append]
    rw [utf8Dec.eq_def]; simp only []; rw [if_pos h1, hc]
  · by_cases h2 : c.toNat < 0x800
    · simp only [h1, h2, if_true, if_false, List.cons_append, List.nil_append]
      rw [utf8Dec.eq_def]; simp only []
      rw [if_neg (by omega), if_neg (by omega), if_pos (by omega), if_pos (by omega)]
      have : (0xC0 + c.toNat / 64 - 0xC0) * 64 + (0x80 + c.toNat % 64 - 0x80) = c.toNat := by omega
      rw [this, hc]
    · by_cases h3 : c.toNat < 0x10000
      · simp only [h1, h2, h3, if_true, if_false, List.cons_append, List.nil_append]
        rw [utf8Dec.eq_def]; simp only []
        rw [if_neg (by omega), if_neg (by omega), if_neg (by omega), if_pos (by omega),
          if_neg (by omega), if_pos (by omega)]
        have : (0xE0 + c.toNat / 4096 - 0xE0) * 4096 + (0x80 + c.toNat / 64 % 64 - 0x80) * 64 +
            (0x80 + c.toNat % 64 - 0x80) = c.toNat := by omega
        rw [this, hc]
      · simp only [h1, h2, h3, if_false, List.cons_append, List.nil_append]
        rw [utf8Dec.eq_def]; simp only []
        rw [if_neg (by omega), if_neg (by omega), if_neg (by omega), if_neg (by omega),
          if_pos (by omega), if_neg (by omega), if_neg (by omega), if_pos (by omega)]
        have : (0xF0 + c.toNat / 262144 - 0xF0) * 262144 + (0x80 + c.toNat / 4096 % 64 - 0x80) * 4096 +
            (0x80 + c.toNat / 64 % 64 - 0x80) * 64 + (0x80 + c.toNat % 64 - 0x80) = c.toNat := by omega
        rw [this, hc]

theorem utf8Dec_utf8_append (s : Str) (rest : List Nat) :
    utf8Dec (utf8 s ++ rest) = s ++ utf8Dec rest := by
  induction s with
  | nil => rfl
  | cons c cs ih =>
    simp only [utf8, List.flatMap_cons, List.append_assoc] at ih ⊢
    rw [utf8Dec_enc, ih]; rfl

/-- decoding the UTF-8 encoding of any text gives the text back -/
theorem utf8Dec_utf8 (s : Str) : utf8Dec (utf8 s) = s := by
  have := utf8Dec_utf8_append s []
  simpa [utf8Dec] using this

/-! ### percent-encoding -/

theorem hexVal_hexU : ∀ x, x < 16 → hexVal (hexU x) = some x := by decide

theorem utf8Enc_lt (c : Char) : ∀ b ∈ utf8Enc c, b < 256 := by
  have hv := char_range c
  intro b hb
  unfold utf8Enc at hb
  simp only [] at hb
  split at hb
  · simp at hb; omega
  · split at hb
    · simp at hb; omega
    · split at hb
      · simp at hb; omega
      · simp at hb; omega

theorem unquoteBytes_cons_ne (c : Char) (t : Str) (h : c ≠ '%') :
    unquoteBytes (c :: t) = utf8Enc c ++ unquoteBytes t := by
  rw [unquoteBytes.eq_def]
  simp [h]

theorem unquoteBytes_pct (b : Nat) (hb : b < 256) (t : Str) :
    unquoteBytes (pctByte b ++ t) = b :: unquoteBytes t := by
  have h1 := hexVal_hexU (b / 16) (by omega)
  have h2 := hexVal_hexU (b % 16) (by omega)
  rw [unquoteBytes.eq_def]
  simp only [pctByte, List.cons_append, List.nil_append, h1, h2]
  simp
  omega

theorem unquoteBytes_pcts (bs : List Nat) (h : ∀ b ∈ bs, b < 256) (t : Str) :
    unquoteBytes (bs.flatMap pctByte ++ t) = bs ++ unquoteBytes t := by
  induction bs with
  | nil => rfl
  | cons b bs ih =>
    simp only [List.flatMap_cons, List.append_assoc, List.cons_append]
    rw [unquoteBytes_pct b (h b (by simp)), ih (fun x hx => h x (by simp [hx]))]

theorem unreserved_ne_pct (c : Char) (h : unreserved c = true) : c ≠ '%' := by
  rintro rfl; revert h; decide

theorem unquoteBytes_quoteChar (c : Char) (t : Str) :
    unquoteBytes (quoteChar c ++ t) = utf8Enc c ++ unquoteBytes t := by
  unfold quoteChar
  split
  · rename_i h
    exact unquoteBytes_cons_ne c t (unreserved_ne_pct c h)
  · exact unquoteBytes_pcts _ (utf8Enc_lt c) t

theorem unquoteBytes_quote (s t : Str) :
    unquoteBytes (quote s ++ t) = utf8 s ++ unquoteBytes t := by
  induction s with
  | nil => rfl
  | cons c cs ih =>
    simp only [quote, utf8, List.flatMap_cons, List.append_assoc] at ih ⊢
    rw [unquoteBytes_quoteChar, ih]

/-- percent-decoding the percent-encoding of any text gives the text back -/
theorem unquote_quote (s : Str) : unquote (quote s) = s := by
  have := unquoteBytes_quote s []
  simp only [List.append_nil] at this
  unfold unquote
  rw [this]
  have h2 : unquoteBytes [] = [] := rfl
  rw [h2, List.append_nil, utf8Dec_utf8]

/-- characters `quote(s, safe='')` can produce: unreserved ones, '%' and hex digits -/
def tok (c : Char) : Bool := c.isAlphanum || c == '_' || c == '.' || c == '-' || c == '~' || c == '%'

theorem hexU_tok : ∀ x, x < 16 → tok (hexU x) = true := by decide

theorem quoteChar_tok (c : Char) : ∀ x ∈ quoteChar c, tok x = true := by
  intro x hx
  unfold quoteChar at hx
  split at hx
  · rename_i h
    simp only [List.mem_singleton] at hx
    subst hx
    simp only [unreserved, Bool.or_eq_true] at h
    simp only [tok, Bool.or_eq_true]
    rcases h with ((((h | h) | h) | h) | h) <;> simp [h]
  · simp only [List.mem_flatMap] at hx
    obtain ⟨b, hb, hx⟩ := hx
    have := utf8Enc_lt c b hb
    simp only [pctByte, List.mem_cons, List.not_mem_nil, or_false] at hx
    rcases hx with rfl | rfl | rfl
    · decide
    · exact hexU_tok _ (by omega)
    · exact hexU_tok _ (by omega)

theorem quote_tok (s : Str) : ∀ x ∈ quote s, tok x = true := by
  intro x hx
  simp only [quote, List.mem_flatMap] at hx
  obtain ⟨c, _, hx⟩ := hx
  exact quoteChar_tok c x hx

theorem quote_ne_nil (s : Str) (h : s ≠ []) : quote s ≠ [] := by
  cases s with
  | nil => exact absurd rfl h
  | cons c cs =>
    simp only [quote, List.flatMap_cons]
    unfold quoteChar
    split
    · simp
    · have hv := char_range c
      unfold utf8Enc
      simp only []
      split
      · simp [pctByte]
      · split
        · simp [pctByte]
        · split <;> simp [pctByte]

/-! ### splitting -/

theorem takeUntil_stop (p : Char → Bool) (a : Str) (c : Char) (b : Str)
    (ha : ∀ x ∈ a, p x = false) (hc : p c = true) :
    takeUntil p (a ++ c :: b) = a ∧ dropUntil p (a ++ c :: b) = c :: b := by
  induction a with
  | nil => simp [takeUntil, dropUntil, hc]
  | cons x xs ih =>
    have hx := ha x (by simp)
    have := ih (fun y hy => ha y (by simp [hy]))
    simp [takeUntil, dropUntil, hx, this]

theorem takeUntil_none (p : Char → Bool) (a : Str) (ha : ∀ x ∈ a, p x = false) :
    takeUntil p a = a ∧ dropUntil p a = [] := by
  induction a with
  | nil => simp [takeUntil, dropUntil]
  | cons x xs ih =>
    have hx := ha x (by simp)
    have := ih (fun y hy => ha y (by simp [hy]))
    simp [takeUntil, dropUntil, hx, this]

theorem partition_found (sep : Char) (a b : Str) (ha : ∀ x ∈ a, x ≠ sep) :
    partition sep (a ++ sep :: b) = (a, true, b) := by
  have := takeUntil_stop (· == sep) a sep b (fun x hx => by simpa using ha x hx) (by simp)
  simp [partition, this.1, this.2]

theorem partition_none (sep : Char) (a : Str) (ha : ∀ x ∈ a, x ≠ sep) :
    partition sep a = (a, false, []) := by
  have := takeUntil_none (· == sep) a (fun x hx => by simpa using ha x hx)
  simp [partition, this.2]

theorem rpartition_found (sep : Char) (a b : Str) (hb : ∀ x ∈ b, x ≠ sep) :
    rpartition sep (a ++ sep :: b) = (a, true, b) := by
  have h : (a ++ sep :: b).reverse = b.reverse ++ sep :: a.reverse := by simp
  have := partition_found sep b.reverse a.reverse (fun x hx => hb x (by simpa using hx))
  simp [rpartition, h, this]

theorem rpartition_none (sep : Char) (a : Str) (ha : ∀ x ∈ a, x ≠ sep) :
    rpartition sep a = ([], false, a) := by
  have := partition_none sep a.reverse (fun x hx => ha x (by simpa using hx))
  simp [rpartition, this]

theorem contains_false (sep : Char) (a : Str) (ha : ∀ x ∈ a, x ≠ sep) : a.contains sep = false := by
  cases h : a.contains sep with
  | false => rfl
  | true => exact absurd rfl (ha sep (by simpa using h))

theorem splitOn_ne_nil (sep : Char) (a : Str) : splitOn sep a ≠ [] := by
  cases a with
  | nil => simp [splitOn]
  | cons x xs =>
    simp only [splitOn]
    split <;> (try split) <;> simp

theorem splitOn_none (sep : Char) (a : Str) (ha : ∀ x ∈ a, x ≠ sep) : splitOn sep a = [a] := by
  induction a with
  | nil => rfl
  | cons x xs ih =>
    have hx := ha x (by simp)
    simp [splitOn, ih (fun y hy => ha y (by simp [hy])), hx]

theorem splitOn_found (sep : Char) (a b : Str) (ha : ∀ x ∈ a, x ≠ sep) :
    splitOn sep (a ++ sep :: b) = a :: splitOn sep b := by
  induction a with
  | nil =>
    simp only [List.nil_append, splitOn]
    cases h : splitOn sep b with
    | nil => exact absurd h (splitOn_ne_nil sep b)
    | cons hd tl => simp
  | cons x xs ih =>
    have hx := ha x (by simp)
    simp [splitOn, ih (fun y hy => ha y (by simp [hy])), hx]

theorem class_ne (K : Char → Bool) (c d : Char) (h : K c = true) (hd : K d = false) : c ≠ d := by
  rintro rfl; simp [h] at hd

theorem ne_of_class {K : Char → Bool} {s : Str} (h : ∀ x ∈ s, K x = true) (d : Char)
    (hd : K d = false) : ∀ x ∈ s, x ≠ d :=
  fun x hx => class_ne K x d (h x hx) hd

/-! ### decimal numerals -/

theorem isDigit_range (c : Char) (h : c.isDigit = true) : 48 ≤ c.toNat ∧ c.toNat ≤ 57 := by
  simp only [Char.isDigit, Bool.and_eq_true, decide_eq_true_eq, UInt32.le_iff_toNat_le] at h
  exact h

theorem digitChar_isDigit : ∀ d, d < 10 → (digitChar d).isDigit = true ∧ (digitChar d).toNat = 48 + d := by
  decide

def decStep (a : Nat) (c : Char) : Nat := a * 10 + (c.toNat - 48)

theorem digitsVal_digits (ds : Str) (h : ∀ c ∈ ds, c.isDigit = true) (acc : Nat) (pd : Bool) :
    digitsVal acc pd ds =
      if ds = [] then (if pd then some acc else none) else some (ds.foldl decStep acc) := by
  induction ds generalizing acc pd with
  | nil => simp [digitsVal]
  | cons c cs ih =>
    have hc := h c (by simp)
    have hne : c ≠ '_' := class_ne Char.isDigit c '_' hc (by decide)
    simp only [digitsVal, beq_iff_eq, hne, if_false, digitVal, hc, if_true]
    rw [ih (fun x hx => h x (by simp [hx]))]
    simp only [List.foldl_cons, decStep, reduceCtorEq, if_false, if_true]
    split
    · rename_i h0; subst h0; rfl
    · rfl

theorem toDecF_digits (f n : Nat) : ∀ c ∈ toDecF f n, c.isDigit = true := by
  induction f generalizing n with
  | zero =>
    intro c hc
    simp only [toDecF, List.mem_singleton] at hc
    subst hc
    exact (digitChar_isDigit _ (by omega)).1
  | succ f ih =>
    intro c hc
    simp only [toDecF] at hc
    split at hc
    · simp only [List.mem_singleton] at hc
      subst hc
      exact (digitChar_isDigit _ (by omega)).1
    · simp only [List.mem_append, List.mem_singleton] at hc
      rcases hc with hc | rfl
      · exact ih _ c hc
      · exact (digitChar_isDigit _ (by omega)).1

theorem toDecF_ne_nil (f n : Nat) : toDecF f n ≠ [] := by
  cases f with
  | zero => simp [toDecF]
  | succ f => simp only [toDecF]; split <;> simp

theorem toDecF_val (f n : Nat) (h : n ≤ f) : (toDecF f n).foldl decStep 0 = n := by
  induction f generalizing n with
  | zero =>
    have : n = 0 := by omega
    subst this
    simp [toDecF, decStep, (digitChar_isDigit 0 (by omega)).2]
  | succ f ih =>
    simp only [toDecF]
    split
    · rename_i h10
      simp [decStep, (digitChar_isDigit n h10).2]
    · rw [List.foldl_append, ih (n / 10) (by omega)]
      simp only [List.foldl_cons, List.foldl_nil, decStep, (digitChar_isDigit (n % 10) (by omega)).2]
      omega

theorem toDec_digits (n : Nat) : ∀ c ∈ toDec n, c.isDigit = true := toDecF_digits n n
theorem toDec_ne_nil (n : Nat) : toDec n ≠ [] := toDecF_ne_nil n n

theorem digitsVal_toDec (n : Nat) : digitsVal 0 false (toDec n) = some n := by
  rw [digitsVal_digits _ (toDec_digits n), if_neg (toDec_ne_nil n)]
  exact congrArg some (toDecF_val n n (Nat.le_refl n))

theorem portOf_toDec (n : Nat) (h : n ≤ 65535) : portOf (some (toDec n)) = .ok (some n) := by
  have hall : (toDec n).all Char.isDigit = true := by
    simpa [List.all_eq_true] using toDec_digits n
  simp [portOf, hall, digitsVal_toDec, h]

theorem dropWhile_none (p : Char → Bool) (l : Str) (h : ∀ x ∈ l, p x = false) : l.dropWhile p = l := by
  cases l with
  | nil => rfl
  | cons x xs => simp [List.dropWhile, h x (by simp)]

theorem digit_not_space (c : Char) (h : c.isDigit = true) : pySpace c = false := by
  have := isDigit_range c h
  simp only [pySpace, Bool.or_eq_false_iff, Bool.and_eq_false_iff, decide_eq_false_iff_not, beq_eq_false_iff_ne]
  omega

theorem pyInt_toDec (n : Nat) : pyInt (toDec n) = .ok (n : Int) := by
  have hd := toDec_digits n
  have hany : (toDec n).any (fun c => decide (128 ≤ c.toNat)) = false := by
    simp only [List.any_eq_false, decide_eq_true_eq]
    intro c hc
    have := isDigit_range c (hd c hc)
    omega
  have hstrip : strip (toDec n) = toDec n := by
    unfold strip
    rw [dropWhile_none _ _ (fun x hx => digit_not_space x (hd x hx)),
      dropWhile_none _ _ (fun x hx => digit_not_space x (hd x (by simpa using hx)))]
    simp
  have hhead : ∀ d : Char, Char.isDigit d = false → ((toDec n).head? == some d) = false := by
    intro d hdd
    cases h : toDec n with
    | nil => rfl
    | cons c cs =>
      have : c ≠ d := class_ne Char.isDigit c d (hd c (by simp [h])) hdd
      simp [this]
  simp only [pyInt, hany, hstrip, hhead '-' (by decide), hhead '+' (by decide), Bool.false_eq_true,
    if_false, Bool.or_self, digitsVal_toDec]

/-! ### unquote on text without escapes -/

theorem unquoteBytes_noPct (s : Str) (h : ∀ c ∈ s, c ≠ '%') : unquoteBytes s = utf8 s := by
  induction s with
  | nil => rfl
  | cons c cs ih =>
    rw [unquoteBytes_cons_ne c cs (h c (by simp)), ih (fun x hx => h x (by simp [hx]))]
    simp [utf8]

theorem unquote_noPct (s : Str) (h : ∀ c ∈ s, c ≠ '%') : unquote s = s := by
  unfold unquote
  rw [unquoteBytes_noPct s h, utf8Dec_utf8]

theorem plusToSpace_id (s : Str) (h : ∀ c ∈ s, c ≠ '+') : plusToSpace s = s := by
  induction s with
  | nil => rfl
  | cons c cs ih =>
    have := h c (by simp)
    simp only [plusToSpace, List.map_cons, beq_iff_eq, this, if_false] at ih ⊢
    rw [ih (fun x hx => h x (by simp [hx]))]

/-! ### the query -/

def optKey : UOpt → Str
  | .heartbeat _ => ['h', 'e', 'a', 'r', 't', 'b', 'e', 'a', 't']
  | .timeout _ => ['t', 'i', 'm', 'e', 'o', 'u', 't']

def optNum : UOpt → Nat
  | .heartbeat n => n
  | .timeout n => n

theorem renderOpt_eq (o : UOpt) : renderOpt o = optKey o ++ '=' :: toDec (optNum o) := by
  cases o <;> simp [renderOpt, optKey, optNum]

theorem optKey_alpha (o : UOpt) : ∀ x ∈ optKey o, x.isAlpha = true := by
  cases o <;> (simp only [optKey]; decide)

theorem renderOpt_class (o : UOpt) : ∀ x ∈ renderOpt o, (x.isAlphanum || x == '=') = true := by
  intro x hx
  rw [renderOpt_eq] at hx
  simp only [List.mem_append, List.mem_cons] at hx
  rcases hx with hx | rfl | hx
  · have := optKey_alpha o x hx
    simp [Char.isAlphanum, this]
  · decide
  · have := toDec_digits _ x hx
    simp [Char.isAlphanum, this]

/-- the text after '?' -/
def queryText : List UOpt → Str
  | [] => []
  | o :: os => renderOpt o ++ os.flatMap (fun o => '&' :: renderOpt o)

theorem renderQuery_eq (os : List UOpt) :
    renderQuery os = if os = [] then [] else '?' :: queryText os := by
  cases os <;> simp [renderQuery, queryText]

theorem queryText_class (os : List UOpt) :
    ∀ x ∈ queryText os, (x.isAlphanum || x == '=' || x == '&') = true := by
  intro x hx
  cases os with
  | nil => simp [queryText] at hx
  | cons o os =>
    simp only [queryText, List.mem_append, List.mem_flatMap, List.mem_cons] at hx
    rcases hx with hx | ⟨o', _, rfl | hx⟩
    · have := renderOpt_class o x hx
      simp only [Bool.or_eq_true] at this ⊢
      exact Or.inl this
    · decide
    · have := renderOpt_class o' x hx
      simp only [Bool.or_eq_true] at this ⊢
      exact Or.inl this

theorem splitOn_query (o : UOpt) (os : List UOpt) :
    splitOn '&' (renderOpt o ++ os.flatMap (fun o => '&' :: renderOpt o)) = (o :: os).map renderOpt := by
  induction os generalizing o with
  | nil =>
    simp only [List.flatMap_nil, List.append_nil, List.map_cons, List.map_nil]
    exact splitOn_none '&' _ (ne_of_class (renderOpt_class o) '&' (by decide))
  | cons o' os ih =>
    simp only [List.flatMap_cons, List.cons_append, List.map_cons]
    rw [splitOn_found '&' _ _ (ne_of_class (renderOpt_class o) '&' (by decide)), ih o']
    rfl

theorem field_parse (o : UOpt) : parseField (renderOpt o) = some (optKey o, toDec (optNum o)) := by
  unfold parseField
  have hk : ∀ x ∈ optKey o, x ≠ '=' := ne_of_class (optKey_alpha o) '=' (by decide)
  rw [renderOpt_eq, partition_found '=' _ _ hk]
  simp only [toDec_ne_nil, if_false]
  have h1 : plusToSpace (optKey o) = optKey o :=
    plusToSpace_id _ (ne_of_class (optKey_alpha o) '+' (by decide))
  have h2 : plusToSpace (toDec (optNum o)) = toDec (optNum o) :=
    plusToSpace_id _ (ne_of_class (toDec_digits _) '+' (by decide))
  rw [h1, h2, unquote_noPct _ (ne_of_class (optKey_alpha o) '%' (by decide)),
    unquote_noPct _ (ne_of_class (toDec_digits _) '%' (by decide))]

theorem parseQsl_query (os : List UOpt) :
    parseQsl (queryText os) = os.map (fun o => (optKey o, toDec (optNum o))) := by
  cases os with
  | nil => simp [parseQsl, queryText]
  | cons o os =>
    have hne : queryText (o :: os) ≠ [] := by
      simp only [queryText, renderOpt_eq]
      cases o <;> simp [optKey]
    unfold parseQsl
    rw [if_neg hne]
    simp only [queryText]
    rw [splitOn_query]
    generalize o :: os = l
    induction l with
    | nil => rfl
    | cons a l ih =>
      simp only [List.map_cons, List.filterMap_cons]
      rw [field_parse a]
      simp only [ih]

/-- the first value stated for an option -/
def firstOpt (key : Str) (os : List UOpt) : Option Nat :=
  (os.find? (fun o => optKey o == key)).map optNum

theorem firstValue_query (key : Str) (os : List UOpt) :
    firstValue key (os.map (fun o => (optKey o, toDec (optNum o)))) = (firstOpt key os).map toDec := by
  simp only [firstValue, firstOpt, List.find?_map, Option.map_map]
  rfl

theorem optValue_query (spec : OptSpec) (hs : spec.toInt = true) (os : List UOpt) :
    optValue spec (parseQsl (queryText os)) =
      .ok (match firstOpt spec.key os with
           | some n => .int n
           | none => spec.dflt) := by
  unfold optValue
  rw [parseQsl_query, firstValue_query]
  cases firstOpt spec.key os with
  | none => rfl
  | some n => simp [hs, pyInt_toDec, Except.map]

end Amqp.Uri
