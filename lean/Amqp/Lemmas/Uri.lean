import Amqp.Model.Uri
/-
  Lemmas for C18: UTF-8 / percent-encoding round trips, decimal numerals, string splitting.
  Core Lean only.
-/
namespace Amqp.Uri
open Amqp

/-! ### UTF-8 -/

theorem char_range (c : Char) : c.toNat < 0xD800 ∨ (0xDFFF < c.toNat ∧ c.toNat < 0x110000) := by
  have := c.valid
  unfold UInt32.isValidChar Nat.isValidChar at this
  exact this

theorem utf8Dec_enc (c : Char) (rest : List Nat) :
    utf8Dec (utf8Enc c ++ rest) = c :: utf8Dec rest := by
  have hv := char_range c
  have hc : Char.ofNat c.toNat = c := Char.ofNat_toNat c
  unfold utf8Enc
  by_cases h1 : c.toNat < 0x80
  · simp only [h1, if_true, List.cons_append, List.nil_append]
    rw [utf8Dec.eq_def]; simp only []; rw [if_pos h1, hc]
  · by_cases h2 : c.toNat < 0x800
    · simp only [h1, h2, if_true, if_false, List.cons_append, List.nil_append]
      rw [utf8Dec.eq_def]; simp only []
      rw [if_neg (by omega), if_neg (by omega), if_pos (by omega), if_pos (by omega)]
      have : (0xC0 + c.toNat / 64 - 0xC0) * 64 + (0x80 + c.toNat % 64 - 0x80) = c.toNat := by omega
      rw [this, hc]
    · by_cases h3 : c.toNat < 0x10000
      · simp only [h1, h2, h3, if_true, if_false, List.cons_append, List.nil_append]
        rw [utf8Dec.eq_def]; simp only []
        rw [if_neg (by omega), if_neg (by omega), if_neg (by omega), if_pos (by omega),
          if_neg (by omega), if_pos (by omega)]
        have : (0xE0 + c.toNat / 4096 - 0xE0) * 4096 + (0x80 + c.toNat / 64 % 64 - 0x80) * 64 +
            (0x80 + c.toNat % 64 - 0x80) = c.toNat := by omega
        rw [this, hc]
      · simp only [h1, h2, h3, if_false, List.cons_append, List.nil_append]
        rw [utf8Dec.eq_def]; simp only []
        rw [if_neg (by omega), if_neg (by omega), if_neg (by omega), if_neg (by omega),
          if_pos (by omega), if_neg (by omega), if_neg (by omega), if_pos (by omega)]
        have : (0xF0 + c.toNat / 262144 - 0xF0) * 262144 + (0x80 + c.toNat / 4096 % 64 - 0x80) * 4096 +
            (0x80 + c.toNat / 64 % 64 - 0x80) * 64 + (0x80 + c.toNat % 64 - 0x80) = c.toNat := by omega
        rw [this, hc]

theorem utf8Dec_utf8_append (s : Str) (rest : List Nat) :
    utf8Dec (utf8 s ++ rest) = s ++ utf8Dec rest := by
  induction s with
  | nil => rfl
  | cons c cs ih =>
    simp only [utf8, List.flatMap_cons, List.append_assoc] at ih ⊢
    rw [utf8Dec_enc, ih]; rfl

/-- decoding the UTF-8 encoding of any text gives the text back -/
theorem utf8Dec_utf8 (s : Str) : utf8Dec (utf8 s) = s := by
  have := utf8Dec_utf8_append s []
  simpa [utf8Dec] using this

/-! ### percent-encoding -/

theorem hexVal_hexU : ∀ x, x < 16 → hexVal (hexU x) = some x := by decide

theorem utf8Enc_lt (c : Char) : ∀ b ∈ utf8Enc c, b < 256 := by
  have hv := char_range c
  intro b hb
  unfold utf8Enc at hb
  simp only [] at hb
  split at hb
  · simp at hb; omega
  · split at hb
    · simp at hb; omega
    · split at hb
      · simp at hb; omega
      · simp at hb; omega

theorem unquoteBytes_cons_ne (c : Char) (t : Str) (h : c ≠ '%') :
    unquoteBytes (c :: t) = utf8Enc c ++ unquoteBytes t := by
  rw [unquoteBytes.eq_def]
  simp [h]

theorem unquoteBytes_pct (b : Nat) (hb : b < 256) (t : Str) :
    unquoteBytes (pctByte b ++ t) = b :: unquoteBytes t := by
  have h1 := hexVal_hexU (b / 16) (by omega)
  have h2 := hexVal_hexU (b % 16) (by omega)
  rw [unquoteBytes.eq_def]
  simp only [pctByte, List.cons_append, List.nil_append, h1, h2]
  simp
  omega

theorem unquoteBytes_pcts (bs : List Nat) (h : ∀ b ∈ bs, b < 256) (t : Str) :
    unquoteBytes (bs.flatMap pctByte ++ t) = bs ++ unquoteBytes t := by
  induction bs with
  | nil => rfl
  | cons b bs ih =>
    simp only [List.flatMap_cons, List.append_assoc, List.cons_append]
    rw [unquoteBytes_pct b (h b (by simp)), ih (fun x hx => h x (by simp [hx]))]

theorem unreserved_ne_pct (c : Char) (h : unreserved c = true) : c ≠ '%' := by
  rintro rfl; revert h; decide

theorem unquoteBytes_quoteChar (c : Char) (t : Str) :
    unquoteBytes (quoteChar c ++ t) = utf8Enc c ++ unquoteBytes t := by
  unfold quoteChar
  split
  · rename_i h
    exact unquoteBytes_cons_ne c t (unreserved_ne_pct c h)
  · exact unquoteBytes_pcts _ (utf8Enc_lt c) t

theorem unquoteBytes_quote (s t : Str) :
    unquoteBytes (quote s ++ t) = utf8 s ++ unquoteBytes t := by
  induction s with
  | nil => rfl
  | cons c cs ih =>
    simp only [quote, utf8, List.flatMap_cons, List.append_assoc] at ih ⊢
    rw [unquoteBytes_quoteChar, ih]

/-- percent-decoding the percent-encoding of any text gives the text back -/
theorem unquote_quote (s : Str) : unquote (quote s) = s := by
  have := unquoteBytes_quote s []
  simp only [List.append_nil] at this
  unfold unquote
  rw [this]
  have h2 : unquoteBytes [] = [] := rfl
  rw [h2, List.append_nil, utf8Dec_utf8]

/-- characters `quote(s, safe='')` can produce: unreserved ones, '%' and hex digits -/
def tok (c : Char) : Bool := c.isAlphanum || c == '_' || c == '.' || c == '-' || c == '~' || c == '%'

theorem hexU_tok : ∀ x, x < 16 → tok (hexU x) = true := by decide

theorem quoteChar_tok (c : Char) : ∀ x ∈ quoteChar c, tok x = true := by
  intro x hx
  unfold quoteChar at hx
  split at hx
  · rename_i h
    simp only [List.mem_singleton] at hx
    subst hx
    simp only [unreserved, Bool.or_eq_true] at h
    simp only [tok, Bool.or_eq_true]
    rcases h with ((((h | h) | h) | h) | h) <;> simp [h]
  · simp only [List.mem_flatMap] at hx
    obtain ⟨b, hb, hx⟩ := hx
    have := utf8Enc_lt c b hb
    simp only [pctByte, List.mem_cons, List.not_mem_nil, or_false] at hx
    rcases hx with rfl | rfl | rfl
    · decide
    · exact hexU_tok _ (by omega)
    · exact hexU_tok _ (by omega)

theorem quote_tok (s : Str) : ∀ x ∈ quote s, tok x = true := by
  intro x hx
  simp only [quote, List.mem_flatMap] at hx
  obtain ⟨c, _, hx⟩ := hx
  exact quoteChar_tok c x hx

theorem quote_ne_nil (s : Str) (h : s ≠ []) : quote s ≠ [] := by
  cases s with
  | nil => exact absurd rfl h
  | cons c cs =>
    simp only [quote, List.flatMap_cons]
    unfold quoteChar
    split
    · simp
    · have hv := char_range c
      unfold utf8Enc
      simp only []
      split
      · simp [pctByte]
      · split
        · simp [pctByte]
        · split <;> simp [pctByte]

end Amqp.Uri
