import Amqp.Model.Guards
/-!
# Lemmas about `run` on arbitrary step lists (C16).  Core Lean only.
-/
namespace Amqp

theorem isinstance_mono {v : Mro} {cs ds : List Cls}
    (h : cs.all ds.contains = true) (hv : isinstance v cs = true) : isinstance v ds = true := by
  simp only [isinstance, List.any_eq_true, List.all_eq_true] at *
  obtain ⟨c, hc, hcv⟩ := hv
  exact ⟨c, by simpa using h c hc, hcv⟩

/-- a covered parameter bound to a value outside its documented types makes the run end in
    AMQPInvalidArgument with no effect started, whatever the other arguments, the state, the
    opaque tests and the broker do -/
theorem covered_rejects (e : Env) (p : Param) :
    ∀ (steps : List Step) (k : Nat), coveredIn p steps = true →
      wellTyped p (e.args p.name) = false → run e steps k = ⟨some .invalidArgument, []⟩ := by
  intro steps
  induction steps with
  | nil => intro k h; simp [coveredIn] at h
  | cons s r ih =>
    intro k h hw
    cases s with
    | guard q cs =>
      simp only [run]
      split
      · rename_i hq
        simp only [coveredIn, Bool.or_eq_true, Bool.and_eq_true, beq_iff_eq] at h
        rcases h with ⟨hqp, hsub⟩ | h
        · subst hqp
          have := isinstance_mono hsub hq
          simp [wellTyped, this] at hw
        · exact ih k h hw
      · rfl
    | opaqueGuard q =>
      simp only [run]
      split
      · exact ih k (by simpa [coveredIn] using h) hw
      · rfl
    | stateRaise err c => simp [coveredIn] at h
    | effect kind => simp [coveredIn] at h

/-- the same when state checks precede the guard, provided none of them fires -/
theorem covered_modulo_state_rejects (e : Env) (p : Param) (hc : ∀ c, e.cond c = false) :
    ∀ (steps : List Step) (k : Nat), coveredModuloState p steps = true →
      wellTyped p (e.args p.name) = false → run e steps k = ⟨some .invalidArgument, []⟩ := by
  intro steps
  induction steps with
  | nil => intro k h; simp [coveredModuloState] at h
  | cons s r ih =>
    intro k h hw
    cases s with
    | guard q cs =>
      simp only [run]
      split
      · rename_i hq
        simp only [coveredModuloState, Bool.or_eq_true, Bool.and_eq_true, beq_iff_eq] at h
        rcases h with ⟨hqp, hsub⟩ | h
        · subst hqp
          have := isinstance_mono hsub hq
          simp [wellTyped, this] at hw
        · exact ih k h hw
      · rfl
    | opaqueGuard q =>
      simp only [run]
      split
      · exact ih k (by simpa [coveredModuloState] using h) hw
      · rfl
    | stateRaise err c =>
      simp only [run, hc c]
      exact ih k (by simpa [coveredModuloState] using h) hw
    | effect kind => simp [coveredModuloState] at h

/-- steps that cannot raise AMQPInvalidArgument by themselves do not raise it, as long as no
    effect fails with it -/
theorem no_invalid_of_none_may (e : Env) (hf : ∀ k, e.fail k ≠ some .invalidArgument) :
    ∀ (steps : List Step) (k : Nat), steps.all (fun s => !s.mayRaiseInvalid) = true →
      (run e steps k).raised ≠ some .invalidArgument := by
  intro steps
  induction steps with
  | nil => intro k _; simp [run]
  | cons s r ih =>
    intro k h
    simp only [List.all_cons, Bool.and_eq_true] at h
    obtain ⟨hs, hr⟩ := h
    cases s with
    | guard q cs => simp [Step.mayRaiseInvalid] at hs
    | opaqueGuard q => simp [Step.mayRaiseInvalid] at hs
    | stateRaise err c =>
      simp only [run]
      split
      · simp [Step.mayRaiseInvalid] at hs
        simpa using hs
      · exact ih k hr
    | effect kind =>
      simp only [run]
      split
      · rename_i err herr
        intro hcontra
        simp at hcontra
        exact hf k (by rw [herr, hcontra])
      · exact ih (k + 1) hr

/-- with all argument tests ahead of the first effect, AMQPInvalidArgument can only escape while
    nothing has been started -/
theorem invalid_no_effects (e : Env) (hf : ∀ k, e.fail k ≠ some .invalidArgument) :
    ∀ (steps : List Step) (k : Nat), guardsFirst steps = true →
      (run e steps k).raised = some .invalidArgument → (run e steps k).effects = [] := by
  intro steps
  induction steps with
  | nil => intro k _ _; simp [run]
  | cons s r ih =>
    intro k h hr
    cases s with
    | guard q cs =>
      simp only [run] at hr ⊢
      split
      · rename_i hq; simp only [hq, if_true] at hr; exact ih k (by simpa [guardsFirst] using h) hr
      · rfl
    | opaqueGuard q =>
      simp only [run] at hr ⊢
      split
      · rename_i hq; simp only [hq, if_true] at hr; exact ih k (by simpa [guardsFirst] using h) hr
      · rfl
    | stateRaise err c =>
      simp only [run] at hr ⊢
      split
      · rfl
      · rename_i hq; simp only [hq] at hr; exact ih k (by simpa [guardsFirst] using h) hr
    | effect kind =>
      exfalso
      simp only [guardsFirst] at h
      simp only [run] at hr
      split at hr
      · rename_i err herr
        simp at hr
        exact hf k (by rw [herr, hr])
      · exact no_invalid_of_none_may e hf r (k + 1) h hr

/-- if every type guard admits all documented types of its parameter, well-typed arguments never
    produce AMQPInvalidArgument (opaque tests passing, no effect failing with it) -/
theorem no_false_reject (e : Env) (params : List Param)
    (hw : ∀ p ∈ params, p.doc ≠ [] → wellTyped p (e.args p.name) = true)
    (ho : ∀ q, e.opaqueOk q = true) (hf : ∀ k, e.fail k ≠ some .invalidArgument) :
    ∀ (steps : List Step) (k : Nat), steps.all (guardExact params) = true → stateErrsOk steps = true →
      (run e steps k).raised ≠ some .invalidArgument := by
  intro steps
  induction steps with
  | nil => intro k _ _; simp [run]
  | cons s r ih =>
    intro k h hs
    simp only [List.all_cons, Bool.and_eq_true] at h
    obtain ⟨h1, hr⟩ := h
    have hs' : stateErrsOk r = true := by
      simp only [stateErrsOk, List.all_cons, Bool.and_eq_true] at hs
      exact hs.2
    cases s with
    | guard q cs =>
      simp only [run]
      have : isinstance (e.args q) cs = true := by
        simp only [guardExact, List.any_eq_true, Bool.and_eq_true, beq_iff_eq, Bool.not_eq_true',
          List.isEmpty_eq_false_iff] at h1
        obtain ⟨p, hp, ⟨hn, hd⟩, hsub⟩ := h1
        subst hn
        exact isinstance_mono hsub (hw p hp hd)
      simp only [this, if_true]
      exact ih k hr hs'
    | opaqueGuard q =>
      simp only [run, ho q, if_true]
      exact ih k hr hs'
    | stateRaise err c =>
      simp only [run]
      split
      · simp only [stateErrsOk, List.all_cons, Bool.and_eq_true] at hs
        have := hs.1
        simp at this
        simpa using this
      · exact ih k hr hs'
    | effect kind =>
      simp only [run]
      split
      · rename_i err herr
        intro hcontra
        simp at hcontra
        exact hf k (by rw [herr, hcontra])
      · exact ih (k + 1) hr hs'

/-- the structural fact about a pure `if/elif` chain of type guards: it raises iff some guard's
    test fails, and then nothing else happens; otherwise it falls through -/
theorem guard_chain_iff (e : Env) :
    ∀ (gs : List (String × List Cls)) (k : Nat),
      (run e (gs.map fun g => Step.guard g.1 g.2) k = ⟨some .invalidArgument, []⟩ ↔
        ∃ g ∈ gs, isinstance (e.args g.1) g.2 = false) ∧
      (run e (gs.map fun g => Step.guard g.1 g.2) k = ⟨none, []⟩ ↔
        ∀ g ∈ gs, isinstance (e.args g.1) g.2 = true) := by
  intro gs
  induction gs with
  | nil => intro k; simp [run]
  | cons g r ih =>
    intro k
    simp only [List.map_cons, run]
    by_cases hg : isinstance (e.args g.1) g.2 = true
    · simp only [hg, if_true]
      have := ih k
      constructor
      · rw [this.1]; simp [hg]
      · rw [this.2]; simp [hg]
    · simp only [hg]
      simp only [Bool.not_eq_true] at hg
      constructor
      · simp [hg]
      · simp [hg]

end Amqp
