import Amqp.Model.TagReuse
namespace Amqp.TagReuse

theorem genStore : Gen.Close.consumeStoreOverwrites = true := by decide

/-- the abstraction: what the implementation state says about each tag -/
def Abs (r : R) (s : Spec) : Prop :=
  r.tags = s.live ∧ (∀ t, r.callbacks.lookup t = s.latest t) ∧ r.out = s.out

theorem step_refines (r : R) (s : Spec) (op : Op) (h : Abs r s) : Abs (step r op) (s.step op) := by
  obtain ⟨h1, h2, h3⟩ := h
  cases op with
  | consume tag cb =>
    refine ⟨by simp [step, stepP, Spec.step, h1], ?_, by simp [step, stepP, Spec.step, h3]⟩
    intro t
    simp only [step, stepP, Spec.step, storeP, genStore, if_true]
    by_cases ht : t = tag
    · subst ht; simp [List.lookup]
    · have : (t == tag) = false := by simpa using ht
      simp [List.lookup, this, ht, h2 t]
  | cancel tag => exact ⟨by simp [step, stepP, Spec.step, h1], by simpa [step, stepP, Spec.step] using h2, by simp [step, stepP, Spec.step, h3]⟩
  | brokerCancel tag => exact ⟨by simp [step, stepP, Spec.step, h1], by simpa [step, stepP, Spec.step] using h2, by simp [step, stepP, Spec.step, h3]⟩
  | deliver tag => exact ⟨by simp [step, stepP, Spec.step, h1], by simpa [step, stepP, Spec.step] using h2, by simp [step, stepP, Spec.step, h3, h2 tag]⟩

theorem foldl_refines (ops : List Op) : ∀ (r : R) (s : Spec), Abs r s → Abs (ops.foldl step r) (ops.foldl Spec.step s) := by
  induction ops with
  | nil => intro r s h; exact h
  | cons op ops ih => intro r s h; exact ih _ _ (step_refines r s op h)

theorem run_refines (ops : List Op) : Abs (run ops) (Spec.run ops) :=
  foldl_refines ops {} {} ⟨rfl, fun _ => rfl, rfl⟩

theorem spec_latest_mid (x : String) (mid : List Op) (hm : ∀ c, Op.consume x c ∉ mid) :
    ∀ s : Spec, (mid.foldl Spec.step s).latest x = s.latest x := by
  induction mid with
  | nil => intro s; rfl
  | cons op mid ih =>
    intro s
    have hm' : ∀ c, Op.consume x c ∉ mid := fun c hc => hm c (List.mem_cons_of_mem _ hc)
    rw [List.foldl_cons, ih hm']
    cases op with
    | consume tag cb =>
      have : x ≠ tag := by
        intro e; subst e; exact hm cb (List.mem_cons_self ..)
      simp [Spec.step, this]
    | cancel tag => rfl
    | brokerCancel tag => rfl
    | deliver tag => rfl

end Amqp.TagReuse
