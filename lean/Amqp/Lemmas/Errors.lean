import Amqp.Model.Errors
namespace Amqp.Errors
open Amqp.ChanErr

theorem getElem?_modify_ne {α : Type} (l : List α) (f : α → α) (i j : Nat) (h : i ≠ j) :
    (l.modify i f)[j]? = l[j]? := by
  rw [List.getElem?_modify]
  rcases l[j]? with _ | a <;> simp [h]

theorem getElem?_modify_eq {α : Type} (l : List α) (f : α → α) (i : Nat) :
    (l.modify i f)[i]? = l[i]?.map f := by
  rw [List.getElem?_modify]
  rcases l[i]? with _ | a <;> simp

theorem view_some (c : C) (i : Nat) (ch : Chan) (h : c.chans[i]? = some ch) :
    view c i = { connState := c.connState, connErrs := c.connErrs, chState := ch.state, chErrs := ch.errs,
                 connCloseCalls := c.connCloseCalls } := by
  simp [view, h]

theorem unview_get (c : C) (i : Nat) (e : E) (ch : Chan) (h : c.chans[i]? = some ch) :
    (unview c i e).chans[i]? = some { ch with state := e.chState, errs := e.chErrs } := by
  simp [unview, getElem?_modify_eq, h]

theorem view_unview (c : C) (i : Nat) (e : E) (ch : Chan) (h : c.chans[i]? = some ch) :
    view (unview c i e) i = e := by
  rw [view_some _ i _ (unview_get c i e ch h)]
  simp [unview]

end Amqp.Errors

namespace Amqp.Errors
open Amqp.ChanErr

theorem view_calls (c : C) (i : Nat) : (view c i).connCloseCalls = c.connCloseCalls := by
  unfold view; split <;> rfl

/-- when the connection check does not fire, `opCheck` is just the channel-local check -/
theorem opCheck_local (c : C) (i : Nat) (r : Option Err) (e : E) (h : chanCheck (view c i) = (r, e))
    (hcalls : e.connCloseCalls = c.connCloseCalls) : opCheck c i = (r, unview c i e) := by
  simp only [opCheck, h, hcalls, gt_iff_lt, Nat.lt_irrefl, if_false]

theorem opCheck_fst (c : C) (i : Nat) : (opCheck c i).1 = (chanCheck (view c i)).1 := by
  simp only [opCheck]; split <;> rfl

end Amqp.Errors

namespace Amqp.Errors
open Amqp.ChanErr

/-- a check that changes nothing leaves the connection as it was -/
theorem unview_view (c : C) (i : Nat) (ch : Chan) (h : c.chans[i]? = some ch) : unview c i (view c i) = c := by
  rw [view_some c i ch h]
  cases c with
  | mk cs ce chans ok calls =>
    simp only [unview] at h ⊢
    congr 1
    apply List.ext_getElem?
    intro j
    by_cases hj : i = j
    · subst hj
      rw [getElem?_modify_eq, h]
      cases ch; rfl
    · rw [getElem?_modify_ne _ _ _ _ hj]

end Amqp.Errors
