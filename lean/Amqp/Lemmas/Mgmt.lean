import Amqp.Model.Mgmt
/-
  Helper lemmas for C19 (core Lean only).
-/
namespace Amqp.Mgmt

/-! ## per-byte facts about `quoteByte` (checked for all 256 bytes by evaluation) -/

/-- characters a quoted name consists of: always-safe ASCII characters, `%`, hex digits -/
def segChar (c : Char) : Bool := pathChar c && c != '/'

def byteOk (b : UInt8) : Bool :=
  match quoteByte [] b with
  | [c] => c != '%' && decide (c.toNat < 128) && UInt8.ofNat c.toNat == b && segChar c && unreserved b
  | [p, x, y] =>
    p == '%' && upperHex x && upperHex y && !unreserved b &&
      (match hexVal x, hexVal y with
       | some u, some v => UInt8.ofNat (u * 16 + v) == b
       | _, _ => false)
  | _ => false

set_option maxRecDepth 100000 in
theorem byteOk_nat : ∀ n : Fin 256, byteOk (UInt8.ofNat n.val) = true := by decide +kernel

theorem byteOk_all (b : UInt8) : byteOk b = true := by
  have := byteOk_nat ⟨b.toNat, b.toNat_lt⟩
  simpa using this


theorem quoteByte_shape (b : UInt8) :
    (∃ c, quoteByte [] b = [c] ∧ c ≠ '%' ∧ c.toNat < 128 ∧ UInt8.ofNat c.toNat = b ∧
        segChar c = true ∧ unreserved b = true) ∨
    (∃ x y u v, quoteByte [] b = ['%', x, y] ∧ upperHex x = true ∧ upperHex y = true ∧
        unreserved b = false ∧ hexVal x = some u ∧ hexVal y = some v ∧
        UInt8.ofNat (u * 16 + v) = b) := by
  have h := byteOk_all b
  unfold byteOk at h
  split at h
  · rename_i c hc
    left
    simp only [Bool.and_eq_true, bne_iff_ne, ne_eq, decide_eq_true_eq, beq_iff_eq] at h
    exact ⟨c, hc, h.1.1.1.1, h.1.1.1.2, h.1.1.2, h.1.2, h.2⟩
  · rename_i p x y hq
    right
    simp only [Bool.and_eq_true, beq_iff_eq, Bool.not_eq_true'] at h
    obtain ⟨⟨⟨⟨hp, hx⟩, hy⟩, hu⟩, hm⟩ := h
    split at hm
    · rename_i u v hu' hv'
      simp only [beq_iff_eq] at hm
      exact ⟨x, y, u, v, by rw [hq, hp], hx, hy, hu, hu', hv', hm⟩
    · cases hm
  · cases h

theorem safeBytes_empty : safeBytes "" = [] := by decide

theorem upperHex_segChar {c : Char} (h : upperHex c = true) : segChar c = true := by
  simp only [upperHex, Bool.or_eq_true, Bool.and_eq_true, decide_eq_true_eq] at h
  have : c ≠ '/' := by
    intro hc; subst hc; revert h; decide
  simp only [segChar, pathChar, Bool.and_eq_true, Bool.or_eq_true, decide_eq_true_eq, bne_iff_ne,
    ne_eq]
  refine ⟨?_, this⟩
  rcases h with h | h
  · exact Or.inl (Or.inl (Or.inl (Or.inl (Or.inl (Or.inl (Or.inr h))))))
  · have : c ≤ 'Z' := Char.le_trans h.2 (by decide)
    exact Or.inl (Or.inl (Or.inl (Or.inl (Or.inl (Or.inl (Or.inl (Or.inr ⟨h.1, this⟩)))))))

theorem pctDecode_plain (c : Char) (rest : Text) (h : c ≠ '%') :
    pctDecode (c :: rest) =
      if c.toNat < 128 then (pctDecode rest).map (UInt8.ofNat c.toNat :: ·) else none := by
  conv => lhs; unfold pctDecode
  simp only [if_neg h]

theorem pctDecode_esc (a b : Char) (rest : Text) (x y : Nat) (hx : hexVal a = some x)
    (hy : hexVal b = some y) :
    pctDecode ('%' :: a :: b :: rest) = (pctDecode rest).map (UInt8.ofNat (x * 16 + y) :: ·) := by
  conv => lhs; unfold pctDecode
  simp only [if_pos, hx, hy]
  cases pctDecode rest <;> rfl

theorem wellEscaped_plain (c : Char) (rest : Text) (h : c ≠ '%') :
    wellEscaped (c :: rest) = wellEscaped rest := by
  conv => lhs; unfold wellEscaped
  simp only [if_neg h]

theorem wellEscaped_esc (a b : Char) (rest : Text) (x y : Nat) (hx : hexVal a = some x)
    (hy : hexVal b = some y) (ha : upperHex a = true) (hb : upperHex b = true)
    (hu : unreserved (UInt8.ofNat (x * 16 + y)) = false) :
    wellEscaped ('%' :: a :: b :: rest) = wellEscaped rest := by
  conv => lhs; unfold wellEscaped
  simp only [if_pos, hx, hy, ha, hb, hu, Bool.not_false, Bool.true_and]

theorem pctDecode_quoteByte (b : UInt8) (rest : Text) :
    pctDecode (quoteByte [] b ++ rest) = (pctDecode rest).map (b :: ·) := by
  rcases quoteByte_shape b with ⟨c, hq, hne, hlt, hb, -, -⟩ | ⟨x, y, u, v, hq, -, -, -, hu, hv, hb⟩
  · rw [hq]
    simp only [List.cons_append, List.nil_append]
    rw [pctDecode_plain c rest hne, if_pos hlt, hb]
  · rw [hq]
    simp only [List.cons_append, List.nil_append]
    rw [pctDecode_esc x y rest u v hu hv, hb]

theorem pctDecode_quoteBytes (bs : Bytes) : pctDecode (quoteBytes [] bs) = some bs := by
  induction bs with
  | nil => rfl
  | cons b bs ih =>
    simp only [quoteBytes, List.flatMap_cons] at ih ⊢
    rw [pctDecode_quoteByte, ih]; rfl

theorem segChar_quoteBytes (bs : Bytes) : ∀ c ∈ quoteBytes [] bs, segChar c = true := by
  induction bs with
  | nil => intro c hc; cases hc
  | cons b bs ih =>
    intro c hc
    simp only [quoteBytes, List.flatMap_cons, List.mem_append] at hc ih
    rcases hc with hc | hc
    · rcases quoteByte_shape b with ⟨c', hq, -, -, -, hs, -⟩ | ⟨x, y, u, v, hq, hx, hy, -, -, -, -⟩
      · rw [hq] at hc; simp only [List.mem_singleton] at hc; rw [hc]; exact hs
      · rw [hq] at hc
        simp only [List.mem_cons, List.not_mem_nil, or_false] at hc
        rcases hc with rfl | rfl | rfl
        · decide
        · exact upperHex_segChar hx
        · exact upperHex_segChar hy
    · exact ih c hc

theorem wellEscaped_quoteByte (b : UInt8) (rest : Text) :
    wellEscaped (quoteByte [] b ++ rest) = wellEscaped rest := by
  rcases quoteByte_shape b with ⟨c, hq, hne, -, -, -, -⟩ | ⟨x, y, u, v, hq, hx, hy, hun, hu, hv, hb⟩
  · rw [hq]; exact wellEscaped_plain c rest hne
  · rw [hq]
    exact wellEscaped_esc x y rest u v hu hv hx hy (by rw [hb]; exact hun)

theorem wellEscaped_quoteBytes (bs : Bytes) (rest : Text) :
    wellEscaped (quoteBytes [] bs ++ rest) = wellEscaped rest := by
  induction bs with
  | nil => rfl
  | cons b bs ih =>
    simp only [quoteBytes, List.flatMap_cons, List.append_assoc] at ih ⊢
    rw [wellEscaped_quoteByte, ih]

/-- a quoted name is the empty text, `.` or `..` only if the name's bytes are -/
theorem quoteBytes_degenerate {bs : Bytes} {t : Text} (h : quoteBytes [] bs = t) (d : Bytes)
    (hd : pctDecode t = some d) : bs = d := by
  have := pctDecode_quoteBytes bs
  rw [h, hd] at this
  exact (Option.some.inj this).symm

/-! ## split / join -/

theorem splitOn_ne_nil (sep : Char) (t : Text) : splitOn sep t ≠ [] := by
  induction t with
  | nil => simp [splitOn]
  | cons c cs ih =>
    unfold splitOn
    split
    · simp
    · split
      · simp
      · simp

theorem splitOn_cons_sep (sep : Char) (t : Text) : splitOn sep (sep :: t) = [] :: splitOn sep t := by
  conv => lhs; unfold splitOn
  simp

theorem splitOn_cons_ne (sep c : Char) (t : Text) (h : c ≠ sep) :
    splitOn sep (c :: t) = (c :: (splitOn sep t).headD []) :: (splitOn sep t).tail := by
  conv => lhs; unfold splitOn
  simp only [if_neg h]
  have := splitOn_ne_nil sep t
  cases hs : splitOn sep t with
  | nil => exact absurd hs this
  | cons a l => simp

theorem splitOn_notMem (sep : Char) (s : Text) (h : sep ∉ s) : splitOn sep s = [s] := by
  induction s with
  | nil => simp [splitOn]
  | cons c cs ih =>
    have hc : c ≠ sep := fun e => h (by simp [e])
    have hcs : sep ∉ cs := fun e => h (by simp [e])
    rw [splitOn_cons_ne sep c cs hc, ih hcs]; simp

theorem splitOn_append (sep : Char) (s rest : Text) (h : sep ∉ s) :
    splitOn sep (s ++ sep :: rest) = s :: splitOn sep rest := by
  induction s with
  | nil => simp [splitOn_cons_sep]
  | cons c cs ih =>
    have hc : c ≠ sep := fun e => h (by simp [e])
    have hcs : sep ∉ cs := fun e => h (by simp [e])
    rw [List.cons_append, splitOn_cons_ne sep c _ hc, ih hcs]; simp

theorem joinWith_cons2 (sep : Char) (a b : Text) (l : List Text) :
    joinWith sep (a :: b :: l) = a ++ sep :: joinWith sep (b :: l) := rfl

theorem joinWith_cons_ne (sep : Char) (a : Text) (l : List Text) (h : l ≠ []) :
    joinWith sep (a :: l) = a ++ sep :: joinWith sep l := by
  cases l with
  | nil => exact absurd rfl h
  | cons b l => rfl

theorem splitOn_join (sep : Char) (segs : List Text) (hne : segs ≠ [])
    (h : ∀ s ∈ segs, sep ∉ s) : splitOn sep (joinWith sep segs) = segs := by
  induction segs with
  | nil => exact absurd rfl hne
  | cons a l ih =>
    cases l with
    | nil => simpa [joinWith] using splitOn_notMem sep a (h a (by simp))
    | cons b l =>
      rw [joinWith_cons2, splitOn_append sep a _ (h a (by simp)),
        ih (by simp) (fun s hs => h s (by simp [hs]))]

theorem join_split (sep : Char) (t : Text) : joinWith sep (splitOn sep t) = t := by
  induction t with
  | nil => simp [splitOn, joinWith]
  | cons c cs ih =>
    by_cases hc : c = sep
    · subst hc
      rw [splitOn_cons_sep, joinWith_cons_ne _ _ _ (splitOn_ne_nil _ _), ih]; simp
    · rw [splitOn_cons_ne sep c cs hc]
      cases hs : splitOn sep cs with
      | nil => exact absurd hs (splitOn_ne_nil _ _)
      | cons a l =>
        rw [hs] at ih
        cases l with
        | nil => simpa [joinWith] using ih
        | cons b l =>
          simp only [List.headD_cons, List.tail_cons, joinWith_cons2] at ih ⊢
          rw [← ih]; simp

theorem splitOn_mem_notMem (sep : Char) (t : Text) : ∀ s ∈ splitOn sep t, sep ∉ s := by
  induction t with
  | nil => simp [splitOn]
  | cons c cs ih =>
    by_cases hc : c = sep
    · subst hc
      rw [splitOn_cons_sep]
      intro s hs
      rcases List.mem_cons.1 hs with rfl | hs
      · simp
      · exact ih s hs
    · rw [splitOn_cons_ne sep c cs hc]
      intro s hs
      cases hsp : splitOn sep cs with
      | nil => exact absurd hsp (splitOn_ne_nil _ _)
      | cons a l =>
        rw [hsp] at hs ih
        simp only [List.headD_cons, List.tail_cons, List.mem_cons] at hs
        rcases hs with rfl | hs
        · intro hm
          rcases List.mem_cons.1 hm with e | hm
          · exact hc e.symm
          · exact ih a (by simp) hm
        · exact ih s (by simp [hs])

/-! ## templates -/

/-- a path template seen segment-wise -/
inductive Seg
  | lit (s : Text)
  | hole
deriving DecidableEq, Repr

def parseSeg (s : Text) : Option Seg :=
  if s = ['%', 's'] then some .hole else if s.contains '%' then none else some (.lit s)

def parseSegs : List Text → Option (List Seg)
  | [] => some []
  | s :: ss =>
    match parseSeg s, parseSegs ss with
    | some x, some xs => some (x :: xs)
    | _, _ => none

/-- `none` unless every `/`-separated piece of the template is either `%s` or free of `%` -/
def parseTemplate (t : Text) : Option (List Seg) := parseSegs (splitOn '/' t)

def segText : Seg → Text
  | .lit s => s
  | .hole => ['%', 's']

/-- substitute the values for the holes, in order; `none` when the counts differ -/
def inst : List Seg → List Text → Option (List Text)
  | [], vs => if vs.isEmpty then some [] else none
  | .lit s :: segs, vs => (inst segs vs).map (s :: ·)
  | .hole :: segs, v :: vs => (inst segs vs).map (v :: ·)
  | .hole :: _, [] => none

def litOk : Seg → Prop
  | .lit s => '%' ∉ s
  | .hole => True

theorem fill_plain (c : Char) (rest : Text) (vs : List Text) (h : c ≠ '%') :
    fill (c :: rest) vs = (fill rest vs).map (c :: ·) := by
  conv => lhs; unfold fill
  simp only [if_neg h]

theorem fill_hole (rest : Text) (v : Text) (vs : List Text) :
    fill ('%' :: 's' :: rest) (v :: vs) = (fill rest vs).map (v ++ ·) := by
  conv => lhs; unfold fill
  simp only [if_pos]

theorem fill_hole_nil (rest : Text) : fill ('%' :: 's' :: rest) [] = none := by
  conv => lhs; unfold fill
  simp only [if_pos]

theorem fill_lit (lit rest : Text) (vs : List Text) (h : '%' ∉ lit) :
    fill (lit ++ rest) vs = (fill rest vs).map (lit ++ ·) := by
  induction lit with
  | nil => simp
  | cons c cs ih =>
    have hc : c ≠ '%' := fun e => h (by simp [e])
    have hcs : '%' ∉ cs := fun e => h (by simp [e])
    rw [List.cons_append, fill_plain _ _ _ hc, ih hcs]
    cases fill rest vs <;> simp

theorem parseSeg_text {s : Text} {x : Seg} (h : parseSeg s = some x) : segText x = s ∧ litOk x := by
  unfold parseSeg at h
  split at h
  · cases h; rename_i hs; exact ⟨hs.symm, trivial⟩
  · split at h
    · cases h
    · cases h; rename_i hs; exact ⟨rfl, by simpa [litOk] using hs⟩

theorem parseSegs_text : ∀ {ss : List Text} {xs : List Seg}, parseSegs ss = some xs →
    xs.map segText = ss ∧ ∀ x ∈ xs, litOk x := by
  intro ss
  induction ss with
  | nil => intro xs h; simp [parseSegs] at h; subst h; simp
  | cons s ss ih =>
    intro xs h
    unfold parseSegs at h
    split at h
    · rename_i x xs' hx hxs
      cases h
      have := parseSeg_text hx
      have ih' := ih hxs
      refine ⟨by simp [this.1, ih'.1], ?_⟩
      intro y hy
      rcases List.mem_cons.1 hy with rfl | hy
      · exact this.2
      · exact ih'.2 y hy
    · cases h

theorem inst_length : ∀ (segs : List Seg) (vs : List Text) (r : List Text),
    inst segs vs = some r → r.length = segs.length := by
  intro segs
  induction segs with
  | nil => intro vs r h; simp only [inst] at h; split at h <;> simp_all
  | cons x segs ih =>
    intro vs r h
    cases x with
    | lit s =>
      simp only [inst, Option.map_eq_some_iff] at h
      obtain ⟨r', hr, rfl⟩ := h
      simp [ih vs r' hr]
    | hole =>
      cases vs with
      | nil => simp [inst] at h
      | cons v vs =>
        simp only [inst, Option.map_eq_some_iff] at h
        obtain ⟨r', hr, rfl⟩ := h
        simp [ih vs r' hr]

theorem fill_segText (x : Seg) (hx : litOk x) (rest : Text) (vs : List Text) :
    fill (segText x ++ rest) vs =
      match x, vs with
      | .lit s, vs => (fill rest vs).map (s ++ ·)
      | .hole, v :: vs => (fill rest vs).map (v ++ ·)
      | .hole, [] => none := by
  cases x with
  | lit s => exact fill_lit s rest vs hx
  | hole =>
    cases vs with
    | nil => exact fill_hole_nil rest
    | cons v vs => exact fill_hole rest v vs

/-- `template % values` is the `/`-join of the instantiated segments -/
theorem fill_template : ∀ (segs : List Seg) (vs : List Text), (∀ x ∈ segs, litOk x) →
    fill (joinWith '/' (segs.map segText)) vs = (inst segs vs).map (joinWith '/') := by
  intro segs
  induction segs with
  | nil =>
    intro vs _
    simp only [List.map_nil, joinWith, fill, inst]
    split <;> rfl
  | cons x segs ih =>
    intro vs hl
    have hx := hl x (by simp)
    have hl' : ∀ y ∈ segs, litOk y := fun y hy => hl y (by simp [hy])
    cases segs with
    | nil =>
      have h0 := fill_segText x hx [] vs
      simp only [List.append_nil] at h0
      simp only [List.map_cons, List.map_nil, joinWith]
      rw [h0]
      cases x with
      | lit s =>
        simp only [inst, fill]
        split <;> simp [joinWith]
      | hole =>
        cases vs with
        | nil => simp [inst]
        | cons v vs =>
          simp only [inst, fill]
          split <;> simp [joinWith]
    | cons y segs =>
      have ih' := ih
      simp only [List.map_cons] at ih' ⊢
      rw [joinWith_cons2, fill_segText x hx]
      have hslash : ∀ (ws : List Text), fill ('/' :: joinWith '/' (segText y :: segs.map segText)) ws =
          (inst (y :: segs) ws).map (fun r => '/' :: joinWith '/' r) := by
        intro ws
        rw [fill_plain _ _ _ (by decide), ih' ws hl']
        cases inst (y :: segs) ws <;> simp
      cases x with
      | lit s =>
        simp only [inst]
        rw [hslash vs]
        cases hi : inst (y :: segs) vs with
        | none => simp
        | some r =>
          have hr : r ≠ [] := by
            have := inst_length _ _ _ hi
            intro e; subst e; simp at this
          simp [joinWith_cons_ne _ _ _ hr]
      | hole =>
        cases vs with
        | nil => simp [inst]
        | cons v vs =>
          simp only [inst]
          rw [hslash vs]
          cases hi : inst (y :: segs) vs with
          | none => simp
          | some r =>
            have hr : r ≠ [] := by
              have := inst_length _ _ _ hi
              intro e; subst e; simp at this
            simp [joinWith_cons_ne _ _ _ hr]

theorem fill_parsed {t : Text} {segs : List Seg} (h : parseTemplate t = some segs) (vs : List Text) :
    fill t vs = (inst segs vs).map (joinWith '/') := by
  have := parseSegs_text h
  rw [← fill_template segs vs this.2, this.1, join_split]

/-! ## urljoin on clean segments -/

theorem filterButLast_id : ∀ (ys : List Text), (∀ s ∈ ys.dropLast, s ≠ []) → filterButLast ys = ys := by
  intro ys
  induction ys with
  | nil => intro _; rfl
  | cons y ys ih =>
    intro h
    cases ys with
    | nil => rfl
    | cons z zs =>
      have hy : y ≠ [] := h y (by simp [List.dropLast])
      have := ih (fun s hs => h s (by simp [List.dropLast, hs]))
      conv => lhs; unfold filterButLast
      simp only [if_neg hy, this]

theorem filterButLast_append : ∀ (xs ys : List Text), ys ≠ [] →
    filterButLast (xs ++ ys) = xs.filter (· ≠ []) ++ filterButLast ys := by
  intro xs
  induction xs with
  | nil => intro ys _; simp
  | cons x xs ih =>
    intro ys hy
    have hne : xs ++ ys ≠ [] := by simp [hy]
    cases hxy : xs ++ ys with
    | nil => exact absurd hxy hne
    | cons w ws =>
      rw [List.cons_append, hxy]
      conv => lhs; unfold filterButLast
      rw [← hxy, ih ys hy]
      by_cases hx : x = []
      · simp [hx]
      · simp [hx]

theorem foldl_dotStep_id : ∀ (l acc : List Text), (∀ s ∈ l, isDot s = false) →
    l.foldl dotStep acc = acc ++ l := by
  intro l
  induction l with
  | nil => intro acc _; simp
  | cons x l ih =>
    intro acc h
    have hx := h x (by simp)
    simp only [isDot, Bool.or_eq_false_iff, decide_eq_false_iff_not] at hx
    rw [List.foldl_cons, ih _ (fun s hs => h s (by simp [hs]))]
    simp [dotStep, hx.1, hx.2]

/-- directory segments of the base URL path that survive urljoin -/
def baseDirs (bpath : Text) : List Text := ((baseParts bpath).drop 1).filter (· ≠ [])

theorem baseParts_head (bpath : Text) (h : bpath.isEmpty = true ∨ bpath.head? = some '/') :
    ∃ tl, baseParts bpath = [] :: tl := by
  rcases h with h | h
  · have : bpath = [] := by simpa using h
    subst this
    exact ⟨[], by decide⟩
  · cases bpath with
    | nil => simp at h
    | cons c r =>
      simp only [List.head?_cons, Option.some.injEq] at h
      subst h
      unfold baseParts
      rw [splitOn_cons_sep]
      have hne := splitOn_ne_nil '/' r
      cases hs : splitOn '/' r with
      | nil => exact absurd hs hne
      | cons a l =>
        simp only
        split
        · exact ⟨_, rfl⟩
        · exact ⟨(a :: l).dropLast, by simp [List.dropLast]⟩

theorem getLast?_append_ne {α} (xs ys : List α) (h : ys ≠ []) : (xs ++ ys).getLast? = ys.getLast? := by
  simp [List.getLast?_append]
  cases hy : ys.getLast? with
  | none => simp [List.getLast?_eq_none_iff] at hy; exact absurd hy h
  | some v => simp

/-- urljoin of a base directory and a relative path made of clean segments keeps every segment -/
theorem urljoinPath_clean (bpath : Text) (rel : List Text)
    (hb : bpath.isEmpty = true ∨ bpath.head? = some '/')
    (hbd : ∀ d ∈ baseDirs bpath, isDot d = false)
    (hne : rel ≠ []) (hslash : ∀ s ∈ rel, '/' ∉ s) (hmid : ∀ s ∈ rel.dropLast, s ≠ [])
    (hdot : ∀ s ∈ rel, isDot s = false) :
    urljoinPath bpath (joinWith '/' rel) = '/' :: joinWith '/' (baseDirs bpath ++ rel) := by
  obtain ⟨tl, htl⟩ := baseParts_head bpath hb
  have hdirs : baseDirs bpath = tl.filter (· ≠ []) := by simp [baseDirs, htl]
  unfold urljoinPath
  simp only [splitOn_join '/' rel hne hslash, htl, List.cons_append, filterMiddle]
  rw [filterButLast_append tl rel hne, filterButLast_id rel hmid, ← hdirs]
  have hall : ∀ s ∈ ([] : Text) :: (baseDirs bpath ++ rel), isDot s = false := by
    intro s hs
    rcases List.mem_cons.1 hs with rfl | hs
    · decide
    · rcases List.mem_append.1 hs with hs | hs
      · exact hbd s hs
      · exact hdot s hs
  rw [foldl_dotStep_id _ [] hall, List.nil_append]
  have hne' : baseDirs bpath ++ rel ≠ [] := by simp [hne]
  have hlast : (([] : Text) :: (baseDirs bpath ++ rel)).getLast? = rel.getLast? := by
    rw [show (([] : Text) :: (baseDirs bpath ++ rel)) = ([] :: baseDirs bpath) ++ rel by simp]
    exact getLast?_append_ne _ _ hne
  have hl : (rel.getLast?.map isDot).getD false = false := by
    cases hr : rel.getLast? with
    | none => rfl
    | some v => simp [hdot v (List.mem_of_getLast? hr)]
  rw [hlast, hl]
  simp only [Bool.false_eq_true, if_false]
  rw [joinWith_cons_ne _ _ _ hne']
  simp

/-! ## the pieces of the main theorem -/

/-- pointwise relation between two lists of the same length -/
inductive All2 {α β : Type} (R : α → β → Prop) : List α → List β → Prop
  | nil : All2 R [] []
  | cons {a : α} {b : β} {as : List α} {bs : List β} : R a b → All2 R as bs → All2 R (a :: as) (b :: bs)

/-- every path argument is `quote(·, '')` of a parameter expression that evaluates to the name -/
def Resolves (env : Env) (a : Arg) (n : Text) : Prop := a.enc = some "" ∧ pyOrChain env a.alts = some n

theorem argTexts_quoted (env : Env) : ∀ {args : List Arg} {names : List Text},
    All2 (Resolves env) args names → argTexts env args = .ok (names.map (quote "")) := by
  intro args names h
  induction h with
  | nil => rfl
  | cons hr _ ih =>
    rename_i a n as ns
    simp only [argTexts, argText, hr.1, hr.2, ih, List.map_cons]

def holes : List Seg → Nat
  | [] => 0
  | .lit _ :: segs => holes segs
  | .hole :: segs => holes segs + 1

theorem inst_some : ∀ (segs : List Seg) (vs : List Text), holes segs = vs.length →
    ∃ qs, inst segs vs = some qs := by
  intro segs
  induction segs with
  | nil => intro vs h; cases vs with
    | nil => exact ⟨[], rfl⟩
    | cons v vs => simp [holes] at h
  | cons x segs ih =>
    intro vs h
    cases x with
    | lit s =>
      obtain ⟨qs, hq⟩ := ih vs (by simpa [holes] using h)
      exact ⟨s :: qs, by simp [inst, hq]⟩
    | hole =>
      cases vs with
      | nil => simp [holes] at h
      | cons v vs =>
        obtain ⟨qs, hq⟩ := ih vs (by simpa [holes] using h)
        exact ⟨v :: qs, by simp [inst, hq]⟩

/-- how an instantiated segment relates to the template segment at the same position -/
def SegRel (vals : List Text) : Seg → Text → Prop
  | .lit s, q => q = s
  | .hole, q => q ∈ vals

theorem forall2_imp {α β : Type} {R S : α → β → Prop} (h : ∀ a b, R a b → S a b) :
    ∀ {xs : List α} {ys : List β}, All2 R xs ys → All2 S xs ys := by
  intro xs ys hf
  induction hf with
  | nil => exact .nil
  | cons hr _ ih => exact .cons (h _ _ hr) ih

theorem inst_forall2 : ∀ (segs : List Seg) (vs qs : List Text), inst segs vs = some qs →
    All2 (SegRel vs) segs qs := by
  intro segs
  induction segs with
  | nil =>
    intro vs qs h
    simp only [inst] at h
    split at h
    · cases h; exact .nil
    · cases h
  | cons x segs ih =>
    intro vs qs h
    cases x with
    | lit s =>
      simp only [inst, Option.map_eq_some_iff] at h
      obtain ⟨r, hr, rfl⟩ := h
      exact .cons rfl (ih vs r hr)
    | hole =>
      cases vs with
      | nil => simp [inst] at h
      | cons v vs =>
        simp only [inst, Option.map_eq_some_iff] at h
        obtain ⟨r, hr, rfl⟩ := h
        refine .cons (by simp [SegRel]) (forall2_imp ?_ (ih vs r hr))
        intro a b hab
        cases a with
        | lit s => exact hab
        | hole => exact List.mem_cons_of_mem _ hab

theorem forall2_mem_right {α β : Type} {R : α → β → Prop} : ∀ {xs : List α} {ys : List β},
    All2 R xs ys → ∀ y ∈ ys, ∃ x ∈ xs, R x y := by
  intro xs ys hf
  induction hf with
  | nil => intro y hy; cases hy
  | cons hr _ ih =>
    intro y hy
    rcases List.mem_cons.1 hy with rfl | hy
    · exact ⟨_, by simp, hr⟩
    · obtain ⟨x, hx, hxy⟩ := ih y hy
      exact ⟨x, by simp [hx], hxy⟩

theorem forall2_dropLast {α β : Type} {R : α → β → Prop} {P : α → Prop} {Q : β → Prop}
    (hPQ : ∀ a b, R a b → P a → Q b) : ∀ {xs : List α} {ys : List β},
    All2 R xs ys → (∀ x ∈ xs.dropLast, P x) → ∀ y ∈ ys.dropLast, Q y := by
  intro xs ys hf
  induction hf with
  | nil => intro _ y hy; cases hy
  | cons hr htl ih =>
    rename_i a b as bs
    intro hP y hy
    cases htl with
    | nil => simp [List.dropLast] at hy
    | cons hr' htl' =>
      rename_i a' b' as' bs'
      simp only [List.dropLast, List.mem_cons] at hy
      rcases hy with rfl | hy
      · exact hPQ _ _ hr (hP a (by simp [List.dropLast]))
      · exact ih (fun x hx => hP x (by simp [List.dropLast]; exact Or.inr (by simpa [List.dropLast] using hx)))
          y (by simpa [List.dropLast] using hy)

/-- what `urljoin` and `requests` need of a path segment to leave it alone -/
structure GoodSeg (q : Text) : Prop where
  chars : ∀ c ∈ q, pathChar c = true
  esc : ∀ rest, wellEscaped (q ++ rest) = wellEscaped rest
  noSlash : '/' ∉ q
  noDot : isDot q = false

/-- literal template segments: letters, digits, `-._~` only, and not a dot segment -/
def litClean (s : Text) : Bool :=
  s.all (fun c => pathChar c && c != '%' && c != '/') && !isDot s

theorem goodSeg_lit {s : Text} (h : litClean s = true) : GoodSeg s := by
  simp only [litClean, Bool.and_eq_true, List.all_eq_true, bne_iff_ne, ne_eq,
    Bool.not_eq_true'] at h
  refine ⟨fun c hc => (h.1 c hc).1.1, ?_, fun hm => (h.1 _ hm).2 rfl, h.2⟩
  have hall := h.1
  clear h
  induction s with
  | nil => intro rest; rfl
  | cons c cs ih =>
    intro rest
    rw [List.cons_append, wellEscaped_plain _ _ (hall c (by simp)).1.2]
    exact ih (fun x hx => hall x (by simp [hx])) rest

/-- a name whose UTF-8 form is not empty, `.` or `..` -/
def goodName (n : Text) : Prop := utf8 n ≠ [] ∧ utf8 n ≠ [46] ∧ utf8 n ≠ [46, 46]

theorem pathChar_of_segChar {c : Char} (h : segChar c = true) : pathChar c = true ∧ c ≠ '/' := by
  simpa [segChar] using h

theorem goodSeg_quote {n : Text} (h : goodName n) : GoodSeg (quote "" n) ∧ quote "" n ≠ [] := by
  have hq : quote "" n = quoteBytes [] (utf8 n) := by simp [quote, safeBytes_empty]
  rw [hq]
  refine ⟨⟨fun c hc => (pathChar_of_segChar (segChar_quoteBytes _ c hc)).1,
    wellEscaped_quoteBytes _, fun hm => (pathChar_of_segChar (segChar_quoteBytes _ _ hm)).2 rfl, ?_⟩, ?_⟩
  · simp only [isDot, Bool.or_eq_false_iff, decide_eq_false_iff_not]
    constructor
    · intro e; exact h.2.1 (quoteBytes_degenerate e [46] (by decide))
    · intro e; exact h.2.2 (quoteBytes_degenerate e [46, 46] (by decide))
  · intro e; exact h.1 (quoteBytes_degenerate e [] (by decide))

theorem all_pathChar_joinWith : ∀ (qs : List Text), (∀ q ∈ qs, ∀ c ∈ q, pathChar c = true) →
    ∀ c ∈ joinWith '/' qs, pathChar c = true := by
  intro qs
  induction qs with
  | nil => intro _ c hc; cases hc
  | cons a l ih =>
    intro h c hc
    cases l with
    | nil => exact h a (by simp) c (by simpa [joinWith] using hc)
    | cons b l =>
      rw [joinWith_cons2] at hc
      rcases List.mem_append.1 hc with hc | hc
      · exact h a (by simp) c hc
      · rcases List.mem_cons.1 hc with rfl | hc
        · decide
        · exact ih (fun q hq => h q (by simp [hq])) c hc

theorem wellEscaped_joinWith : ∀ (qs : List Text),
    (∀ q ∈ qs, ∀ rest, wellEscaped (q ++ rest) = wellEscaped rest) →
    wellEscaped (joinWith '/' qs) = true := by
  intro qs
  induction qs with
  | nil => intro _; rfl
  | cons a l ih =>
    intro h
    cases l with
    | nil =>
      have := h a (by simp) []
      simpa [joinWith, wellEscaped] using this
    | cons b l =>
      rw [joinWith_cons2, h a (by simp), wellEscaped_plain _ _ (by decide)]
      exact ih (fun q hq => h q (by simp [hq]))

theorem all2_length {α β : Type} {R : α → β → Prop} : ∀ {xs : List α} {ys : List β},
    All2 R xs ys → xs.length = ys.length := by
  intro xs ys h
  induction h with
  | nil => rfl
  | cons _ _ ih => simp [ih]

def segLitOk : Seg → Bool
  | .lit s => litClean s
  | .hole => true

def segNonEmpty : Seg → Bool
  | .lit s => !s.isEmpty
  | .hole => true

/-- literal segments are clean, and only the last one may be empty (a trailing `/`) -/
def segsClean (segs : List Seg) : Bool :=
  !segs.isEmpty && segs.all segLitOk && segs.dropLast.all segNonEmpty

/-- the row's template parses into clean segments with as many `%s` as the row has arguments -/
def templateOk (e : Endpoint) : Bool :=
  match parseTemplate e.template.toList with
  | some segs => segsClean segs && holes segs == e.args.length
  | none => false

end Amqp.Mgmt
