import Amqp.Model.Parse
namespace Amqp

theorem Frame.encode_length (f : Frame) : f.encode.length = f.payload.length + 8 := by
  simp [Frame.encode]; omega

theorem gen_guard : Gen.Parse.guardsByteCount = true := by decide

theorem encode_ne_magic (f : Frame) (h : f.WF) (rest : Bytes) :
    ((f.encode ++ rest).take 4 = amqpMagic) = False := by
  have : f.ty = 8 ∨ f.ty = 1 ∨ f.ty = 2 ∨ f.ty = 3 := by
    rcases h.kind with h | h <;> omega
  simp only [Frame.encode, be16, be32, amqpMagic, eq_iff_iff, iff_false]
  rcases this with h | h | h | h <;> simp [h] <;> decide

theorem unmarshalEnv_encode (f : Frame) (h : f.WF) (rest : Bytes) :
    unmarshalEnv (f.encode ++ rest) = some (f.encode.length, f) := by
  unfold unmarshalEnv
  rw [if_neg (by rw [encode_ne_magic f h rest]; exact id)]
  obtain ⟨ty, chan, payload⟩ := f
  have hc := h.chan; have hs := h.size; have hk := h.kind
  simp only at hc hs hk
  simp only [Frame.encode, be16, be32, List.cons_append, List.nil_append]
  simp only [dec32_be32 _ hs, dec16_be16 _ hc]
  rcases hk with ⟨h8, hp⟩ | ⟨h123, hp⟩
  · subst h8; subst hp; simp
  · have hlen : payload.length ≠ 0 := by
      intro h0; exact hp (List.eq_nil_of_length_eq_zero h0)
    have hty : ¬ (UInt8.ofNat ty = 8 ∧ payload.length = 0) := fun h => hlen h.2
    rw [if_neg hty, if_neg hlen]
    have h1 : ¬ ((payload ++ [frameEnd] ++ rest).length < payload.length + 1) := by
      simp
    rw [if_neg h1]
    have h2 : ¬ (((payload ++ [frameEnd] ++ rest).drop payload.length).head? ≠ some frameEnd) := by
      simp
    rw [if_neg h2]
    have h3 : (UInt8.ofNat ty = 1 ∨ UInt8.ofNat ty = 2 ∨ UInt8.ofNat ty = 3) := by
      rcases h123 with h | h | h <;> subst h <;> decide
    rw [if_pos h3]
    have h4 : (UInt8.ofNat ty).toNat = ty := by
      rcases h123 with h | h | h <;> subst h <;> decide
    simp [h4]; omega

theorem handleFrame_encode (f : Frame) (h : f.WF) (rest : Bytes) :
    handleFrame (f.encode ++ rest) = some (f, rest) := by
  unfold handleFrame
  have hne : ¬ (f.encode ++ rest = []) := by simp [Frame.encode]
  rw [if_neg hne, unmarshalEnv_encode f h rest]
  simp

end Amqp

namespace Amqp

/-- fewer than 7 bytes that do not start the protocol magic: pamqp raises (frame_parts fails) -/
theorem unmarshalEnv_short (d : Bytes) (hl : d.length < 7) (hm : d.take 4 ≠ amqpMagic) :
    unmarshalEnv d = none := by
  unfold unmarshalEnv
  rw [if_neg hm]
  rcases d with _ | ⟨a, _ | ⟨b, _ | ⟨c, _ | ⟨d, _ | ⟨e, _ | ⟨f, _ | ⟨g, r⟩⟩⟩⟩⟩⟩⟩ <;> first | rfl | (simp at hl; omega)

def Frame.header7 (f : Frame) : Bytes := UInt8.ofNat f.ty :: (be16 f.chan ++ be32 f.payload.length)

theorem Frame.encode_eq (f : Frame) : f.encode = f.header7 ++ (f.payload ++ [frameEnd]) := by
  simp [Frame.encode, Frame.header7]

theorem Frame.header7_length (f : Frame) : f.header7.length = 7 := by simp [Frame.header7]

theorem header7_take4_ne_magic (f : Frame) (h : f.WF) (k : Nat) (r : Bytes) :
    ((f.header7 ++ r).take k).take 4 ≠ amqpMagic := by
  have : f.ty = 8 ∨ f.ty = 1 ∨ f.ty = 2 ∨ f.ty = 3 := by
    rcases h.kind with h | h <;> omega
  rcases k with _ | k
  · simp [amqpMagic]
  · simp only [Frame.header7, be16, be32, amqpMagic, List.cons_append, List.take_succ_cons]
    rcases this with h | h | h | h <;> simp [h] <;> decide

/-- every strict prefix of a well-formed frame's encoding is "incomplete" for
    `_handle_amqp_frame` (needs the byte-count guard for the 7-byte heartbeat prefix). -/
theorem handleFrame_prefix_none (f : Frame) (h : f.WF) (k : Nat) (hk : k < f.encode.length) :
    handleFrame (f.encode.take k) = none := by
  unfold handleFrame
  by_cases hnil : f.encode.take k = []
  · rw [if_pos hnil]
  rw [if_neg hnil]
  by_cases hk7 : k < 7
  · rw [unmarshalEnv_short]
    · simp [List.length_take]; omega
    · rw [Frame.encode_eq]; exact header7_take4_ne_magic f h k _
  · -- k ≥ 7: the 7 header bytes are all there
    have hm := header7_take4_ne_magic f h k (f.payload ++ [frameEnd])
    rw [← Frame.encode_eq] at hm
    have hdec : f.encode.take k = f.header7 ++ (f.payload ++ [frameEnd]).take (k - 7) := by
      rw [Frame.encode_eq, List.take_append, Frame.header7_length]
      rw [List.take_of_length_le (by rw [Frame.header7_length]; omega)]
    rw [hdec] at hm ⊢
    rw [Frame.encode_length] at hk
    obtain ⟨ty, chan, payload⟩ := f
    have hc := h.chan; have hs := h.size; have hkind := h.kind
    simp only at hc hs hkind hk
    unfold unmarshalEnv
    rw [if_neg hm]
    simp only [Frame.header7, be16, be32, List.cons_append, List.nil_append]
    simp only [dec32_be32 _ hs, dec16_be16 _ hc]
    rcases hkind with ⟨h8, hp⟩ | ⟨h123, hp⟩
    · subst h8; subst hp
      have : k = 7 := by simp at hk; omega
      subst this
      simp [gen_guard]
    · have hlen : payload.length ≠ 0 := by
        intro h0; exact hp (List.eq_nil_of_length_eq_zero h0)
      have hty : ¬ (UInt8.ofNat ty = 8 ∧ payload.length = 0) := fun h => hlen h.2
      rw [if_neg hty, if_neg hlen]
      have h1 : ((payload ++ [frameEnd]).take (k - 7)).length < payload.length + 1 := by
        simp [List.length_take]; omega
      rw [if_pos h1]

end Amqp

namespace Amqp

theorem unmarshalEnv_count_pos (d : Bytes) (n : Nat) (f : Frame)
    (h : unmarshalEnv d = some (n, f)) : 0 < n := by
  unfold unmarshalEnv at h
  split at h
  · split at h <;> simp at h; omega
  · split at h
    · simp only at h
      repeat' split at h
      all_goals (simp at h; try omega)
    · simp at h

theorem handleFrame_shorter (d : Bytes) (f : Frame) (rest : Bytes)
    (h : handleFrame d = some (f, rest)) : rest.length < d.length := by
  unfold handleFrame at h
  split at h; · simp at h
  rename_i hne
  split at h; · simp at h
  rename_i n g hu
  have hpos := unmarshalEnv_count_pos d n g hu
  split at h; · simp at h
  simp at h
  obtain ⟨_, hr⟩ := h
  subst hr
  have : 0 < d.length := List.length_pos_iff.mpr hne
  simp [List.length_drop]; omega

/-- more fuel than bytes changes nothing -/
theorem readBufferAux_fuel2 : ∀ (f1 f2 : Nat) (d : Bytes), d.length ≤ f1 → d.length ≤ f2 →
    readBufferAux f1 d = readBufferAux f2 d := by
  intro f1
  induction f1 with
  | zero =>
    intro f2 d h _
    have : d = [] := List.eq_nil_of_length_eq_zero (by omega)
    subst this
    rcases f2 with _ | j <;> simp [readBufferAux, handleFrame]
  | succ k ih =>
    intro f2 d h1 h2
    rcases f2 with _ | j
    · have : d = [] := List.eq_nil_of_length_eq_zero (by omega)
      subst this; simp [readBufferAux, handleFrame]
    · simp only [readBufferAux]
      rcases hf : handleFrame d with _ | ⟨f, rest⟩
      · rfl
      · have hs := handleFrame_shorter d f rest hf
        simp only
        rw [ih j rest (by omega) (by omega)]

theorem readBufferAux_fuel (fuel : Nat) (d : Bytes) (h : d.length ≤ fuel) :
    readBufferAux fuel d = readBufferAux d.length d :=
  readBufferAux_fuel2 fuel d.length d h (Nat.le_refl _)

theorem readBuffer_none (d : Bytes) (h : handleFrame d = none) : readBuffer d = ([], d) := by
  unfold readBuffer
  rcases hd : d.length with _ | m
  · rfl
  · simp [readBufferAux, h]

theorem readBuffer_some (d : Bytes) (f : Frame) (rest : Bytes)
    (h : handleFrame d = some (f, rest)) :
    readBuffer d = (f :: (readBuffer rest).1, (readBuffer rest).2) := by
  have hs := handleFrame_shorter d f rest h
  unfold readBuffer
  rcases hd : d.length with _ | m
  · omega
  · simp only [readBufferAux, h]
    rw [readBufferAux_fuel m rest (by omega)]

theorem readBuffer_encode (f : Frame) (h : f.WF) (rest : Bytes) :
    readBuffer (f.encode ++ rest) = (f :: (readBuffer rest).1, (readBuffer rest).2) := by
  exact readBuffer_some _ _ _ (handleFrame_encode f h rest)

/-- Prefix decomposition.  For a stream of well-formed frames and any prefix `p` of its bytes,
    `_read_buffer` dispatches exactly the maximal list of whole frames and keeps the rest, which
    is a *strict* prefix of the next frame's encoding (or empty at the end). -/
theorem readBuffer_prefix (fs : List Frame) (hwf : ∀ f ∈ fs, f.WF) :
    ∀ (p q : Bytes), p ++ q = encodeAll fs →
    ∃ n t, readBuffer p = (fs.take n, t) ∧ encodeAll (fs.take n) ++ t = p ∧
      t ++ q = encodeAll (fs.drop n) ∧
      (∀ g, (fs.drop n).head? = some g → t.length < g.encode.length) ∧
      ((fs.drop n) = [] → t = []) := by
  induction fs with
  | nil =>
    intro p q hpq
    simp [encodeAll] at hpq
    refine ⟨0, [], ?_⟩
    obtain ⟨hp, hq⟩ := hpq
    subst hp; subst hq
    simp [encodeAll, readBuffer_none [] (by simp [handleFrame])]
  | cons f fs ih =>
    intro p q hpq
    have hf : f.WF := hwf f (by simp)
    have hfs : ∀ g ∈ fs, g.WF := fun g hg => hwf g (by simp [hg])
    have henc : encodeAll (f :: fs) = f.encode ++ encodeAll fs := by simp [encodeAll]
    rw [henc] at hpq
    by_cases hlen : p.length < f.encode.length
    · -- p is a strict prefix of encode f
      have hp : p = f.encode.take p.length := by
        have := congrArg (List.take p.length) hpq
        rw [List.take_left' rfl, List.take_append_of_le_length (by omega)] at this
        exact this
      refine ⟨0, p, ?_, by simp [encodeAll], ?_, ?_, by simp⟩
      · rw [List.take_zero, hp]
        exact readBuffer_none _ (handleFrame_prefix_none f hf _ hlen)
      · simpa [henc] using hpq
      · intro g hg; simp at hg; subst hg; exact hlen
    · -- p contains the whole first frame
      have hsplit : ∃ p', p = f.encode ++ p' ∧ p' ++ q = encodeAll fs := by
        refine ⟨p.drop f.encode.length, ?_, ?_⟩
        · have := congrArg (List.take f.encode.length) hpq
          rw [List.take_left' rfl, List.take_append_of_le_length (by omega)] at this
          conv => lhs; rw [← List.take_append_drop f.encode.length p]
          rw [this]
        · have := congrArg (List.drop f.encode.length) hpq
          rw [List.drop_left' rfl, List.drop_append_of_le_length (by omega)] at this
          exact this
      obtain ⟨p', hp, hp'q⟩ := hsplit
      obtain ⟨n, t, h1, h2, h3, h4, h5⟩ := ih hfs p' q hp'q
      refine ⟨n + 1, t, ?_, ?_, ?_, ?_, ?_⟩
      · rw [hp, readBuffer_encode f hf, h1]; simp
      · rw [hp]; simp [encodeAll] at h2 ⊢; rw [← h2]
      · simpa using h3
      · simpa using h4
      · simpa using h5

end Amqp
