import Amqp.Model.Rpc
namespace Amqp.Rpc
open Amqp

theorem foldl_set_get (uid : Nat) (names : List String) :
    ∀ (r : List (String × Nat)) (n : String),
    Dict.get (names.foldl (fun r n => Dict.set r n uid) r) n =
      if n ∈ names then some uid else Dict.get r n := by
  induction names with
  | nil => intro r n; simp
  | cons m ms ih =>
    intro r n
    simp only [List.foldl_cons, ih]
    by_cases h1 : n ∈ ms
    · simp [h1]
    · by_cases h2 : n = m
      · subst h2; simp [h1, Dict.get_set_same]
      · simp [h1, h2, Dict.get_set_ne _ _ _ _ h2]

theorem foldl_set_vals (uid : Nat) (names : List String) :
    ∀ (r : List (String × Nat)), (∀ p ∈ r, p.2 = uid) →
    ∀ p ∈ names.foldl (fun r n => Dict.set r n uid) r, p.2 = uid := by
  induction names with
  | nil => intro r h; simpa using h
  | cons m ms ih =>
    intro r h
    simp only [List.foldl_cons]
    apply ih
    intro p hp
    simp only [Dict.set, Dict.del, List.mem_cons, List.mem_filter] at hp
    rcases hp with rfl | ⟨hp, _⟩
    · rfl
    · exact h p hp

/-- names that unsolicited frames may carry -/
structure Inv (U : List String) (s : S) : Prop where
  idle : s.cur = none → s.t.request = [] ∧ s.t.response = [] ∧ s.pending = [] ∧ hasReply s.inflight = false
  busy : ∀ c, s.cur = some c →
    s.lock = some c.tid ∧
    (∀ n, Dict.get s.t.request n = if n ∈ c.names then some c.uid else none) ∧
    (∀ p ∈ s.t.request, p.2 = c.uid) ∧
    (∃ fs, s.t.response = [(c.uid, fs)] ∧ ∀ f ∈ fs, f.reply = true ∧ f.tag = c.reqId) ∧
    (c.sent = false → s.pending = [] ∧ hasReply s.inflight = false ∧ s.t.response = [(c.uid, [])]) ∧
    (s.pending = [] ∨ (s.pending = [(c.reqId, c.names)] ∧ hasReply s.inflight = false ∧ s.t.response = [(c.uid, [])])) ∧
    (∀ f ∈ s.inflight, f.reply = true → f.tag = c.reqId ∧ f.name ∈ c.names) ∧
    (∀ n ∈ c.names, n ∉ U)
  unsolU : ∀ f ∈ s.inflight, f.reply = false → f.name ∈ U
  lockcur : s.lock = none → s.cur = none
  /-- T2: whatever a caller took answers its own request -/
  taken : ∀ p ∈ s.taken, p.2.tag = p.1 ∧ p.2.reply = true
  /-- T3: unsolicited frames reach normal handling, all of them, once, in order -/
  unsol : s.handled ++ s.inflight.filter (fun f => !f.reply) = s.unsol

def ActOk (U : List String) : Act → Prop
  | .register _ names => ∀ n ∈ names, n ∉ U
  | .unsolicited f => f.name ∈ U
  | _ => True

theorem inv_init (U : List String) : Inv U init :=
  ⟨fun _ => ⟨rfl, rfl, rfl, rfl⟩, fun c h => by simp [init] at h, fun f h => by simp [init] at h,
   fun _ => rfl, fun p h => by simp [init] at h, rfl⟩

theorem hasReply_append (a b : List Frm) : hasReply (a ++ b) = (hasReply a || hasReply b) := by
  simp [hasReply]

theorem hasReply_false_iff (l : List Frm) : hasReply l = false ↔ ∀ f ∈ l, f.reply = false := by
  simp [hasReply]

end Amqp.Rpc

namespace Amqp.Rpc
open Amqp

theorem dict_single_get (uid : Nat) (fs : List Frm) : Dict.get [(uid, fs)] uid = some fs := by
  simp [Dict.get]

theorem dict_single_set (uid : Nat) (fs gs : List Frm) : Dict.set [(uid, fs)] uid gs = [(uid, gs)] := by
  simp [Dict.set, Dict.del]

theorem dict_single_del (uid : Nat) (fs : List Frm) : Dict.del [(uid, fs)] uid = [] := by
  simp [Dict.del]

theorem step_inv (U : List String) (s s' : S) (a : Act) (h : Inv U s) (ha : ActOk U a)
    (hs : step s a = some s') : Inv U s' := by
  obtain ⟨hidle, hbusy, hunsolU, hlockcur, htaken, hunsol⟩ := h
  cases a with
  | acquire tid =>
    simp only [step] at hs
    split at hs
    · rename_i hl; cases hs
      have hc := hlockcur hl
      exact ⟨fun _ => hidle hc, fun c hcc => by simp [hc] at hcc, hunsolU, fun hn => by simp at hn,
        htaken, hunsol⟩
    · cases hs
  | register tid names =>
    simp only [step] at hs
    split at hs
    · rename_i hc; cases hs
      obtain ⟨hl, hcur, hne⟩ := hc
      have hcur' : s.cur = none := by simpa using hcur
      obtain ⟨hreq, hresp, hpend, hnorep⟩ := hidle hcur'
      refine ⟨fun hn => by simp at hn, ?_, hunsolU, fun hn => by simp [hl] at hn, htaken, hunsol⟩
      intro c hcc
      simp only [Option.some.injEq] at hcc
      subst hcc
      simp only [registerRequest, hreq, hresp]
      refine ⟨hl, ?_, ?_, ⟨[], by simp [Dict.set, Dict.del], by simp⟩, ?_, Or.inl hpend, ?_, ha⟩
      · intro n; rw [foldl_set_get]; simp [Dict.get]
      · exact foldl_set_vals _ _ [] (by simp)
      · intro _; exact ⟨hpend, hnorep, by simp [Dict.set, Dict.del]⟩
      · intro f hf hr
        have := (hasReply_false_iff _).mp hnorep f hf
        rw [this] at hr; cases hr
    · cases hs
  | send tid =>
    simp only [step] at hs
    split at hs
    · rename_i c hcur
      split at hs
      · rename_i hc; cases hs
        obtain ⟨_, hns⟩ := hc
        have hns' : c.sent = false := by simpa using hns
        obtain ⟨b1, b2, b3, b4, b5, _, b7, b8⟩ := hbusy c hcur
        obtain ⟨p1, p2, p3⟩ := b5 hns'
        refine ⟨fun hn => by simp at hn, ?_, hunsolU, fun hn => by simp [b1] at hn, htaken, hunsol⟩
        intro c' hc'
        simp only [Option.some.injEq] at hc'
        subst hc'
        exact ⟨b1, b2, b3, b4, fun hf => by simp at hf, Or.inr ⟨by simp [p1], p2, p3⟩, b7, b8⟩
      · cases hs
    · cases hs
  | take tid =>
    simp only [step] at hs
    split at hs
    · rename_i c hcur
      split at hs
      · rename_i hc
        obtain ⟨_, hsent⟩ := hc
        obtain ⟨b1, b2, b3, ⟨fs, b4, b4'⟩, b5, b6, b7, b8⟩ := hbusy c hcur
        simp only [popResponse, b4, dict_single_get] at hs
        rcases fs with _ | ⟨f, rest⟩
        · simp at hs
        · simp only [dict_single_set] at hs
          cases hs
          refine ⟨fun hn => by simp [hcur] at hn, ?_, hunsolU, fun hn => by simp [b1] at hn, ?_, hunsol⟩
          · intro c' hc'
            simp only [hcur, Option.some.injEq] at hc'
            subst hc'
            refine ⟨b1, b2, b3, ⟨rest, rfl, fun g hg => b4' g (by simp [hg])⟩, fun hf => by simp [hsent] at hf, ?_, b7, b8⟩
            rcases b6 with b6 | ⟨_, _, b6⟩
            · exact Or.inl b6
            · rw [b4] at b6; simp at b6
          · intro p hp
            simp only [List.mem_append, List.mem_singleton] at hp
            rcases hp with hp | rfl
            · exact htaken p hp
            · have := b4' f (by simp); exact ⟨this.2, this.1⟩
      · cases hs
    · cases hs
  | remove tid =>
    simp only [step] at hs
    split at hs
    · rename_i c hcur
      split at hs
      · rename_i hc; cases hs
        obtain ⟨b1, b2, b3, ⟨fs, b4, _⟩, b5, _, _, _⟩ := hbusy c hcur
        have hpn : s.pending = [] ∧ hasReply s.inflight = false := by
          rcases hc.2 with hns | ⟨hp, hnr, _⟩
          · have hsf : c.sent = false := by simpa using hns
            exact ⟨(b5 hsf).1, (b5 hsf).2.1⟩
          · exact ⟨hp, by simpa using hnr⟩
        obtain ⟨hp, hnr⟩ := hpn
        refine ⟨fun _ => ⟨?_, ?_, hp, hnr⟩, fun c' hc' => by simp at hc', hunsolU,
          fun _ => rfl, htaken, hunsol⟩
        · simp only [remove]
          apply List.filter_eq_nil_iff.mpr
          intro p hp'; simp [b3 p hp']
        · simp only [remove, b4, dict_single_del]
      · cases hs
    · cases hs
  | release tid =>
    simp only [step] at hs
    split at hs
    · rename_i hc; cases hs
      obtain ⟨_, hcn⟩ := hc
      have hcn' : s.cur = none := by simpa using hcn
      exact ⟨fun _ => hidle hcn', fun c hcc => by simp [hcn'] at hcc, hunsolU, fun _ => hcn', htaken, hunsol⟩
    · cases hs
  | reply fs =>
    simp only [step] at hs
    split at hs
    · rename_i rid names rest hpend
      split at hs
      · rename_i hc; cases hs
        obtain ⟨hne, hall⟩ := hc
        rcases hcur : s.cur with _ | c
        · have := (hidle hcur).2.2.1; rw [hpend] at this; cases this
        · obtain ⟨b1, b2, b3, b4, b5, b6, b7, b8⟩ := hbusy c hcur
          rcases b6 with b6 | ⟨b6, b6n, b6r⟩
          · rw [hpend] at b6; cases b6
          · rw [hpend] at b6
            simp only [List.cons.injEq, Prod.mk.injEq] at b6
            obtain ⟨⟨rfl, rfl⟩, rfl⟩ := b6
            have hsent : c.sent = true := by
              rcases hcs : c.sent with _ | _
              · have := (b5 hcs).1; rw [hpend] at this; cases this
              · rfl
            have hall' : ∀ f ∈ fs, f.reply = true ∧ f.tag = c.reqId ∧ f.name ∈ c.names := by
              intro f hf
              have := List.all_eq_true.mp hall f hf
              simpa using this
            refine ⟨fun hn => by simp [hcur] at hn, ?_, ?_, fun hn => by simp [b1] at hn, htaken, ?_⟩
            · intro c' hc'
              simp only [hcur, Option.some.injEq] at hc'
              subst hc'
              refine ⟨b1, b2, b3, b4, fun hf => by simp [hsent] at hf, Or.inl rfl, ?_, b8⟩
              intro f hf hr
              simp only [List.mem_append] at hf
              rcases hf with hf | hf
              · have := (hasReply_false_iff _).mp b6n f hf; rw [this] at hr; cases hr
              · exact (hall' f hf).2
            · intro f hf hr
              simp only [List.mem_append] at hf
              rcases hf with hf | hf
              · exact hunsolU f hf hr
              · rw [(hall' f hf).1] at hr; cases hr
            · simp only [List.filter_append]
              have : fs.filter (fun f => !f.reply) = [] := by
                apply List.filter_eq_nil_iff.mpr
                intro f hf; simp [(hall' f hf).1]
              rw [this, List.append_nil]; exact hunsol
      · cases hs
    · cases hs
  | unsolicited f =>
    simp only [step] at hs
    split at hs
    · rename_i hnr; cases hs
      have hnr' : f.reply = false := by simpa using hnr
      have hrep : hasReply (s.inflight ++ [f]) = hasReply s.inflight := by
        simp [hasReply_append, hasReply, hnr']
      refine ⟨?_, ?_, ?_, hlockcur, htaken, ?_⟩
      · intro hc
        obtain ⟨i1, i2, i3, i4⟩ := hidle hc
        exact ⟨i1, i2, i3, by rw [hrep]; exact i4⟩
      · intro c hc
        obtain ⟨b1, b2, b3, b4, b5, b6, b7, b8⟩ := hbusy c hc
        refine ⟨b1, b2, b3, b4, ?_, ?_, ?_, b8⟩
        · intro hf; obtain ⟨p1, p2, p3⟩ := b5 hf; exact ⟨p1, by rw [hrep]; exact p2, p3⟩
        · rcases b6 with b6 | ⟨q1, q2, q3⟩
          · exact Or.inl b6
          · exact Or.inr ⟨q1, by rw [hrep]; exact q2, q3⟩
        · intro g hg hr
          simp only [List.mem_append, List.mem_singleton] at hg
          rcases hg with hg | rfl
          · exact b7 g hg hr
          · rw [hnr'] at hr; cases hr
      · intro g hg hr
        simp only [List.mem_append, List.mem_singleton] at hg
        rcases hg with hg | rfl
        · exact hunsolU g hg hr
        · exact ha
      · simp only [List.filter_append, List.filter_cons, hnr', Bool.not_false, if_true, List.filter_nil]
        rw [← List.append_assoc, hunsol]
    · cases hs
  | dispatch =>
    simp only [step] at hs
    split at hs
    · rename_i f rest hinf
      cases hs
      rcases hcur : s.cur with _ | c
      · -- nobody registered: everything falls through
        obtain ⟨i1, i2, i3, i4⟩ := hidle hcur
        have hfr : f.reply = false := (hasReply_false_iff _).mp i4 f (by simp [hinf])
        have hrest : hasReply rest = false := by
          apply (hasReply_false_iff _).mpr
          intro g hg; exact (hasReply_false_iff _).mp i4 g (by simp [hinf, hg])
        have hon : onFrame s.t f = (false, s.t) := by simp [onFrame, i1, Dict.get]
        simp only [hon]
        refine ⟨fun _ => ⟨i1, i2, i3, hrest⟩, fun c hc => by simp [hcur] at hc, ?_, fun _ => rfl, htaken, ?_⟩
        · intro g hg hr; exact hunsolU g (by simp [hinf, hg]) hr
        · simp only [Bool.false_eq_true, if_false]
          rw [← hunsol, hinf]; simp [List.filter_cons, hfr]
      · obtain ⟨b1, b2, b3, ⟨fs, b4, b4'⟩, b5, b6, b7, b8⟩ := hbusy c hcur
        rcases hfr : f.reply with _ | _
        · -- an unsolicited frame: its name is not registered
          have hU : f.name ∈ U := hunsolU f (by simp [hinf]) hfr
          have hnn : f.name ∉ c.names := fun hm => b8 _ hm hU
          have hon : onFrame s.t f = (false, s.t) := by simp [onFrame, b2, hnn]
          have hrep : hasReply s.inflight = hasReply rest := by simp [hinf, hasReply, hfr]
          simp only [hon]
          refine ⟨fun hn => by simp [hcur] at hn, ?_, ?_,
            (fun hn => by have := hlockcur hn; rw [hcur] at this; cases this), htaken, ?_⟩
          · intro c' hc'
            simp only [hcur, Option.some.injEq] at hc'
            subst hc'
            refine ⟨b1, b2, b3, ⟨fs, b4, b4'⟩, ?_, ?_, ?_, b8⟩
            · intro hf; obtain ⟨p1, p2, p3⟩ := b5 hf; exact ⟨p1, by rw [← hrep]; exact p2, p3⟩
            · rcases b6 with b6 | ⟨q1, q2, q3⟩
              · exact Or.inl b6
              · exact Or.inr ⟨q1, by rw [← hrep]; exact q2, q3⟩
            · intro g hg hr; exact b7 g (by simp [hinf, hg]) hr
          · intro g hg hr; exact hunsolU g (by simp [hinf, hg]) hr
          · simp only [Bool.false_eq_true, if_false]
            rw [← hunsol, hinf]; simp [List.filter_cons, hfr]
        · -- a reply frame: it belongs to the registered request and is appended to its response
          obtain ⟨htag, hname⟩ := b7 f (by simp [hinf]) hfr
          have hon : onFrame s.t f = (true, { s.t with response := [(c.uid, fs ++ [f])] }) := by
            simp only [onFrame, b2, hname, if_true, b4, dict_single_get, dict_single_set]
          have hpend : s.pending = [] := by
            rcases b6 with b6 | ⟨_, q2, _⟩
            · exact b6
            · have := (hasReply_false_iff _).mp q2 f (by simp [hinf]); rw [this] at hfr; cases hfr
          have hsent : c.sent = true := by
            rcases hcs : c.sent with _ | _
            · have := (hasReply_false_iff _).mp (b5 hcs).2.1 f (by simp [hinf]); rw [this] at hfr; cases hfr
            · rfl
          simp only [hon]
          refine ⟨fun hn => by simp [hcur] at hn, ?_, ?_,
            (fun hn => by have := hlockcur hn; rw [hcur] at this; cases this), htaken, ?_⟩
          · intro c' hc'
            simp only [hcur, Option.some.injEq] at hc'
            subst hc'
            refine ⟨b1, b2, b3, ⟨fs ++ [f], rfl, ?_⟩, fun hf => by simp [hsent] at hf, Or.inl hpend, ?_, b8⟩
            · intro g hg
              simp only [List.mem_append, List.mem_singleton] at hg
              rcases hg with hg | rfl
              · exact b4' g hg
              · exact ⟨hfr, htag⟩
            · intro g hg hr; exact b7 g (by simp [hinf, hg]) hr
          · intro g hg hr; exact hunsolU g (by simp [hinf, hg]) hr
          · simp only [if_true]
            rw [← hunsol, hinf]; simp [List.filter_cons, hfr]
    · cases hs

theorem run_inv_of_ok (U : List String) : ∀ (as : List Act) (s' : S), (∀ a ∈ as, ActOk U a) →
    run init as = some s' → Inv U s' := by
  suffices h : ∀ (as : List Act) (s s' : S), Inv U s → (∀ a ∈ as, ActOk U a) → run s as = some s' → Inv U s' from
    fun as s' hok hr => h as init s' (inv_init U) hok hr
  intro as
  induction as with
  | nil => intro s s' h _ hr; simp [run] at hr; subst hr; exact h
  | cons a as ih =>
    intro s s' h hok hr
    simp only [run] at hr
    split at hr
    · cases hr
    · rename_i s1 hs1
      exact ih s1 s' (step_inv U s s1 a h (hok a (by simp)) hs1) (fun b hb => hok b (by simp [hb])) hr

end Amqp.Rpc
