import Amqp.Model.ConsumeLoop
/-! helper lemmas for the consuming-loop model (`Model/ConsumeLoop.lean`) -/
namespace Amqp.ConsumeLoop

/-- the order the property needs: look at the consumers, then drain, then decide -/
def goodProg : List Op := [.read, .drain, .exitq]

/-- inductive invariant of the loop `read; drain; exit?` against any reader -/
structure Inv (s : S) : Prop where
  prog : s.prog = goodProg
  conserve : s.handed ++ s.inbound = s.log
  pcle : s.pc ≤ 3
  unseen : s.sampled = false → (s.pc = 1 ∨ s.pc = 2) ∧ s.tags = 0
  drained : s.sampled = false → s.pc = 2 → s.inbound = []
  ret : s.done = true → s.sampled = false ∧ s.pc = 2

theorem inv_init (n : Nat) : Inv (init goodProg n) := by
  refine ⟨rfl, rfl, by simp [init], ?_, ?_, ?_⟩ <;> simp [init]

theorem step_inv (s s' : S) (a : Act) (h : Inv s) (hs : step s a = some s') : Inv s' := by
  obtain ⟨hp, hc, hle, hu, hd, hr⟩ := h
  cases a with
  | deliver m =>
    simp only [step] at hs
    split at hs
    · rename_i ht
      injection hs with hs; subst hs
      refine ⟨hp, ?_, hle, ?_, ?_, hr⟩
      · simp [← hc, List.append_assoc]
      · intro hf; have := (hu hf).2; omega
      · intro hf; have := (hu hf).2; omega
    · cases hs
  | cancel =>
    simp only [step] at hs
    split at hs
    · injection hs with hs; subst hs
      refine ⟨hp, hc, hle, ?_, hd, hr⟩
      intro hf; have := hu hf; exact ⟨this.1, by simp [this.2]⟩
    · cases hs
  | add =>
    simp only [step] at hs
    split at hs
    · rename_i ht
      injection hs with hs; subst hs
      refine ⟨hp, hc, hle, ?_, hd, hr⟩
      intro hf; have := (hu hf).2; omega
    · cases hs
  | consumer =>
    simp only [step] at hs
    split at hs
    · cases hs
    · rename_i hnd
      have hpc : s.pc = 0 ∨ s.pc = 1 ∨ s.pc = 2 ∨ s.pc = 3 := by omega
      have hq : s.prog[s.pc]? = goodProg[s.pc]? := by rw [hp]
      rw [hq] at hs
      rcases hpc with h0 | h1 | h2 | h3
      · -- read
        rw [h0] at hs
        simp only [goodProg, List.getElem?_cons_zero, stepOp] at hs
        injection hs with hs; subst hs
        refine ⟨hp, hc, by simp [h0], ?_, ?_, ?_⟩
        · intro hf
          simp only [decide_eq_false_iff_not, Nat.not_lt, Nat.le_zero_eq] at hf
          exact ⟨Or.inl (by simp [h0]), hf⟩
        · intro _ h2; simp [h0] at h2
        · intro hdn; simp [hnd] at hdn
      · -- drain
        rw [h1] at hs
        simp only [goodProg, List.getElem?_cons_succ, List.getElem?_cons_zero, stepOp] at hs
        injection hs with hs; subst hs
        refine ⟨hp, ?_, by simp [h1], ?_, ?_, ?_⟩
        · simp [hc]
        · intro hf; exact ⟨Or.inr (by simp [h1]), (hu hf).2⟩
        · intro _ _; rfl
        · intro hdn; simp [hnd] at hdn
      · -- exit?
        rw [h2] at hs
        simp only [goodProg, List.getElem?_cons_succ, List.getElem?_cons_zero, stepOp] at hs
        by_cases hsm : s.sampled = true
        · rw [if_pos hsm] at hs
          injection hs with hs; subst hs
          refine ⟨hp, hc, by simp [h2], ?_, ?_, ?_⟩
          · intro hf; simp [hsm] at hf
          · intro hf; simp [hsm] at hf
          · intro hdn; simp [hnd] at hdn
        · rw [if_neg hsm] at hs
          injection hs with hs; subst hs
          have hf : s.sampled = false := by simpa using hsm
          exact ⟨hp, hc, hle, hu, hd, fun _ => ⟨hf, h2⟩⟩
      · -- asleep: next iteration
        rw [h3] at hs
        simp only [goodProg, List.getElem?_cons_succ, List.getElem?_nil] at hs
        injection hs with hs; subst hs
        refine ⟨hp, hc, by simp, ?_, ?_, ?_⟩
        · intro hf; have := (hu hf).1; omega
        · intro _ h; simp at h
        · intro hdn; simp [hnd] at hdn

theorem run_inv (s s' : S) (as : List Act) (h : Inv s) (hr : run s as = some s') : Inv s' := by
  induction as generalizing s with
  | nil => simp only [run, Option.some.injEq] at hr; subst hr; exact h
  | cons a as ih =>
    simp only [run] at hr
    cases hs : step s a with
    | none => simp [hs] at hr
    | some s1 =>
      simp only [hs, Option.bind_some] at hr
      exact ih s1 (step_inv s s1 a h hs) hr

end Amqp.ConsumeLoop
