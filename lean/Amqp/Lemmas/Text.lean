import Amqp.Model.Message
import Amqp.Lemmas.Publish
/-
  Helper lemmas for C17: UTF-8 decode/encode, association-list dictionaries, the decoders.
-/
namespace Amqp

/-! ## UTF-8 -/

theorem bytes_roundtrip (s : String) : (⟨(utf8Encode s).toArray⟩ : ByteArray) = s.toByteArray := by
  apply ByteArray.ext
  simp [utf8Encode, String.toUTF8_eq_toByteArray]

/-- decoding succeeds exactly on encodings, and returns the encoded string -/
theorem utf8Decode_eq_some_iff (b : Bytes) (s : String) : utf8Decode b = some s ↔ utf8Encode s = b := by
  unfold utf8Decode String.fromUTF8?
  constructor
  · intro h
    split at h
    · cases h
      simp [utf8Encode, String.fromUTF8, String.toUTF8_eq_toByteArray]
    · cases h
  · intro h
    subst h
    have hv : (⟨(utf8Encode s).toArray⟩ : ByteArray).IsValidUTF8 := by
      rw [bytes_roundtrip]; exact s.isValidUTF8
    rw [dif_pos hv]
    congr 1

theorem utf8Decode_encode (s : String) : utf8Decode (utf8Encode s) = some s :=
  (utf8Decode_eq_some_iff _ _).mpr rfl

theorem utf8Encode_inj {s t : String} (h : utf8Encode s = utf8Encode t) : s = t := by
  have := utf8Decode_encode s
  rw [h, utf8Decode_encode] at this
  cases this; rfl

theorem utf8Encode_empty : utf8Encode "" = [] := by decide

theorem utf8Encode_ne_nil {s : String} (h : s ≠ "") : utf8Encode s ≠ [] := by
  intro h'
  exact h (utf8Encode_inj (h'.trans utf8Encode_empty.symm))

/-! ## try_utf8_decode -/

/-- the generated guard lets exactly the non-empty `bytes` values through to `.decode` -/
theorem returnsEarly_false_iff (v : PyVal) :
    Gen.Text.returnsEarly v.truthy (isString v) (v.isInstance .bytes) false = false ↔
      ∃ b, v = .bytes b ∧ b ≠ [] := by
  cases v <;> simp [Gen.Text.returnsEarly, isString, Gen.Text.stringKinds, PyVal.isInstance, PyVal.truthy]

theorem tryDecode_bytes (b : Bytes) :
    tryDecode (.bytes b) =
      if b = [] then .bytes b else match utf8Decode b with | some s => .str s | none => .bytes b := by
  by_cases hb : b = []
  · subst hb; rfl
  · have hg : Gen.Text.returnsEarly (PyVal.bytes b).truthy (isString (.bytes b))
        ((PyVal.bytes b).isInstance .bytes) false = false :=
      (returnsEarly_false_iff _).mpr ⟨b, rfl, hb⟩
    simp only [tryDecode, hg, if_neg hb, decodeWith, Gen.Text.codec]
    cases utf8Decode b <;> simp

theorem tryDecode_nonbytes (v : PyVal) (h : ∀ b, v ≠ .bytes b) : tryDecode v = v := by
  unfold tryDecode
  split
  · rfl
  · split
    · exact absurd rfl (h _)
    · rfl

end Amqp
