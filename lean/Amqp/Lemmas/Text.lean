import Amqp.Model.Message
import Amqp.Lemmas.Publish
/-
  Helper lemmas for C17: UTF-8 decode/encode, association-list dictionaries, the decoders.
-/
namespace Amqp

/-! ## UTF-8 -/

theorem bytes_roundtrip (s : String) : (⟨(utf8Encode s).toArray⟩ : ByteArray) = s.toByteArray := by
  apply ByteArray.ext
  simp [utf8Encode, String.toUTF8_eq_toByteArray]

/-- decoding succeeds exactly on encodings, and returns the encoded string -/
theorem utf8Decode_eq_some_iff (b : Bytes) (s : String) : utf8Decode b = some s ↔ utf8Encode s = b := by
  unfold utf8Decode String.fromUTF8?
  constructor
  · intro h
    split at h
    · cases h
      simp [utf8Encode, String.fromUTF8, String.toUTF8_eq_toByteArray]
    · cases h
  · intro h
    subst h
    have hv : (⟨(utf8Encode s).toArray⟩ : ByteArray).IsValidUTF8 := by
      rw [bytes_roundtrip]; exact s.isValidUTF8
    rw [dif_pos hv]
    congr 1

theorem utf8Decode_encode (s : String) : utf8Decode (utf8Encode s) = some s :=
  (utf8Decode_eq_some_iff _ _).mpr rfl

theorem utf8Encode_inj {s t : String} (h : utf8Encode s = utf8Encode t) : s = t := by
  have := utf8Decode_encode s
  rw [h, utf8Decode_encode] at this
  cases this; rfl

theorem utf8Encode_empty : utf8Encode "" = [] := by decide

theorem utf8Encode_ne_nil {s : String} (h : s ≠ "") : utf8Encode s ≠ [] := by
  intro h'
  exact h (utf8Encode_inj (h'.trans utf8Encode_empty.symm))

/-! ## try_utf8_decode -/

/-- the generated guard lets exactly the non-empty `bytes` values through to `.decode` -/
theorem returnsEarly_false_iff (v : PyVal) :
    Gen.Text.returnsEarly v.truthy (isString v) (v.isInstance .bytes) false = false ↔
      ∃ b, v = .bytes b ∧ b ≠ [] := by
  cases v <;> simp [Gen.Text.returnsEarly, isString, Gen.Text.stringKinds, PyVal.isInstance, PyVal.truthy]

theorem tryDecode_bytes (b : Bytes) :
    tryDecode (.bytes b) =
      if b = [] then .bytes b else match utf8Decode b with | some s => .str s | none => .bytes b := by
  by_cases hb : b = []
  · subst hb; rfl
  · have hg : Gen.Text.returnsEarly (PyVal.bytes b).truthy (isString (.bytes b))
        ((PyVal.bytes b).isInstance .bytes) false = false :=
      (returnsEarly_false_iff _).mpr ⟨b, rfl, hb⟩
    simp only [tryDecode, hg, if_neg hb, decodeWith, Gen.Text.codec]
    cases utf8Decode b <;> simp

theorem tryDecode_nonbytes (v : PyVal) (h : ∀ b, v ≠ .bytes b) : tryDecode v = v := by
  unfold tryDecode
  split
  · rfl
  · split
    · exact absurd rfl (h _)
    · rfl

/-! ## dictionaries -/

theorem dictSet_absent (d : Dict) (k : PyKey) (v : PyVal) (h : ∀ p ∈ d, p.1 ≠ k) :
    dictSet d k v = d ++ [(k, v)] := by
  induction d with
  | nil => rfl
  | cons p rest ih =>
    obtain ⟨k', v'⟩ := p
    have hk : k' ≠ k := h (k', v') (by simp)
    simp only [dictSet, if_neg hk, List.cons_append]
    rw [ih (fun q hq => h q (by simp [hq]))]

theorem dictGet_dictSet_same (d : Dict) (k : PyKey) (v : PyVal) : dictGet (dictSet d k v) k = v := by
  induction d with
  | nil => simp [dictSet, dictGet]
  | cons p rest ih =>
    obtain ⟨k', v'⟩ := p
    by_cases hk : k' = k
    · simp [dictSet, hk, dictGet]
    · simp only [dictSet, if_neg hk]
      simp only [dictGet, List.find?_cons, hk, decide_false] at ih ⊢
      exact ih

theorem dictGet_dictSet_other (d : Dict) (k k' : PyKey) (v : PyVal) (h : k' ≠ k) :
    dictGet (dictSet d k v) k' = dictGet d k' := by
  induction d with
  | nil => simp [dictSet, dictGet, h.symm]
  | cons p rest ih =>
    obtain ⟨k1, v1⟩ := p
    by_cases hk : k1 = k
    · subst hk
      simp [dictSet, dictGet, h.symm]
    · simp only [dictSet, if_neg hk]
      by_cases h1 : k1 = k'
      · simp [dictGet, h1]
      · simp only [dictGet, List.find?_cons, h1, decide_false] at ih ⊢
        exact ih

theorem dictSet_length_present (d : Dict) (k : PyKey) (v : PyVal) (h : dictHas d k = true) :
    (dictSet d k v).length = d.length := by
  induction d with
  | nil => simp [dictHas] at h
  | cons p rest ih =>
    obtain ⟨k', v'⟩ := p
    by_cases hk : k' = k
    · simp [dictSet, hk]
    · simp only [dictSet, if_neg hk, List.length_cons]
      rw [ih (by simpa [dictHas, hk] using h)]

/-- entry-wise decoding: what `_try_decode_dict` produces when no two keys collide -/
def decodeEntry (p : PyKey × PyVal) : PyKey × PyVal := (tryDecodeKey p.1, decodeDictValue p.2)

/-- no two keys of the dict become equal after decoding -/
def NoKeyClash (d : Dict) : Prop := (d.map (fun p => tryDecodeKey p.1)).Nodup

instance (d : Dict) : Decidable (NoKeyClash d) := by unfold NoKeyClash; infer_instance

theorem decodeDictAux_noclash (d : Dict) : ∀ (acc : Dict),
    (acc.map (·.1) ++ d.map (fun p => tryDecodeKey p.1)).Nodup →
    decodeDictAux acc d = acc ++ d.map decodeEntry := by
  induction d with
  | nil => intro acc _; simp [decodeDictAux]
  | cons p rest ih =>
    intro acc h
    obtain ⟨k, v⟩ := p
    have habs : ∀ q ∈ acc, q.1 ≠ tryDecodeKey k := by
      intro q hq heq
      rw [List.nodup_append] at h
      exact h.2.2 q.1 (List.mem_map_of_mem hq) (tryDecodeKey k) (by simp) heq
    rw [decodeDictAux, dictSet_absent _ _ _ habs, ih]
    · simp [decodeEntry]
    · simpa [List.map_append, List.append_assoc] using h

theorem decodeDict_noclash (d : Dict) (h : NoKeyClash d) : decodeDict d = d.map decodeEntry := by
  have := decodeDictAux_noclash d [] (by simpa [NoKeyClash] using h)
  simpa [decodeDict] using this

theorem nodup_map_inj {α β : Type} {f : α → β} : ∀ {l : List α}, (l.map f).Nodup →
    ∀ {a b : α}, a ∈ l → b ∈ l → f a = f b → a = b := by
  intro l
  induction l with
  | nil => intro _ a b ha; cases ha
  | cons x xs ih =>
    intro h a b ha hb hf
    rw [List.map_cons, List.nodup_cons] at h
    rcases List.mem_cons.mp ha with rfl | ha' <;> rcases List.mem_cons.mp hb with rfl | hb'
    · rfl
    · exact absurd (hf ▸ List.mem_map_of_mem hb') h.1
    · exact absurd (hf ▸ List.mem_map_of_mem ha') h.1
    · exact ih h.2 ha' hb' hf

theorem keys_dictSet (d : Dict) (k : PyKey) (v : PyVal) :
    (dictSet d k v).map (·.1) = if dictHas d k then d.map (·.1) else d.map (·.1) ++ [k] := by
  induction d with
  | nil => simp [dictSet, dictHas]
  | cons p rest ih =>
    obtain ⟨k', v'⟩ := p
    by_cases hk : k' = k
    · simp [dictSet, dictHas, hk]
    · have hd : dictSet ((k', v') :: rest) k v = (k', v') :: dictSet rest k v := by simp [dictSet, hk]
      have hh : dictHas ((k', v') :: rest) k = dictHas rest k := by simp [dictHas, hk]
      rw [hd, hh, List.map_cons, ih]
      split <;> simp

theorem NoKeyClash.of_dictSet {d : Dict} {k : PyKey} {v : PyVal} (h : NoKeyClash (dictSet d k v)) :
    NoKeyClash d := by
  unfold NoKeyClash at h ⊢
  have e : ∀ (l : Dict), l.map (fun p => tryDecodeKey p.1) = (l.map (·.1)).map tryDecodeKey := by
    intro l; simp [List.map_map, Function.comp_def]
  rw [e] at h ⊢
  rw [keys_dictSet] at h
  split at h
  · exact h
  · rw [List.map_append] at h; exact (List.nodup_append.mp h).1

/-- under NoKeyClash of the updated dict, a key different from `k` does not decode to the same key -/
theorem NoKeyClash.sep {d : Dict} {k : PyKey} {v : PyVal} (h : NoKeyClash (dictSet d k v)) :
    ∀ p ∈ d, p.1 ≠ k → tryDecodeKey p.1 ≠ tryDecodeKey k := by
  intro p hp hne heq
  unfold NoKeyClash at h
  have e : (dictSet d k v).map (fun p => tryDecodeKey p.1) = ((dictSet d k v).map (·.1)).map tryDecodeKey := by
    simp [List.map_map, Function.comp_def]
  rw [e] at h
  have hp' : p.1 ∈ (dictSet d k v).map (·.1) := by
    rw [keys_dictSet]; split
    · exact List.mem_map_of_mem hp
    · exact List.mem_append_left _ (List.mem_map_of_mem hp)
  have hk' : k ∈ (dictSet d k v).map (·.1) := by
    rw [keys_dictSet]; split
    · rename_i hh
      simp only [dictHas, List.any_eq_true, decide_eq_true_eq] at hh
      obtain ⟨q, hq, rfl⟩ := hh
      exact List.mem_map_of_mem hq
    · simp
  exact hne (nodup_map_inj h hp' hk' heq)

theorem map_dictSet (d : Dict) (k : PyKey) (v : PyVal)
    (h : ∀ p ∈ d, p.1 ≠ k → tryDecodeKey p.1 ≠ tryDecodeKey k) :
    dictSet (d.map decodeEntry) (tryDecodeKey k) (decodeDictValue v) = (dictSet d k v).map decodeEntry := by
  induction d with
  | nil => rfl
  | cons p rest ih =>
    obtain ⟨k', v'⟩ := p
    by_cases hk : k' = k
    · subst hk; simp [dictSet, decodeEntry]
    · have hne := h (k', v') (by simp) hk
      simp only [List.map_cons, decodeEntry, dictSet, if_neg hne, if_neg hk]
      rw [← ih (fun q hq => h q (by simp [hq]))]

/-- **decoding commutes with `d[k] = v`** when the update creates no key clash -/
theorem decodeDict_dictSet (d : Dict) (k : PyKey) (v : PyVal) (h : NoKeyClash (dictSet d k v)) :
    decodeDict (dictSet d k v) = dictSet (decodeDict d) (tryDecodeKey k) (decodeDictValue v) := by
  rw [decodeDict_noclash _ h, decodeDict_noclash _ h.of_dictSet, map_dictSet _ _ _ h.sep]

theorem tryDecodeKey_str (s : String) : tryDecodeKey (.str s) = .str s := by
  have : tryDecode (.str s) = .str s := tryDecode_nonbytes _ (by intro b h; cases h)
  simp [tryDecodeKey, PyKey.toVal, this]

/-! ## `Message.create` fills -/

/-- one guarded fill of `Message.create`: `if k not in d: d[k] = x` -/
def fillAbsent (d : Dict) (k : PyKey) (x : PyVal) : Dict := if dictHas d k then d else dictSet d k x

theorem dictHas_false_iff (d : Dict) (k : PyKey) : dictHas d k = false ↔ ∀ p ∈ d, p.1 ≠ k := by
  simp [dictHas]

theorem fillAbsent_eq (d : Dict) (k : PyKey) (x : PyVal) :
    fillAbsent d k x = d ++ (if dictHas d k then [] else [(k, x)]) := by
  unfold fillAbsent
  cases h : dictHas d k
  · simp [dictSet_absent d k x ((dictHas_false_iff d k).mp h)]
  · simp

theorem dictHas_dictSet (d : Dict) (k k' : PyKey) (v : PyVal) :
    dictHas (dictSet d k v) k' = (dictHas d k' || decide (k = k')) := by
  induction d with
  | nil => simp [dictSet, dictHas]
  | cons p rest ih =>
    obtain ⟨k1, v1⟩ := p
    by_cases hk : k1 = k
    · subst hk
      simp only [dictSet, if_true, dictHas, List.any_cons]
      cases decide (k1 = k') <;> simp
    · have hd : dictSet ((k1, v1) :: rest) k v = (k1, v1) :: dictSet rest k v := by simp [dictSet, hk]
      rw [hd]
      simp only [dictHas, List.any_cons] at ih ⊢
      rw [ih, Bool.or_assoc]

theorem dictHas_fillAbsent (d : Dict) (k k' : PyKey) (x : PyVal) :
    dictHas (fillAbsent d k x) k' = (dictHas d k' || decide (k = k')) := by
  unfold fillAbsent
  cases h : dictHas d k
  · simp [dictHas_dictSet]
  · by_cases hk : k = k'
    · subst hk; simp [h]
    · simp [hk]

theorem dictGet_fillAbsent_present (d : Dict) (k k' : PyKey) (x : PyVal) (h : dictHas d k' = true) :
    dictGet (fillAbsent d k x) k' = dictGet d k' := by
  unfold fillAbsent
  cases hk : dictHas d k
  · have : k' ≠ k := by intro e; subst e; rw [h] at hk; cases hk
    simp [dictGet_dictSet_other _ _ _ _ this]
  · simp

theorem dictGet_fillAbsent_same (d : Dict) (k : PyKey) (x : PyVal) (h : dictHas d k = false) :
    dictGet (fillAbsent d k x) k = x := by
  simp [fillAbsent, h, dictGet_dictSet_same]

theorem dictGet_fillAbsent_other (d : Dict) (k k' : PyKey) (x : PyVal) (h : k' ≠ k) :
    dictGet (fillAbsent d k x) k' = dictGet d k' := by
  unfold fillAbsent
  split
  · rfl
  · exact dictGet_dictSet_other _ _ _ _ h

theorem createProps_eq (fresh : Gen.Message.Fill → String → PyVal) (props : Dict) :
    createProps fresh props =
      fillAbsent (fillAbsent (fillAbsent props (.str "correlation_id") (fresh .uuid "correlation_id"))
        (.str "message_id") (fresh .uuid "message_id")) (.str "timestamp") (fresh .now "timestamp") := rfl

end Amqp
