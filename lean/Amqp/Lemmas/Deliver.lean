import Amqp.Model.Deliver
namespace Amqp.Deliver

theorem continues_iff (a n : Nat) : Gen.Loops.buildBodyContinues a n = true ↔ a < n := by
  simp [Gen.Loops.buildBodyContinues]

theorem flatten_split (ps : List (List UInt8)) (k : Nat) :
    ps.flatten.length = (ps.take k).flatten.length + (ps.drop k).flatten.length := by
  have := congrArg List.length (congrArg List.flatten (List.take_append_drop k ps))
  rw [List.flatten_append, List.length_append] at this
  omega

theorem flatten_pos_of_nonempty (ps : List (List UInt8)) (h : ∀ p ∈ ps, p ≠ []) (hne : ps ≠ []) :
    0 < ps.flatten.length := by
  rcases ps with _ | ⟨p, rest⟩
  · exact absurd rfl hne
  · have := h p (by simp)
    have : 0 < p.length := List.length_pos_iff.mpr this
    simp; omega

theorem take_succ_flatten (ps : List (List UInt8)) (k : Nat) (p : List UInt8) (rest : List (List UInt8))
    (h : ps.drop k = p :: rest) : (ps.take (k + 1)).flatten = (ps.take k).flatten ++ p := by
  have hk : k < ps.length := by
    rcases Nat.lt_or_ge k ps.length with h1 | h1
    · exact h1
    · rw [List.drop_of_length_le h1] at h; cases h
  rw [List.take_succ_eq_append_getElem hk]
  have : ps[k] = p := by
    have h0 := List.drop_eq_getElem_cons hk
    rw [h] at h0
    exact (List.cons.inj h0).1.symm
  simp [this]

/-- the state of the consumer relative to the list of deliveries the broker sent -/
def InvIdle (all : List Delivery) (s : S) : Prop :=
  s.phase = .idle ∧ ∃ ds : List Delivery,
    s.inbound ++ s.future = ds.flatMap Delivery.frames ∧
    s.out ++ ds.map Delivery.msg = all.map Delivery.msg ∧ (∀ d ∈ ds, d.WF)

def InvBody (all : List Delivery) (s : S) : Prop :=
  ∃ (d : Delivery) (ds : List Delivery) (k : Nat),
    s.phase = .body d.mid d.body.length d.props (d.pieces.take k).flatten ∧
    s.inbound ++ s.future = (d.pieces.drop k).map CF.body ++ ds.flatMap Delivery.frames ∧
    s.out ++ (d.msg :: ds.map Delivery.msg) = all.map Delivery.msg ∧ d.WF ∧ (∀ d' ∈ ds, d'.WF)

def Inv (all : List Delivery) (s : S) : Prop := s.dropped = 0 ∧ (InvIdle all s ∨ InvBody all s)

theorem inv_init (all : List Delivery) (hwf : ∀ d ∈ all, d.WF) :
    Inv all { future := all.flatMap Delivery.frames } :=
  ⟨rfl, Or.inl ⟨rfl, all, by simp, by simp, hwf⟩⟩

theorem genStartNeeds : Gen.Loops.buildStartNeeds = 2 := by decide

theorem step_inv (all : List Delivery) (s s' : S) (a : Act) (h : Inv all s) (hs : step s a = some s') :
    Inv all s' := by
  obtain ⟨hdrop, h⟩ := h
  cases a with
  | append =>
    simp only [step, stepN] at hs
    split at hs
    · rename_i f rest hf
      cases hs
      have hmove : (s.inbound ++ [f]) ++ rest = s.inbound ++ s.future := by rw [hf]; simp
      refine ⟨hdrop, ?_⟩
      rcases h with ⟨hph, ds, hrest, hout, hwf⟩ | ⟨d, ds, k, hph, hrest, hout, hwf⟩
      · exact Or.inl ⟨hph, ds, by simp only; rw [hmove]; exact hrest, hout, hwf⟩
      · exact Or.inr ⟨d, ds, k, hph, by simp only; rw [hmove]; exact hrest, hout, hwf⟩
    · cases hs
  | start =>
    rcases h with ⟨hph, ds, hrest, hout, hwf⟩ | ⟨d, ds, k, hph, hrest, hout, hwf⟩
    · simp only [step, stepN, hph, genStartNeeds] at hs
      rcases hin : s.inbound with _ | ⟨a, _ | ⟨b, rest⟩⟩
      · rw [hin] at hs; simp at hs
      · rw [hin] at hs; simp at hs
      · rw [hin] at hs hrest
        simp only [List.length_cons] at hs
        rw [if_neg (by omega)] at hs
        rcases ds with _ | ⟨d, ds'⟩
        · simp at hrest
        · simp only [List.flatMap_cons, Delivery.frames, List.cons_append, List.cons.injEq] at hrest
          obtain ⟨ha, hb, hrest'⟩ := hrest
          subst ha; subst hb
          simp only at hs
          cases hs
          refine ⟨hdrop, Or.inr ⟨d, ds', 0, by simp, ?_, hout, hwf d (by simp), fun d' hd' => hwf d' (by simp [hd'])⟩⟩
          simpa using hrest'
    · simp only [step, stepN, hph] at hs
      split at hs
      · cases hs
      · cases hs
  | piece =>
    rcases h with ⟨hph, ds, hrest, hout, hwf⟩ | ⟨d, ds, k, hph, hrest, hout, hwfd, hwf⟩
    · simp only [step, stepN, hph] at hs
      cases hs
    · simp only [step, stepN, hph] at hs
      rcases hin : s.inbound with _ | ⟨f, rest⟩
      · rw [hin] at hs; cases hs
      · rw [hin] at hs hrest
        simp only at hs
        split at hs
        · rename_i hcont
          have hlt := (continues_iff _ _).mp hcont
          have hdropne : d.pieces.drop k ≠ [] := by
            intro he
            have := flatten_split d.pieces k
            rw [he] at this
            simp only [Delivery.body] at hlt
            simp only [List.flatten_nil, List.length_nil, Nat.add_zero] at this
            omega
          rcases hd : d.pieces.drop k with _ | ⟨pc, more⟩
          · exact absurd hd hdropne
          · rw [hd] at hrest
            simp only [List.map_cons, List.cons_append, List.cons.injEq] at hrest
            obtain ⟨hf, hrest'⟩ := hrest
            subst hf
            have hpcne : pc ≠ [] := hwfd pc (List.mem_of_mem_drop (by rw [hd]; simp))
            have hemp : pc.isEmpty = false := by
              rcases pc with _ | ⟨x, xs⟩
              · exact absurd rfl hpcne
              · rfl
            simp only [hemp, Bool.false_eq_true, if_false] at hs
            cases hs
            refine ⟨hdrop, Or.inr ⟨d, ds, k + 1, ?_, ?_, hout, hwfd, hwf⟩⟩
            · simp only; rw [take_succ_flatten d.pieces k pc more hd]
            · simp only
              have : d.pieces.drop (k + 1) = more := by
                rw [← List.drop_drop, hd]; rfl
              rw [this]; exact hrest'
        · cases hs
  | finish =>
    rcases h with ⟨hph, ds, hrest, hout, hwf⟩ | ⟨d, ds, k, hph, hrest, hout, hwfd, hwf⟩
    · simp only [step, stepN, hph] at hs
      cases hs
    · simp only [step, stepN, hph] at hs
      split at hs
      · cases hs
      · rename_i hncont
        cases hs
        have hge : ¬ ((d.pieces.take k).flatten.length < d.body.length) := fun hlt =>
          hncont ((continues_iff _ _).mpr hlt)
        have hdrop0 : d.pieces.drop k = [] := by
          rcases hd : d.pieces.drop k with _ | ⟨pc, more⟩
          · rfl
          · exfalso
            have hpos := flatten_pos_of_nonempty (d.pieces.drop k)
              (fun p hp => hwfd p (List.mem_of_mem_drop hp)) (by rw [hd]; simp)
            have := flatten_split d.pieces k
            simp only [Delivery.body] at hge
            omega
        have htake : d.pieces.take k = d.pieces := by
          have := List.take_append_drop k d.pieces
          rw [hdrop0, List.append_nil] at this; exact this
        refine ⟨hdrop, Or.inl ⟨rfl, ds, ?_, ?_, hwf⟩⟩
        · simp only; rw [hdrop0] at hrest; simpa using hrest
        · simp only
          rw [htake, List.append_assoc]
          exact hout

theorem run_inv (all : List Delivery) : ∀ (as : List Act) (s s' : S), Inv all s → run s as = some s' → Inv all s' := by
  intro as
  induction as with
  | nil => intro s s' h hr; simp [run] at hr; subst hr; exact h
  | cons a as ih =>
    intro s s' h hr
    simp only [run] at hr
    split at hr
    · cases hr
    · rename_i s1 hs; exact ih s1 s' (step_inv all s s1 a h hs) hr

end Amqp.Deliver

namespace Amqp.Deliver

theorem route_contents (fs : List CF) : ∀ (s : RouteSt), s.returnedLeft = none →
    (fs.map Frame.content).foldl onFrame s = { s with inbound := s.inbound ++ fs } := by
  induction fs with
  | nil => intro s _; simp
  | cons f fs ih =>
    intro s hs
    simp only [List.map_cons, List.foldl_cons]
    have h1 : onFrame s (.content f) = { s with inbound := s.inbound ++ [f] } := by
      cases s; simp only at hs; subst hs
      cases f <;> simp [onFrame]
    rw [h1]
    have := ih { s with inbound := s.inbound ++ [f] } hs
    rw [this]
    simp [List.append_assoc]

/-- the body frames of a returned message are swallowed one by one until its announced size is reached -/
theorem route_returned_bodies (ps : List (List UInt8)) (hwf : ∀ p ∈ ps, p ≠ []) : ∀ (s : RouteSt),
    s.returnedLeft = (if ps.flatten.length = 0 then none else some (ps.flatten.length : Int)) →
    ((ps.map CF.body).map Frame.content).foldl onFrame s = { s with returnedLeft := none } := by
  induction ps with
  | nil => intro s hs; simp at hs; cases s; simp_all
  | cons p ps ih =>
    intro s hs
    have hp : 0 < p.length := List.length_pos_iff.mpr (hwf p (by simp))
    have htot : (p :: ps).flatten.length = p.length + ps.flatten.length := by simp
    rw [htot] at hs
    have hne : ¬ (p.length + ps.flatten.length = 0) := by omega
    rw [if_neg hne] at hs
    simp only [List.map_cons, List.foldl_cons]
    have h1 : onFrame s (.content (.body p)) =
        { s with returnedLeft := if ps.flatten.length = 0 then none else some (ps.flatten.length : Int) } := by
      cases s; simp only at hs; subst hs
      simp only [onFrame]
      have hpos : ((p.length + ps.flatten.length : Nat) : Int) > 0 := by omega
      simp only [hpos, if_true]
      by_cases h0 : ps.flatten.length = 0
      · simp [h0]
      · have : ((p.length + ps.flatten.length : Nat) : Int) - (p.length : Int) > 0 := by omega
        simp only [this, if_true, h0, if_false]
        congr 2; omega
    rw [h1, ih (fun q hq => hwf q (by simp [hq])) _ rfl]

theorem route_unit (u : Item) (hwf : ∀ c d, u = .returned c d → d.WF) (s : RouteSt) (hs : s.returnedLeft = none) :
    (u.frames.foldl onFrame s).returnedLeft = none ∧
    (u.frames.foldl onFrame s).inbound = s.inbound ++ (match u with | .delivery d => d.frames | _ => []) ∧
    (u.frames.foldl onFrame s).errors = s.errors ++ (match u with | .returned c _ => [c] | _ => []) ∧
    (u.frames.foldl onFrame s).claimed = s.claimed ++ (match u with | .reply n => [n] | _ => []) ∧
    (u.frames.foldl onFrame s).handled = s.handled ++ (match u with | .other n => [n] | _ => []) := by
  cases u with
  | delivery d =>
    simp only [Item.frames]
    rw [route_contents d.frames s hs]
    simp [hs]
  | returned c d =>
    have hd := hwf c d rfl
    simp only [Item.frames, Delivery.frames, List.drop_succ_cons, List.drop_zero, List.map_cons, List.foldl_cons]
    have h1 : onFrame s (.ret c) = { s with errors := s.errors ++ [c], returnedLeft := some (-1) } := by
      cases s; simp only at hs; subst hs; simp [onFrame]
    rw [h1]
    have h2 : onFrame { s with errors := s.errors ++ [c], returnedLeft := some (-1) }
        (.content (.header d.body.length d.props)) =
        { s with errors := s.errors ++ [c],
                 returnedLeft := if d.pieces.flatten.length = 0 then none else some (d.pieces.flatten.length : Int) } := by
      simp only [onFrame, Delivery.body, if_true]
      by_cases h0 : d.pieces.flatten.length = 0
      · simp [h0]
      · simp [h0]
    rw [h2, route_returned_bodies d.pieces hd _ rfl]
    simp
  | reply n =>
    cases s; simp only at hs; subst hs
    simp [Item.frames, onFrame]
  | other n =>
    cases s; simp only at hs; subst hs
    simp [Item.frames, onFrame]

end Amqp.Deliver
