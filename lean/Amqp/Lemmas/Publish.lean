import Amqp.Model.Publish
import Amqp.Lemmas.Parse
namespace Amqp

/-- the slice size used by `_create_content_body` for a channel limit `maxF` -/
def maxBody (maxF : Int) : Nat := (max (maxF - 8) 1).toNat

theorem maxBody_pos (maxF : Int) : 0 < maxBody maxF := by
  unfold maxBody; omega

theorem maxBody_cast (maxF : Int) : ((maxBody maxF : Nat) : Int) = max (maxF - 8) 1 := by
  unfold maxBody; omega

/-- number of slices: ⌈n / m⌉ -/
def nSlices (m n : Nat) : Nat := (n + m - 1) / m

theorem rangeHi_eq (maxF : Int) (n : Nat) :
    (Gen.Publish.rangeHi maxF n - Gen.Publish.rangeLo maxF n).toNat = nSlices (maxBody maxF) n := by
  have hm := maxBody_pos maxF
  have hc := maxBody_cast maxF
  simp only [Gen.Publish.rangeHi, Gen.Publish.rangeLo, pyCeilDiv, ← hc, nSlices]
  rw [if_pos (by omega)]
  have : ((n : Int) + (maxBody maxF : Int) - 1) = ((n + maxBody maxF - 1 : Nat) : Int) := by omega
  rw [this]
  have h := Int.natCast_ediv (n + maxBody maxF - 1) (maxBody maxF)
  have h0 : 0 ≤ ((n + maxBody maxF - 1 : Nat) : Int) / (maxBody maxF : Int) :=
    Int.ediv_nonneg (by omega) (by omega)
  omega

theorem nSlices_spec (m n : Nat) (hm : 0 < m) :
    n ≤ m * nSlices m n ∧ (0 < n → m * (nSlices m n - 1) < n) ∧ (n = 0 → nSlices m n = 0) := by
  unfold nSlices
  have h1 := Nat.div_add_mod (n + m - 1) m
  have h2 := Nat.mod_lt (n + m - 1) hm
  generalize (n + m - 1) / m = q at *
  generalize (n + m - 1) % m = r at *
  refine ⟨?_, ?_, ?_⟩
  · -- n ≤ m*q : n + m - 1 = m*q + r, r < m
    omega
  · intro hn
    rcases q with _ | q
    · simp; omega
    · simp only [Nat.add_sub_cancel]
      rw [Nat.mul_succ] at h1
      omega
  · intro h0; subst h0
    rcases q with _ | q
    · rfl
    · rw [Nat.mul_succ] at h1; omega

theorem slice_eq (maxF : Int) (b : Bytes) (i : Nat) :
    pySlice b (Gen.Publish.sliceStart maxF b.length (Gen.Publish.rangeLo maxF b.length + i))
              (Gen.Publish.sliceEnd maxF b.length (Gen.Publish.rangeLo maxF b.length + i))
      = (b.drop (maxBody maxF * i)).take (maxBody maxF) := by
  have hm := maxBody_pos maxF
  have hc := maxBody_cast maxF
  simp only [Gen.Publish.sliceStart, Gen.Publish.sliceEnd, Gen.Publish.rangeLo, ← hc, Int.zero_add]
  generalize maxBody maxF = m at *
  have hs : pyIndex b.length ((m : Int) * (i : Int)) = min (m * i) b.length := by
    unfold pyIndex
    have : ¬ ((m : Int) * (i : Int) < 0) := by
      have := Int.mul_nonneg (Int.natCast_nonneg m) (Int.natCast_nonneg i); omega
    rw [if_neg this, ← Int.natCast_mul, Int.toNat_natCast]
  unfold pySlice
  rw [hs]
  split
  · -- clamped: end = len(body)
    rename_i hgt
    have he : pyIndex b.length (b.length : Int) = b.length := by
      unfold pyIndex; simp; omega
    rw [he]
    rw [← Int.natCast_mul] at hgt
    have hgt' : m * i + m > b.length := by omega
    by_cases hle : m * i ≤ b.length
    · rw [Nat.min_eq_left hle]
      rw [List.take_of_length_le (by simp [List.length_drop]),
          List.take_of_length_le (by simp [List.length_drop]; omega)]
    · have : min (m * i) b.length = b.length := by omega
      rw [this]
      simp [List.drop_of_length_le (Nat.le_refl _), List.drop_of_length_le (by omega : b.length ≤ m * i)]
  · rename_i hle
    rw [← Int.natCast_mul] at hle
    have hle' : m * i + m ≤ b.length := by omega
    have he : pyIndex b.length ((m : Int) * (i : Int) + (m : Int)) = m * i + m := by
      unfold pyIndex
      have : ¬ ((m : Int) * (i : Int) + (m : Int) < 0) := by
        have := Int.mul_nonneg (Int.natCast_nonneg m) (Int.natCast_nonneg i); omega
      rw [if_neg this, ← Int.natCast_mul, ← Int.natCast_add, Int.toNat_natCast]
      omega
    rw [he, Nat.min_eq_left (by omega)]
    congr 1; omega

theorem splitBody_eq (maxF : Int) (b : Bytes) :
    splitBody maxF b = (List.range (nSlices (maxBody maxF) b.length)).map
      (fun i => (b.drop (maxBody maxF * i)).take (maxBody maxF)) := by
  unfold splitBody
  simp only [rangeHi_eq]
  apply List.map_congr_left
  intro i _
  exact slice_eq maxF b i

theorem flatten_slices (m : Nat) (b : Bytes) (k : Nat) :
    ((List.range k).map (fun i => (b.drop (m * i)).take m)).flatten = b.take (m * k) := by
  induction k with
  | zero => simp
  | succ k ih =>
    rw [List.range_succ, List.map_append, List.flatten_append, ih]
    simp only [List.map_cons, List.map_nil, List.flatten_cons, List.flatten_nil, List.append_nil]
    rw [Nat.mul_succ, List.take_add]

end Amqp
