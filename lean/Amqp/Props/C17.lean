import Amqp.Lemmas.Text
import Amqp.Props.C04
/-!
# C17 — message text handling never damages data; publish/consume round-trips

Model: `Amqp/Model/Text.lean` (`try_utf8_decode`, `_try_decode_dict/_list/_tuple`) and
`Amqp/Model/Message.lean` (`Message` with its decode cache, raw views, setters, `create`,
`Basic._handle_utf8_payload`/`publish`, `Channel._build_message*`).  The guards of
`try_utf8_decode`, the codec name, the string classes, the tuple-subclass guard, the content/body
guards, the cache-update guard and its decoding, the keys `create` fills, the accessor tables, the
raw-view field lists and the default `content_encoding` are regenerated from the source on every run
(`Gen/Text.lean`, `Gen/Message.lean`); the theorems below are re-checked against them.

"Never raises" is totality: every model function below is a total function into values (no error
constructor is reachable from the decoders); the places where the real code *can* raise
(`setattr` of an unknown attribute, unencodable text, an unknown property name, a non-body frame in
the inbound queue) are explicit results (`Option`, `Except PubErr`, `BodyRes.attrError`).
-/
namespace Amqp.C17
open Amqp

/-! ## What the translator found, as the model expects it -/

/-- `value.decode('utf-8')`: the codec named in the source is the one the model implements -/
theorem codec_is_utf8 : Gen.Text.codec = "utf-8" := by decide

/-- the isinstance chain of `_try_decode_dict` (dict → recurse, list → one level, tuple → one level,
    else scalar), the element decoder of `_try_decode_list`, the two arms of
    `_try_decode_utf8_content` and the key decoding are the ones `Model/Text.lean` mirrors -/
theorem dispatch_as_modelled :
    Gen.Message.dictDispatch = [(.dict, .decDict), (.list, .decList), (.tuple, .decTuple)] ∧
    Gen.Message.dictElse = .scalar ∧ Gen.Message.listElem = .scalar ∧
    Gen.Message.contentDict = .decDict ∧ Gen.Message.contentElse = .scalar ∧
    Gen.Message.dictKeyDecoded = true := by decide

/-- every property getter reads, and every setter writes, the key named like the attribute; the
    same twelve attributes have both -/
theorem accessors_consistent :
    Gen.Message.getters = Gen.Message.setters ∧
    (∀ p ∈ Gen.Message.setters, p.1 = p.2) ∧
    (∀ p ∈ Gen.Message.setters, basicPropertyNames.contains p.2 = true) ∧
    Gen.Message.setters.length = 12 := by decide

/-- `to_dict`/`to_tuple` expose the four raw slots -/
theorem raw_view_fields :
    Gen.Message.toDictFields = [("body", "_body"), ("method", "_method"),
      ("properties", "_properties"), ("channel", "_channel")] ∧
    Gen.Message.toTupleFields = ["_body", "_channel", "_method", "_properties"] := by decide

/-! ## `try_utf8_decode` -/

/-- the guards let exactly the non-empty `bytes` values reach `.decode` -/
theorem guard_lets_only_bytes_through (v : PyVal) :
    Gen.Text.returnsEarly v.truthy (isString v) (v.isInstance .bytes) false = false ↔
      ∃ b, v = .bytes b ∧ b ≠ [] := returnsEarly_false_iff v

/-- UTF-8 validity is "being the encoding of a text", and decoding returns that text -/
theorem utf8_valid_iff (b : Bytes) (s : String) : utf8Decode b = some s ↔ utf8Encode s = b :=
  utf8Decode_eq_some_iff b s

/-- **non-empty valid UTF-8 byte strings are returned as text** — the text whose encoding they are -/
theorem decode_valid (b : Bytes) (s : String) (hne : b ≠ []) (hs : utf8Encode s = b) :
    tryDecode (.bytes b) = .str s := by
  rw [tryDecode_bytes, if_neg hne, (utf8Decode_eq_some_iff b s).mpr hs]

/-- **everything else is unchanged**: values that are not bytes (text, numbers, None, containers,
    any object), the empty byte string, and byte strings that are not valid UTF-8 -/
theorem decode_other_id (v : PyVal)
    (h : (∀ b, v ≠ .bytes b) ∨ v = .bytes [] ∨ ∃ b, v = .bytes b ∧ utf8Decode b = none) :
    tryDecode v = v := by
  rcases h with h | h | ⟨b, rfl, hb⟩
  · exact tryDecode_nonbytes v h
  · subst h; rfl
  · rw [tryDecode_bytes, hb]; split <;> rfl

/-- complete case analysis: either unchanged, or non-empty valid UTF-8 bytes became their text -/
theorem decode_cases (v : PyVal) :
    tryDecode v = v ∨ ∃ b s, v = .bytes b ∧ b ≠ [] ∧ utf8Encode s = b ∧ tryDecode v = .str s := by
  cases v with
  | bytes b =>
    by_cases hb : b = []
    · left; subst hb; rfl
    · cases hd : utf8Decode b with
      | none => left; rw [tryDecode_bytes, if_neg hb, hd]
      | some s =>
        right
        have hs := (utf8Decode_eq_some_iff b s).mp hd
        exact ⟨b, s, rfl, hb, hs, decode_valid b s hb hs⟩
  | _ => left; exact tryDecode_nonbytes _ (by intro b h; cases h)

/-- decoding twice is decoding once (text is never decoded again) -/
theorem decode_idem (v : PyVal) : tryDecode (tryDecode v) = tryDecode v := by
  rcases decode_cases v with h | ⟨b, s, _, _, _, h⟩
  · rw [h, h]
  · rw [h]; exact tryDecode_nonbytes _ (by intro b h; cases h)

/-- the decoded text encodes back to exactly the bytes it came from (nothing is lost) -/
theorem decode_lossless (b : Bytes) (s : String) (h : tryDecode (.bytes b) = .str s) :
    utf8Encode s = b := by
  rcases decode_cases (.bytes b) with h' | ⟨b', s', hb, _, hs, h'⟩
  · rw [h'] at h; cases h
  · cases hb; rw [h'] at h; cases h; exact hs

/-! ## nested containers -/

/-- lists: same length, every element decoded one level (`try_utf8_decode`), order kept -/
theorem list_shape (xs : List PyVal) :
    (decodeList xs).length = xs.length ∧ ∀ i (h : i < xs.length), (decodeList xs)[i]? = some (tryDecode xs[i]) := by
  refine ⟨by simp [decodeList], fun i h => ?_⟩
  simp [decodeList, List.getElem?_map, List.getElem?_eq_getElem h]

/-- a plain tuple stays a plain tuple of the same length; an instance of a tuple *subclass*
    (`time.struct_time`, a named tuple) is returned exactly as it is -/
theorem tuple_shape (xs : List PyVal) (tag : String) :
    decodeDictValue (.tuple xs) = .tuple (decodeList xs) ∧
    decodeDictValue (.ntuple tag xs) = .ntuple tag xs := by
  constructor
  · simp [decodeDictValue, decodeTuple]
  · simp [decodeDictValue, decodeTuple, Gen.Message.tupleSubclassKept]

/-- scalars inside a dict are decoded by `try_utf8_decode`: numbers, None, bools, text, any other
    object are unchanged (by `decode_other_id`) -/
theorem dict_scalar (v : PyVal)
    (h : ∀ kvs xs t, v ≠ .dict kvs ∧ v ≠ .list xs ∧ v ≠ .tuple xs ∧ v ≠ .ntuple t xs) :
    decodeDictValue v = tryDecode v := by
  cases v with
  | dict kvs => exact absurd rfl (h kvs [] "").1
  | list xs => exact absurd rfl (h [] xs "").2.1
  | tuple xs => exact absurd rfl (h [] xs "").2.2.1
  | ntuple t xs => exact absurd rfl (h [] xs t).2.2.2
  | _ => simp [decodeDictValue]

/-- the full-strength shape statement: a decoded dict always has as many entries as the raw one -/
def ShapePreservedAlways : Prop := ∀ d : Dict, (decodeDict d).length = d.length

/-- … is false for the code as it is: a bytes key and the text key it decodes to are merged
    (`{b'a': 1, 'a': 2}` → `{'a': 2}`; replayed on the real code, recorded as a known finding) -/
theorem shape_not_always : ¬ ShapePreservedAlways := by
  intro h
  have := h [(.bytes [97], .int 1), (.str "a", .int 2)]
  revert this
  decide

/-- **shape preservation** (partial: needs `NoKeyClash d`, i.e. no two keys of `d` become equal
    after decoding — decidable, and true of every table pamqp delivers since those have text keys):
    the decoded dict has the same entries in the same order, each key decoded, each value decoded by
    the dispatch (dict → recursively, list/tuple → one level, anything else → `try_utf8_decode`) -/
theorem shape_preserved_partial (d : Dict) (h : NoKeyClash d) :
    decodeDict d = d.map (fun p => (tryDecodeKey p.1, decodeDictValue p.2)) ∧
    (decodeDict d).length = d.length := by
  have := decodeDict_noclash d h
  exact ⟨this, by rw [this]; simp⟩

/-- keys: text and int keys are unchanged, a bytes key is decoded like any bytes value -/
theorem key_decoding (k : PyKey) :
    (∀ s, k = .str s → tryDecodeKey k = k) ∧ (∀ i, k = .int i → tryDecodeKey k = k) ∧
    (∀ b, k = .bytes b → (tryDecodeKey k).toVal = tryDecode (.bytes b)) := by
  refine ⟨fun s h => by subst h; exact tryDecodeKey_str s, fun i h => ?_, fun b h => ?_⟩
  · subst h
    have : tryDecode (.int i) = .int i := tryDecode_nonbytes _ (by intro b h; cases h)
    simp [tryDecodeKey, PyKey.toVal, this]
  · subst h
    rcases decode_cases (.bytes b) with h' | ⟨b', s, hb, _, _, h'⟩
    · simp [tryDecodeKey, PyKey.toVal, h', Gen.Message.dictKeyDecoded]
    · simp [tryDecodeKey, PyKey.toVal, h', Gen.Message.dictKeyDecoded]

/-! ## views of a `Message` -/

/-- with `auto_decode` false every view is the raw value and nothing is cached -/
theorem raw_when_not_auto (m : Msg) (h : m.autoDecode = false) :
    m.readBody = (m.body, m) ∧ m.readMethod = (m.method, m) ∧ m.readProps = (.dict m.properties, m) := by
  obtain ⟨a, b, me, p, c1, c2, c3⟩ := m
  simp only at h
  subst h
  simp [Msg.readBody, Msg.readMethod, Msg.readProps, viewContent, Gen.Message.bodyReturnsRaw,
    Gen.Message.contentReturnsRaw]

/-- `to_dict`/`to_tuple` expose the raw slots whatever `auto_decode` and the cache are -/
theorem raw_views (m : Msg) :
    m.toTuple = [m.body, .other "_channel", m.method, .dict m.properties] ∧
    m.toDict = [(.str "body", m.body), (.str "method", m.method),
      (.str "properties", .dict m.properties), (.str "channel", .other "_channel")] := by
  constructor <;> rfl

/-- empty (falsy) content is returned as it is, never decoded, never cached -/
theorem empty_content_unchanged (auto : Bool) (content : PyVal) (c : Option PyVal)
    (h : content.truthy = false) : viewContent auto content c = (content, c) := by
  simp [viewContent, Gen.Message.contentReturnsRaw, h]

/-- **same answer every time**: a second read of any view returns the same value and leaves the
    state reached after the first read unchanged -/
theorem read_stable (m : Msg) :
    m.readBody.2.readBody = (m.readBody.1, m.readBody.2) ∧
    m.readMethod.2.readMethod = (m.readMethod.1, m.readMethod.2) ∧
    m.readProps.2.readProps = (m.readProps.1, m.readProps.2) := by
  obtain ⟨a, b, me, p, c1, c2, c3⟩ := m
  refine ⟨?_, ?_, ?_⟩
  · cases a <;> cases c1 <;> simp [Msg.readBody, Gen.Message.bodyReturnsRaw]
  · cases a <;> cases ht : me.truthy <;> cases c2 <;>
      simp [Msg.readMethod, viewContent, Gen.Message.contentReturnsRaw, ht]
  · cases a <;> cases ht : (PyVal.dict p).truthy <;> cases c3 <;>
      simp [Msg.readProps, viewContent, Gen.Message.contentReturnsRaw, ht]

/-- the cache invariant: the cached decoded properties, if any, are the decoding of the *current*
    raw properties (and a cache only exists under auto_decode) -/
def CacheOk (m : Msg) : Prop :=
  m.cProps = none ∨ (m.autoDecode = true ∧ m.cProps = some (.dict (decodeDict m.properties)))

theorem new_cacheOk (auto : Bool) (b me : PyVal) (p : Option Dict) : CacheOk (Msg.new auto b me p) :=
  Or.inl rfl

/-- **the decoded properties view is always the decoding of the current raw properties** (raw when
    auto_decode is off or the dict is empty), whether or not it comes from the cache; reading keeps
    the invariant -/
theorem view_props_spec (m : Msg) (h : CacheOk m) :
    m.readProps.1 = (if m.autoDecode && !m.properties.isEmpty then .dict (decodeDict m.properties)
                     else .dict m.properties) ∧ CacheOk m.readProps.2 := by
  unfold Msg.readProps viewContent CacheOk at *
  rcases h with h | ⟨ha, h⟩
  · cases ha : m.autoDecode <;> cases he : m.properties.isEmpty <;>
      simp [Gen.Message.contentReturnsRaw, PyVal.truthy, h, he, decodeContent]
  · cases he : m.properties.isEmpty <;>
      simp [Gen.Message.contentReturnsRaw, PyVal.truthy, h, ha, he]

/-! ## setters -/

/-- a setter writes the raw properties: the new value is what the raw view returns for that key,
    every other key is untouched -/
theorem setter_visible_raw (m : Msg) (name : String) (v : PyVal) :
    dictGet (m.update name v).properties (.str name) = v ∧
    ∀ k, k ≠ .str name → dictGet (m.update name v).properties k = dictGet m.properties k :=
  ⟨dictGet_dictSet_same _ _ _, fun _ hk => dictGet_dictSet_other _ _ _ _ hk⟩

/-- **a setter keeps the decoded view in step with the raw one**: after `message.<attr> = v` the
    cache invariant still holds (so by `view_props_spec` the decoded view is the decoding of the
    updated raw properties, exactly as if it had never been read before), and the decoded entry is
    the decoded value.  Needs the updated dict to be clash-free. -/
theorem setter_visible_both (m : Msg) (name : String) (v : PyVal) (h : CacheOk m)
    (hk : NoKeyClash (dictSet m.properties (.str name) v)) :
    CacheOk (m.update name v) ∧
    dictGet (decodeDict (m.update name v).properties) (.str name) = decodeDictValue v := by
  have hcomm := decodeDict_dictSet m.properties (.str name) v hk
  rw [tryDecodeKey_str] at hcomm
  constructor
  · unfold CacheOk at *
    rcases h with h | ⟨ha, h⟩
    · left; simp [Msg.update, h, Gen.Message.updateTouchesCache]
    · right
      refine ⟨ha, ?_⟩
      have hs : decodeDict [(PyKey.str name, v)] = [(.str name, decodeDictValue v)] := by
        simp [decodeDict, decodeDictAux, dictSet, tryDecodeKey_str]
      simp [Msg.update, h, ha, Gen.Message.updateTouchesCache, Gen.Message.updateDecodesCached, hs,
        dictUpdate, hcomm]
  · show dictGet (decodeDict (dictSet m.properties (.str name) v)) (.str name) = _
    rw [hcomm, dictGet_dictSet_same]

/-- `message.<attr> = v` goes to the key named like the attribute, for each of the twelve
    attributes; any other attribute name is an AttributeError -/
theorem setAttr_spec (m : Msg) (attr : String) (v : PyVal) :
    (attr ∈ Gen.Message.setters.map (·.1) → m.setAttr attr v = some (m.update attr v)) ∧
    (attr ∉ Gen.Message.setters.map (·.1) → m.setAttr attr v = none) := by
  constructor
  · intro h
    simp only [Gen.Message.setters, List.map_cons, List.map_nil, List.mem_cons, List.not_mem_nil,
      or_false] at h
    rcases h with h | h | h | h | h | h | h | h | h | h | h | h <;> subst h <;> rfl
  · intro h
    have hn : Gen.Message.setters.find? (fun p => decide (p.1 = attr)) = none := by
      rw [List.find?_eq_none]
      intro p hp
      simp only [decide_eq_true_eq]
      intro heq
      exact h (heq ▸ List.mem_map_of_mem hp)
    simp [Msg.setAttr, hn]

/-! ## `Message.create`

The caller's dict itself is never written: the translator insists that the first statement of
`create` is `properties = dict(properties or {})` (a copy), and the monitor compares a deep snapshot
of the caller's dict before and after.  In the (aliasing-free) model the claim is about the result. -/

def createKeys : List PyKey := [.str "correlation_id", .str "message_id", .str "timestamp"]

/-- the keys `create` may fill are exactly the three the property names, in this order -/
theorem create_fills_three :
    Gen.Message.createFills.map (fun p => PyKey.str p.1) = createKeys := by decide

/-- **given properties are kept**: the result starts with the caller's entries, same order, same
    values; whatever is added comes after them -/
theorem create_keeps_given (fresh : Gen.Message.Fill → String → PyVal) (props : Dict) :
    (∃ extra, createProps fresh props = props ++ extra) ∧
    ∀ k, dictHas props k = true → dictGet (createProps fresh props) k = dictGet props k := by
  rw [createProps_eq]
  constructor
  · simp only [fillAbsent_eq, List.append_assoc]
    exact ⟨_, rfl⟩
  · intro k hk
    rw [dictGet_fillAbsent_present, dictGet_fillAbsent_present, dictGet_fillAbsent_present] <;>
      simp [dictHas_fillAbsent, hk]

/-- **only absent ones are filled, and only those three**: a key of the result is a given key or one
    of the three; each of the three that was absent now holds the generated value -/
theorem create_fills_only_absent (fresh : Gen.Message.Fill → String → PyVal) (props : Dict) :
    (∀ k, dictHas (createProps fresh props) k = true → dictHas props k = true ∨ k ∈ createKeys) ∧
    (dictHas props (.str "correlation_id") = false →
      dictGet (createProps fresh props) (.str "correlation_id") = fresh .uuid "correlation_id") ∧
    (dictHas props (.str "message_id") = false →
      dictGet (createProps fresh props) (.str "message_id") = fresh .uuid "message_id") ∧
    (dictHas props (.str "timestamp") = false →
      dictGet (createProps fresh props) (.str "timestamp") = fresh .now "timestamp") := by
  rw [createProps_eq]
  refine ⟨?_, ?_, ?_, ?_⟩
  · intro k hk
    simp only [dictHas_fillAbsent, Bool.or_eq_true, decide_eq_true_eq] at hk
    simp only [createKeys, List.mem_cons, List.not_mem_nil, or_false]
    rcases hk with ((h | h) | h) | h
    · exact Or.inl h
    · exact Or.inr (Or.inl h.symm)
    · exact Or.inr (Or.inr (Or.inl h.symm))
    · exact Or.inr (Or.inr (Or.inr h.symm))
  · intro h
    rw [dictGet_fillAbsent_other _ _ _ _ (by decide), dictGet_fillAbsent_other _ _ _ _ (by decide),
      dictGet_fillAbsent_same _ _ _ h]
  · intro h
    rw [dictGet_fillAbsent_other _ _ _ _ (by decide), dictGet_fillAbsent_same]
    simp [dictHas_fillAbsent, h]
  · intro h
    rw [dictGet_fillAbsent_same]
    simp [dictHas_fillAbsent, h]

/-- a created message has auto_decode off: body and properties are exposed raw -/
theorem create_views_raw (fresh : Gen.Message.Fill → String → PyVal) (body : PyVal) (props : Option Dict) :
    (Msg.create fresh body props).readBody.1 = body ∧
    (Msg.create fresh body props).readProps.1 = .dict (createProps fresh (props.getD [])) := by
  have h : (Msg.create fresh body props).autoDecode = false := rfl
  have := raw_when_not_auto _ h
  rw [this.1, this.2.2]
  exact ⟨rfl, rfl⟩

/-! ## publish → consume -/

/-- `_handle_utf8_payload`: given properties are kept, `content_encoding` is present afterwards and
    defaults to "utf-8" only when it was absent -/
theorem payload_props (codec : PyVal → String → Option Bytes) (body : PyBody) (props : Dict)
    (enc : Bytes) (props' : Dict) (h : handlePayload codec body props = .ok (enc, props')) :
    props' = fillAbsent props (.str "content_encoding") (.str "utf-8") ∧
    (∀ k, dictHas props k = true → dictGet props' k = dictGet props k) ∧
    dictHas props' (.str "content_encoding") = true := by
  have hp : props' = fillAbsent props (.str "content_encoding") (.str "utf-8") := by
    unfold handlePayload at h
    cases body with
    | bytes b => simp only [Except.ok.injEq, Prod.mk.injEq] at h; exact h.2.symm
    | text s =>
      simp only at h
      split at h
      · simp only [Except.ok.injEq, Prod.mk.injEq] at h; exact h.2.symm
      · cases h
  subst hp
  exact ⟨rfl, fun k hk => dictGet_fillAbsent_present _ _ _ _ hk, by simp [dictHas_fillAbsent]⟩

/-- bytes bodies are sent as they are; text is encoded with the codec named by `content_encoding`,
    i.e. UTF-8 when the caller named none -/
theorem payload_body (codec : PyVal → String → Option Bytes) (props : Dict) :
    (∀ b, ∃ p, handlePayload codec (.bytes b) props = .ok (b, p)) ∧
    (∀ s, dictHas props (.str "content_encoding") = false →
      handlePayload codec (.text s) props =
        match codec (.str "utf-8") s with
        | some b => .ok (b, fillAbsent props (.str "content_encoding") (.str "utf-8"))
        | none => .error .encode) := by
  constructor
  · intro b; exact ⟨_, rfl⟩
  · intro s h
    have hg : dictGet (dictSet props (.str "content_encoding") (.str "utf-8")) (.str "content_encoding")
        = .str "utf-8" := dictGet_dictSet_same _ _ _
    simp [handlePayload, Gen.Message.encodingKey, Gen.Message.defaultEncoding, h, hg, fillAbsent]
    cases codec (PyVal.str "utf-8") s <;> rfl

/-- **reassembly for every fragmentation**: whatever non-empty pieces the body arrives in, the
    consumer's loop joins exactly those pieces, stops exactly at `body_size`, and leaves the frames
    that follow untouched -/
theorem consume_any_chunking (chunks : List Bytes) (hne : ∀ p ∈ chunks, p ≠ []) :
    ∀ (acc : Bytes) (rest : List CFrame) (size : Nat), size = acc.length + chunks.flatten.length →
      buildBody size acc (chunks.map .body ++ rest) = .done (acc ++ chunks.flatten) rest := by
  induction chunks with
  | nil => intro acc rest size hs; subst hs; cases rest <;> simp [buildBody]
  | cons c cs ih =>
    intro acc rest size hs
    have hc : c ≠ [] := hne c (by simp)
    have hpos : 0 < c.length := List.length_pos_iff.mpr hc
    have hlt : acc.length < size := by
      simp only [List.flatten_cons, List.length_append] at hs; omega
    have hemp : c.isEmpty = false := by cases c <;> simp_all
    simp only [List.map_cons, List.cons_append, buildBody, if_pos hlt, hemp]
    rw [ih (fun p hp => hne p (by simp [hp])) (acc ++ c) rest size
      (by simp only [List.flatten_cons, List.length_append] at hs ⊢; omega)]
    simp

/-- **round trip, frame level**: if `publish` succeeds, then for *any* re-fragmentation of the body
    into non-empty pieces by the broker (in particular the publisher's own frames), the consumer
    builds exactly one message whose raw body is the encoded published body and whose properties are
    what the property codec (`wire`, third party) makes of the published properties — the caller's
    plus the default `content_encoding` — and nothing is left in the queue but what followed. -/
theorem roundtrip_frames (maxF : Int) (codec : PyVal → String → Option Bytes) (body : PyBody)
    (props : Option Dict) (caller : Option Dict) (frames : List CFrame)
    (h : publish17 maxF codec body props = .ok (caller, frames)) :
    ∃ enc props', handlePayload codec body (props.getD []) = .ok (enc, props') ∧
      frames = .publish :: .header enc.length props' :: (splitBody maxF enc).map .body ∧
      (∀ (auto : Bool) (wire : Dict → Dict) (dm : Dict) (rest : List CFrame) (chunks : List Bytes),
        chunks.flatten = enc → (∀ p ∈ chunks, p ≠ []) →
        buildMessage auto wire (.deliver dm :: .header enc.length props' :: (chunks.map .body ++ rest))
          = .msg (Msg.new auto (.bytes enc) (.dict dm) (some (wire props'))) rest) ∧
      (splitBody maxF enc).flatten = enc ∧ (∀ p ∈ splitBody maxF enc, p ≠ []) := by
  unfold publish17 at h
  cases hp : handlePayload codec body (props.getD []) with
  | error e => rw [hp] at h; cases h
  | ok r =>
    obtain ⟨enc, props'⟩ := r
    rw [hp] at h
    simp only at h
    split at h
    · simp only [Except.ok.injEq, Prod.mk.injEq] at h
      refine ⟨enc, props', rfl, h.2.symm, ?_, C04.split_join maxF enc, C04.split_nonempty maxF enc⟩
      intro auto wire dm rest chunks hfl hne
      have := consume_any_chunking chunks hne [] rest enc.length (by simp [hfl])
      simp only [List.nil_append, hfl] at this
      simp [buildMessage, this]
    · cases h

/-- **text arrives as the same text**: a non-empty text body published with UTF-8 (named, or by
    default) is seen by an auto-decoding consumer as exactly that text, and its raw view is the
    UTF-8 encoding -/
theorem roundtrip_text_utf8 (auto : Bool) (s : String) (hs : s ≠ "") (me : PyVal) (p : Option Dict) :
    let m := Msg.new auto (.bytes (utf8Encode s)) me p
    m.body = .bytes (utf8Encode s) ∧ (auto = true → m.readBody.1 = .str s) ∧
    (auto = false → m.readBody.1 = .bytes (utf8Encode s)) := by
  refine ⟨rfl, ?_, ?_⟩
  · intro ha; subst ha
    simp [Msg.new, Msg.readBody, Gen.Message.bodyReturnsRaw,
      decode_valid (utf8Encode s) s (utf8Encode_ne_nil hs) rfl]
  · intro ha; subst ha
    simp [Msg.new, Msg.readBody, Gen.Message.bodyReturnsRaw]

/-- **binary arrives intact**: the raw view of a consumed bytes body is the published bytes; the
    auto-decoded view is either those bytes (empty or not UTF-8) or the text they encode -/
theorem roundtrip_bytes (auto : Bool) (b : Bytes) (me : PyVal) (p : Option Dict) :
    let m := Msg.new auto (.bytes b) me p
    m.body = .bytes b ∧ (Msg.toTuple m).head? = some (.bytes b) ∧
    (m.readBody.1 = .bytes b ∨ ∃ s, utf8Encode s = b ∧ m.readBody.1 = .str s) := by
  refine ⟨rfl, rfl, ?_⟩
  cases auto
  · left; simp [Msg.new, Msg.readBody, Gen.Message.bodyReturnsRaw]
  · rcases decode_cases (.bytes b) with h | ⟨b', s, hb, _, hs, h⟩
    · left; simp [Msg.new, Msg.readBody, Gen.Message.bodyReturnsRaw, h]
    · cases hb
      right; exact ⟨s, hs, by simp [Msg.new, Msg.readBody, Gen.Message.bodyReturnsRaw, h]⟩

/-! ## Non-vacuity -/

example : tryDecode (.bytes [0x68, 0xc3, 0xa9]) = .str "hé" := by rfl
example : tryDecode (.bytes [0xf0, 0x9f, 0x98, 0x80]) = .str "😀" := by rfl
example : tryDecode (.bytes [0xff]) = .bytes [0xff] := by rfl
example : tryDecode (.bytes [0xed, 0xa0, 0x80]) = .bytes [0xed, 0xa0, 0x80] := by rfl   -- surrogate
example : tryDecode (.bytes [0xc0, 0x80]) = .bytes [0xc0, 0x80] := by rfl               -- overlong
example : tryDecode (.bytes [0xf4, 0x90, 0x80, 0x80]) = .bytes [0xf4, 0x90, 0x80, 0x80] := by rfl  -- > U+10FFFF
example : tryDecode (.bytes [0xc3]) = .bytes [0xc3] := by rfl                           -- truncated
example : tryDecode (.bytes []) = .bytes [] ∧ tryDecode (.str "") = .str "" ∧ tryDecode (.int 0) = .int 0 :=
  ⟨rfl, rfl, rfl⟩

/-- nested: dicts recurse, list/tuple elements are decoded one level, a list inside a list and a
    struct_time are left alone, invalid UTF-8 stays bytes -/
example :
    decodeContent (.dict [(.bytes [107], .dict [(.str "n", .list [.bytes [97], .list [.bytes [98]], .bytes [0xff]])]),
                          (.str "t", .ntuple "struct_time" [.int 2020, .int 1]),
                          (.int 3, .tuple [.bytes [99], .none])])
    = .dict [(.str "k", .dict [(.str "n", .list [.str "a", .list [.bytes [98]], .bytes [0xff]])]),
             (.str "t", .ntuple "struct_time" [.int 2020, .int 1]),
             (.int 3, .tuple [.str "c", .none])] := by rfl

example : NoKeyClash [(.bytes [107], .none), (.str "t", .none), (.int 3, .none)] := by decide
example : ¬ NoKeyClash [(.bytes [97], .int 1), (.str "a", .int 2)] := by decide

/-- read, set bytes through a setter, read again: the decoded view shows text, the raw view bytes -/
example :
    let m := ((Msg.new true (.bytes [120]) .none (some [(.str "app_id", .bytes [115])])).readProps.2).update
      "app_id" (.bytes [97, 98])
    m.readProps.1 = .dict [(.str "app_id", .str "ab")] ∧ m.properties = [(.str "app_id", .bytes [97, 98])] :=
  ⟨rfl, rfl⟩

example : createProps (fun _ k => .other k) [(.str "message_id", .str "given")] =
    [(.str "message_id", .str "given"), (.str "correlation_id", .other "correlation_id"),
     (.str "timestamp", .other "timestamp")] := by rfl

/-- a 9-byte text body over 12-byte frames: three frames out, re-fragmented 1+8, one message in -/
example :
    (match publish17 12 (fun _ s => some (utf8Encode s)) (.text "héllo wö") none with
     | .ok (caller, frames) => (caller, frames.length) | .error _ => (none, 0)) = (none, 5) ∧
    (match buildMessage true id [.deliver [], .header 10 [(.str "content_encoding", .str "utf-8")],
        .body [0x68], .body [0xc3, 0xa9, 0x6c, 0x6c, 0x6f, 0x20, 0x77, 0xc3, 0xb6], .other] with
     | .msg m rest => (m.readBody.1, rest.length) | _ => (.none, 99)) = (.str "héllo wö", 1) := by
  constructor <;> rfl

end Amqp.C17
