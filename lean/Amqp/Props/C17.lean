import Amqp.Lemmas.Text
/-!
# C17 — message text handling never damages data; publish/consume round-trips

Model: `Amqp/Model/Text.lean` (`try_utf8_decode`, `_try_decode_dict/_list/_tuple`) and
`Amqp/Model/Message.lean` (`Message` with its decode cache, raw views, setters, `create`,
`Basic._handle_utf8_payload`/`publish`, `Channel._build_message*`).  The guards of
`try_utf8_decode`, the codec name, the string classes, the tuple-subclass guard, the content/body
guards, the cache-update guard and its decoding, the keys `create` fills, the accessor tables, the
raw-view field lists and the default `content_encoding` are regenerated from the source on every run
(`Gen/Text.lean`, `Gen/Message.lean`); the theorems below are re-checked against them.

"Never raises" is totality: every model function below is a total function into values (no error
constructor is reachable from the decoders); the places where the real code *can* raise
(`setattr` of an unknown attribute, unencodable text, an unknown property name, a non-body frame in
the inbound queue) are explicit results (`Option`, `Except PubErr`, `BodyRes.attrError`).
-/
namespace Amqp.C17
open Amqp

/-! ## What the translator found, as the model expects it -/

/-- `value.decode('utf-8')`: the codec named in the source is the one the model implements -/
theorem codec_is_utf8 : Gen.Text.codec = "utf-8" := by decide

/-- the isinstance chain of `_try_decode_dict` (dict → recurse, list → one level, tuple → one level,
    else scalar), the element decoder of `_try_decode_list`, the two arms of
    `_try_decode_utf8_content` and the key decoding are the ones `Model/Text.lean` mirrors -/
theorem dispatch_as_modelled :
    Gen.Message.dictDispatch = [(.dict, .decDict), (.list, .decList), (.tuple, .decTuple)] ∧
    Gen.Message.dictElse = .scalar ∧ Gen.Message.listElem = .scalar ∧
    Gen.Message.contentDict = .decDict ∧ Gen.Message.contentElse = .scalar ∧
    Gen.Message.dictKeyDecoded = true := by decide

/-- every property getter reads, and every setter writes, the key named like the attribute; the
    same twelve attributes have both -/
theorem accessors_consistent :
    Gen.Message.getters = Gen.Message.setters ∧
    (∀ p ∈ Gen.Message.setters, p.1 = p.2) ∧
    (∀ p ∈ Gen.Message.setters, basicPropertyNames.contains p.2 = true) ∧
    Gen.Message.setters.length = 12 := by decide

/-- `to_dict`/`to_tuple` expose the four raw slots -/
theorem raw_view_fields :
    Gen.Message.toDictFields = [("body", "_body"), ("method", "_method"),
      ("properties", "_properties"), ("channel", "_channel")] ∧
    Gen.Message.toTupleFields = ["_body", "_channel", "_method", "_properties"] := by decide

/-! ## `try_utf8_decode` -/

/-- the guards let exactly the non-empty `bytes` values reach `.decode` -/
theorem guard_lets_only_bytes_through (v : PyVal) :
    Gen.Text.returnsEarly v.truthy (isString v) (v.isInstance .bytes) false = false ↔
      ∃ b, v = .bytes b ∧ b ≠ [] := returnsEarly_false_iff v

/-- UTF-8 validity is "being the encoding of a text", and decoding returns that text -/
theorem utf8_valid_iff (b : Bytes) (s : String) : utf8Decode b = some s ↔ utf8Encode s = b :=
  utf8Decode_eq_some_iff b s

/-- **non-empty valid UTF-8 byte strings are returned as text** — the text whose encoding they are -/
theorem decode_valid (b : Bytes) (s : String) (hne : b ≠ []) (hs : utf8Encode s = b) :
    tryDecode (.bytes b) = .str s := by
  rw [tryDecode_bytes, if_neg hne, (utf8Decode_eq_some_iff b s).mpr hs]

/-- **everything else is unchanged**: values that are not bytes (text, numbers, None, containers,
    any object), the empty byte string, and byte strings that are not valid UTF-8 -/
theorem decode_other_id (v : PyVal)
    (h : (∀ b, v ≠ .bytes b) ∨ v = .bytes [] ∨ ∃ b, v = .bytes b ∧ utf8Decode b = none) :
    tryDecode v = v := by
  rcases h with h | h | ⟨b, rfl, hb⟩
  · exact tryDecode_nonbytes v h
  · subst h; rfl
  · rw [tryDecode_bytes, hb]; split <;> rfl

/-- complete case analysis: either unchanged, or non-empty valid UTF-8 bytes became their text -/
theorem decode_cases (v : PyVal) :
    tryDecode v = v ∨ ∃ b s, v = .bytes b ∧ b ≠ [] ∧ utf8Encode s = b ∧ tryDecode v = .str s := by
  cases v with
  | bytes b =>
    by_cases hb : b = []
    · left; subst hb; rfl
    · cases hd : utf8Decode b with
      | none => left; rw [tryDecode_bytes, if_neg hb, hd]
      | some s =>
        right
        have hs := (utf8Decode_eq_some_iff b s).mp hd
        exact ⟨b, s, rfl, hb, hs, decode_valid b s hb hs⟩
  | _ => left; exact tryDecode_nonbytes _ (by intro b h; cases h)

/-- decoding twice is decoding once (text is never decoded again) -/
theorem decode_idem (v : PyVal) : tryDecode (tryDecode v) = tryDecode v := by
  rcases decode_cases v with h | ⟨b, s, _, _, _, h⟩
  · rw [h, h]
  · rw [h]; exact tryDecode_nonbytes _ (by intro b h; cases h)

/-- the decoded text encodes back to exactly the bytes it came from (nothing is lost) -/
theorem decode_lossless (b : Bytes) (s : String) (h : tryDecode (.bytes b) = .str s) :
    utf8Encode s = b := by
  rcases decode_cases (.bytes b) with h' | ⟨b', s', hb, _, hs, h'⟩
  · rw [h'] at h; cases h
  · cases hb; rw [h'] at h; cases h; exact hs

end Amqp.C17
