import Amqp.Lemmas.ConsumeLoop
import Amqp.Model.Consumers
import Amqp.Model.Close
import Amqp.Lemmas.TagReuse
import Amqp.Gen.Skel
/-!
# C14 — the client's consumer bookkeeping always matches the broker's

Transition system `Amqp.Consumers`: any number of threads calling consume / cancel (serialised by
`channel.lock`, each a sequence of atomic effects in source order), broker-initiated cancels, the
reader, and the consuming thread dispatching deliveries by tag.  Tags are never reused on a
channel (`tag ∉ used`), and the broker does not cancel a consumer before the `consume()` call that
created it has recorded its tag (see `early_broker_cancel_loses_track` for what happens otherwise).
-/
namespace Amqp.C14
open Amqp.Consumers

/-- the client's view, corrected by what is in flight, is the broker's table -/
structure Inv (s : S) : Prop where
  refine : ∀ x, x ∈ s.broker ↔ ((x ∈ s.tags ∧ x ∉ s.inflight ∧ ¬ removing s x) ∨ adding s x)
  addingFresh : ∀ x, adding s x → x ∉ s.inflight
  brokerUsed : ∀ x ∈ s.broker, x ∈ s.used
  inflightUsed : ∀ x ∈ s.inflight, x ∈ s.used
  /-- every recorded tag whose `consume()` returned has a callback -/
  hasCallback : ∀ x ∈ s.tags, (s.callbacks.lookup x).isSome ∨ ∃ t cb, s.cur = some (.consuming t x cb 3)
  /-- whoever is inside consume()/cancel() holds the channel lock -/
  curLocked : s.cur ≠ none → s.lock.isSome
  /-- every tag the broker ever confirmed has its callback stored, or its consume() is still in progress -/
  usedCallback : ∀ x ∈ s.used, (s.callbacks.lookup x).isSome ∨ ∃ t cb ph, s.cur = some (.consuming t x cb ph)

theorem inv_init : Inv {} :=
  ⟨fun x => by simp [adding], fun x h => by simp, fun x h => by simp at h, fun x h => by simp at h,
   fun x h => by simp at h, fun h => by simp at h, fun x h => by simp at h⟩

theorem step_inv (s s' : S) (a : Act) (h : Inv s) (hs : step s a = some s') : Inv s' := by
  obtain ⟨hA, hE, hB, hI, hG, hL, hU⟩ := h
  cases a with
  | acquire t =>
    simp only [step] at hs
    split at hs
    · cases hs; exact ⟨hA, hE, hB, hI, hG, fun _ => rfl, hU⟩
    · cases hs
  | release t =>
    simp only [step] at hs
    split at hs
    · rename_i hc; cases hs
      exact ⟨hA, hE, hB, hI, hG, fun hn => absurd hc.2 hn, hU⟩
    · cases hs
  | dispatch tag =>
    simp only [step] at hs
    split at hs
    · cases hs
    · cases hs; exact ⟨hA, hE, hB, hI, hG, hL, hU⟩
  | consumeRpc t tag cb =>
    simp only [step] at hs
    split at hs
    · rename_i hc; cases hs
      obtain ⟨hlk, hcur, hfresh⟩ := hc
      refine ⟨?_, ?_, ?_, ?_, ?_, fun _ => by simp [hlk], ?_⟩
      · intro x
        simp only [List.mem_append, List.mem_singleton, adding, removing, Option.some.injEq, Cur.consuming.injEq,
          reduceCtorEq, exists_false, not_false_eq_true, and_true]
        have hx := hA x
        simp only [adding, removing, hcur, reduceCtorEq, exists_false, not_false_eq_true, and_true, or_false] at hx
        constructor
        · rintro (hb | rfl)
          · left; exact hx.mp hb
          · right; exact ⟨t, cb, rfl, rfl, rfl⟩
        · rintro (hl | ⟨_, _, _, rfl, _, _⟩)
          · left; exact hx.mpr hl
          · right; rfl
      · intro x hx
        simp only [adding, Option.some.injEq, Cur.consuming.injEq] at hx
        obtain ⟨_, _, _, rfl, _, _⟩ := hx
        exact fun hin => hfresh (hI _ hin)
      · intro x hx
        simp only [List.mem_append, List.mem_singleton] at hx ⊢
        rcases hx with hx | rfl
        · left; exact hB x hx
        · right; rfl
      · intro x hx; simp only [List.mem_append]; left; exact hI x hx
      · intro x hx
        rcases hG x hx with h1 | ⟨t', cb', h2⟩
        · left; exact h1
        · rw [hcur] at h2; cases h2
      · intro x hx
        simp only [List.mem_append, List.mem_singleton] at hx
        rcases hx with hx | rfl
        · rcases hU x hx with h1 | ⟨t', cb', ph, h2⟩
          · left; exact h1
          · rw [hcur] at h2; cases h2
        · right; exact ⟨t, cb, 2, rfl⟩
    · cases hs
  | consumeAdd t =>
    simp only [step] at hs
    split at hs
    · rename_i t' tag cb hcur
      split at hs
      · rename_i htt; subst htt; cases hs
        have hadd : adding s tag := ⟨t', cb, hcur⟩
        have hnin : tag ∉ s.inflight := hE tag hadd
        have hbr : tag ∈ s.broker := (hA tag).mpr (Or.inr hadd)
        refine ⟨?_, ?_, hB, hI, ?_, fun _ => hL (by simp [hcur]), ?_⟩
        · intro x
          have hx := hA x
          simp only [adding, removing, hcur, Option.some.injEq, Cur.consuming.injEq, reduceCtorEq, exists_false,
            not_false_eq_true, and_true] at hx ⊢
          by_cases hxt : x = tag
          · subst hxt
            constructor
            · intro _; left
              refine ⟨?_, hnin⟩
              split
              · assumption
              · simp
            · intro _; exact hbr
          · have hmem : (x ∈ (if tag ∈ s.tags then s.tags else s.tags ++ [tag])) ↔ x ∈ s.tags := by
              split
              · rfl
              · simp [hxt]
            rw [hmem]
            constructor
            · intro hb
              rcases hx.mp hb with hl | ⟨_, _, _, he, _, _⟩
              · left; exact hl
              · exact absurd he.symm hxt
            · rintro (hl | ⟨_, _, _, _, _, h3⟩)
              · exact hx.mpr (Or.inl hl)
              · omega
        · intro x hx
          simp only [adding, Option.some.injEq, Cur.consuming.injEq] at hx
          obtain ⟨_, _, _, _, _, h3⟩ := hx; omega
        · intro x hx
          by_cases hxt : x = tag
          · subst hxt; right; exact ⟨t', cb, rfl⟩
          · have : x ∈ s.tags := by
              split at hx
              · exact hx
              · simp [hxt] at hx; exact hx
            rcases hG x this with h1 | ⟨t2, cb2, h2⟩
            · left; exact h1
            · rw [hcur] at h2; simp at h2
        · intro x hx
          rcases hU x hx with h1 | ⟨t2, cb2, ph, h2⟩
          · left; exact h1
          · rw [hcur] at h2
            simp only [Option.some.injEq, Cur.consuming.injEq] at h2
            right; exact ⟨t', cb, 3, by rw [h2.2.1]⟩
      · cases hs
    all_goals cases hs
  | consumeStore t =>
    simp only [step] at hs
    split at hs
    · rename_i t' tag cb hcur
      split at hs
      · rename_i htt; subst htt; cases hs
        refine ⟨?_, ?_, hB, hI, ?_, fun hn => absurd rfl hn, ?_⟩
        · intro x
          have hx := hA x
          simp only [adding, removing, hcur, Option.some.injEq, Cur.consuming.injEq, reduceCtorEq, exists_false,
            not_false_eq_true, and_true] at hx ⊢
          constructor
          · intro hb
            rcases hx.mp hb with hl | ⟨_, _, _, _, _, h3⟩
            · left; exact hl
            · omega
          · rintro (hl | hr)
            · exact hx.mpr (Or.inl hl)
            · exact absurd hr (by simp)
        · intro x hx; simp [adding] at hx
        · intro x hx
          by_cases hxt : x = tag
          · subst hxt; left; simp [List.lookup_cons]
          · rcases hG x hx with h1 | ⟨t2, cb2, h2⟩
            · left
              have : (x == tag) = false := by simp [hxt]
              simp only [List.lookup_cons, this]; exact h1
            · rw [hcur] at h2; simp only [Option.some.injEq, Cur.consuming.injEq] at h2
              exact absurd h2.2.1.symm hxt
        · intro x hx
          by_cases hxt : x = tag
          · subst hxt; left; simp [List.lookup_cons]
          · rcases hU x hx with h1 | ⟨t2, cb2, ph, h2⟩
            · left
              have : (x == tag) = false := by simp [hxt]
              simp only [List.lookup_cons, this]; exact h1
            · rw [hcur] at h2; simp only [Option.some.injEq, Cur.consuming.injEq] at h2
              exact absurd h2.2.1.symm hxt
      · cases hs
    all_goals cases hs
  | cancelRpc t tag =>
    simp only [step] at hs
    split at hs
    · rename_i hc; cases hs
      obtain ⟨hlk, hcur⟩ := hc
      refine ⟨?_, ?_, ?_, hI, ?_, fun _ => by simp [hlk], ?_⟩
      · intro x
        have hx := hA x
        simp only [adding, removing, hcur, reduceCtorEq, exists_false, not_false_eq_true, and_true, or_false] at hx
        simp only [List.mem_filter, adding, removing, Option.some.injEq, Cur.cancelling.injEq, reduceCtorEq,
          exists_false, or_false, decide_eq_true_eq]
        constructor
        · rintro ⟨hb, hne⟩
          obtain ⟨h1, h2⟩ := hx.mp hb
          exact ⟨h1, h2, fun ⟨_, _, he⟩ => hne he.symm⟩
        · rintro ⟨h1, h2, h3⟩
          refine ⟨hx.mpr ⟨h1, h2⟩, fun he => h3 ⟨t, rfl, he.symm⟩⟩
      · intro x hx; simp [adding] at hx
      · intro x hx; exact hB x (List.mem_filter.mp hx).1
      · intro x hx
        rcases hG x hx with h1 | ⟨t2, cb2, h2⟩
        · left; exact h1
        · rw [hcur] at h2; cases h2
      · intro x hx
        rcases hU x hx with h1 | ⟨t2, cb2, ph, h2⟩
        · left; exact h1
        · rw [hcur] at h2; cases h2
    · cases hs
  | cancelRemove t =>
    simp only [step] at hs
    split at hs
    · rename_i t' tag hcur
      split at hs
      · rename_i htt; subst htt; cases hs
        have hrem : removing s tag := ⟨t', hcur⟩
        have hnb : tag ∉ s.broker := by
          intro hb
          rcases (hA tag).mp hb with ⟨_, _, h3⟩ | ⟨_, _, h4⟩
          · exact h3 hrem
          · rw [hcur] at h4; cases h4
        refine ⟨?_, ?_, hB, hI, ?_, fun hn => absurd rfl hn, ?_⟩
        · intro x
          have hx := hA x
          simp only [adding, removing, hcur, Option.some.injEq, Cur.cancelling.injEq, reduceCtorEq, exists_false,
            or_false] at hx
          simp only [List.mem_filter, adding, removing, reduceCtorEq, exists_false, not_false_eq_true, and_true,
            or_false, decide_eq_true_eq]
          by_cases hxt : x = tag
          · subst hxt
            constructor
            · intro hb; exact absurd hb hnb
            · rintro ⟨⟨_, hne⟩, _⟩; exact absurd rfl hne
          · constructor
            · intro hb
              obtain ⟨h1, h2, _⟩ := hx.mp hb
              exact ⟨⟨h1, hxt⟩, h2⟩
            · rintro ⟨⟨h1, _⟩, h2⟩
              exact hx.mpr ⟨h1, h2, fun ⟨_, _, he⟩ => hxt he.symm⟩
        · intro x hx; simp [adding] at hx
        · intro x hx
          have hx' := (List.mem_filter.mp hx).1
          rcases hG x hx' with h1 | ⟨t2, cb2, h2⟩
          · left; exact h1
          · rw [hcur] at h2; cases h2
        · intro x hx
          rcases hU x hx with h1 | ⟨t2, cb2, ph, h2⟩
          · left; exact h1
          · rw [hcur] at h2; cases h2
      · cases hs
    all_goals cases hs
  | brokerCancel tag =>
    simp only [step] at hs
    split at hs
    · rename_i hc; cases hs
      obtain ⟨hin, hnadd'⟩ := hc
      have hnadd := isAdding_false _ _ hnadd'
      refine ⟨?_, ?_, ?_, ?_, hG, hL, hU⟩
      · intro x
        have hx := hA x
        simp only [List.mem_filter, List.mem_append, List.mem_singleton, adding, removing, decide_eq_true_eq] at hx ⊢
        by_cases hxt : x = tag
        · subst hxt
          constructor
          · rintro ⟨_, hne⟩; exact absurd rfl hne
          · rintro (⟨_, hni, _⟩ | ⟨t, cb, hcur⟩)
            · exact absurd (Or.inr rfl) hni
            · exact absurd hcur (hnadd t cb)
        · constructor
          · rintro ⟨hb, _⟩
            rcases hx.mp hb with ⟨h1, h2, h3⟩ | h4
            · left; exact ⟨h1, fun h => h.elim h2 hxt, h3⟩
            · right; exact h4
          · rintro (⟨h1, h2, h3⟩ | h4)
            · exact ⟨hx.mpr (Or.inl ⟨h1, fun h => h2 (Or.inl h), h3⟩), hxt⟩
            · exact ⟨hx.mpr (Or.inr h4), hxt⟩
      · intro x hx
        have := hE x hx
        simp only [List.mem_append, List.mem_singleton]
        rintro (h | rfl)
        · exact this h
        · obtain ⟨t, cb, hcur⟩ := hx; exact hnadd t cb hcur
      · intro x hx; exact hB x (List.mem_filter.mp hx).1
      · intro x hx
        simp only [List.mem_append, List.mem_singleton] at hx
        rcases hx with hx | rfl
        · exact hI x hx
        · exact hB _ hin
    · cases hs
  | readerCancel =>
    simp only [step] at hs
    split at hs
    · rename_i y rest hinf
      cases hs
      have hnadd : ¬ adding s y := fun ha => hE y ha (by simp [hinf])
      have hnb : y ∉ s.broker := by
        intro hb
        rcases (hA y).mp hb with ⟨_, h2, _⟩ | h4
        · exact h2 (by simp [hinf])
        · exact hnadd h4
      refine ⟨?_, ?_, hB, ?_, ?_, hL, hU⟩
      · intro x
        have hx := hA x
        simp only [List.mem_filter, adding, removing, decide_eq_true_eq] at hx ⊢
        by_cases hxy : x = y
        · subst hxy
          constructor
          · intro hb; exact absurd hb hnb
          · rintro (⟨⟨_, hne⟩, _⟩ | h4)
            · exact absurd rfl hne
            · exact absurd h4 hnadd
        · have hmem : x ∈ s.inflight ↔ x ∈ rest := by simp [hinf, hxy]
          constructor
          · intro hb
            rcases hx.mp hb with ⟨h1, h2, h3⟩ | h4
            · left; exact ⟨⟨h1, hxy⟩, fun h => h2 (hmem.mpr h), h3⟩
            · right; exact h4
          · rintro (⟨⟨h1, _⟩, h2, h3⟩ | h4)
            · exact hx.mpr (Or.inl ⟨h1, fun h => h2 (hmem.mp h), h3⟩)
            · exact hx.mpr (Or.inr h4)
      · intro x hx hin
        exact hE x hx (by simp [hinf, hin])
      · intro x hx; exact hI x (by simp [hinf, hx])
      · intro x hx
        exact hG x (List.mem_filter.mp hx).1
    · cases hs

theorem run_inv : ∀ (as : List Act) (s s' : S), Inv s → run s as = some s' → Inv s' := by
  intro as
  induction as with
  | nil => intro s s' h hr; simp [run] at hr; subst hr; exact h
  | cons a as ih =>
    intro s s' h hr
    simp only [run] at hr
    split at hr
    · cases hr
    · rename_i s1 hs; exact ih s1 s' (step_inv s s1 a h hs) hr

/-- **At quiescence the client's consumer list is the broker's table** (as sets), whatever the
    history and however many threads took part. -/
theorem quiescent_match (as : List Act) (s : S) (hr : run {} as = some s) (hcur : s.cur = none)
    (hq : s.inflight = []) : ∀ x, x ∈ s.broker ↔ x ∈ s.tags := by
  intro x
  have := (run_inv as {} s inv_init hr).refine x
  simpa [adding, removing, hcur, hq] using this

/-- **stop_consuming**: it returns normally only once it has seen the consumer list empty.  At that
    moment every consumer still active on the broker belongs to a `consume()` call that has not
    returned yet; hence, with no such call in progress, the broker has no consumer left: each one
    received its Basic.Cancel (or was cancelled by the broker itself). -/
theorem stop_cancels_all (as : List Act) (s : S) (hr : run {} as = some s) (hempty : s.tags = []) :
    ∀ x ∈ s.broker, adding s x := by
  intro x hx
  have := ((run_inv as {} s inv_init hr).refine x).mp hx
  simpa [hempty] using this

/-- **The client never forgets a consumer the broker still serves**: at every moment of every history a
    consumer in the broker's table is listed by the client, unless the `consume()` that created it has not
    recorded it yet (the invariant the harness monitors at every `remove_consumer_tag`). -/
theorem never_forgotten_while_served (as : List Act) (s : S) (hr : run {} as = some s) (x : String) (hx : x ∈ s.broker) :
    x ∈ s.tags ∨ adding s x := by
  rcases ((run_inv as {} s inv_init hr).refine x).mp hx with ⟨h, _, _⟩ | h
  · exact Or.inl h
  · exact Or.inr h

theorem stop_cancels_all_quiescent (as : List Act) (s : S) (hr : run {} as = some s) (hempty : s.tags = [])
    (hcur : s.cur = none) : s.broker = [] := by
  rcases hb : s.broker with _ | ⟨x, xs⟩
  · rfl
  · have := stop_cancels_all as s hr hempty x (by simp [hb])
    simp [adding, hcur] at this

/-- the source really has the shape the theorem above speaks about: `stop_consuming` keeps cancelling
    until it sees no consumer recorded and never clears the list of an open channel -/
theorem stop_shape : Gen.Close.stopRepeatsUntilEmpty = true ∧ Gen.Close.stopIteratesCopy = true ∧
    Gen.Close.dispatchWaitsForLock = true := by decide

/-- the copy-based cancel loop of `stop_consuming` covers every tag it saw (C11 `stop_cancels_all`) -/
theorem stop_loop_covers (tags : List String) : Close.stopConsuming tags = tags := by
  simp [Close.stopConsuming, (by decide : Gen.Close.stopIteratesCopy = true)]

/-- **consume returns the tag the broker confirmed**, records it and binds the callback to it -/
theorem consume_records (s s1 s2 s3 : S) (t : Nat) (tag : String) (cb : Nat)
    (h1 : step s (.consumeRpc t tag cb) = some s1) (h2 : step s1 (.consumeAdd t) = some s2)
    (h3 : step s2 (.consumeStore t) = some s3) :
    tag ∈ s3.broker ∧ tag ∈ s3.tags ∧ s3.callbacks.lookup tag = some cb ∧ s3.cur = none := by
  simp only [step] at h1
  split at h1
  · cases h1
    simp only [step] at h2
    simp only [ite_true] at h2
    cases h2
    simp only [step, ite_true] at h3
    cases h3
    refine ⟨by simp, ?_, by simp [List.lookup_cons], rfl⟩
    split <;> simp_all
  · cases h1

/-- **dispatch by tag**: a delivery for a recorded tag whose `consume()` has returned finds a callback -/
theorem dispatch_finds_callback (as : List Act) (s : S) (hr : run {} as = some s) (x : String)
    (hx : x ∈ s.tags) (hcur : s.cur = none) : (s.callbacks.lookup x).isSome := by
  rcases (run_inv as {} s inv_init hr).hasCallback x hx with h | ⟨t, cb, h⟩
  · exact h
  · rw [hcur] at h; cases h

/-- **a tag leaves the list when it is cancelled** by the application … -/
theorem cancel_removes (s s1 s2 : S) (t : Nat) (tag : String)
    (h1 : step s (.cancelRpc t tag) = some s1) (h2 : step s1 (.cancelRemove t) = some s2) :
    tag ∉ s2.tags ∧ tag ∉ s2.broker ∧ tag ∈ s2.cancelsSeen := by
  simp only [step] at h1
  split at h1
  · cases h1
    simp only [step, ite_true] at h2
    cases h2
    simp
  · cases h1

/-- … or by the broker -/
theorem broker_cancel_removes (s s1 s2 : S) (tag : String) (hq : s.inflight = [])
    (h1 : step s (.brokerCancel tag) = some s1) (h2 : step s1 .readerCancel = some s2) :
    tag ∉ s2.tags ∧ tag ∉ s2.broker := by
  simp only [step] at h1
  split at h1
  · cases h1
    simp only [step, hq, List.nil_append] at h2
    cases h2
    simp
  · cases h1

/-- **Every delivery for a consumer the broker confirmed is dispatched to a callback**, also when it
    overtakes the `consume()` call that created the consumer: the look-up then waits for the channel
    lock, which `consume()` holds until the callback is stored (regenerated: `dispatchWaitsForLock`). -/
theorem dispatch_always_finds_callback (as : List Act) (s s' : S) (hr : run {} as = some s) (tag : String)
    (hu : tag ∈ s.used) (hs : step s (.dispatch tag) = some s') : (s.callbacks.lookup tag).isSome := by
  have hinv := run_inv as {} s inv_init hr
  rcases hinv.usedCallback tag hu with h | ⟨t, cb, ph, hcur⟩
  · exact h
  · have hl := hinv.curLocked (by simp [hcur])
    simp only [step, (by decide : Gen.Close.dispatchWaitsForLock = true), true_and] at hs
    split at hs
    · cases hs
    · rename_i hn
      rcases hlook : s.callbacks.lookup tag with _ | v
      · exact absurd ⟨by simp [hlook], hl⟩ hn
      · rfl

/-- the same delivery does block while `consume()` is between ConsumeOk and storing the callback -/
example : (run {} [.acquire 1, .consumeRpc 1 "a" 7, .consumeAdd 1]).bind (fun s => step s (.dispatch "a")) = none := by
  decide

/-! ## Tags used again

The transition system above never re-uses a tag.  `Amqp.TagReuse` is the sequential complement: any
history of consume / cancel / broker cancel / deliver over tags the application re-uses at will
refines the map "tag ↦ callback of the latest consume". -/

/-- **every delivery is handed to the callback of the latest consume() with its tag**, and the tag list is the
    list of consumers not cancelled since — for every history -/
theorem deliveries_go_to_latest_callback (ops : List TagReuse.Op) :
    (TagReuse.run ops).out = (TagReuse.Spec.run ops).out ∧ (TagReuse.run ops).tags = (TagReuse.Spec.run ops).live :=
  ⟨(TagReuse.run_refines ops).2.2, (TagReuse.run_refines ops).1⟩

/-- spelled out: a consumer tag is cancelled (or not) and used again with another callback; whatever else
    happens in between, a delivery for it goes to the new callback -/
theorem delivery_after_reuse (pre mid : List TagReuse.Op) (x : String) (cb : Nat)
    (hm : ∀ c, TagReuse.Op.consume x c ∉ mid) :
    (TagReuse.run (pre ++ [.consume x cb] ++ mid ++ [.deliver x])).out.getLast? = some (x, some cb) := by
  rw [(deliveries_go_to_latest_callback _).1]
  simp only [TagReuse.Spec.run, List.foldl_append, List.foldl_cons, List.foldl_nil]
  simp only [TagReuse.Spec.step, List.getLast?_append, List.getLast?_singleton, Option.some_or]
  rw [TagReuse.spec_latest_mid x mid hm]
  simp

/-- how the callback is stored is the source's plain assignment (regenerated) -/
theorem gen_consume_store : Gen.Close.consumeStoreOverwrites = true := by decide

/-- with `setdefault` instead, the second consumer's deliveries go to the first one's callback -/
theorem setdefault_dispatches_stale :
    (TagReuse.runP false [.consume "t" 1, .cancel "t", .consume "t" 2, .deliver "t"]).out = [("t", some 1)] := by decide
example : (TagReuse.run [.consume "t" 1, .cancel "t", .consume "t" 2, .deliver "t", .brokerCancel "t"]) =
    { tags := [], callbacks := [("t", 2), ("t", 1)], out := [("t", some 2)] } := by decide

/-- What the assumption on the broker excludes: if the broker's cancel notification is processed
    before `consume()` recorded the tag, the client keeps a consumer the broker no longer has. -/
theorem early_broker_cancel_loses_track :
    let s : S := { broker := [], tags := ["a"], used := ["a"], callbacks := [("a", 7)] }
    -- reached in the real code by: ConsumeOk(a) → broker cancels a → reader drops a (not yet there)
    -- → consume() records a
    s.cur = none ∧ s.inflight = [] ∧ "a" ∈ s.tags ∧ "a" ∉ s.broker := by decide

/-! ## Tie obligations -/

theorem skel_Basic_consume : Gen.Skel.Basic_consume =
  ["if", "then", "raise:AMQPInvalidArgument", "else", "if", "then",
    "raise:AMQPInvalidArgument", "else", "if", "then", "raise:AMQPInvalidArgument", "else",
    "if", "then", "raise:AMQPInvalidArgument", "else", "if", "then",
    "raise:AMQPInvalidArgument", "else", "if", "then", "raise:AMQPInvalidArgument", "endif",
    "endif", "endif", "endif", "endif", "endif", "acq:_channel.lock",
    "call:_consume_rpc_request", "call:_consume_add_and_get_tag",
    "w:_channel._consumer_callbacks[]", "rel:_channel.lock", "return"] := by decide

theorem skel_Basic_cancel : Gen.Skel.Basic_cancel =
  ["if", "then", "raise:AMQPInvalidArgument", "endif", "acq:_channel.lock",
    "call:_channel.rpc_request", "call:_channel.remove_consumer_tag", "rel:_channel.lock",
    "return"] := by decide

theorem skel_Basic__consume_add_and_get_tag : Gen.Skel.Basic__consume_add_and_get_tag =
  ["call:_channel.add_consumer_tag", "return"] := by decide

theorem skel_Channel_stop_consuming : Gen.Skel.Channel_stop_consuming =
  ["if", "r:consumer_tags", "then", "return", "endif", "if", "r:is_closed", "then",
    "call:remove_consumer_tag", "return", "endif", "while", "r:consumer_tags", "do", "for",
    "r:consumer_tags", "do", "call:basic.cancel", "endfor", "endwhile"] := by decide

theorem skel_Channel__basic_cancel : Gen.Skel.Channel__basic_cancel =
  ["call:remove_consumer_tag"] := by decide

theorem skel_Channel_process_data_events : Gen.Skel.Channel_process_data_events =
  ["if", "r:_consumer_callbacks", "then", "raise:AMQPChannelError", "endif", "for",
    "call:build_inbound_messages", "do", "if", "r:_consumer_callbacks", "then", "acq:lock",
    "rel:lock", "endif", "if", "then", "r:_consumer_callbacks", "call:message.to_tuple",
    "continue", "endif", "r:_consumer_callbacks", "endfor"] := by decide

theorem skel_Channel_start_consuming : Gen.Skel.Channel_start_consuming =
  ["while", "r:is_closed", "do", "r:consumer_tags", "call:process_data_events", "if", "then",
    "call:time.sleep", "continue", "endif", "break", "endwhile", "if", "r:exceptions", "then",
    "call:check_for_errors", "endif"] := by decide

theorem skel_BaseChannel_add_consumer_tag : Gen.Skel.BaseChannel_add_consumer_tag =
  ["if", "then", "raise:AMQPChannelError", "endif", "if", "r:_consumer_tags", "then",
    "r:_consumer_tags", "call:_consumer_tags.append", "endif"] := by decide

theorem skel_BaseChannel_remove_consumer_tag : Gen.Skel.BaseChannel_remove_consumer_tag =
  ["if", "then", "if", "r:_consumer_tags", "then", "r:_consumer_tags",
    "call:_consumer_tags.remove", "endif", "else", "w:_consumer_tags", "endif"] := by decide

/-! ## Non-vacuity -/
def demo : List Act :=
  [.acquire 1, .consumeRpc 1 "a" 7, .consumeAdd 1, .consumeStore 1, .release 1,
   .acquire 2, .consumeRpc 2 "b" 8, .consumeAdd 2, .consumeStore 2, .release 2, .dispatch "a",
   .brokerCancel "b", .acquire 1, .cancelRpc 1 "a", .readerCancel, .cancelRemove 1, .release 1]
example : (run {} demo).map (fun s => (s.broker, s.tags)) = some ([], []) := by decide
example : (run {} demo).map (fun s => s.dispatched) = some [("a", some 7)] := by decide
example : (run {} demo).map (fun s => s.cancelsSeen) = some ["a"] := by decide

/-! ## `start_consuming` returns once no consumer is left (loop model shared with C03) -/

/-- tie: the loop of `Channel.start_consuming` as extracted on this run -/
theorem consume_loop_program : ConsumeLoop.program = some ConsumeLoop.goodProg := by decide

/-- **start_consuming returns once none are left**: in every state the loop can reach (any interleaving of
    deliveries, cancels by the broker or the application, consumers added while others are active) from
    which the channel lists no consumer any more, the consuming thread leaves the loop within two iterations;
    and it never leaves it while it has just seen a consumer (`Inv.ret`: it returns only after a look that
    found none). -/
theorem start_consuming_returns_once_none_left (n : Nat) (as : List ConsumeLoop.Act) (s : ConsumeLoop.S)
    (h : ConsumeLoop.run (ConsumeLoop.init ConsumeLoop.goodProg n) as = some s) (ht : s.tags = 0) :
    (ConsumeLoop.spin 7 s).done = true ∧ (s.done = true → s.sampled = false) := by
  have inv := ConsumeLoop.run_inv _ _ as (ConsumeLoop.inv_init n) h
  refine ⟨?_, fun hd => (inv.ret hd).1⟩
  obtain ⟨hp, _, hle, hu, _, hr⟩ := inv
  by_cases hdn : s.done = true
  · simp [ConsumeLoop.spin, ConsumeLoop.step, hdn]
  · have hpc : s.pc = 0 ∨ s.pc = 1 ∨ s.pc = 2 ∨ s.pc = 3 := by omega
    have hf : s.done = false := by simpa using hdn
    cases hsm : s.sampled <;> rcases hpc with h | h | h | h <;>
      simp [ConsumeLoop.spin, ConsumeLoop.step, ConsumeLoop.stepOp, hp, ConsumeLoop.goodProg, hf, h, hsm, ht]

end Amqp.C14
