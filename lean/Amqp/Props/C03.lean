import Amqp.Lemmas.Deliver
import Amqp.Lemmas.ConsumeLoop
import Amqp.Gen.Skel
/-!
# C03 — consumers get every delivery exactly once, in order and intact

Model `Amqp.Deliver`.  Part 1: which of the frames arriving on a channel reach the delivery queue
(`Channel.on_frame`, including the content of returned messages and frames claimed by a pending
RPC).  Part 2: the reader appending to the queue and the single consuming thread assembling
messages (`_build_message*`), in any interleaving.  Fragmentation of the byte stream and other
channels' traffic are dealt with by C02 (`feed_any_chunking`, `route_correct`): each channel sees
exactly its own frames, in order.  Dispatch of a message to the callback of its consumer tag is C14.
Part 3 (`Amqp.ConsumeLoop`): the loop of `start_consuming` against the reader — what was delivered
before the last consumer went away is still handed over before the call returns.
-/
namespace Amqp.C03
open Amqp.Deliver

/-- **Only deliveries reach the delivery queue, all of them, in order** — however they are mixed
    with returned messages (whose header and body are swallowed, whatever their size), replies to
    synchronous calls and other unsolicited methods on the same channel.  Returned messages become
    one AMQPMessageError each, replies go to the RPC layer, the rest is handled in place. -/
theorem route_only_deliveries (us : List Item) (hwf : ∀ c d, Item.returned c d ∈ us → d.WF) :
    (routeAll us).inbound = (deliveriesOf us).flatMap Delivery.frames ∧
    (routeAll us).returnedLeft = none ∧
    (routeAll us).errors = us.filterMap (fun u => match u with | .returned c _ => some c | _ => none) := by
  unfold routeAll
  suffices h : ∀ (us : List Item) (s : RouteSt), (∀ c d, Item.returned c d ∈ us → d.WF) → s.returnedLeft = none →
      ((us.flatMap Item.frames).foldl onFrame s).inbound = s.inbound ++ (deliveriesOf us).flatMap Delivery.frames ∧
      ((us.flatMap Item.frames).foldl onFrame s).returnedLeft = none ∧
      ((us.flatMap Item.frames).foldl onFrame s).errors =
        s.errors ++ us.filterMap (fun u => match u with | .returned c _ => some c | _ => none) by
    simpa using h us {} hwf rfl
  intro us
  induction us with
  | nil => intro s _ hs; simp [deliveriesOf, hs]
  | cons u us ih =>
    intro s hwf hs
    simp only [List.flatMap_cons, List.foldl_append]
    obtain ⟨h1, h2, h3, _, _⟩ := route_unit u (fun c d he => hwf c d (by simp [he])) s hs
    obtain ⟨i1, i2, i3⟩ := ih (u.frames.foldl onFrame s) (fun c d hm => hwf c d (by simp [hm])) h1
    refine ⟨?_, i2, ?_⟩
    · rw [i1, h2]
      cases u <;> simp [deliveriesOf, List.append_assoc]
    · rw [i3, h3]
      cases u <;> simp [List.append_assoc]

/-- **Never a wrong, duplicated, re-ordered or damaged message**: in every reachable state — any
    interleaving of the reader with the consuming thread, any number of deliveries, any body sizes
    and splits — what the application has received is a prefix of the broker's deliveries, each
    with its own metadata, properties and the concatenation of its body frames. -/
theorem deliveries_prefix (all : List Delivery) (hwf : ∀ d ∈ all, d.WF) (as : List Act) (s : S)
    (hr : run { future := all.flatMap Delivery.frames } as = some s) :
    ∃ rest, s.out ++ rest = all.map Delivery.msg := by
  obtain ⟨_, h⟩ := run_inv all as _ s (inv_init all hwf) hr
  rcases h with ⟨_, ds, _, hout, _⟩ | ⟨d, ds, _, _, _, hout, _⟩
  · exact ⟨_, hout⟩
  · exact ⟨_, hout⟩

/-- **Every delivery is handed over**: once the reader has queued everything and the consumer has
    drained the queue and is idle, the application has received exactly the broker's deliveries. -/
theorem deliveries_complete (all : List Delivery) (hwf : ∀ d ∈ all, d.WF) (as : List Act) (s : S)
    (hr : run { future := all.flatMap Delivery.frames } as = some s)
    (hq : s.future = []) (hi : s.inbound = []) (hidle : s.phase = .idle) :
    s.out = all.map Delivery.msg := by
  obtain ⟨_, h⟩ := run_inv all as _ s (inv_init all hwf) hr
  rcases h with ⟨_, ds, hrest, hout, _⟩ | ⟨d, ds, k, hph, _⟩
  · rw [hq, hi] at hrest
    rcases ds with _ | ⟨d, ds'⟩
    · simpa using hout
    · simp [Delivery.frames] at hrest
  · rw [hidle] at hph; cases hph

/-- no pair of frames is ever discarded as "out of order", and the body loop never meets a frame
    that is not a non-empty body frame -/
theorem no_frame_discarded (all : List Delivery) (hwf : ∀ d ∈ all, d.WF) (as : List Act) (s : S)
    (hr : run { future := all.flatMap Delivery.frames } as = some s) : s.dropped = 0 :=
  (run_inv all as _ s (inv_init all hwf) hr).1

/-- **The consumer can always make progress** when something is queued for it: with two frames
    queued it starts a message; inside a body it takes the next piece or finishes. -/
theorem consumer_progress (all : List Delivery) (hwf : ∀ d ∈ all, d.WF) (as : List Act) (s : S)
    (hr : run { future := all.flatMap Delivery.frames } as = some s) :
    (s.phase = .idle → 2 ≤ s.inbound.length → (step s .start).isSome) ∧
    (∀ m n p acc, s.phase = .body m n p acc → s.inbound ≠ [] → (step s .piece).isSome ∨ (step s .finish).isSome) := by
  obtain ⟨_, h⟩ := run_inv all as _ s (inv_init all hwf) hr
  constructor
  · intro hidle hlen
    rcases hin : s.inbound with _ | ⟨a, _ | ⟨b, rest⟩⟩
    · rw [hin] at hlen; simp at hlen
    · rw [hin] at hlen; simp at hlen
    · simp only [step, stepN, hidle, hin]
      cases a <;> cases b <;> rfl
  · intro m n p acc hph hne
    rcases h with ⟨hidle, _⟩ | ⟨d, ds, k, hph', hrest, _, hwfd, _⟩
    · rw [hidle] at hph; cases hph
    · rw [hph] at hph'
      simp only [Phase.body.injEq] at hph'
      obtain ⟨rfl, rfl, rfl, rfl⟩ := hph'
      by_cases hc : Gen.Loops.buildBodyContinues ((d.pieces.take k).flatten.length) d.body.length = true
      · left
        have hlt := (continues_iff _ _).mp hc
        rcases hin : s.inbound with _ | ⟨f, rest⟩
        · exact absurd hin hne
        · rcases hd : d.pieces.drop k with _ | ⟨pc, more⟩
          · exfalso
            have := flatten_split d.pieces k
            rw [hd] at this
            simp only [Delivery.body, List.flatten_nil, List.length_nil, Nat.add_zero] at this hlt
            omega
          · rw [hd, hin] at hrest
            simp only [List.map_cons, List.cons_append, List.cons.injEq] at hrest
            obtain ⟨hf, _⟩ := hrest
            subst hf
            have hpcne : pc ≠ [] := hwfd pc (List.mem_of_mem_drop (by rw [hd]; simp))
            have hemp : pc.isEmpty = false := by
              rcases pc with _ | ⟨x, xs⟩
              · exact absurd rfl hpcne
              · rfl
            simp only [step, stepN, hph, hin, hc, if_true, hemp, Bool.false_eq_true, if_false, Option.isSome_some]
      · right
        simp only [step, stepN, hph]
        rw [if_neg hc]; rfl

/-- Why the returned-message content must be kept out of the delivery queue: if it were queued
    (as the unrepaired code did), the consumer would pair the returned header with the next
    Basic.Deliver and discard both — a delivery disappears. -/
theorem returned_content_in_queue_loses_a_delivery :
    (run { inbound := [.header 0 9, .deliver 2, .header 0 5] } [.start]).map (fun s => (s.dropped, s.inbound)) =
      some (1, [.header 0 5]) := by decide

/-- the consuming thread does not touch the queue until both the Basic.Deliver and its header are there
    (regenerated from the guard at the top of `_build_message`) -/
theorem gen_start_guard : Gen.Loops.buildStartNeeds = 2 := by decide

/-- why: were it content with one queued frame, a poll between the reads that bring the Basic.Deliver and its
    header would pop the lone Deliver, fail on the second pop and lose it — the message is never delivered -/
theorem weaker_start_guard_loses_a_delivery :
    (runN 1 { future := [.deliver 1, .header 1 0, .body [7]] } [.append, .start, .append, .append, .start]).map
      (fun s => (s.dropped, s.out, s.inbound)) = some (2, [], []) := by decide
example : (run { future := [.deliver 1, .header 1 0, .body [7]] } [.append, .start]) = none := by decide

/-! ## Tie obligations -/

theorem skel_Channel_on_frame : Gen.Skel.Channel_on_frame =
  ["if", "then", "if", "call:_skip_returned_content", "then", "return", "endif", "endif", "if",
    "call:rpc.on_frame", "then", "return", "endif", "if", "then", "r:_inbound",
    "call:_inbound.append", "else", "if", "then", "call:_basic_cancel", "else", "if", "then",
    "call:remove_consumer_tag", "else", "if", "then", "call:add_consumer_tag", "else", "if",
    "then", "call:_basic_return", "else", "if", "then", "call:_close_channel", "else", "if",
    "then", "call:write_frame", "else", "endif", "endif", "endif", "endif", "endif", "endif",
    "endif"] := by decide

theorem skel_Channel__build_message : Gen.Skel.Channel__build_message =
  ["if", "r:_inbound", "then", "return", "endif", "try", "call:_build_message_headers", "if",
    "then", "return", "endif", "call:_build_message_body", "except:IndexError", "return",
    "endtry", "return"] := by decide

theorem skel_Channel__build_message_headers : Gen.Skel.Channel__build_message_headers =
  ["r:_inbound", "call:_inbound.popleft", "r:_inbound", "call:_inbound.popleft", "if", "then",
    "return", "else", "if", "then", "return", "endif", "endif", "return"] := by decide

theorem skel_Channel__build_message_body : Gen.Skel.Channel__build_message_body =
  ["while", "do", "if", "r:_inbound", "then", "try", "call:check_for_errors",
    "except:AMQPMessageError", "if", "r:is_open", "then", "raise", "endif", "r:exceptions",
    "call:exceptions.insert", "endtry", "call:time.sleep", "continue", "endif", "r:_inbound",
    "call:_inbound.popleft", "if", "then", "break", "endif", "endwhile", "return"] := by decide

theorem skel_Channel_build_inbound_messages : Gen.Skel.Channel_build_inbound_messages =
  ["call:check_for_errors", "if", "then", "if", "then", "raise:AMQPInvalidArgument", "endif",
    "else", "endif", "while", "r:is_closed", "do", "call:_build_message", "if", "then",
    "call:check_for_errors", "call:time.sleep", "if", "r:_inbound", "then", "break", "endif",
    "continue", "endif", "if", "then", "call:message.to_tuple", "yield", "continue", "endif",
    "yield", "endwhile", "if", "r:exceptions", "then", "call:check_for_errors", "endif"] := by decide

theorem skel_Channel_process_data_events : Gen.Skel.Channel_process_data_events =
  ["if", "r:_consumer_callbacks", "then", "raise:AMQPChannelError", "endif", "for",
    "call:build_inbound_messages", "do", "if", "r:_consumer_callbacks", "then", "acq:lock",
    "rel:lock", "endif", "if", "then", "r:_consumer_callbacks", "call:message.to_tuple",
    "continue", "endif", "r:_consumer_callbacks", "endfor"] := by decide

theorem skel_Channel__basic_return : Gen.Skel.Channel__basic_return =
  ["r:exceptions", "call:exceptions.append", "w:_returned_content_left"] := by decide


/-! ## Non-vacuity -/
def d1 : Delivery := ⟨1, 10, [[1, 2], [3]]⟩
def d2 : Delivery := ⟨2, 20, []⟩
example : d1.WF ∧ d2.WF := by simp [Delivery.WF, d1, d2]
example : (routeAll [.delivery d1, .returned 312 ⟨9, 9, [[7, 7, 7], [8]]⟩, .reply "Queue.DeclareOk", .delivery d2]).inbound =
    d1.frames ++ d2.frames := by decide
example : (run { future := d1.frames ++ d2.frames }
    [.append, .append, .start, .append, .piece, .append, .append, .append, .piece, .finish, .start, .finish]).map (·.out) =
    some [d1.msg, d2.msg] := by decide

end Amqp.C03

/-! ## Part 3 — `start_consuming` returns only after everything delivered has been handed over -/
namespace Amqp.C03
open Amqp.ConsumeLoop

/-- tie: the loop of `Channel.start_consuming`, as extracted from the source on this run, looks at the
    consumer tags, then drains, then decides -/
theorem consume_loop_program : ConsumeLoop.program = some goodProg := by decide

/-- **Nothing is lost or duplicated on the way**: in every interleaving of the reader (deliveries,
    consumers going away), other threads adding consumers and the micro-steps of the consuming
    thread, what was handed to the callbacks followed by what is still queued is exactly what the
    reader queued, in order.  Any number of consumers, deliveries and steps. -/
theorem consume_loop_conserves (n : Nat) (as : List Act) (p : List Op) (s : S)
    (hp : ConsumeLoop.program = some p) (h : ConsumeLoop.run (init p n) as = some s) :
    s.handed ++ s.inbound = s.log := by
  have : p = goodProg := by rw [consume_loop_program] at hp; exact (Option.some.inj hp).symm
  subst this
  exact (run_inv _ _ as (inv_init n) h).conserve

/-- **`start_consuming` returns only when every delivery has been handed over**: in every such
    interleaving, once the call has returned the queue is empty and the callbacks have received
    exactly the deliveries the reader queued, in order — in particular those that arrived together
    with the Basic.Cancel / CancelOk that removed the last consumer, whenever the reader ran. -/
theorem start_consuming_hands_over_everything (n : Nat) (as : List Act) (p : List Op) (s : S)
    (hp : ConsumeLoop.program = some p) (h : ConsumeLoop.run (init p n) as = some s) (hd : s.done = true) :
    s.inbound = [] ∧ s.handed = s.log ∧ s.tags = 0 := by
  have : p = goodProg := by rw [consume_loop_program] at hp; exact (Option.some.inj hp).symm
  subst this
  have inv := run_inv _ _ as (inv_init n) h
  have hr := inv.ret hd
  have hi := inv.drained hr.1 hr.2
  refine ⟨hi, ?_, (inv.unseen hr.1).2⟩
  have := inv.conserve
  rw [hi, List.append_nil] at this
  exact this

/-- **and it does return**: once no consumer is left, the consuming thread on its own leaves the loop
    within two iterations (seven micro-steps), from whatever point of the loop it is at. -/
theorem start_consuming_returns (s : S) (hi : Inv s) (ht : s.tags = 0) : (spin 7 s).done = true := by
  obtain ⟨hp, _, hle, hu, _, hr⟩ := hi
  by_cases hdn : s.done = true
  · simp [spin, step, hdn]
  · have hpc : s.pc = 0 ∨ s.pc = 1 ∨ s.pc = 2 ∨ s.pc = 3 := by omega
    have hf : s.done = false := by simpa using hdn
    cases hsm : s.sampled <;> rcases hpc with h | h | h | h <;>
      simp [spin, step, stepOp, hp, goodProg, hf, h, hsm, ht]

/-- why the order matters (the loop as it was: drain, then look, then decide): the reader queues a
    delivery and removes the last consumer between the drain and the look — the call returns with the
    delivery still queued.  This interleaving was replayed on the real code (fixed in /repo). -/
theorem drain_before_look_loses_a_delivery :
    (ConsumeLoop.run (init [.drain, .read, .exitq] 1) [.consumer, .deliver 7, .cancel, .consumer, .consumer]).map
      (fun s => (s.done, s.inbound, s.handed)) = some (true, [7], []) := by decide

/-- likewise when the look-and-decide sits at the loop head and nothing drains after it -/
theorem decide_before_drain_loses_a_delivery :
    (ConsumeLoop.run (init [.read, .exitq, .drain] 1) [.consumer, .consumer, .consumer, .deliver 7, .cancel,
        .consumer, .consumer, .consumer]).map (fun s => (s.done, s.inbound, s.handed)) = some (true, [7], []) := by decide

-- non-vacuity: two consumers, deliveries arriving around both cancels, the call returns with all three handed over
example : (ConsumeLoop.run (init goodProg 2) [.consumer, .deliver 1, .consumer, .cancel, .deliver 2, .consumer, .consumer,
    .consumer, .deliver 3, .cancel, .consumer, .consumer, .consumer, .consumer, .consumer, .consumer]).map
      (fun s => (s.done, s.handed, s.inbound)) = some (true, [1, 2, 3], []) := by decide
example : Inv (init goodProg 2) := inv_init 2

end Amqp.C03

