import Amqp.Model.Handshake
namespace Amqp.C09
open Amqp Amqp.Handshake
/-- placeholder -/
theorem skel_open : Gen.Handshake.openSkel = expectedOpenSkel := by decide
end Amqp.C09
