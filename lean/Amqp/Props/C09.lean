import Amqp.Lemmas.Handshake
import Amqp.Gen.ChanErr
/-!
# C09 — the connection handshake negotiates correctly for every broker offer

Model: `Amqp/Model/Handshake.lean`.  Everything the code *says* is regenerated from the source on every
run: the `Channel0.on_frame` dispatch chain, the `_send_start_ok` mechanism chain **with the kind of
test it performs** (substring / whitespace token), the `_plain_credentials` format, the argument of
Connection.Open, the `_close_connection` kernel (`Gen/Handshake.lean`), `_negotiate` and what TuneOk
carries (`Gen/Negotiate.lean`), the 30 s / 10 ms constants and the time-out comparison.  The theorems
below are about those generated definitions, for every mechanism string, every tune offer, every
configuration and every interleaving of the inbound thread with the caller blocked in `open()`.

`IsToken isPyWs s t` is the declarative reading of "the broker offered mechanism `t`": `t` is a
non-empty whitespace-free block of the offer `s`, delimited by whitespace or the ends of the string.
-/
namespace Amqp.C09
open Amqp Amqp.Handshake Amqp.Gen.Handshake

/-! ## Mechanism choice -/

/-- **The chosen mechanism was offered and is supported**: whatever `_send_start_ok` selects is
    EXTERNAL or PLAIN and is one of the whitespace-delimited tokens of the broker's offer (not a
    substring of another mechanism such as AMQPLAIN); an undecodable/empty offer selects nothing. -/
theorem mech_sound (o : Offer) (b : MechBranch) (h : chooseMech o = .chosen b) :
    (b.mechanism = "EXTERNAL" ∨ b.mechanism = "PLAIN") ∧
    ∃ s, o = .text s ∧ IsToken isPyWs s b.mechanism.toList := by
  cases o with
  | raw => simp [chooseMech, mechBranches, chooseFrom, testBranch] at h
  | text s =>
    simp only [chooseMech, mechBranches, chooseFrom, testBranch] at h
    split at h
    · cases h
    · rename_i h1
      cases h
      simp only [Option.some.injEq, List.contains_iff_mem] at h1
      exact ⟨Or.inl rfl, s, rfl, (mem_tokens_iff isPyWs s _).1 (by simpa using h1)⟩
    · split at h
      · cases h
      · rename_i h2
        cases h
        simp only [Option.some.injEq, List.contains_iff_mem] at h2
        exact ⟨Or.inr rfl, s, rfl, (mem_tokens_iff isPyWs s _).1 (by simpa using h2)⟩
      · cases h

/-- EXTERNAL is preferred whenever the broker offers it -/
theorem mech_external_preferred (s : List Char) (h : IsToken isPyWs s "EXTERNAL".toList) :
    ∃ b, chooseMech (.text s) = .chosen b ∧ b.mechanism = "EXTERNAL" := by
  have hm : ['E', 'X', 'T', 'E', 'R', 'N', 'A', 'L'] ∈ tokens isPyWs s := by
    simpa using (mem_tokens_iff isPyWs s _).2 h
  exact ⟨⟨['E', 'X', 'T', 'E', 'R', 'N', 'A', 'L'], .tokenWs, "EXTERNAL", .literal "\x00\x00"⟩,
    by simp [chooseMech, mechBranches, chooseFrom, testBranch, hm], rfl⟩

/-- otherwise PLAIN, when offered, with the PLAIN credentials -/
theorem mech_plain_otherwise (s : List Char) (hx : ¬ IsToken isPyWs s "EXTERNAL".toList)
    (hp : IsToken isPyWs s "PLAIN".toList) :
    ∃ b, chooseMech (.text s) = .chosen b ∧ b.mechanism = "PLAIN" ∧ b.cred = .plain := by
  have hx' : ['E', 'X', 'T', 'E', 'R', 'N', 'A', 'L'] ∉ tokens isPyWs s := fun hc =>
    hx ((mem_tokens_iff isPyWs s _).1 (by simpa using hc))
  have hp' : ['P', 'L', 'A', 'I', 'N'] ∈ tokens isPyWs s := by
    simpa using (mem_tokens_iff isPyWs s _).2 hp
  exact ⟨⟨['P', 'L', 'A', 'I', 'N'], .tokenWs, "PLAIN", .plain⟩,
    by simp [chooseMech, mechBranches, chooseFrom, testBranch, hx', hp'], rfl, rfl⟩

/-- **No supported mechanism offered ⇒ nothing is selected** (and nothing crashes): neither for a text
    offer without an EXTERNAL/PLAIN token, nor for an empty or undecodable offer. -/
theorem mech_none (o : Offer)
    (h : ∀ s, o = .text s → ¬ IsToken isPyWs s "EXTERNAL".toList ∧ ¬ IsToken isPyWs s "PLAIN".toList) :
    chooseMech o = .unsupported := by
  cases o with
  | raw => simp [chooseMech, mechBranches, chooseFrom, testBranch]
  | text s =>
    obtain ⟨hx, hp⟩ := h s rfl
    have hx' : ['E', 'X', 'T', 'E', 'R', 'N', 'A', 'L'] ∉ tokens isPyWs s := fun hc =>
      hx ((mem_tokens_iff isPyWs s _).1 (by simpa using hc))
    have hp' : ['P', 'L', 'A', 'I', 'N'] ∉ tokens isPyWs s := fun hc =>
      hp ((mem_tokens_iff isPyWs s _).1 (by simpa using hc))
    simp [chooseMech, mechBranches, chooseFrom, testBranch, hx', hp']

/-- the mechanism test never raises (no `str in bytes` TypeError in the inbound thread) -/
theorem mech_no_crash (o : Offer) : chooseMech o ≠ .typeError := by
  cases o with
  | raw => simp [chooseMech, mechBranches, chooseFrom, testBranch]
  | text s =>
    simp only [chooseMech, mechBranches, chooseFrom, testBranch]
    split
    · rename_i h; cases h
    · simp
    · split
      · rename_i h; cases h
      · simp
      · simp

/-- **PLAIN authenticates with exactly the configured credentials**: `\0username\0password` -/
theorem plain_response_exact (cfg : Config) (o : Offer) (b : MechBranch)
    (h : chooseMech o = .chosen b) (hp : b.mechanism = "PLAIN") :
    credentials cfg b.cred = "\x00" ++ cfg.username ++ "\x00" ++ cfg.password := by
  cases o with
  | raw => simp [chooseMech, mechBranches, chooseFrom, testBranch] at h
  | text s =>
    simp only [chooseMech, mechBranches, chooseFrom, testBranch] at h
    split at h
    · cases h
    · cases h; simp at hp
    · split at h
      · cases h
      · cases h; rfl
      · cases h

/-- **What Connection.Start triggers**: a supported offer is answered by exactly one StartOk naming
    the chosen mechanism with its credentials (no error recorded); an unsupported offer records an
    AMQPConnectionError and writes *nothing*; the state is untouched either way. -/
theorem start_reply (cfg : Config) (st : St) (m : Offer) (hc : st.readerCrashed = false) :
    (onFrame cfg st (.start m)).state = st.state ∧
    match chooseMech m with
    | .chosen b => (onFrame cfg st (.start m)).sent = st.sent ++ [.startOk b.mechanism (credentials cfg b.cred)] ∧
                   (onFrame cfg st (.start m)).excs = st.excs
    | .unsupported => (onFrame cfg st (.start m)).sent = st.sent ∧
                      (onFrame cfg st (.start m)).excs = st.excs ++ [.unsupported]
    | .typeError => False := by
  have hne := mech_no_crash m
  simp only [onFrame, BFrame.name, actsFor_start, List.foldl, exec, hc, Bool.false_eq_true, ↓reduceIte,
    sendStartOk]
  cases hm : chooseMech m with
  | chosen b => simp [write]
  | unsupported => simp [unsupportedFailsWithoutWriting]
  | typeError => exact absurd hm hne

/-! ## Tune -/

/-- **TuneOk and Open**: Connection.Tune is answered by exactly TuneOk followed by Open; both limits
    are positive, never above the client's limits (65535 channels, 131072 bytes), never above a
    non-zero broker limit, the heartbeat is the configured one, the vhost is the configured one, and
    the connection stores exactly the announced limits. -/
theorem tune_reply (cfg : Config) (st : St) (c f h : Int) (hcr : st.readerCrashed = false)
    (hc : 0 ≤ c) (hf : 0 ≤ f) :
    ∃ cm fm : Int,
      (onFrame cfg st (.tune c f h)).sent = st.sent ++ [.tuneOk cm fm cfg.heartbeat, .open cfg.vhost] ∧
      (onFrame cfg st (.tune c f h)).chanMax = cm ∧ (onFrame cfg st (.tune c f h)).frameMax = fm ∧
      (onFrame cfg st (.tune c f h)).state = st.state ∧
      0 < cm ∧ cm ≤ 65535 ∧ (c ≠ 0 → cm ≤ c) ∧
      0 < fm ∧ fm ≤ 131072 ∧ (f ≠ 0 → fm ≤ f) := by
  refine ⟨Gen.Negotiate.sentChannelMax c f cfg.heartbeat, Gen.Negotiate.sentFrameMax c f cfg.heartbeat, ?_⟩
  simp only [onFrame, BFrame.name, actsFor_tune, List.foldl, exec, hcr, Bool.false_eq_true, ↓reduceIte,
    sendTuneOk, write, openVhost, Gen.Negotiate.sentHeartbeat, Gen.Negotiate.storedChannelMax,
    Gen.Negotiate.storedFrameMax, Gen.Negotiate.sentChannelMax, Gen.Negotiate.sentFrameMax,
    Gen.Negotiate.negotiate, pyOr, List.append_assoc, List.cons_append, List.nil_append, true_and]
  refine ⟨?_, ?_, ?_, ?_, ?_, ?_⟩ <;> (try intro _) <;> split <;> omega

/-! ## Open only after OpenOk -/

/-- **The connection reports itself open only after the broker's Connection.OpenOk**: at every point
    of every interleaving (every prefix is itself an action list), state OPEN — and a fortiori a
    successful return of `open()` — implies that an OpenOk was dispatched before. -/
theorem open_only_after_openok (cfg : Config) (ioOk : Bool) (as : List Act) :
    ((openConn cfg ioOk as).1.state = Gen.Const.stateOpen ∨ (openConn cfg ioOk as).2 = .opened) →
    Act.deliver .openOk ∈ as ∧ BFrame.openOk ∈ (openConn cfg ioOk as).1.seen := by
  cases ioOk with
  | false => simp [openConn, openStart]; decide
  | true =>
    simp only [openConn, openStart, ↓reduceIte]
    obtain ⟨r1, r2, r3⟩ := run_fields cfg as (write { state := Gen.Const.stateOpening, readerAlive := true } .header)
    intro h
    have hopen : (run cfg (write { state := Gen.Const.stateOpening, readerAlive := true } .header) as).1.state =
        Gen.Const.stateOpen := by
      rcases h with h | h
      · exact h
      · exact r3 h
    have hin : BFrame.openOk ∈ delivered as := by
      rcases r2 hopen with h | h
      · simp [write] at h; exact absurd h (by decide)
      · exact h
    refine ⟨mem_delivered.1 hin, ?_⟩
    -- the ghost history records what was dispatched; OPEN can only have come from an OpenOk in it
    exact openOk_seen cfg as _ hopen (by simp [write]; decide)
where
  openOk_seen (cfg : Config) : ∀ (as : List Act) (st : St),
      (run cfg st as).1.state = Gen.Const.stateOpen →
      (st.state = Gen.Const.stateOpen → BFrame.openOk ∈ st.seen) →
      BFrame.openOk ∈ (run cfg st as).1.seen
    | [], st => by intro h hi; simpa [run] using hi (by simpa [run] using h)
    | a :: as, st => by
      intro h hi
      obtain ⟨s1, s2, s3⟩ := step_fields cfg st a
      have hinv : (step cfg st a).1.state = Gen.Const.stateOpen → BFrame.openOk ∈ (step cfg st a).1.seen := by
        intro ho
        rcases s2 ho with h1 | h1
        · rcases s1 with e | ⟨g, _, e⟩
          · rw [e]; exact hi h1
          · rw [e]; exact List.mem_append_left _ (hi h1)
        · rcases s1 with e | ⟨g, hg, e⟩
          · subst h1
            -- a dispatched OpenOk is always recorded … unless the reader is dead, then the state did not change
            by_cases hr : st.readerAlive
            · have := (onFrame_fields cfg st .openOk).1
              simp [step, hr, this]
            · simp only [step, hr] at ho ⊢
              exact hi ho
          · rw [e]; subst h1; injection hg with hg; subst hg; simp
      cases hout : (step cfg st a).2 with
      | pending =>
        have : step cfg st a = ((step cfg st a).1, .pending) := by rw [← hout]
        rw [run, this] at h ⊢
        exact openOk_seen cfg as _ h hinv
      | opened =>
        have : step cfg st a = ((step cfg st a).1, .opened) := by rw [← hout]
        rw [run, this] at h ⊢
        exact hinv h
      | failed e =>
        have : step cfg st a = ((step cfg st a).1, .failed e) := by rw [← hout]
        rw [run, this] at h ⊢
        exact hinv h

/-! ## Refusal -/

/-- **`open()` never hangs**: whatever the broker and the scheduler do, `open()` has returned or
    raised by the time its wait loop has run `30 s / 10 ms + 2` iterations (each sleeps at least
    IDLE_WAIT), i.e. within the 30 s wait. -/
theorem open_terminates (cfg : Config) (ioOk : Bool) (as : List Act)
    (h : Gen.Const.connStateTimeoutS * 1000 / Gen.Const.idleWaitMs + 2 ≤ countPolls as) :
    (openConn cfg ioOk as).2 ≠ .pending := by
  cases ioOk with
  | false => simp [openConn, openStart]
  | true =>
    simp only [openConn, openStart, ↓reduceIte]
    intro hp
    have h' : 3002 ≤ countPolls as := by
      simpa [Gen.Const.connStateTimeoutS, Gen.Const.idleWaitMs] using h
    have hb := pending_bound cfg as _ hp (by omega)
    simp only [write, Gen.Const.connStateTimeoutS, Gen.Const.idleWaitMs] at hb
    omega

/-- **Without an OpenOk, `open()` never reports success**, and every way it ends is an
    AMQPConnectionError (`Outcome.failed`): together with `open_terminates`, a broker that refuses —
    by Connection.Close, by dropping the socket, or by going silent after any step — makes `open()`
    raise AMQPConnectionError within the bounded wait. -/
theorem refusal_fails (cfg : Config) (ioOk : Bool) (as : List Act)
    (hno : Act.deliver .openOk ∉ as)
    (h : Gen.Const.connStateTimeoutS * 1000 / Gen.Const.idleWaitMs + 2 ≤ countPolls as) :
    ∃ e, (openConn cfg ioOk as).2 = .failed e ∧ (openConn cfg ioOk as).1.state ≠ Gen.Const.stateOpen := by
  have hs : (openConn cfg ioOk as).1.state ≠ Gen.Const.stateOpen := fun ho =>
    hno (open_only_after_openok cfg ioOk as (Or.inl ho)).1
  cases hout : (openConn cfg ioOk as).2 with
  | pending => exact absurd hout (open_terminates cfg ioOk as h)
  | opened => exact absurd (open_only_after_openok cfg ioOk as (Or.inr hout)).1 hno
  | failed e => exact ⟨e, rfl, hs⟩

/-- **The broker's reply code is carried by the error**: if Connection.Close(code ≠ 200) is dispatched
    while no earlier error is pending, and no OpenOk follows, the caller's next poll raises
    AMQPConnectionError with exactly that code — from *any* state of the handshake (after the header,
    after StartOk, after TuneOk/Open). -/
theorem close_code_reported (cfg : Config) (st : St) (code : Int) (rest : List Act)
    (halive : st.readerAlive = true) (hcr : st.readerCrashed = false) (hex : st.excs = [])
    (hcode : code ≠ 200) (hno : BFrame.openOk ∉ delivered rest) (hpoll : 1 ≤ countPolls rest) :
    (run cfg st (.deliver (.close code) :: rest)).2 = .failed (.remote (some code)) := by
  have hstep : step cfg st (.deliver (.close code)) = (onFrame cfg st (.close code), .pending) := by
    simp [step, halive]
  rw [run, hstep]
  have hce : closeIsError code = true := by simp [closeIsError, hcode]
  have hst : (onFrame cfg st (.close code)).excs = [.remote (some code)] ∧
      (onFrame cfg st (.close code)).state = closeState := by
    simp [onFrame, BFrame.name, actsFor_close, exec, hcr, closeConnection, hce, hex, closeErrorCode]
  exact run_fails_of_exc cfg rest _ _ [] hst.1 (by rw [hst.2]; exact closeState_ne_open) hno hpoll

/-- a Close with reply code 200 (or a CloseOk) during the handshake still fails `open()`:
    'connection closed', no code -/
theorem close_without_code_fails (cfg : Config) (st : St) (x : Nat)
    (halive : st.readerAlive = true) (hcr : st.readerCrashed = false) (hex : st.excs = []) :
    (run cfg st [.deliver (.close 200), .poll x]).2 = .failed .closed := by
  simp [run, step, halive, onFrame, BFrame.name, actsFor_close, exec, hcr, closeConnection, closeIsError,
    hex, checkForErrors, closeState, Gen.Const.stateOpen, Gen.Const.stateClosed]

/-- **An unsupported offer fails `open()`** with the 'Unsupported Security Mechanism' error at the
    caller's next poll, whatever else the broker sends short of OpenOk -/
theorem unsupported_offer_fails (cfg : Config) (st : St) (m : Offer) (rest : List Act)
    (halive : st.readerAlive = true) (hcr : st.readerCrashed = false) (hex : st.excs = [])
    (hst : st.state ≠ Gen.Const.stateOpen) (hm : chooseMech m = .unsupported)
    (hno : BFrame.openOk ∉ delivered rest) (hpoll : 1 ≤ countPolls rest) :
    (run cfg st (.deliver (.start m) :: rest)).2 = .failed .unsupported := by
  have hstep : step cfg st (.deliver (.start m)) = (onFrame cfg st (.start m), .pending) := by
    simp [step, halive]
  rw [run, hstep]
  have h := start_reply cfg st m hcr
  rw [hm] at h
  exact run_fails_of_exc cfg rest _ _ [] (by rw [h.2.2, hex]; rfl) (by rw [h.1]; exact hst) hno hpoll

/-- after the socket is lost the inbound thread dispatches nothing any more -/
theorem eof_stops_reader (cfg : Config) (st : St) (f : BFrame) :
    (step cfg (step cfg st .eof).1 (.deliver f)).1 = (step cfg st .eof).1 := by
  by_cases ha : st.readerAlive <;> by_cases hs : cfg.ioShared <;> simp [step, ha, hs]

/-! ## The cooperative case -/

/-- **A cooperative broker is answered step by step and the connection opens**: protocol header,
    StartOk(chosen mechanism, credentials), TuneOk(negotiated limits, configured heartbeat),
    Open(configured vhost), and `open()` returns once OpenOk has been dispatched. -/
theorem cooperative_opens (cfg : Config) (m : Offer) (b : MechBranch) (c f h : Int) (e0 e1 : Nat)
    (hm : chooseMech m = .chosen b) :
    (openConn cfg true [.poll e0, .deliver (.start m), .deliver (.tune c f h), .deliver .openOk, .poll e1]).2 = .opened ∧
    (openConn cfg true [.poll e0, .deliver (.start m), .deliver (.tune c f h), .deliver .openOk, .poll e1]).1.sent =
      [.header, .startOk b.mechanism (credentials cfg b.cred),
       .tuneOk (Gen.Negotiate.sentChannelMax c f cfg.heartbeat) (Gen.Negotiate.sentFrameMax c f cfg.heartbeat) cfg.heartbeat,
       .open cfg.vhost] := by
  have hw : waitTimedOut 0 = false := by decide
  simp [openConn, openStart, run, step, write, checkForErrors, hw, onFrame, BFrame.name,
    actsFor_start, actsFor_tune, actsFor_openOk, exec, sendStartOk, hm, sendTuneOk, openVhost,
    Gen.Negotiate.sentHeartbeat, Gen.Const.stateOpening, Gen.Const.stateClosed, Gen.Const.stateOpen]

/-! ## Skeleton obligations (the statement order the step functions were written against) -/

/-- `Connection.open`: OPENING, reset, `IO.open`, protocol header, wait for OPEN, then the heartbeat -/
theorem skel_open : openSkel = expectedOpenSkel := by decide
/-- `check_for_errors`: return if healthy; 'connection closed' if closed without reason; CLOSED, close(), raise the first error -/
theorem skel_check : checkSkel = expectedCheckSkel := by decide
/-- `_wait_for_connection_state`: check for errors, then the time-out test, then sleep -/
theorem skel_wait : waitSkel = expectedWaitSkel := by decide

/-- the model delivers a frame to `Channel0.on_frame` as one atomic step; for a refusal that is sound only if
    the handler records the broker's reason *before* it publishes the CLOSED state (otherwise an opener
    polling in between raises a code-less 'connection closed'): regenerated from `_close_connection` -/
theorem refusal_reason_before_state : Gen.ChanErr.connReasonBeforeState = true := by decide

/-! ## Non-vacuity -/

private def offer (s : String) : Offer := .text s.toList

example : chooseMech (offer "PLAIN AMQPLAIN") = .chosen ⟨"PLAIN".toList, .tokenWs, "PLAIN", .plain⟩ := by decide
example : chooseMech (offer "AMQPLAIN") = .unsupported := by decide
example : chooseMech (offer "XEXTERNAL PLAIN") = .chosen ⟨"PLAIN".toList, .tokenWs, "PLAIN", .plain⟩ := by decide
example : chooseMech (offer "AMQPLAIN\tEXTERNAL") =
    .chosen ⟨"EXTERNAL".toList, .tokenWs, "EXTERNAL", .literal "\x00\x00"⟩ := by decide
example : chooseMech .raw = .unsupported ∧ decodeOffer [] = .raw := by decide
example : tokens isPyWs " a  bc\td ".toList = ["a".toList, "bc".toList, "d".toList] := by decide
example : IsToken isPyWs "AMQPLAIN PLAIN".toList "PLAIN".toList :=
  (mem_tokens_iff _ _ _).1 (by decide)
example : ¬ IsToken isPyWs "AMQPLAIN".toList "PLAIN".toList :=
  fun h => absurd ((mem_tokens_iff _ _ _).2 h) (by decide)

private def guest : Config := { username := "guest", password := "pw", vhost := "/v", heartbeat := 60 }

example : (openConn guest true [.poll 0, .deliver (.start (offer "PLAIN AMQPLAIN")), .deliver (.tune 2047 0 60),
      .deliver .openOk, .poll 0]) =
    ({ state := 3, chanMax := 2047, frameMax := 131072, readerAlive := true, elapsedMs := 10,
       sent := [.header, .startOk "PLAIN" "\x00guest\x00pw", .tuneOk 2047 131072 60, .open "/v"],
       seen := [.start (offer "PLAIN AMQPLAIN"), .tune 2047 0 60, .openOk] }, .opened) := by decide
example : (openConn guest true [.poll 0, .deliver (.start (offer "AMQPLAIN")), .poll 0]).2 = .failed .unsupported := by decide
example : (openConn guest true [.poll 0, .deliver (.start (offer "PLAIN")), .deliver (.close 403), .poll 0]).2 =
    .failed (.remote (some 403)) := by decide
example : (openConn guest true (.eof :: List.replicate 3002 (.poll 0))).2 = .failed .timeout := by decide +kernel
example : (openConn { guest with ioShared := true } true [.eof, .poll 0]).2 = .failed .socket := by decide
example : (openConn guest true (List.replicate 3001 (.poll 0))).2 = .pending := by decide +kernel
example : (openConn guest false []).2 = .failed .socket := by decide

end Amqp.C09
