import Amqp.Gen.Locks
import Amqp.Lemmas.Rpc
import Amqp.Gen.Skel
/-!
# C05 — each synchronous call gets the reply to its own request

Transition system `Amqp.Rpc` for one channel (every structure in it belongs to one `Channel` object
and frames are routed to it by channel id — C02 `route_correct` — so channels cannot influence each
other): any number of caller threads, the reader, and a broker that answers the oldest outstanding
request (echoing its identity in `tag`) and may emit unsolicited frames at any time.
`U` is the set of frame names the broker may send unprompted; callers register names outside `U`
(`ActOk`): for `basic.get`, which registers ContentHeader/ContentBody, this is what its
consumer guard is meant to provide (see `delivery_stolen_without_disjointness`).
Scope: histories in which every registered call completes (the property's premise "when the broker
answers promptly"); aborted calls are treated in C15/C13.
-/
namespace Amqp.C05
open Amqp Amqp.Rpc

def ActsOk (U : List String) (as : List Act) : Prop := ∀ a ∈ as, ActOk U a

theorem run_inv (U : List String) : ∀ (as : List Act) (s s' : S), Inv U s → ActsOk U as →
    run s as = some s' → Inv U s' := by
  intro as
  induction as with
  | nil => intro s s' h _ hr; simp [run] at hr; subst hr; exact h
  | cons a as ih =>
    intro s s' h hok hr
    simp only [run] at hr
    split at hr
    · cases hr
    · rename_i s1 hs1
      exact ih s1 s' (step_inv U s s1 a h (hok a (by simp)) hs1) (fun b hb => hok b (by simp [hb])) hr

/-- **One outstanding request per channel, owned by the lock holder.** -/
theorem one_outstanding (U : List String) (as : List Act) (s : S) (hok : ActsOk U as)
    (hr : run init as = some s) (hne : s.t.request ≠ []) :
    ∃ c, s.cur = some c ∧ s.lock = some c.tid ∧ (∀ p ∈ s.t.request, p.2 = c.uid) ∧
      ∃ fs, s.t.response = [(c.uid, fs)] := by
  have hinv := run_inv U as init s (inv_init U) hok hr
  rcases hc : s.cur with _ | c
  · exact absurd (hinv.idle hc).1 hne
  · obtain ⟨b1, _, b3, ⟨fs, b4, _⟩, _⟩ := hinv.busy c hc
    exact ⟨c, rfl, b1, b3, fs, b4⟩

/-- **Every frame a caller takes is the broker's answer to that caller's own request**
    (`tag` = the identity the broker echoes), never an unsolicited frame. -/
theorem reply_matches (U : List String) (as : List Act) (s : S) (hok : ActsOk U as)
    (hr : run init as = some s) : ∀ p ∈ s.taken, p.2.tag = p.1 ∧ p.2.reply = true :=
  (run_inv U as init s (inv_init U) hok hr).taken

/-- **Unsolicited frames are never consumed as replies and never lost**: what reached normal
    channel handling, followed by the unsolicited frames still in flight, is exactly what the
    broker emitted unprompted, in order. -/
theorem unsolicited_never_stolen (U : List String) (as : List Act) (s : S) (hok : ActsOk U as)
    (hr : run init as = some s) :
    s.handled ++ s.inflight.filter (fun f => !f.reply) = s.unsol :=
  (run_inv U as init s (inv_init U) hok hr).unsol

theorem unsolicited_all_handled (U : List String) (as : List Act) (s : S) (hok : ActsOk U as)
    (hr : run init as = some s) (hq : s.inflight = []) : s.handled = s.unsol := by
  have := unsolicited_never_stolen U as s hok hr
  rw [hq] at this; simpa using this

/-- **No lost reply / progress**: once the broker has answered and the reader has dispatched the
    answer, the waiting caller can proceed: a frame is available to take, or it has taken the whole
    reply and can finish. -/
theorem progress (U : List String) (as : List Act) (s : S) (hok : ActsOk U as)
    (hr : run init as = some s) (c : Caller) (hc : s.cur = some c) (hsent : c.sent = true)
    (hp : s.pending = []) (hd : hasReply s.inflight = false) :
    (step s (.take c.tid)).isSome ∨ (step s (.remove c.tid)).isSome := by
  have hinv := run_inv U as init s (inv_init U) hok hr
  obtain ⟨_, _, _, ⟨fs, b4, _⟩, _⟩ := hinv.busy c hc
  rcases fs with _ | ⟨f, rest⟩
  · right
    simp [step, hc, hsent, hp, hd, ready, b4, dict_single_get]
  · left
    simp [step, hc, hsent, popResponse, b4, dict_single_get]

/-- **No residue**: whenever nobody holds the channel's RPC lock, both correlation tables are empty
    and nothing is outstanding at the broker. -/
theorem tables_empty_when_idle (U : List String) (as : List Act) (s : S) (hok : ActsOk U as)
    (hr : run init as = some s) (hl : s.lock = none) :
    s.t.request = [] ∧ s.t.response = [] ∧ s.pending = [] := by
  have hinv := run_inv U as init s (inv_init U) hok hr
  have := hinv.idle (hinv.lockcur hl)
  exact ⟨this.1, this.2.1, this.2.2.1⟩

/-- Why the disjointness premise is needed: a `basic.get` (which registers ContentHeader) running
    while the broker delivers to a consumer on the same channel swallows the delivery's header. -/
theorem delivery_stolen_without_disjointness :
    ∃ s, run init [.acquire 1, .register 1 ["Basic.GetOk", "Basic.GetEmpty", "ContentHeader", "ContentBody"],
        .send 1, .unsolicited { name := "Basic.Deliver", tag := 7, reply := false }, .unsolicited { name := "ContentHeader", tag := 7, reply := false },
        .dispatch, .dispatch] = some s ∧ s.handled ≠ s.unsol ∧ s.inflight = [] := by
  refine ⟨_, rfl, ?_, rfl⟩
  decide

/-! ## Tie obligations (skeletons regenerated from /repo) -/

theorem skel_Channel_rpc_request : Gen.Skel.Channel_rpc_request =
  ["acq:rpc.lock", "call:rpc.register_request", "call:_connection.write_frame",
    "call:rpc.get_request", "return", "rel:rpc.lock"] := by decide

theorem skel_Rpc_on_frame : Gen.Skel.Rpc_on_frame =
  ["if", "r:_request", "then", "return", "endif", "r:_request", "if", "r:_response", "then",
    "r:_response", "else", "w:_response[]", "endif", "return"] := by decide

theorem skel_Rpc_register_request : Gen.Skel.Rpc_register_request =
  ["w:_response[]", "for", "do", "w:_request[]", "endfor", "return"] := by decide

theorem skel_Rpc_get_request : Gen.Skel.Rpc_get_request =
  ["if", "r:_response", "then", "return", "endif", "call:_wait_for_request",
    "call:_get_response_frame", "if", "then", "call:remove", "endif", "if", "then", "else",
    "if", "then", "endif", "endif", "return"] := by decide

theorem skel_Rpc__wait_for_request : Gen.Skel.Rpc__wait_for_request =
  ["while", "r:_response", "do", "try", "call:connection_adapter.check_for_errors",
    "except:AMQPMessageError", "if", "then", "raise", "endif",
    "call:connection_adapter.exceptions.insert", "endtry", "if", "then",
    "call:_raise_rpc_timeout_error", "endif", "call:time.sleep", "endwhile"] := by decide

theorem skel_Rpc__get_response_frame : Gen.Skel.Rpc__get_response_frame =
  ["r:_response", "call:_response.get", "if", "then", "call:frames.pop", "endif", "return"] := by decide

theorem skel_Rpc_remove : Gen.Skel.Rpc_remove =
  ["call:remove_request", "call:remove_response"] := by decide

theorem skel_Rpc_remove_request : Gen.Skel.Rpc_remove_request =
  ["for", "r:_request", "do", "if", "r:_request", "then", "del:_request[]", "endif", "endfor"] := by decide

theorem skel_Rpc_remove_response : Gen.Skel.Rpc_remove_response =
  ["if", "r:_response", "then", "del:_response[]", "endif"] := by decide

/-- **The reader never waits for a caller.**  A caller holds `channel.lock` (consume, cancel, get) or
    the RPC lock for the whole round trip of its request, waiting for the reader to dispatch the
    reply.  None of the handlers the reader runs for a frame of this channel — `on_frame`, the RPC
    hand-over, the handlers of unprompted Basic.Cancel / Basic.Return / Channel.Close — acquires a
    lock, so the reply behind an unprompted frame is always dispatched (the premise of `progress`:
    a dispatched reply is all the caller waits for).  Regenerated skeletons. -/
theorem reader_takes_no_lock :
    ∀ m ∈ ["Channel_on_frame", "Rpc_on_frame", "Channel__basic_cancel", "Channel__basic_return",
           "Channel__close_channel", "BaseChannel_remove_consumer_tag", "BaseChannel_add_consumer_tag"],
      Gen.Skel.acquires.lookup m = some [] := by decide

/-- the same through every call the reader can make (lock graph regenerated from the source): the reader
    thread takes only the socket locks, never one a waiting caller may hold -/
theorem reader_never_needs_a_waiting_callers_lock :
    Gen.Locks.readerAcquires.all (fun l => l == "IO._rd_lock" || l == "IO._wr_lock") = true ∧
    Gen.Locks.readerAcquires.all (fun l => !Gen.Locks.heldWhileWaitingForReader.contains l) = true := by decide

theorem skel_Channel_on_frame : Gen.Skel.Channel_on_frame =
  ["if", "then", "if", "call:_skip_returned_content", "then", "return", "endif", "endif", "if",
    "call:rpc.on_frame", "then", "return", "endif", "if", "then", "r:_inbound",
    "call:_inbound.append", "else", "if", "then", "call:_basic_cancel", "else", "if", "then",
    "call:remove_consumer_tag", "else", "if", "then", "call:add_consumer_tag", "else", "if",
    "then", "call:_basic_return", "else", "if", "then", "call:_close_channel", "else", "if",
    "then", "call:write_frame", "else", "endif", "endif", "endif", "endif", "endif", "endif",
    "endif"] := by decide

/-! ## Non-vacuity: two callers, an unsolicited delivery in between -/
def demo : List Act :=
  [.acquire 1, .register 1 ["Queue.DeclareOk"], .send 1, .unsolicited { name := "Basic.Deliver", tag := 0, reply := false },
   .reply [{ name := "Queue.DeclareOk", tag := 0, reply := true }], .dispatch, .dispatch, .take 1, .remove 1, .release 1,
   .acquire 2, .register 2 ["Queue.DeclareOk"], .send 2, .reply [{ name := "Queue.DeclareOk", tag := 1, reply := true }],
   .dispatch, .take 2, .remove 2, .release 2]

example : ActsOk ["Basic.Deliver"] demo := by
  intro a ha; simp only [demo, List.mem_cons, List.mem_nil_iff, or_false] at ha
  rcases ha with rfl | rfl | rfl | rfl | rfl | rfl | rfl | rfl | rfl | rfl | rfl | rfl | rfl | rfl | rfl | rfl | rfl | rfl <;>
    simp [ActOk]
example : (run init demo).map (fun s => (s.taken.map (fun p => (p.1, p.2.tag)), s.handled.length, s.t.request, s.lock)) =
    some ([(0, 0), (1, 1)], 1, [], none) := by decide

end Amqp.C05
