import Amqp.Lemmas.Get
import Amqp.Lemmas.RpcMicro
import Amqp.Gen.Skel
/-!
# C15 — basic.get returns the whole message or None and leaves no residue

Model `Amqp.Get.get` mirrors `Basic.get` → `_get_message` → `_get_content_body` on top of the RPC
table model of C05.  `frames` is everything that arrives on the channel after the Basic.Get was
written (any list whatsoever for the residue theorem), `ending` says how the stream ends while the
caller is still waiting (RPC time-out, channel closed by the broker, transport loss).
"Time-out" means the withheld frames never arrive (a late frame is indistinguishable from the next
reply under any name-correlated protocol; stated as the broker model's behaviour).
-/
namespace Amqp.C15
open Amqp Amqp.Rpc Amqp.Get

/-- the tables start clean (C05 `tables_empty_when_idle`: nobody holds the RPC lock) -/
def Clean (t : T) : Prop := t.request = [] ∧ t.response = []

/-- **No residue, whatever happens**: for *every* list of arriving frames (well-formed or not) and
    every ending — success, GetEmpty, time-out at any stage, channel closed mid-get, transport
    loss after the header — the correlation tables are empty again when `get` returns or raises. -/
theorem no_residue (t : T) (hc : Clean t) (frames : List Frm) (ending : Ending) :
    Clean (basicGet [] t frames ending).2.1 := by
  obtain ⟨hr, hp⟩ := hc
  have hs := shape_register t getNames hr hp
  unfold basicGet
  simp only [ne_eq, not_true_eq_false, if_false]
  generalize hreg : registerRequest t getNames = reg at hs
  obtain ⟨uid, t1⟩ := reg
  simp only at hs ⊢
  have w1 := shape_waitTake uid (frames.length + 1) { t := t1, arrivals := frames } hs
  split
  · rename_i e1 heq; rw [heq] at w1; exact remove_shape_empty _ _ w1
  · rename_i f1 e1 heq
    rw [heq] at w1
    split
    · exact remove_shape_empty _ _ w1
    · have w2 := shape_waitTake uid (e1.arrivals.length + 1) e1 w1
      split
      · rename_i e2 heq2; rw [heq2] at w2; exact remove_shape_empty _ _ w2
      · rename_i hdr e2 heq2
        rw [heq2] at w2
        have w3 := shape_bodyLoop uid hdr.size (e2.arrivals.length + 1) e2 [] w2
        split
        · rename_i e3 heq3; rw [heq3] at w3; exact remove_shape_empty _ _ w3
        · rename_i body e3 heq3; rw [heq3] at w3; exact remove_shape_empty _ _ w3

/-- **Consumer guard**: with active consumers `get` raises AMQPChannelError, writes nothing and
    leaves the tables untouched. -/
theorem guard (tags : List String) (ht : tags ≠ []) (t : T) (frames : List Frm) (ending : Ending) :
    basicGet tags t frames ending = (.raised .notAllowedConsumers, t, false, [], frames) := by
  simp [basicGet, ht]

/-- **Empty queue**: Basic.GetEmpty ⇒ `None`, nothing left behind, later traffic untouched. -/
theorem get_empty (t : T) (hc : Clean t) (ge : Frm) (hn : ge.name = "Basic.GetEmpty") (later : List Frm)
    (ending : Ending) :
    (basicGet [] t (ge :: later) ending).1 = .empty ∧ (basicGet [] t (ge :: later) ending).2.2.2.2 = later := by
  obtain ⟨hr, hp⟩ := hc
  have hreg := reg_register t hr hp
  unfold basicGet
  simp only [ne_eq, not_true_eq_false, if_false]
  generalize registerRequest t getNames = reg at hreg
  obtain ⟨uid, t1⟩ := reg
  simp only at hreg ⊢
  have := waitTake_next t1 uid hreg ge (by simp [getNames, hn]) later [] later.length
  simp only [List.length_cons]
  rw [this]
  simp [hn]

/-- **Whole message**: GetOk + header announcing `n` bytes + any split of the body into non-empty
    body frames whose sizes add up to `n` ⇒ exactly that message (delivery metadata, properties and
    the concatenated body), and nothing beyond the message is consumed. -/
theorem get_message (t : T) (hc : Clean t) (ok hdr : Frm) (pieces later : List Frm) (ending : Ending)
    (hok : ok.name = "Basic.GetOk") (hh : hdr.name = "ContentHeader")
    (hp : ∀ p ∈ pieces, IsPiece p) (hsum : (pieces.flatMap (·.data)).length = hdr.size) :
    (basicGet [] t (ok :: hdr :: (pieces ++ later)) ending).1 = .message ok hdr (pieces.flatMap (·.data)) ∧
    (basicGet [] t (ok :: hdr :: (pieces ++ later)) ending).2.2.2.2 = later := by
  obtain ⟨hr, hpp⟩ := hc
  have hreg := reg_register t hr hpp
  unfold basicGet
  simp only [ne_eq, not_true_eq_false, if_false]
  generalize registerRequest t getNames = reg at hreg
  obtain ⟨uid, t1⟩ := reg
  simp only at hreg ⊢
  have w1 := waitTake_next t1 uid hreg ok (by simp [getNames, hok]) (hdr :: (pieces ++ later)) []
    (hdr :: (pieces ++ later)).length
  simp only [List.length_cons] at w1 ⊢
  rw [w1]
  have hne : ¬ ok.name = "Basic.GetEmpty" := by rw [hok]; decide
  simp only [hne, if_false]
  have w2 := waitTake_next t1 uid hreg hdr (by simp [getNames, hh]) (pieces ++ later) [] (pieces ++ later).length
  simp only [List.length_cons] at w2 ⊢
  rw [w2]
  have w3 := bodyLoop_spec t1 uid hdr.size hreg pieces [] later [] ((pieces ++ later).length + 1) hp
    (by simpa using hsum) (by simp)
  simp only at w3 ⊢
  rw [w3]
  simp

/-- **Truncated reply**: if the stream stops after the header and fewer body bytes than announced,
    `get` raises the error of the ending (time-out / channel / connection) — never a partial message. -/
theorem get_truncated (t : T) (hc : Clean t) (ok hdr : Frm) (pieces : List Frm) (ending : Ending)
    (hok : ok.name = "Basic.GetOk") (hh : hdr.name = "ContentHeader")
    (hp : ∀ p ∈ pieces, IsPiece p) (hshort : (pieces.flatMap (·.data)).length < hdr.size) :
    (basicGet [] t (ok :: hdr :: pieces) ending).1 = .raised ending.err := by
  obtain ⟨hr, hpp⟩ := hc
  have hreg := reg_register t hr hpp
  unfold basicGet
  simp only [ne_eq, not_true_eq_false, if_false]
  generalize registerRequest t getNames = reg at hreg
  obtain ⟨uid, t1⟩ := reg
  simp only at hreg ⊢
  have w1 := waitTake_next t1 uid hreg ok (by simp [getNames, hok]) (hdr :: pieces) [] (hdr :: pieces).length
  simp only [List.length_cons] at w1 ⊢
  rw [w1]
  have hne : ¬ ok.name = "Basic.GetEmpty" := by rw [hok]; decide
  simp only [hne, if_false]
  have w2 := waitTake_next t1 uid hreg hdr (by simp [getNames, hh]) pieces [] pieces.length
  simp only [List.length_cons] at w2 ⊢
  rw [w2]
  -- body loop runs out of frames
  have key : ∀ (ps : List Frm) (body : List UInt8) (fuel : Nat), (∀ p ∈ ps, IsPiece p) →
      body.length + (ps.flatMap (·.data)).length < hdr.size → ps.length + 1 ≤ fuel →
      (bodyLoop uid hdr.size fuel { t := t1, arrivals := ps, handled := [] } body).1 = none := by
    intro ps
    induction ps with
    | nil =>
      intro body fuel _ hlt hf
      rcases fuel with _ | k
      · omega
      · simp only [List.flatMap_nil, List.length_nil, Nat.add_zero] at hlt
        have hlt := (getBodyContinues_iff _ _).mpr hlt
        simp only [bodyLoop, hlt, if_true, List.length_nil, Nat.zero_add]
        rw [waitTake_nothing t1 uid hreg [] 0]
    | cons p ps ih =>
      intro body fuel hpp' hlt hf
      rcases fuel with _ | k
      · simp at hf
      · have hpiece := hpp' p (by simp)
        simp only [List.flatMap_cons, List.length_append] at hlt
        have hlt' : Gen.Loops.getBodyContinues body.length hdr.size = true := (getBodyContinues_iff _ _).mpr (by omega)
        simp only [bodyLoop, hlt', if_true]
        have hw := waitTake_next t1 uid hreg p (piece_names p hpiece) ps [] ps.length
        simp only [List.length_cons]
        rw [hw]
        have hne' : p.data.isEmpty = false := by
          rcases hd' : p.data with _ | ⟨x, xs⟩
          · exact absurd hd' hpiece.2
          · rfl
        simp only [hne', Bool.false_eq_true, if_false]
        exact ih (body ++ p.data) k (fun q hq => hpp' q (by simp [hq]))
          (by simp only [List.length_append]; omega) (by simp at hf; omega)
  have := key pieces [] (pieces.length + 1) hp (by simpa using hshort) (Nat.le_refl _)
  rcases hb : bodyLoop uid hdr.size (pieces.length + 1) { t := t1, arrivals := pieces, handled := [] } [] with ⟨r, e3⟩
  rw [hb] at this
  simp only at this
  subst this
  simp only [hb]

/-- **The next synchronous call starts from a clean table** (so C05's theorems apply to it):
    after any outcome the tables equal those of a channel that never ran a `get`, up to the
    fresh-uuid counter. -/
theorem next_call_clean (t : T) (hc : Clean t) (frames : List Frm) (ending : Ending) :
    ∃ k, (basicGet [] t frames ending).2.1 = { request := [], response := [], nextUid := k } := by
  have := no_residue t hc frames ending
  obtain ⟨h1, h2⟩ := this
  exact ⟨(basicGet [] t frames ending).2.1.nextUid, by
    rcases hg : (basicGet [] t frames ending).2.1 with ⟨rq, rs, n⟩
    rw [hg] at h1 h2; simp only at h1 h2; subst h1; subst h2; rfl⟩

/-! ## Tie obligations (skeletons regenerated from /repo) -/

theorem skel_Basic_get : Gen.Skel.Basic_get =
  ["if", "then", "raise:AMQPInvalidArgument", "else", "if", "then",
    "raise:AMQPInvalidArgument", "else", "if", "r:consumer_tags", "then",
    "raise:AMQPChannelError", "endif", "endif", "endif", "if", "then", "if", "then",
    "raise:AMQPInvalidArgument", "endif", "else", "endif", "acq:_channel.lock",
    "call:_get_message", "if", "then", "call:message.to_dict", "return", "endif", "return",
    "rel:_channel.lock"] := by decide

theorem skel_Basic__get_message : Gen.Skel.Basic__get_message =
  ["acq:_channel.rpc.lock", "call:_channel.rpc.register_request", "try",
    "call:_channel.write_frame", "call:_channel.rpc.get_request", "if", "then", "return",
    "endif", "call:_channel.rpc.get_request", "call:_get_content_body", "finally",
    "call:_channel.rpc.remove", "endtry", "rel:_channel.rpc.lock", "return"] := by decide

theorem skel_Basic__get_content_body : Gen.Skel.Basic__get_content_body =
  ["while", "do", "call:_channel.rpc.get_request", "if", "then", "break", "endif", "endwhile",
    "return"] := by decide

/-! ## Late frames while the bookkeeping is being built or discarded

`Model/RpcMicro.lean`: the caller performs `register_request` and `remove` one dict operation at a
time and the reader may run `on_frame` between any two of them — which is what happens when the
reply to a get that has timed out arrives after all.  Any number of calls, any frames, any
interleaving. -/

/-- the reader thread never fails (`KeyError` in `Rpc.on_frame` would kill it and with it every later
    call on the connection): no frame ever finds a name mapped to an identifier without a reply slot -/
theorem reader_never_fails_on_late_frames (evs : List RpcMicro.Ev) (s : RpcMicro.S)
    (h : RpcMicro.run RpcMicro.init evs = some s) : s.keyErrors = 0 :=
  (RpcMicro.run_inv evs _ _ RpcMicro.J_init h).2

/-- whenever no call is in progress both tables are empty — whatever arrived, whenever -/
theorem no_residue_under_late_frames (evs : List RpcMicro.Ev) (s : RpcMicro.S)
    (h : RpcMicro.run RpcMicro.init evs = some s) (hi : s.phase = .idle) :
    s.t.request = [] ∧ s.t.response = [] := by
  have := (RpcMicro.run_inv evs _ _ RpcMicro.J_init h).1
  unfold RpcMicro.J at this; rw [hi] at this; exact this

/-- … and a frame that arrives then is not swallowed: it falls through to the channel -/
theorem late_frame_falls_through_when_idle (evs : List RpcMicro.Ev) (s : RpcMicro.S)
    (h : RpcMicro.run RpcMicro.init evs = some s) (hi : s.phase = .idle) (f : Frm) :
    RpcMicro.onFrameK s.t f = (false, false, s.t) := by
  have := (no_residue_under_late_frames evs s h hi).1
  unfold RpcMicro.onFrameK; rw [this]; rfl

/-- the two orders the proof rests on are the ones in the source (regenerated) -/
theorem gen_table_orders : Gen.RpcWait.registerResponseFirst = true ∧ Gen.RpcWait.removeRequestFirst = true := by
  decide

def lateOk : Frm := { name := "Basic.GetOk", tag := 0, reply := true }
/-- were `remove` to drop the reply slot first, a late `GetOk` between its two steps fails in the reader -/
theorem remove_order_matters :
    (RpcMicro.runP true false RpcMicro.init
      [.begin ["Basic.GetOk"], .regStep, .regStep, .beginRemove, .remStep, .frame lateOk]).map (·.keyErrors) = some 1 := by
  decide
/-- were `register_request` to map the names first, an early reply between its steps fails the same way -/
theorem register_order_matters :
    (RpcMicro.runP false true RpcMicro.init
      [.begin ["Basic.GetOk"], .regStep, .frame lateOk]).map (·.keyErrors) = some 1 := by
  decide
/-- non-vacuity: a whole call with a late frame at every point of the clean-up; the code's orders -/
example : (RpcMicro.run RpcMicro.init
      [.begin ["Basic.GetOk", "Basic.GetEmpty"], .regStep, .frame lateOk, .regStep, .regStep, .frame lateOk, .pop,
       .beginRemove, .frame lateOk, .remStep, .frame lateOk, .remStep, .frame lateOk, .remStep, .frame lateOk]).map
      (fun s => (s.keyErrors, s.consumed.length, s.fell.length, s.t.request.length, s.t.response.length, s.phase)) =
    some (0, 2, 4, 0, 0, .idle) := by decide

/-! ## Non-vacuity -/
def gOk : Frm := { name := "Basic.GetOk", tag := 0, reply := true, data := [1, 2] }
def gHdr : Frm := { name := "ContentHeader", tag := 0, reply := true, size := 5 }
def b1 : Frm := { name := "ContentBody", tag := 0, reply := true, data := [10, 11, 12] }
def b2 : Frm := { name := "ContentBody", tag := 0, reply := true, data := [13, 14] }
example : (basicGet [] {} [gOk, gHdr, b1, b2] .silence).1 = .message gOk gHdr [10, 11, 12, 13, 14] := by decide
example : (basicGet [] {} [gOk, gHdr, b1] .chanClosed).1 = .raised .channelError := by decide
example : (basicGet [] {} [gOk, gHdr, b1] .chanClosed).2.1 = { request := [], response := [], nextUid := 1 } := by decide
example : (basicGet ["ctag"] {} [] .silence).2.2.1 = false := by decide

end Amqp.C15
