import Amqp.Lemmas.Guards
/-!
# C16 — ill-typed arguments are rejected before anything is sent

Model: `Amqp/Model/Guards.lean`.  The step tables `Gen.C16.ops` (every public method of Basic,
Queue, Exchange, plus Channel.close and Connection.channel), `Gen.C16.connOp`
(Connection.__init__ with `_validate_parameters` inlined) and `Gen.C16.messageOps` (Message
operations delegating to Basic) are regenerated from the source on every run, together with the
documented type, the default and the "reaches a pamqp frame" flag of every parameter.

A value is abstracted to the MRO of its type — an arbitrary list of classes, user classes included —
so the theorems quantify over every possible argument, every state the operation may find, every
verdict of the non-type tests and every failure of the broker; nothing is bounded.

"Well-typed" (`wellTyped`) = instance of a documented class or of the class of the declared
default; a documented `str` admits `bytes` as well (`widen`, the library's notion of a string).
-/
namespace Amqp.C16
open Amqp

/-- table obligation: in every channel-level operation each parameter that reaches a frame has an
    exact type guard preceded only by argument tests, every type guard admits all documented
    types of its parameter, no argument test follows an effect, no state check raises
    AMQPInvalidArgument.  Fails to `decide` as soon as a guard is dropped, weakened, widened,
    moved behind an effect or a state check, or a new transmitted parameter is left unchecked. -/
theorem table_ok : ∀ op ∈ Gen.C16.ops, opOk op = true := by decide

/-- the same for the connection parameters named by the property -/
theorem conn_table_ok : connOk Gen.C16.connOp = true := by decide

/-- and for the Message operations (state check `not self._method` may precede the guards) -/
theorem message_table_ok : ∀ op ∈ Gen.C16.messageOps, messageOpOk op = true := by decide

/-- **Rejection before anything is sent.**  For every channel-level operation, every transmitted
    parameter, every assignment of arguments (of any runtime types), every client state and every
    broker behaviour: if the argument bound to that parameter is not of a documented type, the
    operation ends in AMQPInvalidArgument and no effect — lock, RPC registration, frame write,
    state write — has been started. -/
theorem ill_typed_rejected_before_effects (op : OpSpec) (hop : op ∈ Gen.C16.ops) (e : Env)
    (p : Param) (hp : p ∈ op.params) (ht : p.transmitted = true)
    (hw : wellTyped p (e.args p.name) = false) :
    runOp op e = ⟨some .invalidArgument, []⟩ := by
  have h := table_ok op hop
  simp only [opOk, Bool.and_eq_true, List.all_eq_true] at h
  have hc := h.1.1.1 p hp
  simp only [ht, Bool.not_true, Bool.false_or] at hc
  exact covered_rejects e p op.steps 0 hc hw

/-- **Connection parameters.**  Each of hostname, port, username, password, virtual_host, timeout
    and heartbeat is a constructor parameter that the socket/handshake code reads, and a value
    outside its documented type makes `Connection(...)` raise AMQPInvalidArgument before the IO
    layer, Channel0 or the heartbeat exist and before `open()` is attempted. -/
theorem conn_ill_typed_rejected (n : String) (hn : n ∈ connRequired) (e : Env) :
    ∃ p ∈ Gen.C16.connOp.params, p.name = n ∧ p.transmitted = true ∧
      (wellTyped p (e.args n) = false → runOp Gen.C16.connOp e = ⟨some .invalidArgument, []⟩) := by
  have h := conn_table_ok
  simp only [connOk, Bool.and_eq_true, List.all_eq_true] at h
  have hc := h.1.1.1 n hn
  simp only [List.any_eq_true, Bool.and_eq_true, beq_iff_eq] at hc
  obtain ⟨p, hp, ⟨hpn, hpt⟩, hcov⟩ := hc
  refine ⟨p, hp, hpn, hpt, ?_⟩
  intro hw
  subst hpn
  exact covered_rejects e p _ 0 hcov hw

/-- **AMQPInvalidArgument never comes late.**  Whenever a channel-level operation ends in
    AMQPInvalidArgument (and no broker-side failure is itself reported as one), nothing has been
    started. -/
theorem invalid_argument_only_before_effects (op : OpSpec) (hop : op ∈ Gen.C16.ops) (e : Env)
    (hf : ∀ k, e.fail k ≠ some .invalidArgument)
    (hr : (runOp op e).raised = some .invalidArgument) : (runOp op e).effects = [] := by
  have h := table_ok op hop
  simp only [opOk, Bool.and_eq_true] at h
  exact invalid_no_effects e hf op.steps 0 h.1.2 hr

theorem conn_invalid_argument_only_before_effects (e : Env)
    (hf : ∀ k, e.fail k ≠ some .invalidArgument)
    (hr : (runOp Gen.C16.connOp e).raised = some .invalidArgument) :
    (runOp Gen.C16.connOp e).effects = [] := by
  have h := conn_table_ok
  simp only [connOk, Bool.and_eq_true] at h
  exact invalid_no_effects e hf _ 0 h.1.2 hr

/-- **Converse.**  If every documented parameter is bound to a value of a documented type (or of
    the type of its default), no channel-level operation raises AMQPInvalidArgument — provided the
    non-type tests pass (`message_impl` derives from BaseMessage) and no broker-side failure is
    itself an AMQPInvalidArgument. -/
theorem well_typed_never_rejected (op : OpSpec) (hop : op ∈ Gen.C16.ops) (e : Env)
    (hw : ∀ p ∈ op.params, p.doc ≠ [] → wellTyped p (e.args p.name) = true)
    (ho : ∀ q, e.opaqueOk q = true) (hf : ∀ k, e.fail k ≠ some .invalidArgument) :
    (runOp op e).raised ≠ some .invalidArgument := by
  have h := table_ok op hop
  simp only [opOk, Bool.and_eq_true] at h
  exact no_false_reject e op.params hw ho hf op.steps 0 h.1.1.2 h.2

theorem conn_well_typed_never_rejected (e : Env)
    (hw : ∀ p ∈ Gen.C16.connOp.params, p.doc ≠ [] → wellTyped p (e.args p.name) = true)
    (ho : ∀ q, e.opaqueOk q = true) (hf : ∀ k, e.fail k ≠ some .invalidArgument) :
    (runOp Gen.C16.connOp e).raised ≠ some .invalidArgument := by
  have h := conn_table_ok
  simp only [connOk, Bool.and_eq_true] at h
  exact no_false_reject e _ hw ho hf _ 0 h.1.1.2 h.2

/-- the structural fact behind the tables (any chain of type guards, any arguments): the chain
    raises iff some guard's test fails — then nothing else happens — and falls through iff all pass -/
theorem guard_chain (e : Env) (gs : List (String × List Cls)) (k : Nat) :
    (run e (gs.map fun g => Step.guard g.1 g.2) k = ⟨some .invalidArgument, []⟩ ↔
      ∃ g ∈ gs, isinstance (e.args g.1) g.2 = false) ∧
    (run e (gs.map fun g => Step.guard g.1 g.2) k = ⟨none, []⟩ ↔
      ∀ g ∈ gs, isinstance (e.args g.1) g.2 = true) :=
  guard_chain_iff e gs k

/-! ### Message operations (delegations to Basic.*) -/

/-- the reading "Message.nack/reject/publish reject ill-typed arguments with AMQPInvalidArgument
    in every state" -/
def MessageFullStatement : Prop :=
  ∀ op ∈ Gen.C16.messageOps, ∀ (e : Env) (p : Param), p ∈ op.params → p.transmitted = true →
    wellTyped p (e.args p.name) = false → runOp op e = ⟨some .invalidArgument, []⟩

/-- … is false of the code as it is: on a message that did not come from the broker
    (`not self._method`), `Message.nack(requeue='x')` raises AMQPMessageError first (nothing is
    sent; the operation could not have sent anything in that state).  Message operations are not in
    the property's list of operations; recorded here for completeness. -/
theorem message_full_statement_false : ¬ MessageFullStatement := by
  intro h
  have := h ⟨"Message.nack",
      [{ name := "requeue", doc := [.bool], dflt := some .bool, transmitted := true }],
      [.stateRaise .messageError "not self._method", .guard "requeue" [.bool], .effect "write_frame"]⟩
    (by decide)
    { args := fun _ => mroStr, cond := fun _ => true, opaqueOk := fun _ => true, fail := fun _ => none }
    { name := "requeue", doc := [.bool], dflt := some .bool, transmitted := true }
    (by decide) rfl (by decide)
  revert this
  decide

/-- what holds: on a message received from the broker (no state check fires — the only state in
    which a Message operation can send anything) ill-typed `requeue`, `routing_key`, `exchange`,
    `mandatory`, `immediate`, and an ill-typed body/properties given to the constructor, are
    rejected with AMQPInvalidArgument before anything is sent.  Missing w.r.t.
    `MessageFullStatement`: the exception class on non-incoming messages (AMQPMessageError). -/
theorem message_ill_typed_rejected_partial (op : OpSpec) (hop : op ∈ Gen.C16.messageOps) (e : Env)
    (hc : ∀ c, e.cond c = false) (p : Param) (hp : p ∈ op.params) (ht : p.transmitted = true)
    (hw : wellTyped p (e.args p.name) = false) :
    runOp op e = ⟨some .invalidArgument, []⟩ := by
  have h := message_table_ok op hop
  simp only [messageOpOk, Bool.and_eq_true, List.all_eq_true] at h
  have hcov := h.1.1.1 p hp
  simp only [ht, Bool.not_true, Bool.false_or] at hcov
  exact covered_modulo_state_rejects e p hc op.steps 0 hcov hw

theorem message_well_typed_never_rejected (op : OpSpec) (hop : op ∈ Gen.C16.messageOps) (e : Env)
    (hw : ∀ p ∈ op.params, p.doc ≠ [] → wellTyped p (e.args p.name) = true)
    (ho : ∀ q, e.opaqueOk q = true) (hf : ∀ k, e.fail k ≠ some .invalidArgument) :
    (runOp op e).raised ≠ some .invalidArgument := by
  have h := message_table_ok op hop
  simp only [messageOpOk, Bool.and_eq_true] at h
  exact no_false_reject e op.params hw ho hf op.steps 0 h.1.1.2 h.2

/-! ### non-vacuity: concrete runs of the generated tables -/

/-- the tables are populated: 20 channel-level operations, 62 transmitted parameters -/
example : Gen.C16.ops.length = 20 := by decide
example : (Gen.C16.ops.flatMap (·.params)).countP (·.transmitted) = 62 := by decide

/-- Exchange.delete(if_unused='yes'): rejected, nothing started -/
example : (findOp Gen.C16.ops "Exchange.delete").map
    (fun op => runOp op ((defaultEnv op).withArg "if_unused" mroStr)) =
    some ⟨some .invalidArgument, []⟩ := by decide

/-- Exchange.delete() with defaults: goes through to the RPC -/
example : (findOp Gen.C16.ops "Exchange.delete").map (fun op => runOp op (defaultEnv op)) =
    some ⟨none, ["rpc_request"]⟩ := by decide

/-- Queue.declare(passive=1): an int is not a bool -/
example : (findOp Gen.C16.ops "Queue.declare").map
    (fun op => runOp op ((defaultEnv op).withArg "passive" mroInt)) =
    some ⟨some .invalidArgument, []⟩ := by decide

/-- Basic.ack(delivery_tag=True): bool is an int (its MRO contains int) -/
example : (findOp Gen.C16.ops "Basic.ack").map
    (fun op => runOp op ((defaultEnv op).withArg "delivery_tag" mroBool)) =
    some ⟨none, ["write_frame"]⟩ := by decide

/-- Queue.bind(arguments=OrderedDict()): a user subclass of dict passes; a list does not -/
example : (findOp Gen.C16.ops "Queue.bind").map
    (fun op => runOp op ((defaultEnv op).withArg "arguments" [.other 7, .dict, .object])) =
    some ⟨none, ["rpc_request"]⟩ := by decide
example : (findOp Gen.C16.ops "Queue.bind").map
    (fun op => runOp op ((defaultEnv op).withArg "arguments" mroList)) =
    some ⟨some .invalidArgument, []⟩ := by decide

/-- Basic.get with consumers on the channel: AMQPChannelError, but an ill-typed queue still wins -/
example : (findOp Gen.C16.ops "Basic.get").map
    (fun op => runOp op { defaultEnv op with cond := fun _ => true }) =
    some ⟨some .channelError, []⟩ := by decide
example : (findOp Gen.C16.ops "Basic.get").map
    (fun op => runOp op ({ defaultEnv op with cond := fun _ => true }.withArg "queue" mroNone)) =
    some ⟨some .invalidArgument, []⟩ := by decide

/-- a broker failure after the guards is reported as such, with the effect started -/
example : (findOp Gen.C16.ops "Queue.purge").map
    (fun op => runOp op { defaultEnv op with fail := fun _ => some .channelError }) =
    some ⟨some .channelError, ["rpc_request"]⟩ := by decide

/-- Connection(port='5672') and Connection(timeout=None) are rejected; timeout=0.5 is fine -/
example : runOp Gen.C16.connOp ((defaultEnv Gen.C16.connOp).withArg "port" mroStr) =
    ⟨some .invalidArgument, []⟩ := by decide
example : runOp Gen.C16.connOp ((defaultEnv Gen.C16.connOp).withArg "timeout" mroNone) =
    ⟨some .invalidArgument, []⟩ := by decide
example : (runOp Gen.C16.connOp ((defaultEnv Gen.C16.connOp).withArg "timeout" mroFloat)).raised = none := by
  decide

/-- the hypotheses of the converse are satisfiable: the default environment is well-typed -/
example : ∀ op ∈ Gen.C16.ops, ∀ p ∈ op.params, p.doc ≠ [] →
    wellTyped p ((defaultEnv op).args p.name) = true := by decide

end Amqp.C16
