import Amqp.Lemmas.Uri
/-!
# C18 — UriConnection uses exactly the parameters the URI states

Model: `Amqp/Model/Uri.lean` (`connectionParams`).  amqpstorm's own code — the scheme rewrite of
`compatibility.patch_uri`, and the expression that reaches each entry of `Connection.parameters`
through `UriConnection.__init__`, `_parse_uri_options` and `Connection.__init__` — is regenerated from
the source into `Gen/Uri.lean` on every run, so these theorems are re-proved against what the code
says now.  The documented defaults are written out literally in `expected` (Lemmas/Uri.lean), not
taken from the source.  `urlsplit/urlparse/unquote/parse_qs/int` are CPython library code, modelled
by hand and tied by correspondence.

`v6ok` is the verdict of the library's bracketed-host syntax check (`ipaddress`), a parameter.
-/
namespace Amqp.C18
open Amqp Amqp.Uri

/-- `quote(s, safe='')` produces only unreserved characters, '%' and hex digits: in particular none
    of the URI delimiters `: / ? # [ ] @ ; & = +`, no blanks, no control characters -/
theorem quote_safe (s : Str) : ∀ x ∈ quote s, tok x = true ∧
    x ≠ ':' ∧ x ≠ '/' ∧ x ≠ '?' ∧ x ≠ '#' ∧ x ≠ '[' ∧ x ≠ ']' ∧ x ≠ '@' ∧ x ≠ ';' ∧ x ≠ '&' ∧ x ≠ '=' ∧
    x ≠ '+' ∧ 37 ≤ x.toNat ∧ x.toNat ≤ 126 := by
  intro x hx
  have h := quote_tok s x hx
  have p := tok_props x h
  have r := urlCh_range x (urlCh_of_tok x h)
  exact ⟨h, p.2.2.2.2.1, p.2.2.2.1, p.1, p.2.1, p.2.2.2.2.2.2.1, p.2.2.2.2.2.2.2, p.2.2.2.2.2.1, p.2.2.1,
    class_ne tok x _ h (by decide), class_ne tok x _ h (by decide), class_ne tok x _ h (by decide), r.1, r.2⟩

/-- UTF-8 decoding (with replacement, as CPython does it) inverts UTF-8 encoding on every text -/
theorem utf8_roundtrip (s : Str) : utf8Dec (utf8 s) = s := utf8Dec_utf8 s

/-- **percent-decoding inverts percent-encoding for every Unicode text**, whatever characters it
    contains (reserved, control, non-ASCII, '%' itself) -/
theorem unquote_quote (s : Str) : unquote (quote s) = s := Amqp.Uri.unquote_quote s

/-- `patch_uri` rewrites exactly the scheme of an amqp/amqps URI and nothing after it -/
theorem patch_scheme (tls : Bool) (r : Str) : patchUri (amqpPrefix tls ++ r) = httpPrefix tls ++ r :=
  patchUri_amqp tls r

/-- **Main theorem.**  For every URI rendered from components — arbitrary Unicode username,
    password and virtual host (percent-encoded), a host that is a name / IPv4 literal / bracketed
    IPv6 literal or is omitted, a port in 1..65535 or omitted, heartbeat/timeout options in any
    order and multiplicity, either scheme, and *every subset of omitted components* — the
    connection parameters are exactly what the URI states: credentials and vhost equal the original
    texts, the host is the given one lower-cased without brackets, the port is the given one,
    `amqps` selects TLS, heartbeat and timeout are the integers of the first occurrence, and
    everything absent (or empty) takes its documented default (guest/guest, localhost, 5672 or 5671
    with TLS, '/', 60, 10). -/
theorem parse_render (v6ok : Str → Bool) (c : Components) (hw : c.WF v6ok) :
    connectionParams v6ok (render c) = .ok (expected c) := by
  unfold connectionParams
  rw [urlparse_render v6ok c hw]
  have hhb := optValue_query Gen.Uri.pHeartbeat rfl c.opts
  have htm := optValue_query Gen.Uri.pTimeout rfl c.opts
  simp only [Gen.Uri.pHeartbeat, Gen.Uri.pTimeout] at hhb htm
  rw [firstOpt_hb] at hhb
  rw [firstOpt_tmo] at htm
  simp only [bind, Except.bind, pure, Except.pure, Gen.Uri.pHeartbeat, Gen.Uri.pTimeout, hhb, htm]
  congr 1
  -- field by field
  have hhost : Gen.Uri.pHostname unquote (httpScheme c.tls) (c.host.map fun h => h.text.map Char.toLower)
      (uiUser c.user c.pass) (c.pass.map quote) c.port (renderPath c.vhost) = (expected c).hostname := by
    simp only [Gen.Uri.pHostname, expected]
    cases hh : c.host with
    | none => rfl
    | some h =>
      have hwf := hw.host h hh
      have hne : h.text.map Char.toLower ≠ [] := by
        cases h <;> simp only [Host.WF] at hwf <;> simp [Host.text, hwf.1]
      simp [strOr, hne]
  have huser : Gen.Uri.pUsername unquote (httpScheme c.tls) (c.host.map fun h => h.text.map Char.toLower)
      (uiUser c.user c.pass) (c.pass.map quote) c.port (renderPath c.vhost) = (expected c).username := by
    simp only [Gen.Uri.pUsername, expected]
    cases hu : c.user <;> cases hp : c.pass <;> simp only [uiUser, Option.getD_none, Option.getD_some]
    · exact cred_none
    · exact cred_some []
    · exact cred_some _
    · exact cred_some _
  have hpass : Gen.Uri.pPassword unquote (httpScheme c.tls) (c.host.map fun h => h.text.map Char.toLower)
      (uiUser c.user c.pass) (c.pass.map quote) c.port (renderPath c.vhost) = (expected c).password := by
    simp only [Gen.Uri.pPassword, expected]
    cases hp : c.pass
    · exact cred_none
    · exact cred_some _
  have hport : Gen.Uri.pPort unquote (httpScheme c.tls) (c.host.map fun h => h.text.map Char.toLower)
      (uiUser c.user c.pass) (c.pass.map quote) c.port (renderPath c.vhost) = (expected c).port := by
    simp only [Gen.Uri.pPort, expected]
    cases hp : c.port with
    | none => cases c.tls <;> decide
    | some n =>
      have := (hw.port n hp).1
      simp only [natOr]
      rw [if_neg (by omega)]
  have hvh : Gen.Uri.pVirtualHost unquote (httpScheme c.tls) (c.host.map fun h => h.text.map Char.toLower)
      (uiUser c.user c.pass) (c.pass.map quote) c.port (renderPath c.vhost) = (expected c).virtualHost := by
    simp only [Gen.Uri.pVirtualHost, expected]
    cases hv : c.vhost with
    | none => decide
    | some v =>
      simp only [renderPath, List.drop_succ_cons, List.drop_zero, Amqp.Uri.unquote_quote, strOrS, orDefault]
  have hssl : Gen.Uri.pSsl unquote (httpScheme c.tls) (c.host.map fun h => h.text.map Char.toLower)
      (uiUser c.user c.pass) (c.pass.map quote) c.port (renderPath c.vhost) = (expected c).ssl := by
    simp only [Gen.Uri.pSsl, expected]
    cases c.tls <;> decide
  rw [hhost, huser, hpass, hport, hvh, hssl]
  simp only [expected]
  cases firstHb c.opts <;> cases firstTmo c.opts <;> rfl

end Amqp.C18
