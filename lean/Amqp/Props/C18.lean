import Amqp.Lemmas.Uri
/-!
# C18 — UriConnection uses exactly the parameters the URI states

Model: `Amqp/Model/Uri.lean` (`connectionParams`).  amqpstorm's own code — the scheme rewrite of
`compatibility.patch_uri`, and the expression that reaches each entry of `Connection.parameters`
through `UriConnection.__init__`, `_parse_uri_options` and `Connection.__init__` — is regenerated from
the source into `Gen/Uri.lean` on every run, so these theorems are re-proved against what the code
says now.  The documented defaults are written out literally in `expected` (Lemmas/Uri.lean), not
taken from the source.  `urlsplit/urlparse/unquote/parse_qs/int` are CPython library code, modelled
by hand and tied by correspondence.

`v6ok` is the verdict of the library's bracketed-host syntax check (`ipaddress`), a parameter.
-/
namespace Amqp.C18
open Amqp Amqp.Uri

/-- `quote(s, safe='')` produces only unreserved characters, '%' and hex digits: in particular none
    of the URI delimiters `: / ? # [ ] @ ; & = +`, no blanks, no control characters -/
theorem quote_safe (s : Str) : ∀ x ∈ quote s, tok x = true ∧
    x ≠ ':' ∧ x ≠ '/' ∧ x ≠ '?' ∧ x ≠ '#' ∧ x ≠ '[' ∧ x ≠ ']' ∧ x ≠ '@' ∧ x ≠ ';' ∧ x ≠ '&' ∧ x ≠ '=' ∧
    x ≠ '+' ∧ 37 ≤ x.toNat ∧ x.toNat ≤ 126 := by
  intro x hx
  have h := quote_tok s x hx
  have p := tok_props x h
  have r : 37 ≤ x.toNat ∧ x.toNat ≤ 126 := by
    have h' := h
    simp only [tok, Bool.or_eq_true, beq_iff_eq] at h'
    rcases h' with ((((h' | h') | h') | h') | h') | h'
    · have := alnum_range x h'; omega
    all_goals (subst h'; decide)
  exact ⟨h, p.2.2.2.2.1, p.2.2.2.1, p.1, p.2.1, p.2.2.2.2.2.2.1, p.2.2.2.2.2.2.2, p.2.2.2.2.2.1, p.2.2.1,
    class_ne tok x _ h (by decide), class_ne tok x _ h (by decide), class_ne tok x _ h (by decide), r.1, r.2⟩

/-- UTF-8 decoding (with replacement, as CPython does it) inverts UTF-8 encoding on every text -/
theorem utf8_roundtrip (s : Str) : utf8Dec (utf8 s) = s := utf8Dec_utf8 s

/-- **percent-decoding inverts percent-encoding for every Unicode text**, whatever characters it
    contains (reserved, control, non-ASCII, '%' itself) -/
theorem unquote_quote (s : Str) : unquote (quote s) = s := Amqp.Uri.unquote_quote s

/-- `patch_uri` rewrites exactly the scheme of an amqp/amqps URI and nothing after it -/
theorem patch_scheme (tls : Bool) (r : Str) : patchUri (amqpPrefix tls ++ r) = httpPrefix tls ++ r :=
  patchUri_amqp tls r

/-- what a URI whose userinfo/path are the *written* (encoded) texts of `c` states: credentials and
    vhost are the percent-decoded texts, defaults for everything absent or empty -/
def expectedRaw (c : Components) : Params where
  hostname := match c.host with
    | none => localhost
    | some h => h.text.map Char.toLower
  username := decodedOr c.user guest
  password := decodedOr c.pass guest
  port := match c.port with
    | none => if c.tls then 5671 else 5672
    | some n => n
  virtualHost := match c.vhost with
    | none => ['/']
    | some e => if unquote e = [] then ['/'] else unquote e
  heartbeat := .int (match firstHb c.opts with | some n => n | none => 60)
  timeout := .int (match firstTmo c.opts with | some n => n | none => 10)
  ssl := c.tls

/-- the parameters of a rendered URI whose scheme prefix is written as `pre`, is turned into `P` by
    `patch_uri` and reported as `S` (the `http(s)` of the rewrite or the lower-cased `amqp(s)`) by the
    parser: the workhorse behind `parse_encoded` and `parse_encoded_cased` -/
theorem parse_body (v6ok : Str → Bool) (pre P S : Str) (hpatch : ∀ r, patchUri (pre ++ r) = P ++ r)
    (hPS : PrefixOk P S) (c : Components) (hS : S = httpScheme c.tls ∨ S = amqpScheme c.tls)
    (hw : c.WF v6ok) (he : c.EncOk) :
    connectionParams v6ok (pre ++ renderBody c) = .ok (expectedRaw c) := by
  unfold connectionParams
  rw [urlparse_body v6ok pre P S hpatch hPS c hw he]
  have hhb := optValue_query Gen.Uri.pHeartbeat rfl c.opts
  have htm := optValue_query Gen.Uri.pTimeout rfl c.opts
  simp only [Gen.Uri.pHeartbeat, Gen.Uri.pTimeout] at hhb htm
  rw [firstOpt_hb] at hhb
  rw [firstOpt_tmo] at htm
  simp only [bind, Except.bind, pure, Except.pure, Gen.Uri.pHeartbeat, Gen.Uri.pTimeout, hhb, htm]
  congr 1
  -- field by field
  have hhost : Gen.Uri.pHostname unquote S (c.host.map fun h => h.text.map Char.toLower)
      (uiUser c.user c.pass) c.pass c.port (renderPath c.vhost) = (expectedRaw c).hostname := by
    simp only [Gen.Uri.pHostname, expectedRaw]
    cases hh : c.host with
    | none => rfl
    | some h =>
      have hwf := hw.host h hh
      have hne : h.text.map Char.toLower ≠ [] := by
        cases h <;> simp only [Host.WF] at hwf <;> simp [Host.text, hwf.1]
      simp [strOr, hne]
  have huser : Gen.Uri.pUsername unquote S (c.host.map fun h => h.text.map Char.toLower)
      (uiUser c.user c.pass) c.pass c.port (renderPath c.vhost) = (expectedRaw c).username := by
    simp only [Gen.Uri.pUsername, expectedRaw]
    cases hu : c.user <;> cases hp : c.pass
    · exact cred_eq none
    · exact cred_eq (some [])
    · exact cred_eq (some _)
    · exact cred_eq (some _)
  have hpass : Gen.Uri.pPassword unquote S (c.host.map fun h => h.text.map Char.toLower)
      (uiUser c.user c.pass) c.pass c.port (renderPath c.vhost) = (expectedRaw c).password := by
    simp only [Gen.Uri.pPassword, expectedRaw]
    exact cred_eq c.pass
  have hport : Gen.Uri.pPort unquote S (c.host.map fun h => h.text.map Char.toLower)
      (uiUser c.user c.pass) c.pass c.port (renderPath c.vhost) = (expectedRaw c).port := by
    simp only [Gen.Uri.pPort, expectedRaw]
    cases hp : c.port with
    | none => rcases hS with rfl | rfl <;> cases c.tls <;> decide
    | some n =>
      have := (hw.port n hp).1
      simp only [natOr]
      rw [if_neg (by omega)]
  have hvh : Gen.Uri.pVirtualHost unquote S (c.host.map fun h => h.text.map Char.toLower)
      (uiUser c.user c.pass) c.pass c.port (renderPath c.vhost) = (expectedRaw c).virtualHost := by
    simp only [Gen.Uri.pVirtualHost, expectedRaw]
    cases hv : c.vhost with
    | none => decide
    | some v => simp only [renderPath, List.drop_succ_cons, List.drop_zero, strOrS]
  have hssl : Gen.Uri.pSsl unquote S (c.host.map fun h => h.text.map Char.toLower)
      (uiUser c.user c.pass) c.pass c.port (renderPath c.vhost) = (expectedRaw c).ssl := by
    simp only [Gen.Uri.pSsl, expectedRaw]
    rcases hS with rfl | rfl <;> cases c.tls <;> decide
  rw [hhost, huser, hpass, hport, hvh, hssl]
  simp only [expectedRaw]
  cases firstHb c.opts <;> cases firstTmo c.opts <;> rfl

/-- **Main theorem, any encoding.**  Take any URI `scheme://[user[:password]@][host][:port][/vhost][?options]`
    whose username, password and vhost are written in *any* form the URI grammar allows inside the
    component (unreserved characters, arbitrary `%XX` escapes in either case, raw sub-delims
    `! $ & ' ( ) * + , ; =`, also ':' in the password and ':' '@' in the vhost), host a name / IPv4 /
    bracketed IPv6 literal or omitted, port 1..65535 or omitted, heartbeat/timeout options in any
    order and multiplicity, either scheme, every subset of components omitted.  Then the connection
    parameters are exactly: the percent-decoded username, password and vhost; the host lower-cased
    without brackets; the port; `ssl` iff the scheme is amqps; heartbeat/timeout the integer of the
    first occurrence; and the documented default for everything absent or empty.
    (On the unfixed tree — `urlparse` instead of `urlsplit` — this fails: `amqp://h/a;b` gives vhost `a`.) -/
theorem parse_encoded (v6ok : Str → Bool) (c : Components) (hw : c.WF v6ok) (he : c.EncOk) :
    connectionParams v6ok (renderRaw c) = .ok (expectedRaw c) := by
  rw [renderRaw_eq]
  exact parse_body v6ok _ _ _ (patchUri_amqp c.tls) (httpPrefixOk c.tls) c (Or.inl rfl) hw he

/-- **Any spelling of the scheme.**  URI schemes are case-insensitive: with the scheme written in any
    mix of upper- and lower-case letters (`AMQPS://`, `Amqp://`, …) the parameters are the same as for
    the lower-case spelling; in particular `amqps` in any case selects TLS and port 5671.  Two sites
    cooperate here: `patch_uri` recognises only the lower-case spelling, and `UriConnection.__init__`
    accepts both `https` and the parser's lower-cased `amqps`. -/
theorem parse_encoded_cased (v6ok : Str → Bool) (k : Caps) (c : Components) (hw : c.WF v6ok) (he : c.EncOk) :
    connectionParams v6ok (renderRawCased k c) = .ok (expectedRaw c) := by
  rw [renderRawCased_eq]
  refine parse_body v6ok _ _ _ (patchUri_cased c.tls k) (patchedPrefixOk c.tls k) c ?_ hw he
  unfold reportedScheme
  split
  · exact Or.inl rfl
  · exact Or.inr rfl

/-- **Main theorem, canonical encoding.**  For every URI rendered from plain components — arbitrary
    Unicode username, password and virtual host percent-encoded with `quote(·, safe='')`, and hosts,
    ports, options, schemes and omissions as in `parse_encoded` — the parameters are exactly the
    original texts (and host, port, TLS flag, integers, defaults as stated by `expected`):
    guest/guest, localhost, 5672 or 5671 with TLS, '/', 60, 10 for whatever is absent. -/
theorem parse_render (v6ok : Str → Bool) (c : Components) (hw : c.WF v6ok) :
    connectionParams v6ok (render c) = .ok (expected c) := by
  have hw' : c.encode.WF v6ok := ⟨hw.host, hw.port⟩
  have := parse_encoded v6ok c.encode hw' (encode_ok c)
  rw [render, this]
  congr 1
  simp only [expectedRaw, expected, Components.encode, decodedOr_quote]
  congr 1
  cases hv : c.vhost with
  | none => rfl
  | some v =>
    simp only [Option.map_some, Amqp.Uri.unquote_quote, orDefault]

/-- `parse_render` for every spelling of the scheme -/
theorem parse_render_cased (v6ok : Str → Bool) (k : Caps) (c : Components) (hw : c.WF v6ok) :
    connectionParams v6ok (renderCased k c) = .ok (expected c) := by
  have hw' : c.encode.WF v6ok := ⟨hw.host, hw.port⟩
  rw [renderCased, parse_encoded_cased v6ok k c.encode hw' (encode_ok c), ← parse_render v6ok c hw, render,
    parse_encoded v6ok c.encode hw' (encode_ok c)]

/-- corollary: the spelling of the scheme never matters -/
theorem scheme_case_insensitive (v6ok : Str → Bool) (k : Caps) (c : Components) (hw : c.WF v6ok) :
    connectionParams v6ok (renderCased k c) = connectionParams v6ok (render c) := by
  rw [parse_render_cased v6ok k c hw, parse_render v6ok c hw]

/-- corollary: `amqps` in any spelling selects TLS and the TLS default port -/
theorem scheme_selects_tls_cased (v6ok : Str → Bool) (k : Caps) (c : Components) (hw : c.WF v6ok) (hp : c.port = none) :
    ∃ r, connectionParams v6ok (renderCased k c) = .ok r ∧ r.ssl = c.tls ∧
      r.port = if c.tls then 5671 else 5672 := by
  refine ⟨expected c, parse_render_cased v6ok k c hw, rfl, ?_⟩
  simp [expected, hp]

-- non-vacuity: `AMQPS://h` and `aMqP://h`, evaluated
example : renderCased ⟨true, true, true, true, true⟩ ⟨true, none, none, some (.name ['h']), none, none, []⟩ =
    ['A', 'M', 'Q', 'P', 'S', ':', '/', '/', 'h'] := by decide
example : (connectionParams (fun _ => true) ['A', 'M', 'Q', 'P', 'S', ':', '/', '/', 'h']).toOption.map (·.ssl) = some true := by
  decide
example : (connectionParams (fun _ => true) ['a', 'M', 'q', 'P', ':', '/', '/', 'h']).toOption.map (fun r => (r.ssl, r.port)) =
    some (false, 5672) := by decide

/-- corollary: a non-empty username, password and virtual host reach the parameters unchanged,
    whatever characters they contain -/
theorem credentials_exact (v6ok : Str → Bool) (c : Components) (hw : c.WF v6ok) (u p v : Str)
    (hu : c.user = some u) (hp : c.pass = some p) (hv : c.vhost = some v)
    (hu0 : u ≠ []) (hp0 : p ≠ []) (hv0 : v ≠ []) :
    ∃ r, connectionParams v6ok (render c) = .ok r ∧ r.username = u ∧ r.password = p ∧ r.virtualHost = v := by
  refine ⟨expected c, parse_render v6ok c hw, ?_, ?_, ?_⟩ <;>
    simp [expected, orDefault, hu, hp, hv, hu0, hp0, hv0]

/-- corollary: the scheme alone decides TLS and the default port -/
theorem scheme_selects_tls (v6ok : Str → Bool) (c : Components) (hw : c.WF v6ok) (hp : c.port = none) :
    ∃ r, connectionParams v6ok (render c) = .ok r ∧ r.ssl = c.tls ∧
      r.port = if c.tls then 5671 else 5672 := by
  refine ⟨expected c, parse_render v6ok c hw, rfl, ?_⟩
  simp [expected, hp]

/-- corollary: a URI that states nothing but its scheme yields exactly the documented defaults -/
theorem all_defaults (v6ok : Str → Bool) (tls : Bool) :
    connectionParams v6ok (render ⟨tls, none, none, none, none, none, []⟩) =
      .ok ⟨localhost, guest, guest, if tls then 5671 else 5672, ['/'], .int 60, .int 10, tls⟩ := by
  rw [parse_render v6ok _ ⟨fun _ h => (by cases h), fun _ h => (by cases h)⟩]
  cases tls <;> rfl

/-- error branch, as the code is: a port above 65535 makes `UriConnection` raise `ValueError`
    (from `urlparse(...).port`), whatever the other components are -/
theorem port_out_of_range (v6ok : Str → Bool) (c : Components) (hwh : ∀ h, c.host = some h → h.WF v6ok)
    (n : Nat) (hp : c.port = some n) (hn : 65535 < n) :
    connectionParams v6ok (render c) = .error .valueError := by
  unfold connectionParams render
  rw [urlparse_render' v6ok c.encode hwh (encode_ok c)]
  have : c.encode.port = some n := hp
  rw [this]
  simp only [Option.map_some, portOf_toDec_big n hn]
  rfl

/-- as the code is: port 0 is falsy in `parsed_uri.port or default`, so `:0` selects the default
    port (this is why `Components.WF` asks for ports in 1..65535) -/
theorem port_zero_is_default (v6ok : Str → Bool) (c : Components) (hwh : ∀ h, c.host = some h → h.WF v6ok)
    (hp : c.port = some 0) :
    ∃ r, connectionParams v6ok (render c) = .ok r ∧ r.port = if c.tls then 5671 else 5672 := by
  have hw : ({ c with port := none } : Components).WF v6ok := ⟨hwh, fun _ h => by cases h⟩
  have hmain := parse_render v6ok { c with port := none } hw
  have hport : portOf (c.encode.port.map toDec) = .ok (some 0) := by
    have : c.encode.port = some 0 := hp
    rw [this]; exact portOf_toDec 0 (by omega)
  unfold connectionParams render at hmain ⊢
  rw [urlparse_render' v6ok c.encode hwh (encode_ok c), hport]
  rw [urlparse_render' v6ok ({ c with port := none } : Components).encode hw.host (encode_ok _)] at hmain
  simp only [Components.encode, Option.map_none, portOf] at hmain
  simp only [bind, Except.bind, pure, Except.pure, Components.encode] at hmain ⊢
  cases hb : optValue Gen.Uri.pHeartbeat (parseQsl (queryText c.opts)) with
  | error e => simp [hb] at hmain
  | ok hbv =>
    cases ht : optValue Gen.Uri.pTimeout (parseQsl (queryText c.opts)) with
    | error e => simp [hb, ht] at hmain
    | ok tv =>
      simp only [hb, ht, Except.ok.injEq] at hmain ⊢
      refine ⟨_, rfl, ?_⟩
      simp only [Gen.Uri.pPort, natOr]
      cases c.tls <;> decide

/-! ## Non-vacuity: concrete URIs evaluated by the kernel -/

/-- reserved characters, '%' itself, non-ASCII and astral code points in the credentials and vhost -/
def sample : Components :=
  ⟨true, some "us:er@/é".toList, some "p%40 ss#?€😀".toList, some (.v6 "FE80::1".toList), some 5673,
   some "/a b/%2F".toList, [.timeout 7, .heartbeat 0, .heartbeat 9]⟩

set_option maxRecDepth 8192 in
example : render sample =
    "amqps://us%3Aer%40%2F%C3%A9:p%2540%20ss%23%3F%E2%82%AC%F0%9F%98%80@[FE80::1]:5673/%2Fa%20b%2F%252F?timeout=7&heartbeat=0&heartbeat=9".toList := by
  decide

example : sample.WF (fun _ => true) :=
  ⟨fun h hh => (by cases hh; exact ⟨by decide, by decide, rfl⟩), fun n hn => (by cases hn; decide)⟩

set_option maxRecDepth 8192 in
example : connectionParams (fun _ => true) (render sample) =
    .ok ⟨"fe80::1".toList, "us:er@/é".toList, "p%40 ss#?€😀".toList, 5673, "/a b/%2F".toList, .int 0, .int 7, true⟩ := by
  decide

example : connectionParams (fun _ => true) "amqp://".toList =
    .ok ⟨localhost, guest, guest, 5672, ['/'], .int 60, .int 10, false⟩ := by decide
example : connectionParams (fun _ => true) "amqps://:pw@:1/".toList =
    .ok ⟨localhost, guest, "pw".toList, 1, ['/'], .int 60, .int 10, true⟩ := by decide
example : connectionParams (fun _ => true) "amqp://My-Host.Example:5672/%2F?heartbeat=360".toList =
    .ok ⟨"my-host.example".toList, guest, guest, 5672, ['/'], .int 360, .int 10, false⟩ := by decide
/-- error branches of the code as it is -/
example : connectionParams (fun _ => true) "amqp://h:x/".toList = .error .valueError := by decide
example : connectionParams (fun _ => true) "amqp://h:70000/".toList = .error .valueError := by decide
example : connectionParams (fun _ => true) "amqp://h/?heartbeat=abc".toList = .error .valueError := by decide
example : connectionParams (fun _ => false) "amqp://[::g]/".toList = .error .valueError := by decide
example : connectionParams (fun _ => true) "amqp://[::1/".toList = .error .valueError := by decide
/-- a raw ';' stays in the vhost (the fixed code calls `urlsplit`; `urlparse` used to cut `;p` off) -/
example : (connectionParams (fun _ => true) "amqp://h/v;p".toList).toOption.map (·.virtualHost) = some ['v', ';', 'p'] := by
  decide
/-- non-canonical encodings: lower-case escapes, escaped unreserved characters, raw sub-delims -/
example : connectionParams (fun _ => true) "amqp://u%73er;x:p%3a:w+d@h/a;b@c:%2f".toList =
    .ok ⟨['h'], "user;x".toList, "p::w+d".toList, 5672, "a;b@c:/".toList, .int 60, .int 10, false⟩ := by decide
/-- invalid UTF-8 escapes decode to U+FFFD like CPython's `errors='replace'` -/
example : unquote "%E2%82%AC%FF%E2%82".toList = ['€', Char.ofNat 0xFFFD, Char.ofNat 0xFFFD] := by decide

end Amqp.C18
