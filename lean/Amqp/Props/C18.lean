import Amqp.Model.Uri
namespace Amqp.C18
open Amqp Amqp.Uri

theorem placeholder : unquote [] = [] := rfl

end Amqp.C18
