import Amqp.Lemmas.Alloc
import Amqp.Gen.Skel
import Amqp.Gen.ChanErr
/-!
# C10 — channel numbers are unique among live channels, bounded and safely reused

Transition system `Amqp.Alloc`: any interleaving of `Connection.channel()` calls (allocation +
registration + begin of `Channel.open()` are one atomic step because they happen under the
connection lock — tie: `skel_Connection_channel`), application closes, broker closes and forced
clean-ups, by any number of threads.  "In use" = state ≠ CLOSED.  Scope note: a channel obtained
with `lazy=True` is CLOSED until the application opens it and its id is deliberately reusable (the
existing unit tests pin that); opening such a stale handle later is outside the op alphabet.
-/
namespace Amqp.C10
open Amqp Amqp.Alloc

/-- every live channel object is the one registered under its id -/
def Inv (a : A) : Prop :=
  ∀ (o : Nat) (ob : Obj), a.objs[o]? = some ob → live ob → a.chans.lookup ob.cid = some o

theorem inv_init (m : Nat) : Inv (init m) := by
  intro o ob h; simp [init] at h

theorem free_not_live (a : A) (h : Inv a) (i : Nat) (hf : free a i = true) :
    ∀ (o : Nat) (ob : Obj), a.objs[o]? = some ob → ob.cid = i → ¬ live ob := by
  intro o ob hob hc hl
  have hreg := h o ob hob hl
  rw [hc] at hreg
  simp only [free, stateOf, hreg, Option.bind_some, hob, Option.map_some] at hf
  have : Gen.Alloc.skips ob.state = true := (skips_iff ob.state).mpr hl
  rw [this] at hf; simp at hf

theorem getElem?_setState (a : A) (o st o' : Nat) :
    (setState a o st).objs[o']? =
      if o = o' then a.objs[o']?.map (fun ob => { ob with state := st }) else a.objs[o']? := by
  simp only [setState, List.getElem?_modify]
  split <;> simp [*]

theorem setState_inv (a : A) (o st : Nat) (h : Inv a)
    (hlive : st ≠ Gen.Const.stateClosed → ∀ ob, a.objs[o]? = some ob → live ob) : Inv (setState a o st) := by
  intro o' ob' hob' hl'
  rw [getElem?_setState] at hob'
  split at hob'
  · rename_i heq
    subst heq
    rcases hprev : a.objs[o]? with _ | ob
    · rw [hprev] at hob'; cases hob'
    · rw [hprev] at hob'
      simp only [Option.map_some, Option.some.injEq] at hob'
      subst hob'
      have hst : st ≠ Gen.Const.stateClosed := hl'
      exact h o ob hprev (hlive hst ob hprev)
  · exact h o' ob' hob' hl'

theorem step_inv (a a' : A) (x : Act) (r : Bool) (h : Inv a) (hs : step a x = some (r, a')) : Inv a' := by
  cases x with
  | open_ =>
    simp only [step] at hs
    split at hs
    · rename_i i a1 hn
      cases hs
      obtain ⟨_, _, hfree, hch, hobjs, _, _⟩ := nextId_some a i a1 hn
      have hnl := free_not_live a h i hfree
      intro o ob hob hl
      simp only at hob ⊢
      rw [hobjs] at hob ⊢
      rw [List.getElem?_append] at hob
      split at hob
      · -- an old object
        have hci : ob.cid ≠ i := fun hc => hnl o ob hob hc hl
        rw [lookup_dset_ne _ _ _ _ hci, hch, lookup_ddel_ne _ _ _ hci]
        exact h o ob hob hl
      · rename_i hge
        have : o = a.objs.length := by
          rcases Nat.lt_or_ge (o - a.objs.length) 1 with hlt | hge1
          · omega
          · simp [List.getElem?_eq_none (l := [(⟨i, Gen.Const.stateOpening⟩ : Obj)]) (by simpa using hge1)] at hob
        subst this
        simp at hob
        subst hob
        exact lookup_dset_same _ _ _
    · rename_i a1 hn
      obtain ⟨_, hch, hobjs, _⟩ := nextId_none a a1 hn
      cases hs
      intro o ob hob hl
      rw [hobjs] at hob; rw [hch]; exact h o ob hob hl
  | opened o =>
    simp only [step] at hs
    split at hs
    · rename_i ob hob
      split at hs
      · rename_i hst; cases hs
        exact setState_inv a o _ h (fun _ ob' hob' => by
          rw [hob] at hob'; cases hob'; simp [live, hst, Gen.Const.stateOpening, Gen.Const.stateClosed])
      · cases hs
    · cases hs
  | closeStart o =>
    simp only [step] at hs
    split at hs
    · rename_i ob hob
      split at hs
      · rename_i hst; cases hs
        exact setState_inv a o _ h (fun _ ob' hob' => by
          rw [hob] at hob'; cases hob'; simp [live, hst, Gen.Const.stateOpen, Gen.Const.stateClosed])
      · cases hs
    · cases hs
  | closeBroker o =>
    simp only [step] at hs
    split at hs
    · rename_i ob hob
      split at hs
      · rename_i hst; cases hs
        exact setState_inv a o _ h (fun _ ob' hob' => by
          rw [hob] at hob'; cases hob'; exact hst)
      · cases hs
    · cases hs
  | closed o =>
    simp only [step] at hs
    split at hs
    · rename_i ob hob
      split at hs
      · cases hs
        exact setState_inv a o _ h (fun hne => absurd rfl hne)
      · cases hs
    · cases hs
  | cleanup o =>
    simp only [step] at hs
    split at hs
    · rename_i ob hob
      split at hs
      · rename_i hreg
        cases hs
        have h1 : Inv (setState a o Gen.Const.stateClosed) :=
          setState_inv a o _ h (fun hne => absurd rfl hne)
        intro o' ob' hob' hl'
        simp only at hob' ⊢
        have hreg' := h1 o' ob' hob' hl'
        by_cases hc : ob'.cid = ob.cid
        · -- then o' is the registered object o, which is now CLOSED: contradiction with live
          exfalso
          simp only [setState] at hreg'
          rw [hc, hreg] at hreg'
          have : o' = o := (Option.some.inj hreg').symm
          subst this
          rw [getElem?_setState, if_pos rfl, hob] at hob'
          simp at hob'; subst hob'
          exact hl' rfl
        · simp only [setState] at hreg' ⊢
          rw [lookup_ddel_ne _ _ _ hc]; exact hreg'
      · cases hs
    · cases hs

theorem run_inv : ∀ (xs : List Act) (a a' : A), Inv a → run a xs = some a' → Inv a' := by
  intro xs
  induction xs with
  | nil => intro a a' h hr; simp [run] at hr; subst hr; exact h
  | cons x xs ih =>
    intro a a' h hr
    simp only [run] at hr
    split at hr
    · cases hr
    · rename_i r a1 hs
      exact ih a1 a' (step_inv a a1 x r h hs) hr

def Reachable (m : Nat) (a : A) : Prop := ∃ xs, run (init m) xs = some a

/-- **Uniqueness**: in every reachable state, two channel objects that are in use at the same time
    never share a channel number — for any number of opening/closing threads and any history. -/
theorem live_distinct (m : Nat) (a : A) (hr : Reachable m a) (o1 o2 : Nat) (b1 b2 : Obj)
    (h1 : a.objs[o1]? = some b1) (h2 : a.objs[o2]? = some b2) (hc : b1.cid = b2.cid)
    (l1 : live b1) (l2 : live b2) : o1 = o2 := by
  obtain ⟨xs, hx⟩ := hr
  have hinv := run_inv xs (init m) a (inv_init m) hx
  have e1 := hinv o1 b1 h1 l1
  have e2 := hinv o2 b2 h2 l2
  rw [hc, e2] at e1
  exact (Option.some.inj e1).symm

/-- **Range**: an allocated number lies in 1..max_allowed_channels -/
theorem alloc_in_range (a a' : A) (i : Nat) (h : nextId a = (some i, a')) : 1 ≤ i ∧ i ≤ a.max :=
  ⟨(nextId_some a i a' h).1, (nextId_some a i a' h).2.1⟩

/-- **Reuse only after close**: a number is handed out only if every channel object that ever
    carried it is CLOSED -/
theorem reuse_after_close (m : Nat) (a a' : A) (hr : Reachable m a) (i : Nat)
    (h : nextId a = (some i, a')) :
    ∀ (o : Nat) (ob : Obj), a.objs[o]? = some ob → ob.cid = i → ob.state = Gen.Const.stateClosed := by
  obtain ⟨xs, hx⟩ := hr
  have hinv := run_inv xs (init m) a (inv_init m) hx
  intro o ob hob hc
  have := free_not_live a hinv i (nextId_some a i a' h).2.2.1 o ob hob hc
  simpa [live] using this

/-- **Exhaustion raises**: `nextId` raises (returns no id) exactly when every number in
    1..max is taken by a registered channel that is not CLOSED; it never blocks and never
    duplicates. -/
theorem exhausted_raises (a : A) :
    (nextId a).1 = none ↔ ∀ i, 1 ≤ i → i ≤ a.max → free a i = false := by
  constructor
  · intro h
    rcases hn : nextId a with ⟨r, a'⟩
    rw [hn] at h; simp only at h; subst h
    exact (nextId_none a a' hn).1
  · exact nextId_exhausted a

/-- `_close_channel`: CLOSING first (an application `close()` that comes now backs off, the number is not free
    yet), then the CloseOk, then the local clean-up, the reason, and CLOSED last (regenerated) -/
theorem close_channel_order : Gen.ChanErr.closeChannelOrder =
    ["state:CLOSING", "closeok", "drop-tags", "clear-inbound", "reason", "state:CLOSED"] := by decide

/-- opening a channel when all numbers are in use reports the error and changes neither the
    registry nor any channel -/
theorem open_when_exhausted (a a' : A) (r : Bool) (hex : ∀ i, 1 ≤ i → i ≤ a.max → free a i = false)
    (hs : step a .open_ = some (r, a')) : r = true ∧ a'.chans = a.chans ∧ a'.objs = a.objs := by
  simp only [step] at hs
  split at hs
  · rename_i i a1 hn
    have := nextId_exhausted a hex
    rw [hn] at this; cases this
  · rename_i a1 hn
    obtain ⟨_, h2, h3, _⟩ := nextId_none a a1 hn
    cases hs
    exact ⟨rfl, h2, h3⟩

/-! ## Tie obligations (skeletons regenerated from /repo) -/
theorem skel_Connection_channel : Gen.Skel.Connection_channel =
  ["if", "then", "raise:AMQPInvalidArgument", "else", "if", "r:is_closed", "then",
    "raise:AMQPConnectionError", "endif", "endif", "acq:lock", "call:_get_next_available_channel_id",
    "call:Channel", "w:_channels[]", "if", "then", "call:channel.open", "endif", "rel:lock",
    "r:_channels", "return"] := by decide

theorem skel_Connection__get_next_available_channel_id :
    Gen.Skel.Connection__get_next_available_channel_id =
  ["for", "r:_last_channel_id", "r:max_allowed_channels", "do", "if", "r:_channels", "then",
    "r:_channels", "if", "then", "continue", "endif", "del:_channels[]", "endif",
    "w:_last_channel_id", "return", "endfor", "if", "r:_last_channel_id", "then",
    "w:_last_channel_id", "call:_get_next_available_channel_id", "return", "endif",
    "r:max_allowed_channels", "raise:AMQPConnectionError"] := by decide

theorem skel_Connection__cleanup_channel : Gen.Skel.Connection__cleanup_channel =
  ["acq:lock", "if", "r:_channels", "then", "return", "endif", "del:_channels[]", "rel:lock"] := by decide

/-! ## Non-vacuity -/
example : (run (init 2) [.open_, .open_, .opened 0, .closeStart 0, .closed 0, .open_]).map
    (fun a => (a.objs, a.chans, a.last)) =
    some ([⟨1, 0⟩, ⟨2, 2⟩, ⟨1, 2⟩], [(1, 2), (2, 1)], 1) := by decide
example : (step { (init 1) with objs := [⟨1, 3⟩], chans := [(1, 0)], last := 1 } .open_).map (·.1) = some true := by
  decide

end Amqp.C10

/-! ## Re-opening a closed channel object (`Alloc.reopen`)

`Channel.open()` is public and C08 speaks about re-opened channels, so an application may call it on
a channel object it closed earlier.  The method does not consult the connection's registry
(`skel_Channel_open`).  As long as the object is still the one registered under its number the
invariant - and with it uniqueness - survives; once the number has been handed to a newer channel
it does not: the unchanged code then has two channels in use with one number (a finding, replayed on
the implementation by `props/c10.py`, history `stale-reopen`). -/
namespace Amqp.C10
open Amqp Amqp.Alloc

/-- `Channel.open` as the model reads it: reset, OPENING, the Channel.Open RPC, OPEN - no look at
    `Connection._channels` -/
theorem skel_Channel_open : Gen.Skel.Channel_open =
    ["r:_inbound", "call:_inbound.clear", "w:_returned_content_left", "w:_exceptions",
     "w:_confirming_deliveries", "call:set_state", "call:rpc_request", "call:set_state"] := by decide

/-- re-opening the object that is still registered under its number keeps every live channel the
    registered one (so `live_distinct` continues to hold) -/
theorem reopen_registered_inv (a a' : A) (o : Nat) (ob : Obj) (h : Inv a) (hob : a.objs[o]? = some ob)
    (hreg : a.chans.lookup ob.cid = some o) (hr : reopen a o = some a') : Inv a' := by
  simp only [reopen, hob] at hr
  split at hr
  · injection hr with hr; subst hr
    intro o' ob' hob' hl'
    rw [getElem?_setState] at hob'
    split at hob'
    · rename_i heq; subst heq
      rw [hob] at hob'
      simp only [Option.map_some, Option.some.injEq] at hob'
      subst hob'
      exact hreg
    · exact h o' ob' hob' hl'
  · cases hr

/-- **Finding (negation witness)**: open a channel, close it, open another - it gets the same number,
    as it should - and re-open the first object: two channel objects in use share number 1. -/
theorem stale_reopen_shares_a_number :
    ∃ a a' b1 b2, run (init 1) [.open_, .opened 0, .closeStart 0, .closed 0, .open_] = some a ∧
      reopen a 0 = some a' ∧ a'.objs[0]? = some b1 ∧ a'.objs[1]? = some b2 ∧
      b1.cid = b2.cid ∧ live b1 ∧ live b2 := by
  refine ⟨_, _, _, _, rfl, rfl, rfl, rfl, rfl, ?_, ?_⟩ <;> (unfold live; decide)

/-- `live_distinct` for histories that also contain re-opens of still-registered objects
    (`…_partial`: re-opens of objects whose number was handed on are excluded - see the witness) -/
inductive ReachableR (m : Nat) : A → Prop
  | init : ReachableR m (init m)
  | step (a a' : A) (x : Act) (r : Bool) : ReachableR m a → step a x = some (r, a') → ReachableR m a'
  | reopen (a a' : A) (o : Nat) (ob : Obj) : ReachableR m a → a.objs[o]? = some ob →
      a.chans.lookup ob.cid = some o → reopen a o = some a' → ReachableR m a'

theorem reachableR_inv (m : Nat) (a : A) (hr : ReachableR m a) : Inv a := by
  induction hr with
  | init => exact inv_init m
  | step a a' x r _ hs ih => exact step_inv a a' x r ih hs
  | reopen a a' o ob _ hob hreg hro ih => exact reopen_registered_inv a a' o ob ih hob hreg hro

theorem live_distinct_with_reopen_partial (m : Nat) (a : A) (hr : ReachableR m a) (o1 o2 : Nat) (b1 b2 : Obj)
    (h1 : a.objs[o1]? = some b1) (h2 : a.objs[o2]? = some b2) (hc : b1.cid = b2.cid)
    (l1 : live b1) (l2 : live b2) : o1 = o2 := by
  have hinv : Inv a := reachableR_inv m a hr
  have e1 := hinv o1 b1 h1 l1
  have e2 := hinv o2 b2 h2 l2
  rw [hc, e2] at e1
  exact (Option.some.inj e1).symm

end Amqp.C10
