import Amqp.Model.Close
import Amqp.Lemmas.Errors
import Amqp.Lemmas.Alloc
import Amqp.Gen.Skel
import Amqp.Gen.ChanErr
/-!
# C11 — close handshakes are completed exactly once in both directions

(a) broker-initiated channel close: `Errors.onChannelClose` (the C07 model), CloseOk count;
(b) application `Channel.close()`: `Close.chanClose` for one closer; two concurrent closers are a
    recorded finding (`TwoClosersSendOne` is refuted; see known_findings.json);
(c) `Connection.close()` by any number of threads, interleaved arbitrarily with the reader:
    transition system `Close.step`.
Lock scope of `Connection.close`, the iteration source of `stop_consuming` and the CloseOk path are
regenerated from the source.
-/
namespace Amqp.C11
open Amqp.ChanErr Amqp.Errors Amqp.Close

theorem gen_flags : Gen.Close.connCloseUnderLock = true ∧ Gen.Close.stopIteratesCopy = true ∧
    Gen.ChanErr.closeOkBypassesChannelCheck = true := by decide

/-! ## (a) the broker closes a channel -/

/-- **Exactly one Channel.CloseOk, on that channel, whatever errors were pending on it**, as long
    as the connection is up. -/
theorem broker_close_one_closeok (c : C) (i code : Nat) (hup : c.connState ≠ closed) :
    (onChannelClose c i code).closeOkSent = c.closeOkSent ++ [i] := by
  simp [onChannelClose, hup, gen_flags.2.2]

/-- with the connection down nothing is (or could be) sent -/
theorem broker_close_conn_down (c : C) (i code : Nat) (hdown : c.connState = closed) :
    (onChannelClose c i code).closeOkSent = c.closeOkSent := by
  simp [onChannelClose, hdown]

/-- consumers and undelivered messages of that channel are dropped -/
theorem broker_close_drops (c : C) (i code : Nat) (ch : Chan) (hi : c.chans[i]? = some ch) :
    ((onChannelClose c i code).chans[i]?).map (fun x => (x.tags, x.inbound, x.state)) = some ([], 0, closed) := by
  simp [onChannelClose, getElem?_modify_eq, hi]

/-- **operations attempted on it afterwards fail without sending anything**: every operation starts
    with `check_for_errors`, which raises (so the write that would follow is never reached). -/
theorem later_ops_send_nothing (c : C) (i code : Nat) (ch : Chan) (hi : c.chans[i]? = some ch)
    (hc : c.connState = open_ ∧ c.connErrs = []) :
    (opCheck (onChannelClose c i code) i).1.isSome = true := by
  have hget : (onChannelClose c i code).chans[i]? =
      some { state := closed, tags := [], inbound := 0, errs := .chan (some code) :: ch.errs } := by
    simp [onChannelClose, getElem?_modify_eq, hi, (by decide : Gen.ChanErr.closeReasonAtFront = true)]
  rw [opCheck_fst, view_some _ i _ hget]
  have h1 : (onChannelClose c i code).connState = open_ := hc.1
  have h2 : (onChannelClose c i code).connErrs = [] := hc.2
  rw [h1, h2]
  simp [chanCheck, connCheck, chanCheckExceptions, (by decide : open_ ≠ closed)]

/-! ## (b) the application closes a channel -/

/-- the early-return guard of `Channel.close()` is `not self.is_open` (regenerated) -/
theorem gen_close_guard : Gen.Close.closeBacksOffUnlessOpen = true := by decide

/-- `Channel.close()` sends its Channel.Close also when cancelling a consumer failed, and waits for CloseOk
    judged by the connection only: an error parked on the closing channel cannot abort the handshake
    (regenerated; the model's `chanClose` sends the frame and ends with the RPC's outcome whatever `cancelsFail` is) -/
theorem gen_close_request : Gen.Close.closeSentEvenIfCancelFails = true ∧ Gen.Close.closeWaitJudgedByConnection = true := by decide

/-- `stop_consuming` sends a Basic.Cancel for every consumer that was active -/
theorem stop_cancels_all (tags : List String) : stopConsuming tags = tags := by
  simp [stopConsuming, gen_flags.2.1]

/-- why the copy matters: iterating the list that `basic.cancel` shrinks skips every other tag -/
theorem in_place_iteration_skips : cancelLoopInPlace 4 0 ["t0", "t1", "t2", "t3"] = ["t0", "t2"] := by decide

/-- **One closer, open channel, connection up**: the consumers are cancelled first (all of them),
    then exactly one Channel.Close with the given code and text is sent; and the channel is left
    CLOSED, consumers and undelivered messages dropped, **however the wait for CloseOk ends**. -/
theorem app_close_once (c : ChanSt) (code : Nat) (text : String) (e : RpcEnd)
    (hopen : c.state = open_) (hup : c.connClosed = false) :
    (chanClose c code text false e).1 = c.tags.map Sent.cancel ++ [Sent.close code text] ∧
    (chanClose c code text false e).2.1 = { c with state := closed, tags := [], inbound := 0 } ∧
    ((chanClose c code text false e).2.2 = true ↔ e ≠ .closeOk) := by
  simp [chanClose, hopen, hup, stop_cancels_all, gen_close_guard]

theorem app_close_exactly_one_close_frame (c : ChanSt) (code : Nat) (text : String) (fail : Bool) (e : RpcEnd)
    (hopen : c.state = open_) (hup : c.connClosed = false) :
    ((chanClose c code text fail e).1.filter (fun s => match s with | .close _ _ => true | _ => false)) =
      [Sent.close code text] := by
  simp only [chanClose, hopen, hup, gen_close_guard, ne_eq, not_true_eq_false, Bool.false_eq_true, or_self, if_false, if_true]
  rw [List.filter_append]
  have : ∀ l : List String, (l.map Sent.cancel).filter (fun s => match s with | .close _ _ => true | _ => false) = [] := by
    intro l; induction l <;> simp_all
  split
  · rw [← List.map_take, this]; rfl
  · rw [this]; rfl

/-- closing a channel that is already closed sends nothing (second sequential `close()`) -/
theorem app_close_again_sends_nothing (c : ChanSt) (code : Nat) (text : String) (f : Bool) (e : RpcEnd)
    (hclosed : c.state = closed) :
    (chanClose c code text f e).1 = [] ∧ (chanClose c code text f e).2.1.state = closed := by
  have : closed ≠ open_ := by decide
  simp [chanClose, hclosed, this, gen_close_guard]

/-- **A `close()` that finds the channel already CLOSING (another closer, or the broker's close being
    handled) or OPENING sends no Channel.Close**: it only completes the local shutdown. -/
theorem app_close_on_nonopen_sends_no_close (c : ChanSt) (code : Nat) (text : String) (f : Bool) (e : RpcEnd)
    (hn : c.state ≠ open_) :
    ((chanClose c code text f e).1.filter (fun s => match s with | .close _ _ => true | _ => false)) = [] ∧
    (chanClose c code text f e).2.1.state = closed ∧ (chanClose c code text f e).2.2 = false := by
  have hf : ∀ l : List String, (l.map Sent.cancel).filter (fun s => match s with | .close _ _ => true | _ => false) = [] := by
    intro l; induction l <;> simp_all
  simp only [chanClose, gen_close_guard, if_true, hn, ne_eq, not_false_eq_true, or_true]
  refine ⟨?_, trivial, trivial⟩
  split
  · exact hf _
  · rfl

/-- Full statement for two *concurrent* closers: only one Channel.Close goes out. -/
def TwoClosersSendOne : Prop :=
  ∀ sched : List Bool, (sched.foldl stepRace2 {}).closesSent ≤ 1

/-- It is false of the code: `Channel.close()` tests `is_open` and sets CLOSING without any lock, so
    two threads can both pass the test (recorded as a finding; replayed on the real code). -/
theorem two_closers_send_two : ¬ TwoClosersSendOne := by
  intro h
  have := h [true, false, true, false, true, false]
  revert this; decide

/-- … while a second `close()` that starts after the first one finished sends nothing. -/
theorem two_closers_sequential :
    (([true, true, true, true, false, false, false, false] : List Bool).foldl stepRace2 {}).closesSent = 1 := by decide

/-! ## (c) Connection.close() -/

theorem pcOf_setPc_same (c : Conn) (t n : Nat) : pcOf (setPc c t n) t = n := by
  simp [pcOf, setPc, List.lookup_cons]

theorem pcOf_setPc_ne (c : Conn) (t u n : Nat) (h : u ≠ t) : pcOf (setPc c t n) u = pcOf c u := by
  simp only [pcOf, setPc, List.lookup_cons]
  have : (u == t) = false := by simp [h]
  rw [this]
  simp only [Bool.false_eq_true, if_false]
  rw [Alloc.lookup_filter_ne t u c.pcs h]

structure Inv (c : Conn) : Prop where
  mutex : ∀ t, 1 ≤ pcOf c t → pcOf c t ≤ 4 → c.lock = some t
  once : c.sent ≤ 1
  sender : c.sent = 1 → (∃ t, pcOf c t = 3 ∨ pcOf c t = 4) ∨ c.socket = false

theorem inv_init : Inv {} := ⟨fun t h _ => by simp [pcOf] at h, by decide, fun h => by simp at h⟩

theorem setPc_fields (c : Conn) (t n : Nat) :
    (setPc c t n).sent = c.sent ∧ (setPc c t n).socket = c.socket ∧ (setPc c t n).lock = c.lock ∧
    (setPc c t n).state = c.state := ⟨rfl, rfl, rfl, rfl⟩

theorem step_inv (c c' : Conn) (a : Act) (h : Inv c) (hs : step c a = some c') : Inv c' := by
  obtain ⟨hm, ho, hsd⟩ := h
  have hlock : Gen.Close.connCloseUnderLock = true := gen_flags.1
  cases a with
  | enter t =>
    simp only [step, hlock, if_true] at hs
    split at hs; · cases hs
    rename_i hpc
    split at hs
    · rename_i hl; cases hs
      have hpc0 : pcOf c t = 0 := by omega
      refine ⟨?_, ho, ?_⟩
      · intro u h1 h4
        by_cases hu : u = t
        · subst hu; rfl
        · rw [pcOf_setPc_ne _ _ _ _ hu] at h1 h4
          have := hm u h1 h4; rw [hl] at this; cases this
      · intro h1
        rcases hsd h1 with ⟨u, hu⟩ | hsock
        · left
          refine ⟨u, ?_⟩
          have hut : u ≠ t := by intro e; subst e; omega
          rw [pcOf_setPc_ne _ _ _ _ hut]; exact hu
        · right; exact hsock
    · cases hs
  | begin t =>
    simp only [step] at hs
    split at hs; · cases hs
    rename_i hpc
    cases hs
    have hpc1 : pcOf c t = 1 := by omega
    have hl := hm t (by omega) (by omega)
    refine ⟨?_, ?_, ?_⟩
    · intro u h1 h4
      by_cases hu : u = t
      · subst hu; split <;> exact hl
      · rw [pcOf_setPc_ne _ _ _ _ hu] at h1 h4
        have : pcOf c u = pcOf (if c.state ≠ closed then { c with state := Gen.Const.stateClosing } else c) u := by
          split <;> rfl
        rw [← this] at h1 h4
        split <;> exact hm u h1 h4
    · split <;> exact ho
    · intro h1
      have h1' : c.sent = 1 := by revert h1; split <;> exact id
      rcases hsd h1' with ⟨u, hu⟩ | hsock
      · left
        have hut : u ≠ t := by intro e; subst e; omega
        refine ⟨u, ?_⟩
        rw [pcOf_setPc_ne _ _ _ _ hut]
        split <;> exact hu
      · right; split <;> exact hsock
  | maybeSend t =>
    simp only [step] at hs
    split at hs; · cases hs
    rename_i hpc
    cases hs
    have hpc2 : pcOf c t = 2 := by omega
    have hl := hm t (by omega) (by omega)
    -- nobody else is inside close(): so if a Close was already sent, the socket is gone
    have hno : c.sent = 1 → c.socket = false := by
      intro h1
      rcases hsd h1 with ⟨u, hu⟩ | hsock
      · have hul := hm u (by omega) (by omega)
        rw [hl] at hul
        have : t = u := Option.some.inj hul
        subst this; omega
      · exact hsock
    refine ⟨?_, ?_, ?_⟩
    · intro u h1 h4
      by_cases hu : u = t
      · subst hu; split <;> exact hl
      · rw [pcOf_setPc_ne _ _ _ _ hu] at h1 h4
        have : pcOf c u = pcOf (if c.state ≠ closed ∧ c.socket = true then { c with sent := c.sent + 1 } else c) u := by
          split <;> rfl
        rw [← this] at h1 h4
        split <;> exact hm u h1 h4
    · split
      · rename_i hcond
        simp only [setPc_fields]
        have : c.sent = 0 := by
          rcases Nat.lt_or_ge c.sent 1 with h0 | h1
          · omega
          · have := hno (by omega); rw [this] at hcond; simp at hcond
        show c.sent + 1 ≤ 1
        omega
      · exact ho
    · intro _
      left; exact ⟨t, Or.inl (pcOf_setPc_same _ t 3)⟩
  | wait t =>
    simp only [step] at hs
    split at hs; · cases hs
    rename_i hpc
    cases hs
    have hpc3 : pcOf c t = 3 := by omega
    have hl := hm t (by omega) (by omega)
    refine ⟨?_, ho, ?_⟩
    · intro u h1 h4
      by_cases hu : u = t
      · subst hu; exact hl
      · rw [pcOf_setPc_ne _ _ _ _ hu] at h1 h4; exact hm u h1 h4
    · intro _; left; exact ⟨t, Or.inr (pcOf_setPc_same _ t 4)⟩
  | finish t =>
    simp only [step] at hs
    split at hs; · cases hs
    rename_i hpc
    cases hs
    have hpc4 : pcOf c t = 4 := by omega
    have hl := hm t (by omega) (by omega)
    refine ⟨?_, ho, fun _ => Or.inr rfl⟩
    intro u h1 h4
    by_cases hu : u = t
    · subst hu; rw [pcOf_setPc_same] at h1 h4; omega
    · rw [pcOf_setPc_ne _ _ _ _ hu] at h1 h4
      have := hm u h1 h4
      rw [hl] at this
      exact absurd (Option.some.inj this).symm hu
  | closeOk =>
    simp only [step] at hs
    cases hs
    exact ⟨hm, ho, hsd⟩

theorem run_inv : ∀ (as : List Act) (c c' : Conn), Inv c → run c as = some c' → Inv c' := by
  intro as
  induction as with
  | nil => intro c c' h hr; simp [run] at hr; subst hr; exact h
  | cons a as ih =>
    intro c c' h hr
    simp only [run] at hr
    split at hr
    · cases hr
    · rename_i c1 hs; exact ih c1 c' (step_inv c c1 a h hs) hr

/-- **Closing the connection sends at most one Connection.Close**, for any number of threads
    calling `close()` (once, twice, concurrently) and any interleaving with the reader. -/
theorem conn_close_at_most_once (as : List Act) (c : Conn) (hr : run {} as = some c) : c.sent ≤ 1 :=
  (run_inv as {} c inv_init hr).once

/-! ## close() / check_for_errors() with a connection error already recorded -/

theorem gen_check_sets_closed : Gen.Close.checkSetsClosedBeforeClose = true := by decide

/-- the re-entrant close of a connection already marked CLOSED sends nothing and ends -/
theorem closeE_closed (sc : Bool) (fuel : Nat) (c : CE) (h : c.state = closed) :
    closeE sc (fuel + 1) c = { c with state := closed, socket := false } := by
  simp [closeE, h]

/-- **close() with an error recorded sends at most its one Connection.Close and ends CLOSED**, with the recursion
    two deep (no `RecursionError`), for every state of connection and socket -/
theorem close_with_error_recorded (fuel : Nat) (c : CE) (ho : c.overflow = false) :
    closeE Gen.Close.checkSetsClosedBeforeClose (fuel + 2) c =
      { state := closed, socket := false, overflow := false,
        sent := c.sent + (if c.state ≠ closed ∧ c.socket then 1 else 0) } := by
  rw [gen_check_sets_closed]
  obtain ⟨st, so, se, ov⟩ := c
  simp only at ho; subst ho
  by_cases h1 : st = closed
  · subst h1; simp [closeE]
  · have hcl : Gen.Const.stateClosing ≠ closed := by decide
    cases so <;> simp [closeE, h1, hcl]

/-- **an operation that meets the recorded error sends no Connection.Close at all** -/
theorem op_with_error_recorded (fuel : Nat) (c : CE) (ho : c.overflow = false) :
    checkE Gen.Close.checkSetsClosedBeforeClose (fuel + 1) c =
      { state := closed, socket := false, overflow := false, sent := c.sent } := by
  rw [gen_check_sets_closed]
  obtain ⟨st, so, se, ov⟩ := c
  simp only at ho; subst ho
  simp [checkE, closeE]

/-- without the CLOSED mark the two functions call each other until the recursion limit: one frame per level -/
theorem without_mark_close_repeats : (closeE false 50 {}).sent = 50 ∧ (closeE false 50 {}).overflow = true := by decide
example : closeE true 50 {} = { state := closed, socket := false, sent := 1 } := by decide

/-- `_close_channel`: CLOSING first (an application `close()` that comes now backs off, the number is not free
    yet), then the CloseOk, then the local clean-up, the reason, and CLOSED last (regenerated) -/
theorem close_channel_order : Gen.ChanErr.closeChannelOrder =
    ["state:CLOSING", "closeok", "drop-tags", "clear-inbound", "reason", "state:CLOSED"] := by decide

/-- … and exactly one when the first closer finds the connection open with its socket. -/
theorem conn_close_first_sends : (run {} [.enter 1, .begin 1, .maybeSend 1]).map (·.sent) = some 1 := by decide

/-! ## Tie obligations -/

theorem skel_Channel_close : Gen.Skel.Channel_close =
  ["if", "then", "raise:AMQPInvalidArgument", "else", "if", "then",
    "raise:AMQPInvalidArgument", "endif", "endif", "try", "if", "r:is_closed", "r:is_open",
    "then", "call:stop_consuming", "return", "endif", "call:set_state", "try",
    "call:stop_consuming", "except:AMQPChannelError", "call:remove_consumer_tag", "endtry",
    "call:rpc_request", "finally", "if", "r:_inbound", "then", "r:_inbound",
    "call:_inbound.clear", "endif", "call:set_state", "endtry"] := by decide

theorem skel_Channel_stop_consuming : Gen.Skel.Channel_stop_consuming =
  ["if", "r:consumer_tags", "then", "return", "endif", "if", "r:is_closed", "then",
    "call:remove_consumer_tag", "return", "endif", "while", "r:consumer_tags", "do", "for",
    "r:consumer_tags", "do", "call:basic.cancel", "endfor", "endwhile"] := by decide

theorem skel_Connection_close : Gen.Skel.Connection_close =
  ["acq:lock", "if", "r:is_closed", "then", "call:set_state", "endif", "call:heartbeat.stop",
    "try", "if", "r:is_closed", "r:socket", "then", "call:_channel0.send_close_connection",
    "call:_wait_for_connection_state", "endif", "except:AMQPConnectionError", "finally",
    "call:_close_remaining_channels", "r:_io", "call:_io.close", "call:set_state", "endtry",
    "rel:lock"] := by decide

theorem skel_Channel0_send_close_connection : Gen.Skel.Channel0_send_close_connection =
  ["call:_write_frame"] := by decide

/-! ## Non-vacuity -/
example : (run {} [.enter 1, .begin 1, .maybeSend 1, .closeOk, .wait 1, .finish 1, .enter 2, .begin 2, .maybeSend 2,
    .wait 2, .finish 2]).map (fun c => (c.sent, c.state, c.lock)) = some (1, 0, none) := by decide
example : step (setPc { lock := some 1 } 1 1) (.enter 2) = none := by decide
example : (chanClose { tags := ["a", "b"] } 200 "bye" false .timeout).1 =
    [.cancel "a", .cancel "b", .close 200 "bye"] := by decide

end Amqp.C11
