import Amqp.Lemmas.Errors
import Amqp.Gen.Skel
import Amqp.Gen.ChanErr
import Amqp.Model.Parked
/-!
# C07 — broker-reported errors are raised faithfully and only where they belong

Model `Amqp.Errors`: any number of channels on one connection; the reader's handlers for
Channel.Close, Connection.Close and Basic.Return; `opCheck` = what every operation on a channel does
first and what every wait loop does on each iteration (`Channel.check_for_errors`).  Where
`_close_channel` puts its reason, whether its CloseOk by-passes the channel's error check and the
order of the two effects of `_close_connection` are regenerated from the source (`Gen.ChanErr`).
A caller may run its check between *any* two effects of the reader (`onConnClosePrefix`).
-/
namespace Amqp.C07
open Amqp.ChanErr Amqp.Errors

def Healthy (c : C) : Prop := c.connState = open_ ∧ c.connErrs = []

theorem gen_flags : Gen.ChanErr.closeReasonAtFront = true ∧ Gen.ChanErr.connReasonBeforeState = true ∧
    Gen.ChanErr.closeOkBypassesChannelCheck = true := by decide

theorem open_ne_closed : open_ ≠ closed := by decide

/-- **Isolation**: a Channel.Close for channel `i` changes nothing but channel `i`. -/
theorem channel_close_isolated (c : C) (i code : Nat) :
    (onChannelClose c i code).connState = c.connState ∧
    (onChannelClose c i code).connErrs = c.connErrs ∧
    ∀ j, j ≠ i → (onChannelClose c i code).chans[j]? = c.chans[j]? := by
  refine ⟨rfl, rfl, fun j hj => ?_⟩
  simp only [onChannelClose]
  exact getElem?_modify_ne _ _ i j (fun h => hj h.symm)

/-- **The pending or next operation on the closed channel raises AMQPChannelError with the broker's
    code** — whatever errors were already queued on the channel — the channel reports closed, and
    every later operation raises the same. -/
theorem channel_close_raises (c : C) (i code : Nat) (ch : Chan) (hi : c.chans[i]? = some ch) (hc : Healthy c) :
    let c1 := onChannelClose c i code
    (opCheck c1 i).1 = some (.chan (some code)) ∧
    ((opCheck c1 i).2.chans[i]?).map (·.state) = some closed ∧
    (opCheck (opCheck c1 i).2 i).1 = some (.chan (some code)) := by
  obtain ⟨h1, h2⟩ := hc
  have hget : (onChannelClose c i code).chans[i]? =
      some { state := closed, tags := [], inbound := 0, errs := .chan (some code) :: ch.errs } := by
    simp [onChannelClose, getElem?_modify_eq, hi, gen_flags.1]
  have hv := view_some _ i _ hget
  have hcs : (onChannelClose c i code).connState = open_ := h1
  have hce : (onChannelClose c i code).connErrs = [] := h2
  rw [hcs, hce] at hv
  have hcheck : chanCheck (view (onChannelClose c i code) i) =
      (some (.chan (some code)), view (onChannelClose c i code) i) := by
    rw [hv]; simp [chanCheck, connCheck, chanCheckExceptions, open_ne_closed, Ne.symm open_ne_closed]
  have hop := opCheck_local _ i _ _ hcheck (view_calls _ i)
  have hvu := view_unview (onChannelClose c i code) i (view (onChannelClose c i code) i) _ hget
  simp only [hop]
  refine ⟨trivial, ?_, ?_⟩
  · rw [unview_get _ i _ _ hget, hv]; rfl
  · rw [opCheck_fst, hvu, hcheck]

/-- **…while the connection and its other channels keep working**: an untouched open channel
    still passes its check, and nothing about it changes. -/
theorem channel_close_others_work (c : C) (i j code : Nat) (hij : j ≠ i) (chj : Chan)
    (hj : c.chans[j]? = some chj) (hopen : chj.state = open_) (hno : chj.errs = []) (hc : Healthy c) :
    (opCheck (onChannelClose c i code) j).1 = none := by
  obtain ⟨h1, h2⟩ := hc
  have hjj : (onChannelClose c i code).chans[j]? = some chj := by
    rw [(channel_close_isolated c i code).2.2 j hij]; exact hj
  have hv := view_some _ j _ hjj
  have hcs : (onChannelClose c i code).connState = open_ := h1
  have hce : (onChannelClose c i code).connErrs = [] := h2
  rw [hcs, hce, hopen, hno] at hv
  rw [opCheck_fst, hv]
  simp [chanCheck, connCheck, chanCheckExceptions, open_ne_closed]

/-- **Connection.Close with an error code: every channel raises AMQPConnectionError carrying that
    code — no matter between which two effects of the reader's handler the caller looks.** -/
theorem conn_close_raises_everywhere (c : C) (code : Nat) (hcode : code ≠ 200) (hc : Healthy c)
    (k : Nat) (hk : k = 1 ∨ k = 2) (i : Nat) :
    (opCheck (onConnClosePrefix c code k) i).1 = some (.conn (some code)) := by
  obtain ⟨h1, h2⟩ := hc
  have hs : connCloseSteps = [.reason, .state] := by simp [connCloseSteps, gen_flags.2.1]
  rcases hk with rfl | rfl
  · simp only [onConnClosePrefix, hs, List.take, List.foldl, connCloseStep, hcode, ne_eq, not_false_eq_true, if_true]
    rw [opCheck_fst]
    simp only [view, h2, List.nil_append]
    split <;> simp [chanCheck, connCheck]
  · simp only [onConnClosePrefix, hs, List.take, List.foldl, connCloseStep, hcode, ne_eq, not_false_eq_true, if_true]
    rw [opCheck_fst]
    simp only [view, h2, List.nil_append]
    split <;> simp [chanCheck, connCheck]

/-- a clean Connection.Close (code 200) leaves no coded error: operations then report the
    connection closed -/
theorem conn_close_200 (c : C) (hc : Healthy c) (i : Nat) :
    (opCheck (onConnClose c 200) i).1 = some (.conn none) := by
  obtain ⟨h1, h2⟩ := hc
  have hs : connCloseSteps = [.reason, .state] := by simp [connCloseSteps, gen_flags.2.1]
  simp only [onConnClose, onConnClosePrefix, hs, List.take, List.foldl, connCloseStep, ne_eq, not_true_eq_false, if_false]
  rw [opCheck_fst]
  simp only [view, h2]
  split <;> simp [chanCheck, connCheck]

/-- **A returned message raises AMQPMessageError with its code exactly once and leaves the channel
    usable.** -/
theorem return_once (c : C) (i code : Nat) (ch : Chan) (hi : c.chans[i]? = some ch) (hopen : ch.state = open_)
    (hno : ch.errs = []) (hc : Healthy c) :
    let c1 := onReturn c i code
    (opCheck c1 i).1 = some (.msg code) ∧
    (opCheck (opCheck c1 i).2 i).1 = none ∧
    ((opCheck c1 i).2.chans[i]?).map (·.state) = some open_ := by
  obtain ⟨h1, h2⟩ := hc
  have hget : (onReturn c i code).chans[i]? = some { ch with errs := [.msg code] } := by
    simp [onReturn, getElem?_modify_eq, hi, hno]
  have hv := view_some _ i _ hget
  have hcs : (onReturn c i code).connState = open_ := h1
  have hce : (onReturn c i code).connErrs = [] := h2
  rw [hcs, hce] at hv
  simp only [hopen] at hv
  have hc1 : chanCheck (view (onReturn c i code) i) =
      (some (.msg code), { connState := open_, connErrs := [], chState := open_, chErrs := [],
                           connCloseCalls := (onReturn c i code).connCloseCalls }) := by
    rw [hv]; simp [chanCheck, connCheck, chanCheckExceptions, open_ne_closed]
  have hop := opCheck_local _ i _ _ hc1 rfl
  simp only [hop]
  refine ⟨trivial, ?_, ?_⟩
  · rw [opCheck_fst, view_unview _ i _ _ hget]
    simp [chanCheck, connCheck, chanCheckExceptions, open_ne_closed]
  · rw [unview_get _ i _ _ hget]; rfl

/-- **No code-less window**: however the caller's `check_for_errors` interleaves with the reader
    handling a Channel.Close (`RErr.reason` = AMQPChannelError with the broker's code and text) — all 35 merges of the reader's three effects with the caller's four
    steps, the caller's read order being the regenerated one — the caller either passes its check
    (the close had not reached it yet) or raises AMQPChannelError with the broker's code; it never
    raises the code-less 'channel closed'. -/
theorem channel_close_race :
    ∀ s ∈ merges 3 4, (race s readerSteps callerSteps {}).result = some none ∨
      (race s readerSteps callerSteps {}).result = some (some .reason) := by decide

/-- with the read order of the unrepaired code (flag read last) a code-less raise is possible:
    the interleaving the COSIM search found -/
theorem channel_close_race_needs_state_first :
    ∃ s ∈ merges 3 4, (race s readerSteps [.connCheck, .excCheck, .readClosed, .closedTest] {}).result =
      some (some .codeless) := by decide

/-- `_close_channel`: CLOSING first (an application `close()` that comes now backs off, the number is not free
    yet), then the CloseOk, then the local clean-up, the reason, and CLOSED last (regenerated) -/
theorem close_channel_order : Gen.ChanErr.closeChannelOrder =
    ["state:CLOSING", "closeok", "drop-tags", "clear-inbound", "reason", "state:CLOSED"] := by decide

/-- the reply-code table of `exception.py` names every AMQP 0-9-1 error constant correctly -/
def amqpErrorConstants : List (Nat × String) :=
  [(311, "CONTENT-TOO-LARGE"), (312, "NO-ROUTE"), (313, "NO-CONSUMERS"), (320, "CONNECTION-FORCED"),
   (402, "INVALID-PATH"), (403, "ACCESS-REFUSED"), (404, "NOT-FOUND"), (405, "RESOURCE-LOCKED"),
   (406, "PRECONDITION-FAILED"), (501, "FRAME-ERROR"), (502, "SYNTAX-ERROR"), (503, "COMMAND-INVALID"),
   (504, "CHANNEL-ERROR"), (505, "UNEXPECTED-FRAME"), (506, "RESOURCE-ERROR"), (530, "NOT-ALLOWED"),
   (540, "NOT-IMPLEMENTED"), (541, "INTERNAL-ERROR")]

theorem error_mapping : ∀ p ∈ amqpErrorConstants, errorType p.1 = some p.2 := by decide

/-! ## Tie obligations -/

theorem skel_Channel__close_channel : Gen.Skel.Channel__close_channel =
  ["call:set_state", "if", "r:is_closed", "then", "try", "call:_connection.write_frame",
    "except:AMQPError", "endtry", "endif", "call:remove_consumer_tag", "if", "r:_inbound",
    "then", "r:_inbound", "call:_inbound.clear", "endif", "r:exceptions",
    "call:exceptions.insert", "call:set_state"] := by decide

theorem skel_Channel0__close_connection : Gen.Skel.Channel0__close_connection =
  ["if", "then", "r:exceptions", "call:_connection.exceptions.append", "endif",
    "call:_set_connection_state"] := by decide

theorem skel_Channel__basic_return : Gen.Skel.Channel__basic_return =
  ["r:exceptions", "call:exceptions.append", "w:_returned_content_left"] := by decide

theorem skel_Channel_check_for_errors : Gen.Skel.Channel_check_for_errors =
  ["r:is_closed", "try", "call:_connection.check_for_errors", "except:AMQPConnectionError",
    "call:set_state", "raise", "endtry", "call:check_for_exceptions", "if", "then",
    "raise:AMQPChannelError", "endif"] := by decide

theorem skel_Channel_check_for_exceptions : Gen.Skel.Channel_check_for_exceptions =
  ["try", "if", "r:is_open", "then", "r:exceptions", "call:exceptions.pop", "else",
    "r:exceptions", "endif", "except:IndexError", "return", "endtry", "raise:exception"] := by decide

theorem skel_Connection_check_for_errors : Gen.Skel.Connection_check_for_errors =
  ["if", "r:exceptions", "then", "if", "r:is_closed", "then", "return", "endif",
    "r:exceptions", "call:exceptions.append", "endif", "call:set_state", "call:close",
    "r:exceptions", "raise:exceptions[0]"] := by decide

/-! ## Non-vacuity -/
def two : C := { chans := [{ errs := [.msg 312] }, {}] }
example : (opCheck (onChannelClose two 0 404) 0).1 = some (.chan (some 404)) := by decide
example : (opCheck (onChannelClose two 0 404) 1).1 = none := by decide
example : (opCheck (onConnClosePrefix two 320 1) 1).1 = some (.conn (some 320)) := by decide
example : (opCheck (onReturn { chans := [{}] } 0 312) 0).1 = some (.msg 312) := by decide

/-- a returned mandatory message belongs to the publish that caused it: on a confirming channel the
    check that raises it (`check_for_exceptions` in `_publish_confirm`) runs while the publisher still
    holds the channel's RPC lock, so no other publisher's error check can take it first -/
theorem skel_Basic_publish : Gen.Skel.Basic_publish =
  ["call:_validate_publish_parameters", "call:_handle_utf8_payload", "for",
    "call:_create_content_body", "do", "call:frames_out.append", "endfor", "if",
    "r:confirming_deliveries", "then", "acq:_channel.rpc.lock", "call:_publish_confirm",
    "return", "rel:_channel.rpc.lock", "endif", "call:_channel.write_frames"] := by decide

theorem skel_Basic__publish_confirm : Gen.Skel.Basic__publish_confirm =
  ["call:_channel.rpc.register_request", "call:_channel.write_frames",
    "call:_channel.rpc.get_request", "if", "then", "call:_channel.check_for_exceptions",
    "endif", "if", "then", "return", "endif", "return"] := by decide

end Amqp.C07

/-! ## Parked errors and several threads (`Model/Parked.lean`) -/
namespace Amqp.C07
open Amqp.Parked

/-- **Each returned message is raised once**: whatever number of calls `n` the threads sharing the channel
    make, in whatever order their takes happen, what was raised followed by what is still parked is exactly
    what was parked - nothing twice, nothing lost, oldest first -/
theorem parked_errors_raised_once (n : Nat) (q : List Nat) : (takes n q).1 ++ (takes n q).2 = q := by
  induction n generalizing q with
  | zero => rfl
  | succ n ih =>
    cases q with
    | nil => simpa [takes, take] using ih []
    | cons e r => simp [takes, take, ih r]

/-- enough calls raise every parked error -/
theorem parked_errors_all_raised (n : Nat) (q : List Nat) (h : q.length ≤ n) : (takes n q).1 = q := by
  induction n generalizing q with
  | zero => cases q with
    | nil => rfl
    | cons e r => simp at h
  | succ n ih =>
    cases q with
    | nil => simpa [takes, take] using ih [] (by simp)
    | cons e r => simp [takes, take, ih r (by simpa using h)]

/-- **Why the take must be one step**: with "read the head" and "delete the head" as two steps, two threads
    that both read before either deletes raise 312 twice and 313 is never raised -/
theorem read_then_delete_raises_twice :
    (runNA { q := [312, 313] } [.read 0, .read 1, .del 0, .del 1]).raised = [312, 312] ∧
    (runNA { q := [312, 313] } [.read 0, .read 1, .del 0, .del 1]).q = [] := by decide

/-- ... while any schedule in which each thread's two steps are adjacent behaves like `takes` -/
example : (runNA { q := [312, 313] } [.read 0, .del 0, .read 1, .del 1]).raised = (takes 2 [312, 313]).1 := by decide

end Amqp.C07
