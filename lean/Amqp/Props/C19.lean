import Amqp.Lemmas.Mgmt
/-!
# C19 — Management API calls address exactly the named resource

Model: `Amqp/Model/Mgmt.lean`.  The endpoint table `Gen.Mgmt.ops` (verb, path template, how every
`%s` is filled — `quote(x, safe)` or raw —, JSON payload members, extra headers, pass-through
arguments, post-processing) is regenerated from `amqpstorm/management/*.py` on every run, so the
table theorems are re-checked against what the code says now: dropping a `quote`, changing its
`safe` argument, a template, a verb or a payload member makes them fail.

`Spec.endpoints` is the RabbitMQ HTTP API reference written down by hand.
-/
namespace Amqp.C19
open Amqp Amqp.Mgmt

/-! ## the documented endpoints -/

inductive PSeg
  | lit (s : String)
  | name (alts : List String)     -- the segment is the percent-encoded value of this parameter
deriving DecidableEq, Repr

structure SpecRow where
  op : String
  guard : String
  verb : String
  path : List PSeg
  body : List (String × String)
  headers : List (String × String)
  pass : List (String × String)
  post : String
deriving DecidableEq, Repr

namespace Spec
/-- RabbitMQ HTTP API reference (rabbitmq_management `/api`), one row per operation and branch:
    verb, path segments, JSON members (`$p` = the parameter `p`, `a|b` = `a or b`). -/
def endpoints : List SpecRow := [
  ⟨"ManagementApi.aliveness_test", "", "get", [.lit "aliveness-test", .name ["virtual_host"]], [], [], [], ""⟩,
  ⟨"ManagementApi.cluster_name", "", "get", [.lit "cluster-name"], [], [], [], ""⟩,
  ⟨"ManagementApi.node", "", "get", [.lit "nodes", .name ["name"]], [], [], [], ""⟩,
  ⟨"ManagementApi.nodes", "", "get", [.lit "nodes"], [], [], [], ""⟩,
  ⟨"ManagementApi.overview", "", "get", [.lit "overview"], [], [], [], ""⟩,
  ⟨"ManagementApi.top", "", "call:ManagementApi.nodes", [], [], [], [], "iterated"⟩,
  ⟨"ManagementApi.top", "for node in self.nodes()", "get", [.lit "top", .name ["node['name']"]], [], [], [], "collected"⟩,
  ⟨"ManagementApi.whoami", "", "get", [.lit "whoami"], [], [], [], ""⟩,
  ⟨"Basic.publish", "", "post", [.lit "exchanges", .name ["virtual_host"], .name ["exchange"], .lit "publish"], [("routing_key", "$routing_key"), ("payload", "$body"), ("payload_encoding", "$payload_encoding"), ("properties", "$properties|{}"), ("vhost", "$virtual_host")], [], [], ""⟩,
  ⟨"Basic.get", "", "post", [.lit "queues", .name ["virtual_host"], .name ["queue"], .lit "get"], [("count", "$count"), ("requeue", "$requeue"), ("ackmode", "('ack_requeue_true' if requeue else 'ack_requeue_false')"), ("encoding", "$encoding"), ("truncate", "$truncate"), ("vhost", "$virtual_host")], [], [], "postprocessed"⟩,
  ⟨"Channel.get", "", "get", [.lit "channels", .name ["channel"]], [], [], [], ""⟩,
  ⟨"Channel.list", "", "list", [.lit "channels"], [], [], [("name", "$name"), ("use_regex", "$use_regex"), ("page_size", "$page_size")], ""⟩,
  ⟨"Connection.get", "", "get", [.lit "connections", .name ["connection"]], [], [], [], ""⟩,
  ⟨"Connection.list", "", "list", [.lit "connections"], [], [], [("name", "$name"), ("use_regex", "$use_regex"), ("page_size", "$page_size")], ""⟩,
  ⟨"Connection.close", "", "delete", [.lit "connections", .name ["connection"]], [("name", "$connection"), ("reason", "$reason")], [("X-Reason", "$reason")], [], ""⟩,
  ⟨"Exchange.get", "", "get", [.lit "exchanges", .name ["virtual_host"], .name ["exchange"]], [], [], [], ""⟩,
  ⟨"Exchange.list", "show_all", "list", [.lit "exchanges"], [], [], [("name", "$name"), ("use_regex", "$use_regex"), ("page_size", "$page_size")], ""⟩,
  ⟨"Exchange.list", "not (show_all)", "list", [.lit "exchanges", .name ["virtual_host"]], [], [], [("name", "$name"), ("use_regex", "$use_regex"), ("page_size", "$page_size")], ""⟩,
  ⟨"Exchange.declare", "passive", "call:Exchange.get", [], [], [], [("#0", "$exchange"), ("virtual_host", "$virtual_host")], ""⟩,
  ⟨"Exchange.declare", "not (passive)", "put", [.lit "exchanges", .name ["virtual_host"], .name ["exchange"]], [("durable", "$durable"), ("auto_delete", "$auto_delete"), ("internal", "$internal"), ("type", "$exchange_type"), ("arguments", "$arguments|{}"), ("vhost", "$virtual_host")], [], [], ""⟩,
  ⟨"Exchange.delete", "", "delete", [.lit "exchanges", .name ["virtual_host"], .name ["exchange"]], [], [], [], ""⟩,
  ⟨"Exchange.bindings", "", "get", [.lit "exchanges", .name ["virtual_host"], .name ["exchange"], .lit "bindings", .lit "source"], [], [], [], ""⟩,
  ⟨"Exchange.bind", "", "post", [.lit "bindings", .name ["virtual_host"], .lit "e", .name ["source"], .lit "e", .name ["destination"]], [("destination", "$destination"), ("destination_type", "'e'"), ("routing_key", "$routing_key"), ("source", "$source"), ("arguments", "$arguments|{}"), ("vhost", "$virtual_host")], [], [], ""⟩,
  ⟨"Exchange.unbind", "", "delete", [.lit "bindings", .name ["virtual_host"], .lit "e", .name ["source"], .lit "e", .name ["destination"], .name ["properties_key", "routing_key"]], [("destination", "$destination"), ("destination_type", "'e'"), ("properties_key", "$properties_key|$routing_key"), ("source", "$source"), ("vhost", "$virtual_host")], [], [], ""⟩,
  ⟨"HealthChecks.get", "not node", "get", [.lit "healthchecks", .lit "node", .lit ""], [], [], [], ""⟩,
  ⟨"HealthChecks.get", "not (not node)", "get", [.lit "healthchecks", .lit "node", .name ["node"]], [], [], [], ""⟩,
  ⟨"Queue.get", "", "get", [.lit "queues", .name ["virtual_host"], .name ["queue"]], [], [], [], ""⟩,
  ⟨"Queue.list", "show_all", "list", [.lit "queues"], [], [], [("name", "$name"), ("use_regex", "$use_regex"), ("page_size", "$page_size")], ""⟩,
  ⟨"Queue.list", "not (show_all)", "list", [.lit "queues", .name ["virtual_host"]], [], [], [("name", "$name"), ("use_regex", "$use_regex"), ("page_size", "$page_size")], ""⟩,
  ⟨"Queue.declare", "passive", "call:Queue.get", [], [], [], [("#0", "$queue"), ("virtual_host", "$virtual_host")], ""⟩,
  ⟨"Queue.declare", "not (passive)", "put", [.lit "queues", .name ["virtual_host"], .name ["queue"]], [("durable", "$durable"), ("auto_delete", "$auto_delete"), ("arguments", "$arguments|{}"), ("vhost", "$virtual_host")], [], [], ""⟩,
  ⟨"Queue.delete", "", "delete", [.lit "queues", .name ["virtual_host"], .name ["queue"]], [], [], [], ""⟩,
  ⟨"Queue.purge", "", "delete", [.lit "queues", .name ["virtual_host"], .name ["queue"], .lit "contents"], [], [], [], ""⟩,
  ⟨"Queue.bindings", "", "get", [.lit "queues", .name ["virtual_host"], .name ["queue"], .lit "bindings"], [], [], [], ""⟩,
  ⟨"Queue.bind", "", "post", [.lit "bindings", .name ["virtual_host"], .lit "e", .name ["exchange"], .lit "q", .name ["queue"]], [("destination", "$queue"), ("destination_type", "'q'"), ("routing_key", "$routing_key"), ("source", "$exchange"), ("arguments", "$arguments|{}"), ("vhost", "$virtual_host")], [], [], ""⟩,
  ⟨"Queue.unbind", "", "delete", [.lit "bindings", .name ["virtual_host"], .lit "e", .name ["exchange"], .lit "q", .name ["queue"], .name ["properties_key", "routing_key"]], [("destination", "$queue"), ("destination_type", "'q'"), ("properties_key", "$properties_key|$routing_key"), ("source", "$exchange"), ("vhost", "$virtual_host")], [], [], ""⟩,
  ⟨"User.get", "", "get", [.lit "users", .name ["username"]], [], [], [], ""⟩,
  ⟨"User.list", "", "get", [.lit "users"], [], [], [], ""⟩,
  ⟨"User.create", "", "put", [.lit "users", .name ["username"]], [("password", "$password"), ("tags", "$tags")], [], [], ""⟩,
  ⟨"User.delete", "isinstance(username, list)", "post", [.lit "users", .lit "bulk-delete"], [("users", "$username")], [], [], ""⟩,
  ⟨"User.delete", "not (isinstance(username, list))", "delete", [.lit "users", .name ["username"]], [], [], [], ""⟩,
  ⟨"User.get_permission", "", "get", [.lit "permissions", .name ["virtual_host"], .name ["username"]], [], [], [], ""⟩,
  ⟨"User.get_permissions", "", "get", [.lit "users", .name ["username"], .lit "permissions"], [], [], [], ""⟩,
  ⟨"User.set_permission", "", "put", [.lit "permissions", .name ["virtual_host"], .name ["username"]], [("configure", "$configure_regex"), ("read", "$read_regex"), ("write", "$write_regex")], [], [], ""⟩,
  ⟨"User.delete_permission", "", "delete", [.lit "permissions", .name ["virtual_host"], .name ["username"]], [], [], [], ""⟩,
  ⟨"VirtualHost.get", "", "get", [.lit "vhosts", .name ["virtual_host"]], [], [], [], ""⟩,
  ⟨"VirtualHost.list", "", "get", [.lit "vhosts"], [], [], [], ""⟩,
  ⟨"VirtualHost.create", "", "put", [.lit "vhosts", .name ["virtual_host"]], [], [], [], ""⟩,
  ⟨"VirtualHost.delete", "", "delete", [.lit "vhosts", .name ["virtual_host"]], [], [], [], ""⟩,
  ⟨"VirtualHost.get_permissions", "", "get", [.lit "vhosts", .name ["virtual_host"], .lit "permissions"], [], [], [], ""⟩
]
end Spec

def zipSegs : List Seg → List Arg → Option (List PSeg)
  | [], [] => some []
  | [], _ :: _ => none
  | .lit s :: segs, as => (zipSegs segs as).map (PSeg.lit (String.ofList s) :: ·)
  | .hole :: segs, a :: as => (zipSegs segs as).map (PSeg.name a.alts :: ·)
  | .hole :: _, [] => none

/-- a generated row in the vocabulary of the specification -/
def specRow (e : Endpoint) : Option SpecRow :=
  match parseTemplate e.template.toList with
  | none => none
  | some segs =>
    if e.template.isEmpty then some ⟨e.op, e.guard, e.verb, [], e.body, e.headers, e.pass, e.post⟩
    else (zipSegs segs e.args).map fun p => ⟨e.op, e.guard, e.verb, p, e.body, e.headers, e.pass, e.post⟩

/-! ## table theorems (about the regenerated `Gen.Mgmt.ops`)

Each table fact `T : P` is checked as `T_check = true` by kernel evaluation (`decide +kernel`) of an
irreducible Boolean `T_check := decide P`, and `T` is then read off it.  (This way a fact that has
become false after a source change fails within a second: the elaborator cannot start to
re-evaluate the table for its error message.) -/

@[irreducible] def all_names_quoted_check : Bool :=
  decide (∀ e ∈ Gen.Mgmt.ops, ∀ a ∈ e.args, a.enc = some "")
theorem all_names_quoted_kernel : all_names_quoted_check = true := by decide +kernel

/-- **Every name that goes into a URL path goes through `quote(name, '')`** (safe set empty), for
    every HTTP call site of every public operation. -/
theorem all_names_quoted : ∀ e ∈ Gen.Mgmt.ops, ∀ a ∈ e.args, a.enc = some "" := by
  have h := all_names_quoted_kernel; unfold all_names_quoted_check at h; exact of_decide_eq_true h

@[irreducible] def table_matches_spec_check : Bool :=
  decide (Gen.Mgmt.ops.map specRow = Spec.endpoints.map some)
theorem table_matches_spec_kernel : table_matches_spec_check = true := by decide +kernel

/-- Every call site is a documented endpoint: same verb, same path segments with the same
    parameter in each name position, same JSON payload members carrying the same arguments, same
    extra headers, same pass-through of `name/use_regex/page_size`; and every documented endpoint
    of the table has its call site (the two lists are equal row by row). -/
theorem table_matches_spec : Gen.Mgmt.ops.map specRow = Spec.endpoints.map some := by
  have h := table_matches_spec_kernel; unfold table_matches_spec_check at h; exact of_decide_eq_true h

@[irreducible] def verbs_known_check : Bool :=
  decide (∀ e ∈ Gen.Mgmt.ops, (httpMethod e).isSome = true ∨
    e.verb ∈ ["call:ManagementApi.nodes", "call:Exchange.get", "call:Queue.get"])
theorem verbs_known_kernel : verbs_known_check = true := by decide +kernel

/-- the HTTP method on the wire is one of the four documented ones for every row that sends a
    request (delegating rows send none themselves) -/
theorem verbs_known : ∀ e ∈ Gen.Mgmt.ops,
    (httpMethod e).isSome = true ∨
      e.verb ∈ ["call:ManagementApi.nodes", "call:Exchange.get", "call:Queue.get"] := by
  have h := verbs_known_kernel; unfold verbs_known_check at h; exact of_decide_eq_true h

@[irreducible] def request_constants_check : Bool :=
  decide (Gen.Mgmt.pathPrefix = "api/" ∧ Gen.Mgmt.contentType = "application/json")
theorem request_constants_kernel : request_constants_check = true := by decide +kernel

/-- the URL prefix and content type of `HTTPClient._request` -/
theorem request_constants : Gen.Mgmt.pathPrefix = "api/" ∧ Gen.Mgmt.contentType = "application/json" := by
  have h := request_constants_kernel; unfold request_constants_check at h; exact of_decide_eq_true h

/-! ## quoting -/

/-- percent-decoding a quoted name gives back exactly the UTF-8 bytes of the name -/
theorem quote_roundtrip (s : Text) : pctDecode (quote "" s) = some (utf8 s) := by
  simp only [quote, safeBytes_empty]; exact pctDecode_quoteBytes _

/-- a quoted name consists of ASCII letters, digits, `-._~` and `%XX` escapes only … -/
theorem quote_chars (s : Text) : ∀ c ∈ quote "" s, segChar c = true := by
  simp only [quote, safeBytes_empty]; exact segChar_quoteBytes _

/-- … so it contains no character that delimits a URL component or a path segment. -/
theorem quote_no_delimiter (s : Text) :
    ∀ c ∈ quote "" s, c ∉ ['/', '?', '#', ';', ' ', '&', '=', '+', ':', '@', '\\'] := by
  intro c hc hmem
  have h := quote_chars s c hc
  simp only [List.mem_cons, List.not_mem_nil, or_false] at hmem
  rcases hmem with rfl | rfl | rfl | rfl | rfl | rfl | rfl | rfl | rfl | rfl | rfl <;>
    exact absurd h (by decide)

/-- quoting is injective on names: different names give different segments -/
theorem quote_injective (s t : Text) (h : quote "" s = quote "" t) : utf8 s = utf8 t := by
  have hs := quote_roundtrip s
  rw [h, quote_roundtrip t] at hs
  exact (Option.some.inj hs).symm

/-! ## the request URL -/

@[irreducible] def templates_wellformed_check : Bool :=
  decide (∀ e ∈ Gen.Mgmt.ops, templateOk e = true)
theorem templates_wellformed_kernel : templates_wellformed_check = true := by decide +kernel

/-- every path template of the table consists of clean literal segments and `%s` segments, one per
    argument -/
theorem templates_wellformed : ∀ e ∈ Gen.Mgmt.ops, templateOk e = true := by
  have h := templates_wellformed_kernel; unfold templates_wellformed_check at h
  exact of_decide_eq_true h

/-- The full claim about the URL: for *every* tuple of names the path of the prepared URL, split
    at `/`, is the base directory, `api`, and the template's segments with each `%s` replaced by
    the percent-encoding of the corresponding name. -/
def SegmentsExact : Prop :=
  ∀ (base : Base) (e : Endpoint) (env : Env) (names : List Text), e ∈ Gen.Mgmt.ops →
    All2 (Resolves env) e.args names → base.ok = true →
    (∀ d ∈ baseDirs base.bpath, isDot d = false) →
    ∃ segs qs, parseTemplate e.template.toList = some segs ∧
      inst segs (names.map (quote "")) = some qs ∧
      (url base e env).toOption =
        some (base.origin ++ '/' :: joinWith '/' (baseDirs base.bpath ++ "api".toList :: qs))

/-- **Main theorem (partial: names whose UTF-8 form is empty, `.` or `..` are excluded).**
    For every row whose arguments are all `quote(·, '')`-ed (`all_names_quoted`) and whose template
    is well formed (`templates_wellformed`), every environment that gives the arguments the values
    `names`, and every API base URL with a clean directory path:
    the prepared URL is `origin/dir…/api/seg…` where the segments are the template's literal
    segments and, in each `%s` position, `quote(name, '')`; and splitting that path at `/` gives
    back exactly these segments — each name is one segment (`quote_roundtrip` says that segment
    decodes to the name, `quote_no_delimiter` that it contains no `/ ? # ;`).
    Missing for `SegmentsExact`: empty and dot names, see `not_segmentsExact`. -/
theorem segments_exact_partial (base : Base) (e : Endpoint) (env : Env) (names : List Text)
    (hq : All2 (Resolves env) e.args names) (htpl : templateOk e = true)
    (hnames : ∀ n ∈ names, goodName n) (hbase : base.ok = true)
    (hdirs : ∀ d ∈ baseDirs base.bpath, isDot d = false) :
    ∃ segs qs, parseTemplate e.template.toList = some segs ∧
      inst segs (names.map (quote "")) = some qs ∧
      url base e env =
        .ok (base.origin ++ '/' :: joinWith '/' (baseDirs base.bpath ++ "api".toList :: qs)) ∧
      splitOn '/' (joinWith '/' (baseDirs base.bpath ++ "api".toList :: qs)) =
        baseDirs base.bpath ++ "api".toList :: qs := by
  -- the template
  unfold templateOk at htpl
  split at htpl
  case h_2 => cases htpl
  rename_i segs hparse
  simp only [Bool.and_eq_true, beq_iff_eq, segsClean, Bool.not_eq_true', List.all_eq_true] at htpl
  obtain ⟨⟨⟨hne, hlit⟩, hmid⟩, hholes⟩ := htpl
  -- the instantiated segments
  have hlen : holes segs = (names.map (quote "")).length := by
    rw [hholes, all2_length hq, List.length_map]
  obtain ⟨qs, hinst⟩ := inst_some segs _ hlen
  have hqlen := inst_length _ _ _ hinst
  have hqne : qs ≠ [] := by
    intro e0; subst e0
    cases segs with
    | nil => simp at hne
    | cons _ _ => simp at hqlen
  have hrel := inst_forall2 _ _ _ hinst
  -- each instantiated segment is good
  have hgood : ∀ q ∈ qs, GoodSeg q := by
    intro q hqm
    obtain ⟨x, hx, hxq⟩ := forall2_mem_right hrel q hqm
    cases x with
    | lit s =>
      have : q = s := hxq
      subst this
      exact goodSeg_lit (by simpa [segLitOk] using hlit _ hx)
    | hole =>
      have : q ∈ names.map (quote "") := hxq
      obtain ⟨n, hn, rfl⟩ := List.mem_map.1 this
      exact (goodSeg_quote (hnames n hn)).1
  have hmidq : ∀ q ∈ qs.dropLast, q ≠ [] := by
    refine forall2_dropLast (P := fun x => segNonEmpty x = true) (Q := fun q => q ≠ []) ?_ hrel hmid
    intro x q hxq hp
    cases x with
    | lit s =>
      have : q = s := hxq
      subst this
      simpa [segNonEmpty] using hp
    | hole =>
      have : q ∈ names.map (quote "") := hxq
      obtain ⟨n, hn, rfl⟩ := List.mem_map.1 this
      exact (goodSeg_quote (hnames n hn)).2
  have hapi : GoodSeg "api".toList := goodSeg_lit (by decide)
  have hgood' : ∀ q ∈ "api".toList :: qs, GoodSeg q := by
    intro q hqm
    rcases List.mem_cons.1 hqm with rfl | hqm
    · exact hapi
    · exact hgood q hqm
  -- the path handed to the HTTP client, and the relative reference
  have hpath : path e env = .ok (joinWith '/' qs) := by
    simp only [path, argTexts_quoted env hq, fill_parsed hparse, hinst, Option.map_some]
  have hprefix : Gen.Mgmt.pathPrefix.toList = "api/".toList := by rw [request_constants.1]
  have hrelEq : Gen.Mgmt.pathPrefix.toList ++ joinWith '/' qs = joinWith '/' ("api".toList :: qs) := by
    rw [hprefix, joinWith_cons_ne _ _ _ hqne]; rfl
  have hchars : (joinWith '/' ("api".toList :: qs)).all pathChar = true := by
    rw [List.all_eq_true]
    exact all_pathChar_joinWith _ (fun q hqm => (hgood' q hqm).chars)
  have hesc : wellEscaped (joinWith '/' ("api".toList :: qs)) = true :=
    wellEscaped_joinWith _ (fun q hqm => (hgood' q hqm).esc)
  have hhead : (joinWith '/' ("api".toList :: qs)).head? ≠ some '/' := by
    rw [joinWith_cons_ne _ _ _ hqne, show "api".toList = ['a', 'p', 'i'] by decide]
    simp
  have hb : base.bpath.isEmpty = true ∨ base.bpath.head? = some '/' := by
    simp only [Base.ok, Bool.and_eq_true, Bool.or_eq_true, decide_eq_true_eq] at hbase
    exact hbase.1.1
  have hmid' : ∀ s ∈ ("api".toList :: qs).dropLast, s ≠ [] := by
    cases qs with
    | nil => exact absurd rfl hqne
    | cons q0 qs0 =>
      intro s hs
      simp only [List.dropLast, List.mem_cons] at hs
      rcases hs with rfl | hs
      · decide
      · exact hmidq s (by simpa [List.dropLast] using hs)
  have hjoin := urljoinPath_clean base.bpath ("api".toList :: qs) hb hdirs (by simp)
    (fun s hs => (hgood' s hs).noSlash) hmid' (fun s hs => (hgood' s hs).noDot)
  refine ⟨segs, qs, hparse, hinst, ?_, ?_⟩
  · simp only [url, hpath]
    rw [hrelEq, if_pos, hjoin]
    simp only [hbase, hchars, hesc, Bool.and_self, Bool.true_and, decide_eq_true_eq]
    exact hhead
  · apply splitOn_join
    · simp
    · intro s hs
      rcases List.mem_append.1 hs with hs | hs
      · have : s ∈ splitOn '/' base.bpath := by
          simp only [baseDirs, baseParts] at hs
          have hs' := (List.mem_filter.1 hs).1
          have hs'' := List.mem_of_mem_drop hs'
          split at hs''
          · exact hs''
          · exact List.dropLast_subset _ hs''
        exact splitOn_mem_notMem '/' _ s this
      · exact (hgood' s hs).noSlash

theorem all2_resolves {env : Env} : ∀ {args : List Arg} {names : List Text},
    (∀ a ∈ args, a.enc = some "") → All2 (fun a n => pyOrChain env a.alts = some n) args names →
    All2 (Resolves env) args names := by
  intro args names hall h
  induction h with
  | nil => exact .nil
  | cons hr _ ih => exact .cons ⟨hall _ (by simp), hr⟩ (ih (fun a ha => hall a (by simp [ha])))

/-- corollary for the table: the hypotheses on the row are discharged by the table theorems -/
theorem segments_exact_table (base : Base) (e : Endpoint) (he : e ∈ Gen.Mgmt.ops) (env : Env)
    (names : List Text) (hres : All2 (fun a n => pyOrChain env a.alts = some n) e.args names)
    (hnames : ∀ n ∈ names, goodName n) (hbase : base.ok = true)
    (hdirs : ∀ d ∈ baseDirs base.bpath, isDot d = false) :
    ∃ segs qs, parseTemplate e.template.toList = some segs ∧
      inst segs (names.map (quote "")) = some qs ∧
      url base e env =
        .ok (base.origin ++ '/' :: joinWith '/' (baseDirs base.bpath ++ "api".toList :: qs)) ∧
      splitOn '/' (joinWith '/' (baseDirs base.bpath ++ "api".toList :: qs)) =
        baseDirs base.bpath ++ "api".toList :: qs := by
  have hq : All2 (Resolves env) e.args names := all2_resolves (all_names_quoted e he) hres
  exact segments_exact_partial base e env names hq (templates_wellformed e he) hnames hbase hdirs

/-- the witness against `SegmentsExact`, evaluated on the regenerated table: `Queue.delete` has the
    two quoted arguments, template `queues/%s/%s`, and for queue `..` on vhost `/` the prepared
    URL is `http://h/api/queues/` -/
@[irreducible] def dotWitness_check : Bool :=
  match findOp "Queue.delete" "" with
  | some e =>
    decide (e.args = [⟨some "", ["virtual_host"]⟩, ⟨some "", ["queue"]⟩]) &&
    decide (parseTemplate e.template.toList = some [.lit "queues".toList, .hole, .hole]) &&
    decide ((url ⟨"http://h".toList, []⟩ e
      [("queue", "..".toList), ("virtual_host", "/".toList)]).toOption =
        some "http://h/api/queues/".toList)
  | none => false
theorem dotWitness_kernel : dotWitness_check = true := by decide +kernel

/-- `SegmentsExact` is false of the code: `Queue.delete('..')` on vhost `/` requests
    `/api/queues/` (urljoin removes the dot segment together with the vhost segment).
    Recorded as known finding `C19/segment-lost/empty-or-dot-name`. -/
theorem not_segmentsExact : ¬ SegmentsExact := by
  intro h
  have hw := dotWitness_kernel
  unfold dotWitness_check at hw
  split at hw
  case h_2 => cases hw
  rename_i e hfind
  simp only [Bool.and_eq_true, decide_eq_true_eq] at hw
  obtain ⟨⟨hargs, htplE⟩, hurl⟩ := hw
  have hmem : e ∈ Gen.Mgmt.ops := List.mem_of_find?_eq_some hfind
  let env : Env := [("queue", "..".toList), ("virtual_host", "/".toList)]
  let base : Base := ⟨"http://h".toList, []⟩
  have hres : All2 (Resolves env) e.args ["/".toList, "..".toList] := by
    rw [hargs]
    exact .cons ⟨rfl, by decide⟩ (.cons ⟨rfl, by decide⟩ .nil)
  obtain ⟨segs, qs, hp, hi, hu⟩ := h base e env _ hmem hres (by decide) (by decide)
  have hsegs : segs = [.lit "queues".toList, .hole, .hole] := by
    rw [hp] at htplE; exact Option.some.inj htplE
  subst hsegs
  have hqs : qs = ["queues".toList, "%2F".toList, "..".toList] := by
    have : inst [.lit "queues".toList, .hole, .hole] (["/".toList, "..".toList].map (quote "")) =
        some ["queues".toList, "%2F".toList, "..".toList] := by decide +kernel
    rw [hi] at this; exact Option.some.inj this
  subst hqs
  rw [hurl] at hu
  exact absurd hu (by decide +kernel)

/-! ## outcome of a call -/

/-- `HTTPClient._request` ends in a return, `ApiError` or `ApiConnectionError` — nothing else -/
theorem request_total (t : Transport) :
    (∃ v, request t = .returned v) ∨ (∃ s, request t = .apiError s) ∨
      request t = .apiConnectionError := by
  cases t with
  | failed => exact Or.inr (Or.inr rfl)
  | response status body =>
    simp only [request]
    split
    · exact Or.inr (Or.inl ⟨_, rfl⟩)
    · cases body <;> simp

/-- a transport failure raises `ApiConnectionError` -/
theorem transport_failure : request .failed = .apiConnectionError := rfl

/-- an HTTP error status raises `ApiError` carrying exactly that status, whatever the body -/
theorem error_status (status : Nat) (body : Body) (h : 400 ≤ status ∧ status < 600) :
    request (.response status body) = .apiError status := by
  simp [request, raisesForStatus, h.1, h.2]

/-- an error object in the body raises `ApiError` carrying the status, whatever the status -/
theorem error_object (status : Nat) : request (.response status .errorObject) = .apiError status := by
  simp only [request]; split <;> rfl

/-- `ApiError` is raised only for an error status or an error object, and carries the status of
    the response it was raised for -/
theorem apiError_only_for_errors (t : Transport) (s : Nat) (h : request t = .apiError s) :
    ∃ body, t = .response s body ∧ ((400 ≤ s ∧ s < 600) ∨ body = .errorObject) := by
  cases t with
  | failed => simp [request] at h
  | response status body =>
    simp only [request] at h
    split at h
    · rename_i hs
      cases h
      simp only [raisesForStatus, Bool.and_eq_true, decide_eq_true_eq] at hs
      exact ⟨body, rfl, Or.inl hs⟩
    · cases body <;> simp at h
      subst h; exact ⟨_, rfl, Or.inr rfl⟩

/-- a non-error response with an empty / unparsable body returns `None` -/
theorem bodyless_returns_none (status : Nat) (h : ¬ (400 ≤ status ∧ status < 600)) :
    request (.response status .notJson) = .returned .none := by
  have : raisesForStatus status = false := by
    simp only [raisesForStatus, Bool.and_eq_false_iff, decide_eq_false_iff_not]
    by_cases h1 : 400 ≤ status
    · exact Or.inr (fun h2 => h ⟨h1, h2⟩)
    · exact Or.inl h1
  simp [request, this]

/-- the full "nothing else escapes" claim over all operations and server behaviours -/
def NothingElseEscapes : Prop :=
  ∀ e ∈ Gen.Mgmt.ops, ∀ (paginated documented : Bool) (t : Transport) (c : String),
    callOutcome (postKind e paginated) documented t ≠ some (.escaped c)

/-- the witness against `NothingElseEscapes` on the regenerated table: `Basic.get` iterates the
    client's result -/
@[irreducible] def escapeWitness_check : Bool :=
  match findOp "Basic.get" "" with
  | some e => decide (postKind e false = .iterates)
  | none => false
theorem escapeWitness_kernel : escapeWitness_check = true := by decide +kernel

/-- The code does not satisfy it: `Basic.get` on a 200 response without a JSON body raises
    TypeError (`for message in None`).  Recorded as known finding
    `C19/escape/TypeError/iterating-bodyless-2xx`. -/
theorem not_nothingElseEscapes : ¬ NothingElseEscapes := by
  intro h
  have hw := escapeWitness_kernel
  unfold escapeWitness_check at hw
  split at hw
  case h_2 => cases hw
  rename_i e hfind
  have hpost : postKind e false = .iterates := of_decide_eq_true hw
  have hmem : e ∈ Gen.Mgmt.ops := List.mem_of_find?_eq_some hfind
  have := h e hmem false false (.response 200 .notJson) "TypeError"
  rw [hpost] at this
  exact this (by decide)

/-- What holds: for every operation that returns the client's result as it is (all but
    `Basic.get`, `ManagementApi.top` and paginated listings) nothing but `ApiError` /
    `ApiConnectionError` escapes, for every server behaviour; and for the operations that iterate
    the result the same holds whenever the response is an error, a transport failure, or a 2xx
    response whose JSON body has the documented shape.  Missing for the full claim: a 2xx response
    with an empty, unparsable or `null` body handed to an iterating operation. -/
theorem nothing_else_escapes_partial (e : Endpoint) (paginated : Bool) (t : Transport) (c : String)
    (h : postKind e paginated = .plain ∨ request t ≠ .returned .none) :
    callOutcome (postKind e paginated) true t ≠ some (.escaped c) := by
  rcases h with h | h
  · rw [h]
    simp only [callOutcome]
    rcases request_total t with ⟨v, hv⟩ | ⟨s, hs⟩ | hc <;> simp_all
  · cases hk : postKind e paginated with
    | plain =>
      simp only [callOutcome]
      rcases request_total t with ⟨v, hv⟩ | ⟨s, hs⟩ | hc <;> simp_all
    | iterates =>
      rcases request_total t with ⟨v, hv⟩ | ⟨s, hs⟩ | hc
      · cases v with
        | none => exact absurd hv h
        | object => simp [callOutcome, hv]
        | other => simp [callOutcome, hv]
      · simp [callOutcome, hs]
      · simp [callOutcome, hc]

@[irreducible] def iterating_ops_check : Bool :=
  decide ((Gen.Mgmt.ops.filter (fun e => e.post ≠ "")).map (·.op) =
    ["ManagementApi.top", "ManagementApi.top", "Basic.get"])
theorem iterating_ops_kernel : iterating_ops_check = true := by decide +kernel

/-- which operations iterate the client's result (by the regenerated table) -/
theorem iterating_ops :
    (Gen.Mgmt.ops.filter (fun e => e.post ≠ "")).map (·.op) =
      ["ManagementApi.top", "ManagementApi.top", "Basic.get"] := by
  have h := iterating_ops_kernel; unfold iterating_ops_check at h; exact of_decide_eq_true h

/-! ## Non-vacuity -/
example : quote "" "a/b ?#%é".toList = "a%2Fb%20%3F%23%25%C3%A9".toList := by decide +kernel
example : pctDecode "a%2Fb%20%3F%23%25%C3%A9".toList = some (utf8 "a/b ?#%é".toList) := by
  decide +kernel
/-- concrete requests computed by the model on the regenerated table -/
@[irreducible] def urlExamples_check : Bool :=
  decide ((findOp "Queue.get" "").bind (fun e => (url ⟨"http://h:15672".toList, []⟩ e
      [("queue", "a/b".toList), ("virtual_host", "/".toList)]).toOption) =
    some "http://h:15672/api/queues/%2F/a%2Fb".toList) &&
  decide ((findOp "Queue.unbind" "").bind (fun e => (url ⟨"https://mq.example".toList, "/r/".toList⟩ e
      [("queue", "q?".toList), ("exchange", "é#".toList), ("routing_key", "k/1".toList),
       ("virtual_host", "v h".toList)]).toOption) =
    some "https://mq.example/r/api/bindings/v%20h/e/%C3%A9%23/q/q%3F/k%2F1".toList)
example : urlExamples_check = true := by decide +kernel
example : request (.response 404 .errorObject) = .apiError 404 ∧
    request (.response 200 .object) = .returned .object ∧
    request (.response 204 .notJson) = .returned .none := by decide

/-- a 2xx response whose JSON body is not an object (a number, a string, a list) is returned as it is:
    the model's `httpOutcome` only inspects objects for an "error" member, and so does the source (regenerated) -/
theorem error_guard_requires_object : Gen.Mgmt.errorGuardRequiresObject = true := by decide

end Amqp.C19
