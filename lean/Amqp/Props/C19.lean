import Amqp.Model.Mgmt
namespace Amqp.C19
open Amqp Amqp.Mgmt

/-- placeholder while the harness is brought up -/
theorem request_failed : request .failed = .apiConnectionError := rfl

end Amqp.C19
