import Amqp.Model.Wire
import Amqp.Lemmas.Parse
import Amqp.Gen.Skel
import Amqp.Gen.Wire
/-!
# C01 — concurrent writers never corrupt or interleave frames on the wire

Transition system `Amqp.Wire` (any number of threads, any split of every send, any number of
EAGAIN/timeout stutters, fatal errors).  The theorems hold for every reachable state, i.e. for every
interleaving of every number of writer threads.
-/
namespace Amqp.C01
open Amqp Amqp.Wire

theorem encodeAll_append (a b : List Frame) : encodeAll (a ++ b) = encodeAll a ++ encodeAll b := by
  simp [encodeAll]

/-- every `begin` carries well-formed frames -/
def ActWF : Act → Prop
  | .begin _ fs => ∀ f ∈ fs, f.WF
  | _ => True

instance : DecidablePred ActWF := fun a => by
  cases a <;> simp only [ActWF] <;> infer_instance

def ActsWF (as : List Act) : Prop := ∀ a ∈ as, ActWF a

instance (as : List Act) : Decidable (ActsWF as) := by unfold ActsWF; infer_instance

structure Inv (s : S) : Prop where
  /-- what the broker received is a prefix of the whole buffers in lock-acquisition order … -/
  pre : ∃ rest, s.wire ++ rest = encodeAll (framesLogged s)
  /-- … and, unless a fatal error cut a buffer short, exactly what is missing is the unsent
      remainder of the lock holder's buffer -/
  exact : s.failed = false → s.wire ++ remainder s = encodeAll (framesLogged s)

theorem inv_init : Inv init := ⟨⟨[], rfl⟩, fun _ => rfl⟩

theorem step_inv (s s' : S) (a : Act) (h : Inv s) (hs : step s a = some s') : Inv s' := by
  obtain ⟨⟨rest, hpre⟩, hex⟩ := h
  cases a with
  | begin t fs =>
    simp only [step] at hs
    split at hs
    · cases hs
    · cases hs; exact ⟨⟨rest, hpre⟩, hex⟩
  | acquire t =>
    simp only [step] at hs
    split at hs
    · rename_i t0 fs hh hfind
      cases hs
      have hr : remainder s = [] := by simp [remainder, hh]
      refine ⟨⟨rest ++ encodeAll fs, ?_⟩, ?_⟩
      · simp only [framesLogged, List.flatten_append, List.flatten_cons, List.flatten_nil,
          List.append_nil, encodeAll_append]
        rw [← List.append_assoc, hpre]; rfl
      · intro hf
        have := hex hf
        rw [hr, List.append_nil] at this
        simp only [remainder, framesLogged, List.flatten_append, List.flatten_cons, List.flatten_nil,
          List.append_nil, encodeAll_append]
        rw [this]; rfl
    · cases hs
  | send t k =>
    simp only [step] at hs
    split at hs
    · rename_i t' r hh
      split at hs
      · rename_i hc
        cases hs
        obtain ⟨rfl, _, _, hnf⟩ := hc
        have hnf' : s.failed = false := by simpa using hnf
        have := hex hnf'
        simp only [remainder, hh] at this
        refine ⟨⟨r.drop k, ?_⟩, fun _ => ?_⟩ <;>
          simp only [remainder, framesLogged, List.append_assoc, List.take_append_drop] <;> exact this
      · cases hs
    · cases hs
  | stutter t =>
    simp only [step] at hs
    split at hs
    · split at hs
      · cases hs; exact ⟨⟨rest, hpre⟩, hex⟩
      · cases hs
    · cases hs
  | release t =>
    simp only [step] at hs
    split at hs
    · rename_i t' r hh
      split at hs
      · rename_i hc
        cases hs
        obtain ⟨_, rfl⟩ := hc
        refine ⟨⟨rest, hpre⟩, fun hf => ?_⟩
        have := hex hf
        simpa [remainder, hh, framesLogged] using this
      · cases hs
    · cases hs
  | fail t =>
    simp only [step] at hs
    split at hs
    · split at hs
      · cases hs
        exact ⟨⟨rest, hpre⟩, fun hf => by simp at hf⟩
      · cases hs
    · cases hs

theorem run_inv : ∀ (as : List Act) (s s' : S), Inv s → run s as = some s' → Inv s' := by
  intro as
  induction as with
  | nil => intro s s' h hr; simp [run] at hr; subst hr; exact h
  | cons a as ih =>
    intro s s' h hr
    simp only [run] at hr
    split at hr
    · cases hr
    · rename_i s1 hs1
      exact ih s1 s' (step_inv s s1 a h hs1) hr

/-- **The wire is always a prefix of whole buffers written call after call**, and while no fatal
    error occurred it lacks exactly the unsent remainder of the single lock holder: no byte of any
    other thread can ever sit inside another call's buffer. -/
theorem wire_is_prefix_of_whole_buffers (s : S) (h : Reachable s) :
    (∃ rest, s.wire ++ rest = encodeAll (framesLogged s)) ∧
    (s.failed = false → s.wire ++ remainder s = encodeAll (framesLogged s)) := by
  obtain ⟨as, hr⟩ := h
  have := run_inv as init s inv_init hr
  exact ⟨this.pre, this.exact⟩

/-! ### the logged frames are well-formed whenever the calls' frames are -/

def LogWF (s : S) : Prop :=
  (∀ fs ∈ s.log, ∀ f ∈ fs, f.WF) ∧ (∀ p ∈ s.waiting, ∀ f ∈ p.2, f.WF)

theorem step_logwf (s s' : S) (a : Act) (h : LogWF s) (ha : ActsWF [a]) (hs : step s a = some s') :
    LogWF s' := by
  obtain ⟨h1, h2⟩ := h
  cases a with
  | begin t fs =>
    simp only [step] at hs
    split at hs
    · cases hs
    · cases hs
      refine ⟨h1, ?_⟩
      intro p hp
      simp only [List.mem_append, List.mem_singleton] at hp
      rcases hp with hp | rfl
      · exact h2 p hp
      · exact ha (.begin t fs) (by simp)
  | acquire t =>
    simp only [step] at hs
    split at hs
    · rename_i t0 fs hh hfind
      cases hs
      have hmem := List.mem_of_find?_eq_some hfind
      refine ⟨?_, ?_⟩
      · intro gs hg
        simp only [List.mem_append, List.mem_singleton] at hg
        rcases hg with hg | rfl
        · exact h1 gs hg
        · exact h2 _ hmem
      · intro p hp; exact h2 p (List.mem_filter.mp hp).1
    · cases hs
  | send t k =>
    simp only [step] at hs
    split at hs
    · split at hs
      · cases hs; exact ⟨h1, h2⟩
      · cases hs
    · cases hs
  | stutter t =>
    simp only [step] at hs
    split at hs
    · split at hs
      · cases hs; exact ⟨h1, h2⟩
      · cases hs
    · cases hs
  | release t =>
    simp only [step] at hs
    split at hs
    · split at hs
      · cases hs; exact ⟨h1, h2⟩
      · cases hs
    · cases hs
  | fail t =>
    simp only [step] at hs
    split at hs
    · split at hs
      · cases hs; exact ⟨h1, h2⟩
      · cases hs
    · cases hs

theorem actsWF_cons (a : Act) (as : List Act) (h : ActsWF (a :: as)) : ActsWF [a] ∧ ActsWF as :=
  ⟨fun b hb => h b (by simp at hb; simp [hb]), fun b hb => h b (by simp [hb])⟩

theorem run_logwf : ∀ (as : List Act) (s s' : S), LogWF s → ActsWF as → run s as = some s' → LogWF s' := by
  intro as
  induction as with
  | nil => intro s s' h _ hr; simp [run] at hr; subst hr; exact h
  | cons a as ih =>
    intro s s' h hwf hr
    simp only [run] at hr
    split at hr
    · cases hr
    · rename_i s1 hs1
      obtain ⟨ha, has⟩ := actsWF_cons a as hwf
      exact ih s1 s' (step_logwf s s1 a h ha hs1) has hr

/-- **Complete frames.**  Whenever no write is in flight (lock free) and no fatal error happened,
    the broker-side parser splits everything received into exactly the frames of the calls, call
    after call in lock order, with nothing left over. -/
theorem wire_frames_complete (as : List Act) (s : S) (hr : run init as = some s) (hwf : ActsWF as)
    (hnf : s.failed = false) (hfree : s.holder = none) :
    readBuffer s.wire = (framesLogged s, []) := by
  have hinv := run_inv as init s inv_init hr
  have hl := run_logwf as init s ⟨by simp [init], by simp [init]⟩ hwf hr
  have hex := hinv.exact hnf
  simp only [remainder, hfree, List.append_nil] at hex
  have hall : ∀ f ∈ framesLogged s, f.WF := by
    intro f hf
    simp only [framesLogged, List.mem_flatten] at hf
    obtain ⟨fs, hfs, hf⟩ := hf
    exact hl.1 fs hfs f hf
  obtain ⟨n, t, h1, h2, h3, h4, h5⟩ := readBuffer_prefix (framesLogged s) hall s.wire [] (by simpa using hex)
  -- the residual t is both empty-or-strict-prefix and equal to the encoding of the rest
  rw [List.append_nil] at h3
  have hdrop : (framesLogged s).drop n = [] := by
    rcases hd : (framesLogged s).drop n with _ | ⟨g, gs⟩
    · rfl
    · have := h4 g (by rw [hd]; rfl)
      rw [h3, hd] at this
      simp [encodeAll] at this; omega
  have ht := h5 hdrop
  have htake : (framesLogged s).take n = framesLogged s := by
    have := List.take_append_drop n (framesLogged s); rw [hdrop, List.append_nil] at this; exact this
  rw [h1, htake, ht]

/-- **Mid-write and after a failure** the broker still sees only whole frames of whole calls plus
    a strict prefix of the next frame: nothing is re-ordered, duplicated or mixed. -/
theorem wire_frames_prefix (as : List Act) (s : S) (hr : run init as = some s) (hwf : ActsWF as) :
    ∃ n t, readBuffer s.wire = ((framesLogged s).take n, t) ∧
      encodeAll ((framesLogged s).take n) ++ t = s.wire ∧
      (∀ g, ((framesLogged s).drop n).head? = some g → t.length < g.encode.length) := by
  have hinv := run_inv as init s inv_init hr
  have hl := run_logwf as init s ⟨by simp [init], by simp [init]⟩ hwf hr
  obtain ⟨rest, hpre⟩ := hinv.pre
  have hall : ∀ f ∈ framesLogged s, f.WF := by
    intro f hf
    simp only [framesLogged, List.mem_flatten] at hf
    obtain ⟨fs, hfs, hf⟩ := hf
    exact hl.1 fs hfs f hf
  obtain ⟨n, t, h1, h2, _, h4, _⟩ := readBuffer_prefix (framesLogged s) hall s.wire rest hpre
  exact ⟨n, t, h1, h2, h4⟩

/-- **Contiguity of every call's frames** (in particular of `[Basic.Publish, ContentHeader,
    ContentBody…]` handed over by one `write_frames` call): in the complete parse the frames of the
    i-th call form one contiguous block, preceded only by the frames of earlier lock holders and
    followed only by those of later ones — no frame of any channel in between. -/
theorem call_frames_contiguous (as : List Act) (s : S) (hr : run init as = some s) (hwf : ActsWF as)
    (hnf : s.failed = false) (hfree : s.holder = none) (i : Nat) (fs : List Frame)
    (hi : s.log[i]? = some fs) :
    (readBuffer s.wire).1 = (s.log.take i).flatten ++ fs ++ (s.log.drop (i + 1)).flatten := by
  rw [wire_frames_complete as s hr hwf hnf hfree]
  simp only [framesLogged]
  have hlt : i < s.log.length := by
    rcases Nat.lt_or_ge i s.log.length with h | h
    · exact h
    · rw [List.getElem?_eq_none h] at hi; cases hi
  have hget : s.log[i] = fs := by
    rw [List.getElem?_eq_getElem hlt] at hi; exact Option.some.inj hi
  conv => lhs; rw [← List.take_append_drop i s.log]
  rw [List.drop_eq_getElem_cons hlt, hget]
  simp [List.flatten_append]

/-- only one thread is ever inside the send loop (the lock holder), and a thread sends only bytes
    of its own buffer: the enabledness condition of `send`. -/
theorem send_only_by_holder (s s' : S) (t k : Nat) (h : step s (.send t k) = some s') :
    ∃ r, s.holder = some (t, r) ∧ s'.wire = s.wire ++ r.take k ∧ s'.holder = some (t, r.drop k) := by
  simp only [step] at h
  split at h
  · rename_i t' r hh
    split at h
    · rename_i hc; cases h; obtain ⟨rfl, _⟩ := hc; exact ⟨r, hh, rfl, rfl⟩
    · cases h
  · cases h

/-! ## Tie obligations: the concurrency skeletons the step functions were written against

`Gen.Skel.*` is regenerated from /repo on every run.  `begin` = entry of `write_to_socket` with the
single buffer built by `write_frame`/`write_frames` (all frames marshalled *before* the one call);
`acquire` = `_wr_lock.acquire()` before the loop; `send`/`stutter` = the loop body (`continue` on
EAGAIN, `pass` on timeout, both with the lock still held); `release`/`fail` = `finally: release`.
`Basic.publish` hands `[method, header] ++ bodies` to exactly one `write_frames`. -/

/-- the model's `send t k` consumes exactly the k bytes the socket accepted and `stutter` (EAGAIN, time-out)
    consumes nothing: the source counts the same way (regenerated) -/
theorem byte_accounting : Gen.Wire.countsOnlyAcceptedBytes = true ∧ Gen.Wire.writeLockUnconditional = true := by decide

/-- **The socket is only ever replaced or dropped while no writer is inside a buffer**: `IO.close` and `IO.open`
    take the write lock (and the read lock) around it, so a writer that re-reads `self.socket` on its next attempt
    cannot carry the rest of a buffer over to another connection's socket.  Regenerated per-method lock table. -/
theorem socket_replaced_only_with_both_locks :
    Gen.Skel.acquires.lookup "IO_close" = some ["_wr_lock", "_rd_lock"] ∧
    Gen.Skel.acquires.lookup "IO_open" = some ["_wr_lock", "_rd_lock"] ∧
    Gen.Skel.acquires.lookup "IO_write_to_socket" = some ["_wr_lock"] := by decide

theorem skel_IO_write_to_socket : Gen.Skel.IO_write_to_socket =
  ["acq:_wr_lock", "try", "while", "do", "try", "r:socket", "if", "then", "raise:socket.error",
    "endif", "call:sock.send", "if", "then", "raise:socket.error", "endif",
    "except:socket.timeout", "except:socket.error", "if", "then", "continue", "endif",
    "r:_exceptions", "call:_exceptions.append", "return", "endtry", "endwhile", "finally",
    "rel:_wr_lock", "endtry"] := by decide

theorem skel_Connection_write_frame : Gen.Skel.Connection_write_frame =
  ["call:pamqp_frame.marshal", "call:heartbeat.register_write", "r:_io",
    "call:_io.write_to_socket"] := by decide

theorem skel_Connection_write_frames : Gen.Skel.Connection_write_frames =
  ["for", "do", "call:pamqp_frame.marshal", "endfor", "call:heartbeat.register_write", "r:_io",
    "call:_io.write_to_socket"] := by decide

theorem skel_Channel_write_frame : Gen.Skel.Channel_write_frame =
  ["call:check_for_errors", "call:_connection.write_frame"] := by decide

theorem skel_Channel_write_frames : Gen.Skel.Channel_write_frames =
  ["call:check_for_errors", "call:_connection.write_frames"] := by decide

theorem skel_Basic_publish : Gen.Skel.Basic_publish =
  ["call:_validate_publish_parameters", "call:_handle_utf8_payload", "for",
    "call:_create_content_body", "do", "call:frames_out.append", "endfor", "if",
    "r:confirming_deliveries", "then", "acq:_channel.rpc.lock", "call:_publish_confirm",
    "return", "rel:_channel.rpc.lock", "endif", "call:_channel.write_frames"] := by decide

theorem skel_Basic__publish_confirm : Gen.Skel.Basic__publish_confirm =
  ["call:_channel.rpc.register_request", "call:_channel.write_frames",
    "call:_channel.rpc.get_request", "if", "then", "call:_channel.check_for_exceptions",
    "endif", "if", "then", "return", "endif", "return"] := by decide

/-! ## Non-vacuity: two writers, a partial send, an EAGAIN, interleaved begins -/
def fA : Frame := ⟨1, 1, [0, 60, 0, 40, 1]⟩
def fB : Frame := ⟨2, 1, [0, 60, 0, 0, 9]⟩
def fC : Frame := ⟨8, 0, []⟩
def demo : List Act :=
  [.begin 1 [fA, fB], .begin 2 [fC], .acquire 1, .send 1 5, .stutter 1, .send 1 21, .release 1,
   .acquire 2, .send 2 8, .release 2]

example : ActsWF demo := by decide
example : (run init demo).map (fun s => (readBuffer s.wire).1) = some [fA, fB, fC] := by decide
example : (run init demo).map (fun s => (s.failed, s.holder)) = some (false, none) := by decide

end Amqp.C01
