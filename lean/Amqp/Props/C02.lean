import Amqp.Lemmas.Parse
/-!
# C02 — inbound frames survive any fragmentation of the byte stream

Property theorems only.  Model: `Amqp/Model/Parse.lean` (pamqp's envelope as it is, composed with
`Connection._handle_amqp_frame`, `_read_buffer` and the carry-over buffer of
`IO._process_incoming_data`).  The byte-count guard is regenerated from the source
(`Gen.Parse.guardsByteCount`); without it `handleFrame_prefix_none` is false at the 7-byte prefix
of a heartbeat (see `heartbeat_cut_without_guard`).
-/
namespace Amqp.C02
open Amqp

def init : RdState := {}
@[simp] theorem init_buf : init.buf = [] := rfl
@[simp] theorem init_out : init.out = [] := rfl

/-- Everything the reader has dispatched to channel `c` (what `_read_buffer` hands to
    `channels[c].on_frame`, or `channel0.on_frame` for `c = 0`), in order. -/
def dispatchedTo (c : Nat) (s : RdState) : List Frame := s.out.filter (fun f => f.chan = c)

/-- one whole frame followed by anything parses to exactly that frame and leaves the rest -/
theorem parse1_encode (f : Frame) (h : f.WF) (rest : Bytes) :
    handleFrame (f.encode ++ rest) = some (f, rest) := handleFrame_encode f h rest

/-- a strict prefix of a frame is never mis-parsed: the buffer is kept untouched -/
theorem parse1_prefix_none (f : Frame) (h : f.WF) (k : Nat) (hk : k < f.encode.length) :
    handleFrame (f.encode.take k) = none := handleFrame_prefix_none f h k hk

/-- General form.  Start in any state whose carry-over `s.buf` is a strict prefix of the next
    frame; feed any chunks such that `s.buf ++ chunks ++ q` is the encoding of the remaining frames
    `gs`.  Then exactly a prefix `gs.take n` was dispatched (appended, in order), the residual is a
    strict prefix of the next frame's bytes, and dispatched bytes ++ residual = consumed bytes. -/
theorem feed_general (chunks : List Bytes) :
    ∀ (gs : List Frame) (_ : ∀ f ∈ gs, f.WF) (s : RdState) (q : Bytes),
    s.buf ++ chunks.flatten ++ q = encodeAll gs →
    ∃ n, (chunks.foldl feed s).out = s.out ++ gs.take n ∧
      encodeAll (gs.take n) ++ (chunks.foldl feed s).buf = s.buf ++ chunks.flatten ∧
      (chunks.foldl feed s).buf ++ q = encodeAll (gs.drop n) ∧
      (chunks ≠ [] → (∀ g, (gs.drop n).head? = some g →
          (chunks.foldl feed s).buf.length < g.encode.length) ∧
        ((gs.drop n) = [] → (chunks.foldl feed s).buf = [])) := by
  induction chunks with
  | nil =>
    intro gs _ s q h
    exact ⟨0, by simp, by simp [encodeAll], by simpa using h, by simp⟩
  | cons c cs ih =>
    intro gs hwf s q h
    have h' : (s.buf ++ c) ++ (cs.flatten ++ q) = encodeAll gs := by
      simpa [List.append_assoc] using h
    obtain ⟨n, t, h1, h2, h3, h4, h5⟩ := readBuffer_prefix gs hwf _ _ h'
    have hfeed : feed s c = { buf := t, out := s.out ++ gs.take n } := by
      simp [feed, h1]
    have hwf' : ∀ f ∈ gs.drop n, f.WF := fun f hf => hwf f (List.mem_of_mem_drop hf)
    obtain ⟨m, g1, g2, g3, g4⟩ := ih (gs.drop n) hwf' (feed s c) q
      (by rw [hfeed]; simpa [List.append_assoc] using h3)
    refine ⟨n + m, ?_, ?_, ?_, ?_⟩
    · simp only [List.foldl_cons]; rw [g1, hfeed]; simp [List.take_add, List.append_assoc]
    · simp only [List.foldl_cons, List.flatten_cons]
      rw [List.take_add, show encodeAll (gs.take n ++ (gs.drop n).take m)
            = encodeAll (gs.take n) ++ encodeAll ((gs.drop n).take m) by simp [encodeAll],
          List.append_assoc, g2, hfeed]
      simp only [← List.append_assoc]; rw [h2]
    · simp only [List.foldl_cons]; rw [g3, List.drop_drop]
    · intro _
      simp only [List.foldl_cons]
      by_cases hcs : cs = []
      · subst hcs
        have hm : (gs.drop n).take m = [] := by
          have := g1; simp only [List.foldl_nil] at this
          have := List.append_cancel_left (as := (feed s c).out) (bs := [])
            (cs := (gs.drop n).take m) (by simpa using this)
          exact this.symm
        simp only [List.foldl_nil]
        rw [hfeed]
        have hdrop : gs.drop (n + m) = gs.drop n := by
          rw [← List.drop_drop]
          rcases m with _ | m
          · simp
          · rcases hd : gs.drop n with _ | ⟨x, xs⟩
            · simp
            · rw [hd] at hm; simp at hm
        rw [hdrop]; exact ⟨h4, h5⟩
      · have := g4 hcs
        rw [List.drop_drop] at this
        exact this

/-- **Any chunking of a complete stream**: every frame is dispatched exactly once, in order,
    and nothing is left in the carry-over buffer. -/
theorem feed_any_chunking (fs : List Frame) (hwf : ∀ f ∈ fs, f.WF) (chunks : List Bytes)
    (h : chunks.flatten = encodeAll fs) :
    (chunks.foldl feed init).out = fs ∧ (chunks.foldl feed init).buf = [] := by
  by_cases hc : chunks = []
  · subst hc
    simp only [List.flatten_nil] at h
    have : fs = [] := by
      rcases fs with _ | ⟨f, fs⟩
      · rfl
      · have := congrArg List.length h; simp [encodeAll, Frame.encode_length] at this; omega
    subst this; simp
  · obtain ⟨n', k1, k2, k3, k4⟩ := feed_general chunks fs hwf init [] (by simp [h])
    have k4 := k4 hc
    simp only [init_buf, init_out, List.nil_append, List.append_nil] at k1 k2 k3
    -- the residual is both the full encoding of `fs.drop n'` and strictly shorter than its head
    have hdrop : fs.drop n' = [] := by
      rcases hd : fs.drop n' with _ | ⟨g, gs⟩
      · rfl
      · have hl := k4.1 g (by rw [hd]; rfl)
        rw [k3, hd] at hl
        simp [encodeAll] at hl; omega
    have hbuf := k4.2 hdrop
    refine ⟨?_, hbuf⟩
    rw [k1]
    have : fs.take n' = fs := by
      have := List.take_append_drop n' fs; rw [hdrop, List.append_nil] at this; exact this
    exact this

/-- **Any chunking of any prefix of the stream**: what was dispatched is a prefix of the frames
    sent — nothing dropped, duplicated, reordered or re-interpreted — the bytes of the dispatched
    frames followed by the carry-over are exactly the bytes received so far, and the carry-over is a
    strict prefix of the next frame (so the dispatched list is the *maximal* list of whole frames). -/
theorem feed_prefix (fs : List Frame) (hwf : ∀ f ∈ fs, f.WF) (chunks : List Bytes) (q : Bytes)
    (h : chunks.flatten ++ q = encodeAll fs) :
    ∃ n, (chunks.foldl feed init).out = fs.take n ∧
      encodeAll (fs.take n) ++ (chunks.foldl feed init).buf = chunks.flatten ∧
      (chunks ≠ [] → ∀ g, (fs.drop n).head? = some g →
        (chunks.foldl feed init).buf.length < g.encode.length) := by
  obtain ⟨n, h1, h2, _, h4⟩ := feed_general chunks fs hwf init q (by simpa using h)
  exact ⟨n, by simpa using h1, by simpa using h2, fun hc => (h4 hc).1⟩

/-- **Routing**: after the whole stream, what each channel's handler saw is exactly the
    sub-sequence of frames addressed to it, in order. -/
theorem route_correct (fs : List Frame) (hwf : ∀ f ∈ fs, f.WF) (chunks : List Bytes)
    (h : chunks.flatten = encodeAll fs) (c : Nat) :
    dispatchedTo c (chunks.foldl feed init) = fs.filter (fun f => f.chan = c) := by
  unfold dispatchedTo; rw [(feed_any_chunking fs hwf chunks h).1]

/-- **One reader per connection, also after reconnecting**: `IO.close` joins the reader thread (read from the
    source on this run), so however often the same object is closed and re-opened exactly one reader consumes the
    stream - the premise of `feed`'s sequential reading in every theorem above. -/
theorem one_reader_after_reconnects (k : Nat) : readersAfter k 1 = 1 := by
  have h : Gen.Parse.closeJoinsReader = true := by decide
  induction k with
  | zero => rfl
  | succ k ih => simpa [readersAfter, readersAfterReconnect, h] using ih

/-- why that matters: with a second (revived) reader on the same buffer a frame is dispatched twice - both readers
    take the buffer before either has written the rest back -/
theorem two_readers_dispatch_twice :
    ([RAct.arrive (Frame.encode ⟨1, 3, [7, 7]⟩), .snap 1, .snap 2, .commit 1, .commit 2].foldl Shared.step {}).st.out =
      [⟨1, 3, [7, 7]⟩, ⟨1, 3, [7, 7]⟩] := by decide

/-- **A re-opened connection understands its new stream**, whatever the old one left behind: after `IO.open`
    on the same object, in any state `s` (an arbitrary partial frame in the carry-over), any chunking of a complete
    stream `fs` dispatches exactly `fs` after what had been dispatched before, and leaves nothing over. -/
theorem reopen_stream_understood (s : RdState) (fs : List Frame) (hwf : ∀ f ∈ fs, f.WF) (chunks : List Bytes)
    (h : chunks.flatten = encodeAll fs) :
    (chunks.foldl feed (reopen s)).out = s.out ++ fs ∧ (chunks.foldl feed (reopen s)).buf = [] := by
  have hr : reopen s = { buf := [], out := s.out } := by
    have : Gen.Parse.openResetsCarry = true := by decide
    simp [reopen, this]
  rw [hr]
  by_cases hc : chunks = []
  · subst hc
    simp only [List.flatten_nil] at h
    have : fs = [] := by
      rcases fs with _ | ⟨f, fs⟩
      · rfl
      · have := congrArg List.length h; simp [encodeAll, Frame.encode_length] at this; omega
    subst this; simp
  · obtain ⟨n', k1, _, k3, k4⟩ := feed_general chunks fs hwf { buf := [], out := s.out } [] (by simp [h])
    have k4 := k4 hc
    simp only [List.nil_append, List.append_nil] at k1 k3
    have hdrop : fs.drop n' = [] := by
      rcases hd : fs.drop n' with _ | ⟨g, gs⟩
      · rfl
      · have hl := k4.1 g (by rw [hd]; rfl)
        rw [k3, hd] at hl
        simp [encodeAll] at hl; omega
    refine ⟨?_, k4.2 hdrop⟩
    rw [k1]
    have : fs.take n' = fs := by
      have := List.take_append_drop n' fs; rw [hdrop, List.append_nil] at this; exact this
    rw [this]

/-- `route` sends a frame to channel 0, to its registered channel, or nowhere -/
theorem route_spec (reg : List Nat) (f : Frame) :
    (f.chan = 0 → route reg f = .chan0) ∧
    (f.chan ≠ 0 → f.chan ∈ reg → route reg f = .registered f.chan) ∧
    (f.chan ≠ 0 → f.chan ∉ reg → route reg f = .dropped) := by
  unfold route; refine ⟨?_, ?_, ?_⟩ <;> intros <;> simp [*]

/-! ## Non-vacuity and the quirk the guard protects against -/

def hb : Frame := ⟨8, 0, []⟩
def m1 : Frame := ⟨1, 1, [0, 10, 0, 11]⟩
def b1 : Frame := ⟨3, 2, [1, 2, 3]⟩

example : hb.WF ∧ m1.WF ∧ b1.WF := by decide
example : [hb.encode.take 7, hb.encode.drop 7 ++ m1.encode.take 3, m1.encode.drop 3 ++ b1.encode].flatten
    = encodeAll [hb, m1, b1] := by decide
example : ([hb.encode.take 7, hb.encode.drop 7 ++ m1.encode.take 3, m1.encode.drop 3 ++ b1.encode].foldl
    feed init).out = [hb, m1, b1] := by decide

/-- the model's parser has no error output for a buffer that ends inside a frame; the source agrees: the
    handler of pamqp's "not enough data" exception does nothing (regenerated) -/
theorem incomplete_is_not_an_error : Gen.Parse.incompleteIsSilent = true := by decide

/-- pamqp alone reports 8 consumed bytes for the first 7 bytes of a heartbeat: without the
    byte-count guard the trailing 0xCE would be left to desynchronise the stream. -/
theorem heartbeat_cut_without_guard : unmarshalEnv (hb.encode.take 7) = some (8, hb) := by decide

end Amqp.C02
