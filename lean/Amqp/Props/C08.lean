import Amqp.Model.Lifecycle
import Amqp.Gen.Skel
/-!
# C08 — close() always ends clean; failed open leaks nothing; reopen starts fresh

`Amqp.Lifecycle` interprets the statement lists regenerated from the source (`Gen.Lifecycle`).
The tie theorems `…Program_eq` say what those lists are *now*; the property theorems are proved about
`closeConn` / `openConn` / `chanOpen` / `step`, i.e. about the interpreter applied to the regenerated
lists.  Partial: sockets, threads and timers are ghost resources (the virtual runtime's inventory in
the correspondence check); `join-reader` assumes the reader leaves its loop once the run flag is down.
-/
namespace Amqp.C08
open Amqp.Lifecycle

/-! ## Tie: the regenerated programs -/

theorem closeProgram_eq : closeProgram =
    [.closingIfNotClosed, .hbStop, .handshakeIfOpen, .swallowConnError, .finCloseChannels, .finIoClose, .finStateClosed] := by
  decide
theorem ioCloseProgram_eq : ioCloseProgram =
    [.clearRunning, .closeSocket, .joinReader, .dropSocket, .dropPoller, .dropThread] := by decide
theorem ioOpenProgram_eq : ioOpenProgram = [.resetBuffer, .setRunning, .connect, .makePoller, .startReader] := by decide
theorem openProgram_eq : openProgram =
    [.stateOpening, .clearErrors, .resetChannels, .resetLastId, .ioOpen, .handshake, .waitOpen, .hbStart] := by decide
theorem cleanupProgram_eq : cleanupProgram = [.stateClosed, .ioClose] := by decide
theorem chanOpenProgram_eq : chanOpenProgram =
    [.clearInbound, .resetReturned, .clearErrors, .resetConfirm, .stateOpening, .rpcOpen, .stateOpen] := by decide
theorem closeRemaining_eq : crSetsClosed = true ∧ crCloses = true ∧ crUnregisters = true := by decide

/-! ## Heartbeat.stop() against the re-arming timer thread: all interleavings -/

/-- **No interleaving of `stop()` with the timer thread leaves an armed timer behind.** -/
theorem hb_stop_wins : Hb.leaks = false := by decide +kernel

/-- the re-arm as it used to be (running test and timer creation outside the lock) does leak: a
    kernel-checked schedule exists -/
theorem unlocked_rearm_leaks :
    Hb.leaksWith ["clear-running", "lock", "cancel-timer", "drop-timer", "unlock"]
      (["test-running", "lock", "unlock"] ++ ["test-running", "create-timer", "start-timer"]) = true := by decide +kernel

/-! ## IO.close -/

theorem ioClose_spec (s : L) :
    (ioClose s).sock = .absent ∧ (ioClose s).reader = .absent ∧ (ioClose s).ioRunning = false ∧
    (ioClose s).leakedSocks = s.leakedSocks ∧ (ioClose s).leakedReaders = s.leakedReaders ∧
    (ioClose s).state = s.state ∧ (ioClose s).chans = s.chans ∧ (ioClose s).timers = s.timers ∧
    (ioClose s).hbRunning = s.hbRunning ∧ (ioClose s).errs = s.errs ∧ (ioClose s).lastId = s.lastId ∧
    (ioClose s).hbInterval = s.hbInterval := by
  obtain ⟨st, er, ch, li, sock, rd, run, stl, ls, lr, hb, tm, hi⟩ := s
  simp only [ioClose, ioCloseWith, ioCloseProgram_eq, List.foldl, ioCloseStep]
  cases sock <;> cases rd <;> simp

/-- `ioClose` written out -/
theorem ioClose_eq (s : L) : ioClose s = { s with sock := .absent, reader := .absent, ioRunning := false } := by
  obtain ⟨st, er, ch, li, sock, rd, run, stl, ls, lr, hb, tm, hi⟩ := s
  simp only [ioClose, ioCloseWith, ioCloseProgram_eq, List.foldl, ioCloseStep]
  cases sock <;> cases rd <;> simp

/-! ## close() -/

theorem closed_eq : closed = 0 := rfl
theorem closing_eq : closing = 1 := rfl
theorem opening_eq : opening = 2 := rfl
theorem open_eq : open_ = 3 := rfl

/-- `closeConn` written out: whatever happens on the way, the result is the same clean state -/
theorem closeConn_eq (s : L) (e : CloseEnd) (race : Bool) :
    closeConn s e race =
      ({ s with state := closed, chans := [], sock := .absent, reader := .absent, ioRunning := false,
                hbRunning := false, timers := 0,
                errs := if s.state ≠ closed ∧ s.sock ≠ .absent ∧ e = .error then s.errs + 1 else s.errs }, false) := by
  obtain ⟨_, _, hu⟩ := closeRemaining_eq
  obtain ⟨st, er, ch, li, sock, rd, run, stl, ls, lr, hb, tm, hi⟩ := s
  simp only [closeConn, closeWith, closeProgram_eq, List.foldl, closeStep, hb_stop_wins, Bool.and_false,
    Bool.false_eq_true, false_and, if_false, closeChannels, hu, if_true, ioClose_eq, closed_eq, closing_eq]
  by_cases h1 : st = 0
  · subst h1; simp
  · cases e <;> cases sock <;> simp [h1]

/-- **close() ends clean from every state, however the close handshake ends and whether or not the
    heartbeat timer fires meanwhile; it never raises and creates no leak.** -/
theorem close_clean (s : L) (e : CloseEnd) (race : Bool) :
    (closeConn s e race).2 = false ∧ (closeConn s e race).1.state = closed ∧ (closeConn s e race).1.chans = [] ∧
    (closeConn s e race).1.sock = .absent ∧ (closeConn s e race).1.reader = .absent ∧
    (closeConn s e race).1.timers = 0 ∧ (closeConn s e race).1.hbRunning = false ∧
    (closeConn s e race).1.leakedSocks = s.leakedSocks ∧ (closeConn s e race).1.leakedReaders = s.leakedReaders ∧
    (closeConn s e race).1.hbInterval = s.hbInterval := by
  rw [closeConn_eq]; simp

/-- close() is idempotent -/
theorem close_idempotent (s : L) (e e' : CloseEnd) (r r' : Bool) :
    closeConn (closeConn s e r).1 e' r' = closeConn s e r := by
  rw [closeConn_eq s e r, closeConn_eq]
  simp [closed_eq]

/-! ## open() -/

theorem cleanup_eq (s : L) : cleanup s = { s with state := closed, sock := .absent, reader := .absent, ioRunning := false } := by
  simp only [cleanup, cleanupProgram_eq, List.foldl, cleanupStep, ioClose_eq]

/-- `IO.open` written out -/
theorem ioOpen_eq (s : L) (connects : Bool) :
    ioOpen s connects =
      if connects then
        ({ s with ioRunning := true, stale := false, sock := .live, reader := .running,
                  leakedSocks := if s.sock = .live then s.leakedSocks + 1 else s.leakedSocks,
                  leakedReaders := if s.reader = .running then s.leakedReaders + 1 else s.leakedReaders }, false)
      else ({ s with ioRunning := true, stale := false }, true) := by
  obtain ⟨st, er, ch, li, sock, rd, run, stl, ls, lr, hb, tm, hi⟩ := s
  cases connects <;> simp [ioOpen, ioOpenWith, ioOpenProgram_eq, List.foldl, ioOpenStep]

/-- **A failed open() leaks nothing**: whichever way it fails (connect error, the broker refuses, the
    transport dies, the broker never answers), a connection that held no resources holds none afterwards,
    and the caller gets an exception. -/
theorem failed_open_clean (s : L) (o : OpenEnd) (ho : o ≠ .ok) (hs : Released s) :
    (openConn s o).2 = true ∧ Released (openConn s o).1 ∧ (openConn s o).1.state ≠ open_ := by
  obtain ⟨st, er, ch, li, sock, rd, run, stl, ls, lr, hb, tm, hi⟩ := s
  obtain ⟨h1, h2, h3, h4, h5, h6⟩ := hs
  simp only at h1 h2 h3 h4 h5 h6
  subst h3 h4 h5 h6
  cases o with
  | ok => exact absurd rfl ho
  | connectFail =>
    simp [openConn, openWith, openProgram_eq, List.foldl, openStep, ioOpen_eq, Released, h1, h2, opening_eq, open_eq]
  | refused =>
    simp [openConn, openWith, openProgram_eq, List.foldl, openStep, ioOpen_eq, Released, h1, h2, closeConn_eq, cleanup_eq,
      closed_eq, open_eq]
  | transportError =>
    simp [openConn, openWith, openProgram_eq, List.foldl, openStep, ioOpen_eq, Released, h1, h2, closeConn_eq, cleanup_eq,
      closed_eq, open_eq]
  | timeout =>
    simp [openConn, openWith, openProgram_eq, List.foldl, openStep, ioOpen_eq, Released, h1, h2, cleanup_eq, closed_eq, open_eq]

/-- **A successful open() on a released connection is fresh**: no stale errors, no stale channels, the
    channel-id cursor reset, exactly one socket, one reader and (heartbeats on) one timer. -/
theorem reopen_fresh (s : L) (hs : Released s) :
    (openConn s .ok).2 = false ∧ (openConn s .ok).1.errs = 0 ∧ (openConn s .ok).1.chans = [] ∧
    (openConn s .ok).1.lastId = none ∧ (openConn s .ok).1.state = open_ ∧ (openConn s .ok).1.sock = .live ∧
    (openConn s .ok).1.reader = .running ∧ (openConn s .ok).1.leakedSocks = 0 ∧ (openConn s .ok).1.leakedReaders = 0 ∧
    (openConn s .ok).1.timers = (if s.hbInterval > 0 then 1 else 0) ∧ (openConn s .ok).1.stale = false := by
  obtain ⟨st, er, ch, li, sock, rd, run, stl, ls, lr, hb, tm, hi⟩ := s
  obtain ⟨h1, h2, h3, h4, h5, h6⟩ := hs
  simp only at h1 h2 h3 h4 h5 h6
  subst h3 h4 h5 h6
  by_cases hh : hi > 0 <;>
    simp [openConn, openWith, openProgram_eq, List.foldl, openStep, ioOpen_eq, h1, h2, hh]

/-! ## Channel.open() -/

/-- **A re-opened channel is fresh**: not in confirm mode, no stale messages, no stale errors. -/
theorem channel_reopen_fresh (c : Ch) :
    (chanOpen c).confirming = false ∧ (chanOpen c).inbound = 0 ∧ (chanOpen c).errs = 0 ∧ (chanOpen c).state = open_ := by
  simp [chanOpen, chanOpenProgram_eq, List.foldl, chanOpenStep]

/-! ## Histories -/

/-- what holds after every history: nothing is ever leaked, at most one heartbeat timer exists, and it
    exists only while there is a socket -/
structure Inv (s : L) : Prop where
  noLeakedSocks : s.leakedSocks = 0
  noLeakedReaders : s.leakedReaders = 0
  oneTimer : s.timers ≤ 1
  timerNeedsSocket : s.sock ≠ .live → s.timers = 0 ∧ s.hbRunning = false

theorem inv_init (h : Nat) : Inv { hbInterval := h } := ⟨rfl, rfl, by simp, fun _ => ⟨rfl, rfl⟩⟩

theorem modCh_fields (s : L) (id : Nat) (f : Ch → Ch) :
    (modCh s id f).leakedSocks = s.leakedSocks ∧ (modCh s id f).leakedReaders = s.leakedReaders ∧
    (modCh s id f).timers = s.timers ∧ (modCh s id f).sock = s.sock ∧ (modCh s id f).hbRunning = s.hbRunning :=
  ⟨rfl, rfl, rfl, rfl, rfl⟩

theorem inv_of_same (s t : L) (h : Inv s) (h1 : t.leakedSocks = s.leakedSocks) (h2 : t.leakedReaders = s.leakedReaders)
    (h3 : t.timers = s.timers) (h4 : t.sock = s.sock) (h5 : t.hbRunning = s.hbRunning) : Inv t :=
  ⟨by rw [h1]; exact h.1, by rw [h2]; exact h.2, by rw [h3]; exact h.3, by rw [h3, h4, h5]; exact h.4⟩

theorem step_inv (s s' : L) (op : Op) (h : Inv s) (hs : step s op = some s') : Inv s' := by
  cases op with
  | openC o =>
    simp only [step] at hs
    split at hs
    · rename_i hg
      cases hs
      obtain ⟨_, hsock, hrd⟩ := hg
      have hrel : Released s := ⟨hsock, hrd, h.1, h.2, (h.4 hsock).1, (h.4 hsock).2⟩
      by_cases ho : o = .ok
      · subst ho
        obtain ⟨_, _, _, _, _, a6, _, a8, a9, a10, _⟩ := reopen_fresh s hrel
        refine ⟨a8, a9, ?_, ?_⟩
        · rw [a10]; split <;> simp
        · intro hn; exact absurd a6 hn
      · obtain ⟨_, ⟨r1, r2, r3, r4, r5, r6⟩, _⟩ := failed_open_clean s o ho hrel
        exact ⟨r3, r4, by rw [r5]; simp, fun _ => ⟨r5, r6⟩⟩
    · cases hs
  | closeC e =>
    simp only [step, Option.some.injEq] at hs
    subst hs
    obtain ⟨_, _, _, _, _, c6, c7, c8, c9, _⟩ := close_clean s e false
    exact ⟨by rw [c8]; exact h.1, by rw [c9]; exact h.2, by rw [c6]; simp, fun _ => ⟨c6, c7⟩⟩
  | channel id =>
    simp only [step] at hs
    split at hs
    · cases hs; exact inv_of_same s _ h rfl rfl rfl rfl rfl
    · cases hs
  | confirm id =>
    simp only [step] at hs
    split at hs
    · cases hs; exact inv_of_same s _ h rfl rfl rfl rfl rfl
    · cases hs
  | deliver id =>
    simp only [step] at hs
    split at hs
    · cases hs; exact inv_of_same s _ h rfl rfl rfl rfl rfl
    · cases hs
  | chanError id =>
    simp only [step] at hs
    split at hs
    · cases hs; exact inv_of_same s _ h rfl rfl rfl rfl rfl
    · cases hs
  | chanClose id =>
    simp only [step, Option.some.injEq] at hs
    subst hs; exact inv_of_same s _ h rfl rfl rfl rfl rfl
  | brokerCloseChan id =>
    simp only [step] at hs
    split at hs
    · cases hs; exact inv_of_same s _ h rfl rfl rfl rfl rfl
    · cases hs
  | chanReopen id =>
    simp only [step] at hs
    split at hs
    · cases hs; exact inv_of_same s _ h rfl rfl rfl rfl rfl
    · cases hs
  | brokerCloseConn =>
    simp only [step] at hs
    split at hs
    · cases hs; exact inv_of_same s _ h rfl rfl rfl rfl rfl
    · cases hs
  | die =>
    simp only [step] at hs
    split at hs
    · cases hs; exact inv_of_same s _ h rfl rfl rfl rfl rfl
    · cases hs
  | diePartial =>
    simp only [step] at hs
    split at hs
    · cases hs; exact inv_of_same s _ h rfl rfl rfl rfl rfl
    · cases hs

theorem run_inv : ∀ (ops : List Op) (s s' : L), Inv s → run s ops = some s' → Inv s' := by
  intro ops
  induction ops with
  | nil => intro s s' h hr; simp [run] at hr; subst hr; exact h
  | cons o os ih =>
    intro s s' h hr
    simp only [run] at hr
    split at hr
    · cases hr
    · rename_i s1 hs1; exact ih s1 s' (step_inv s s1 o h hs1) hr

theorem run_append (a b : List Op) (s : L) : run s (a ++ b) = (run s a).bind (fun t => run t b) := by
  induction a generalizing s with
  | nil => simp [run]
  | cons o os ih =>
    simp only [List.cons_append, run]
    cases step s o with
    | none => simp
    | some t => simp [ih]

/-- **Over every history nothing is ever leaked**, whatever the broker does and however opens fail. -/
theorem history_never_leaks (h : Nat) (ops : List Op) (s : L) (hr : run { hbInterval := h } ops = some s) :
    s.leakedSocks = 0 ∧ s.leakedReaders = 0 ∧ s.timers ≤ 1 :=
  let i := run_inv ops _ s (inv_init h) hr
  ⟨i.1, i.2, i.3⟩

/-- **After close() the connection is clean, whatever the history before it was.** -/
theorem history_close_clean (h : Nat) (ops : List Op) (e : CloseEnd) (s : L)
    (hr : run { hbInterval := h } (ops ++ [.closeC e]) = some s) : Clean s := by
  rw [run_append] at hr
  cases hpre : run { hbInterval := h } ops with
  | none => rw [hpre] at hr; cases hr
  | some t =>
    rw [hpre] at hr
    simp only [Option.bind_some, run, step] at hr
    cases hr
    have i := run_inv ops _ t (inv_init h) hpre
    obtain ⟨_, c2, c3, c4, c5, c6, c7, c8, c9, _⟩ := close_clean t e false
    refine ⟨c2, c3, ?_, ?_, ?_, ?_, c6, c7⟩
    · rw [c4]; simp
    · rw [c5]; simp
    · rw [c8]; exact i.1
    · rw [c9]; exact i.2

/-! ## Skeleton obligations (methods whose statements the translator reads) -/

theorem skel_IO_close : Gen.Skel.IO_close =
  ["acq:_wr_lock", "acq:_rd_lock", "try", "r:_running", "call:_running.clear", "call:_close_socket", "finally", "rel:_wr_lock", "rel:_rd_lock", "endtry", "if", "r:_inbound_thread", "then", "r:_inbound_thread", "call:_inbound_thread.join", "endif", "w:socket", "w:poller", "w:_inbound_thread"] := by decide

theorem skel_IO_open : Gen.Skel.IO_open =
  ["acq:_wr_lock", "acq:_rd_lock", "try", "w:data_in", "r:_running", "call:_running.set", "call:_get_socket_addresses", "call:_find_address_and_connect", "w:socket", "if", "then", "r:socket", "call:socket.fileno", "r:_exceptions", "call:Poller", "w:poller", "else", "r:socket", "call:socket.fileno", "r:_exceptions", "call:SelectPoller", "w:poller", "endif", "call:_create_inbound_thread", "w:_inbound_thread", "finally", "rel:_wr_lock", "rel:_rd_lock", "endtry"] := by decide

theorem skel_IO__close_socket : Gen.Skel.IO__close_socket =
  ["if", "r:socket", "then", "return", "endif", "try", "if", "r:poller", "then", "r:poller", "call:poller.close", "endif", "if", "then", "r:socket", "call:socket.unwrap", "endif", "r:socket", "call:socket.shutdown", "except:(OSError,socket.error,ValueError)", "endtry", "r:socket", "call:socket.close"] := by decide

theorem skel_IO__create_inbound_thread : Gen.Skel.IO__create_inbound_thread =
  ["call:threading.Thread", "call:inbound_thread.start", "return"] := by decide

theorem skel_Connection_close : Gen.Skel.Connection_close =
  ["acq:lock", "if", "r:is_closed", "then", "call:set_state", "endif", "call:heartbeat.stop", "try", "if", "r:is_closed", "r:socket", "then", "call:_channel0.send_close_connection", "call:_wait_for_connection_state", "endif", "except:AMQPConnectionError", "finally", "call:_close_remaining_channels", "r:_io", "call:_io.close", "call:set_state", "endtry", "rel:lock"] := by decide

theorem skel_Connection_open : Gen.Skel.Connection_open =
  ["call:set_state", "del:_exceptions[]", "w:_channels", "w:_last_channel_id", "r:_io", "call:_io.open", "try", "call:_send_handshake", "call:_wait_for_connection_state", "except:AMQPConnectionError", "call:set_state", "r:_io", "call:_io.close", "raise", "endtry", "r:_exceptions", "call:heartbeat.start"] := by decide

theorem skel_Connection__close_remaining_channels : Gen.Skel.Connection__close_remaining_channels =
  ["for", "r:_channels", "do", "r:_channels", "r:_channels", "call:_cleanup_channel", "endfor"] := by decide

theorem skel_Connection__cleanup_channel : Gen.Skel.Connection__cleanup_channel =
  ["acq:lock", "if", "r:_channels", "then", "return", "endif", "del:_channels[]", "rel:lock"] := by decide

theorem skel_Connection_channel : Gen.Skel.Connection_channel =
  ["if", "then", "raise:AMQPInvalidArgument", "else", "if", "r:is_closed", "then", "raise:AMQPConnectionError", "endif", "endif", "acq:lock", "call:_get_next_available_channel_id", "call:Channel", "w:_channels[]", "if", "then", "call:channel.open", "endif", "rel:lock", "r:_channels", "return"] := by decide

theorem skel_Channel_open : Gen.Skel.Channel_open =
  ["r:_inbound", "call:_inbound.clear", "w:_returned_content_left", "w:_exceptions", "w:_confirming_deliveries", "call:set_state", "call:rpc_request", "call:set_state"] := by decide

theorem skel_Heartbeat_start : Gen.Skel.Heartbeat_start =
  ["if", "r:_interval", "then", "return", "endif", "r:_running", "call:_running.set", "acq:_lock", "w:_threshold", "w:_reads_since_check", "w:_writes_since_check", "rel:_lock", "w:_exceptions", "call:_start_new_timer", "return"] := by decide

theorem skel_Heartbeat_stop : Gen.Skel.Heartbeat_stop =
  ["r:_running", "call:_running.clear", "acq:_lock", "if", "r:_timer", "then", "r:_timer", "call:_timer.cancel", "endif", "w:_timer", "rel:_lock"] := by decide

theorem skel_Heartbeat__start_new_timer : Gen.Skel.Heartbeat__start_new_timer =
  ["acq:_lock", "if", "r:_running", "call:_running.is_set", "then", "return", "endif", "r:_interval", "call:timer_impl", "w:_timer", "w:_timer.daemon", "r:_timer", "call:_timer.start", "rel:_lock", "return"] := by decide

theorem skel_Heartbeat__check_for_life_signs : Gen.Skel.Heartbeat__check_for_life_signs =
  ["if", "r:_running", "call:_running.is_set", "then", "return", "endif", "if", "r:_writes_since_check", "then", "call:send_heartbeat_impl", "endif", "acq:_lock", "try", "if", "r:_reads_since_check", "then", "r:_threshold", "w:_threshold", "if", "r:_threshold", "then", "r:_running", "call:_running.clear", "call:_raise_or_append_exception", "return", "endif", "else", "w:_threshold", "endif", "finally", "w:_reads_since_check", "w:_writes_since_check", "rel:_lock", "endtry", "call:_start_new_timer", "return"] := by decide

/-! ## Non-vacuity -/

-- open, two channels (one confirming with a message and an error), the transport dies, close, reopen
example : (run { hbInterval := 4 } [.openC .ok, .channel 1, .confirm 1, .deliver 1, .chanError 1, .channel 2, .die,
    .closeC .error, .openC .ok]).map (fun s => (s.state, s.chans.length, s.errs, s.sock, s.timers, s.leakedSocks)) =
    some ((3 : Nat), (0 : Nat), (0 : Nat), Sock.live, (1 : Nat), (0 : Nat)) := by decide
-- the transport died in the middle of a frame: the bytes left in the buffer do not disturb the next open()
example : (run {} [.openC .ok, .diePartial, .closeC .error, .openC .ok]).map (fun s => (s.state, s.stale, s.leakedSocks)) =
    some ((3 : Nat), false, (0 : Nat)) := by decide
-- a failed open followed by a successful one
example : (run { hbInterval := 2 } [.openC .timeout, .openC .refused, .openC .connectFail, .openC .ok]).map
    (fun s => (s.state, s.sock, s.reader, s.timers, s.leakedSocks, s.leakedReaders)) = some ((3 : Nat), Sock.live, Rd.running, (1 : Nat), (0 : Nat), (0 : Nat)) := by
  decide
-- a channel closed by the broker and opened again
example : (run {} [.openC .ok, .channel 1, .confirm 1, .deliver 1, .brokerCloseChan 1, .chanReopen 1]).map (·.chans) =
    some [(1, { state := 3, confirming := false, inbound := 0, errs := 0, tags := 0 })] := by decide
-- without the failure cleanup a timed-out open() would leave a socket and a reader behind
example : (openWith openProgram {} .timeout).1.sock = .absent := by decide
example : ((openWith openProgram {} .timeout).1.reader, (openStep .timeout (({ sock := .live, reader := .running } : L), false) .waitOpen).1.sock)
    = (Rd.absent, Sock.absent) := by decide

end Amqp.C08
