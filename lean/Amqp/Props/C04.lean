import Amqp.Lemmas.Publish
import Amqp.Gen.Skel
/-!
# C04 — published payloads are framed exactly and within the negotiated frame size

Model: `Amqp/Model/Publish.lean`; every arithmetic kernel (`ceil(len/max)`, slice bounds, the
clamp, `max_frame_size or MAX_FRAME_SIZE`, `min(server, client) or client`, what TuneOk carries) is
regenerated from the source into `Gen/Publish.lean` / `Gen/Negotiate.lean`, so these theorems are
re-proved against what the code says now.  `maxF` is the channel's `_max_frame_size` (any integer).
-/
namespace Amqp.C04
open Amqp

/-- the body frames' payloads concatenate to exactly the encoded body -/
theorem split_join (maxF : Int) (b : Bytes) : (splitBody maxF b).flatten = b := by
  rw [splitBody_eq, flatten_slices]
  have := (nSlices_spec (maxBody maxF) b.length (maxBody_pos maxF)).1
  exact List.take_of_length_le this

/-- exactly ⌈len/slice⌉ body frames (none for an empty body) -/
theorem split_count (maxF : Int) (b : Bytes) :
    (splitBody maxF b).length = (b.length + maxBody maxF - 1) / maxBody maxF := by
  rw [splitBody_eq]; simp [nSlices]

theorem split_count_empty (maxF : Int) : splitBody maxF [] = [] := by
  rw [splitBody_eq]
  have := (nSlices_spec (maxBody maxF) 0 (maxBody_pos maxF)).2.2 rfl
  simp [this]

/-- no body frame is empty -/
theorem split_nonempty (maxF : Int) (b : Bytes) : ∀ p ∈ splitBody maxF b, p ≠ [] := by
  rw [splitBody_eq]
  intro p hp
  simp only [List.mem_map, List.mem_range] at hp
  obtain ⟨i, hi, rfl⟩ := hp
  have hm := maxBody_pos maxF
  have hpos : 0 < b.length := by
    rcases Nat.eq_zero_or_pos b.length with h0 | h0
    · have := (nSlices_spec (maxBody maxF) b.length hm).2.2 h0; omega
    · exact h0
  have hs := (nSlices_spec (maxBody maxF) b.length hm).2.1 hpos
  have hlt : maxBody maxF * i < b.length := by
    have : maxBody maxF * i ≤ maxBody maxF * (nSlices (maxBody maxF) b.length - 1) :=
      Nat.mul_le_mul_left _ (by omega)
    omega
  intro h
  have := congrArg List.length h
  simp [List.length_take, List.length_drop] at this
  omega

/-- every body frame's payload is at most the slice size `max(maxF - 8, 1)` -/
theorem split_bound (maxF : Int) (b : Bytes) : ∀ p ∈ splitBody maxF b, p.length ≤ maxBody maxF := by
  rw [splitBody_eq]
  intro p hp
  simp only [List.mem_map, List.mem_range] at hp
  obtain ⟨i, _, rfl⟩ := hp
  simp [List.length_take]; omega

/-- one Basic.Publish, one content header announcing exactly the encoded length, then the body
    frames; and their payloads concatenate to the encoded body -/
theorem publish_shape (maxF : Int) (codec : String → Option Bytes) (body : PyBody)
    (ex rk : String) (m i : Bool) (fs : List OutFrame)
    (h : publishFrames maxF codec body ex rk m i = some fs) :
    ∃ (enc : Bytes) (bodies : List Bytes), encodeBody codec body = some enc ∧
      fs = .method ex rk m i :: .header enc.length :: bodies.map .body ∧
      bodies.flatten = enc ∧ (∀ p ∈ bodies, p ≠ []) ∧ (∀ p ∈ bodies, p.length ≤ maxBody maxF) := by
  unfold publishFrames at h
  split at h
  · cases h
  · rename_i enc henc
    cases h
    exact ⟨enc, splitBody maxF enc, henc, rfl, split_join maxF enc, split_nonempty maxF enc,
      split_bound maxF enc⟩

/-- text bodies are encoded as UTF-8 when utf-8 is the codec; bytes pass through unchanged -/
theorem encode_utf8 (s : String) : encodeBody utf8 (.text s) = some s.toUTF8.toList := rfl
theorem encode_bytes (codec : String → Option Bytes) (b : Bytes) :
    encodeBody codec (.bytes b) = some b := rfl

/-- the negotiated frame size is positive, never above the client limit, never above a non-zero
    broker limit, and exactly what TuneOk announces -/
theorem negotiated_bounds (srv : Int) (h : 0 ≤ srv) :
    0 < negotiatedFrameMax srv ∧ negotiatedFrameMax srv ≤ 131072 ∧
    (srv ≠ 0 → negotiatedFrameMax srv ≤ srv) ∧ announcedFrameMax srv = negotiatedFrameMax srv := by
  simp only [negotiatedFrameMax, announcedFrameMax, Gen.Negotiate.storedFrameMax,
    Gen.Negotiate.sentFrameMax, Gen.Negotiate.negotiate, pyOr]
  refine ⟨?_, ?_, ?_, trivial⟩ <;> split <;> omega

/-- the per-channel limit is the negotiated connection value -/
theorem channel_limit (srv : Int) (h : 0 ≤ srv) : channelMaxF srv = negotiatedFrameMax srv := by
  have := (negotiated_bounds srv h).1
  simp only [channelMaxF, Gen.Publish.basicMax, pyOr]
  split <;> omega

/-- **No body frame is larger on the wire than the frame size negotiated with the broker**
    (and announced in TuneOk), for every broker offer that can carry a body frame at all
    (`0` = unlimited, or at least 9 bytes; AMQP requires ≥ 4096). -/
theorem wire_bound (srv : Int) (hsrv : srv = 0 ∨ 9 ≤ srv) (c : Nat) (b : Bytes) :
    ∀ p ∈ splitBody (channelMaxF srv) b,
      ((bodyFrame c p).encode.length : Int) ≤ announcedFrameMax srv := by
  intro p hp
  have hb := split_bound _ b p hp
  have h0 : 0 ≤ srv := by omega
  have hn := negotiated_bounds srv h0
  rw [channel_limit srv h0] at hb
  rw [hn.2.2.2, Frame.encode_length]
  have hge : 9 ≤ negotiatedFrameMax srv := by
    simp only [negotiatedFrameMax, Gen.Negotiate.storedFrameMax, Gen.Negotiate.negotiate, pyOr]
    split <;> omega
  have : ((maxBody (negotiatedFrameMax srv) : Nat) : Int) = negotiatedFrameMax srv - 8 := by
    rw [maxBody_cast]; omega
  simp only [bodyFrame]
  omega

/-! ## Non-vacuity -/
example : splitBody 12 [1, 2, 3, 4, 5, 6, 7, 8, 9] = [[1, 2, 3, 4], [5, 6, 7, 8], [9]] := by decide
example : splitBody 12 [1, 2, 3, 4, 5, 6, 7, 8] = [[1, 2, 3, 4], [5, 6, 7, 8]] := by decide
example : negotiatedFrameMax 0 = 131072 ∧ negotiatedFrameMax 4096 = 4096 ∧
    negotiatedFrameMax 1000000 = 131072 := by decide
example : channelMaxF 4096 = 4096 ∧ maxBody 4096 = 4088 := by decide

/-! ## The framing reaches the wire intact also next to other writers

`publish_shape` / `wire_bound` are about the frames handed to `Connection.write_frames`.  That they
arrive at the broker contiguously is C01's theorem (`call_frames_contiguous`), which rests on two
regenerated facts repeated here as obligations of this property: all frames of the call are marshalled
into one buffer, and `write_to_socket` sends a buffer under a single hold of the write lock, looping
over partial sends inside it. -/
theorem skel_IO_write_to_socket : Gen.Skel.IO_write_to_socket =
  ["acq:_wr_lock", "try", "while", "do", "try", "r:socket", "if", "then", "raise:socket.error",
    "endif", "call:sock.send", "if", "then", "raise:socket.error", "endif",
    "except:socket.timeout", "except:socket.error", "if", "then", "continue", "endif",
    "r:_exceptions", "call:_exceptions.append", "return", "endtry", "endwhile", "finally",
    "rel:_wr_lock", "endtry"] := by decide

theorem skel_Connection_write_frames : Gen.Skel.Connection_write_frames =
  ["for", "do", "call:pamqp_frame.marshal", "endfor", "call:heartbeat.register_write", "r:_io",
    "call:_io.write_to_socket"] := by decide

end Amqp.C04
