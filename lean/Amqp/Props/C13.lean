import Amqp.Lemmas.Confirm
import Amqp.Lemmas.Rpc
import Amqp.Gen.Skel
/-!
# C13 — publisher confirms report the outcome of exactly the published message

Model `Amqp.Confirm.publishConfirm` mirrors `Basic._publish_confirm` (register Basic.Ack/Basic.Nack →
write → wait → remove → `if mandatory: check_for_exceptions()`) on top of the RPC table (C05) and the
error bookkeeping (`Model/ChanErr`).  The publisher holds `rpc.lock` for the whole call, so with
several threads on one confirming channel the calls are serialised and C05's `reply_matches` makes
each take the broker's answer to its own request; what remains is the wait itself.
`sched` is an arbitrary schedule of the reader relative to the waiting publisher (batch i = what
the reader dispatches between the publisher's i-th and (i+1)-th poll).  How a queued
AMQPMessageError and a broker Channel.Close are treated is regenerated from the source
(`Gen.RpcWait`, `Gen.ChanErr`).
-/
namespace Amqp.C13
open Amqp Amqp.Rpc Amqp.ChanErr Amqp.Confirm

/-- a channel in confirm mode with clean tables and no pending error -/
def Fresh (s : St) : Prop := s.t.request = [] ∧ s.t.response = [] ∧ Quiet s.e ∧ s.e.chErrs = []

theorem chanCheck_fresh (s : St) (h : Fresh s) : chanCheck s.e = (none, s.e) := by
  obtain ⟨_, _, hq, hc⟩ := h
  simp [chanCheck, connCheck_quiet s.e hq, chanCheckExceptions, hc, hq.ch, open_ne_closed]

/-- what the caller must see: `rs` = codes of the returns that preceded the confirmation `f` -/
def expected (mandatory : Bool) (rs : List Nat) (f : Frm) : Outcome :=
  match mandatory, rs with
  | true, c :: _ => .raised (.msg c)
  | _, _ => .returned (f.name = "Basic.Ack") f.tag

/-- **Own outcome, for every reader/publisher schedule.**  The broker returns the message `rs.length`
    times (0 or 1 in practice) and then confirms it with `v` (Basic.Ack q / Basic.Nack q).  Whatever the
    interleaving of the reader with the polling publisher:
    * not mandatory, or never returned: publish returns True for Ack and False for Nack — decided by
      the confirmation of *this* message (`q`);
    * mandatory and returned: AMQPMessageError with the return's code is raised — after the
      confirmation has been consumed;
    and in both cases no registration survives the call. -/
theorem confirm_own_outcome (mandatory : Bool) (s : St) (hs : Fresh s) (sched : List (List Ev))
    (rs : List Nat) (v : Ev) (f : Frm) (hv : verdictFrm v = some f)
    (hf : sched.flatten = rs.map Ev.ret ++ [v]) :
    (publishConfirm mandatory s sched).1 = expected mandatory rs f ∧
    (publishConfirm mandatory s sched).2.1.t.request = [] ∧
    (publishConfirm mandatory s sched).2.1.t.response = [] := by
  obtain ⟨hr, hp, hq, hc⟩ := hs
  have hreg := regc_register s.t hr hp
  unfold publishConfirm
  rw [chanCheck_fresh s ⟨hr, hp, hq, hc⟩]
  generalize hg : registerRequest s.t confirmNames = reg at hreg
  obtain ⟨uid, t1⟩ := reg
  simp only at hreg ⊢
  obtain ⟨rest, hw⟩ := waitTake_verdict uid v f hv sched rs { t := t1, e := s.e } hreg hq hf
  simp only at hw
  rw [hw]
  have hshape : Get.Shape t1 uid := ⟨hreg.2.1, [], hreg.2.2⟩
  have hclean := Get.remove_shape_empty t1 uid hshape
  simp only [hc, List.nil_append]
  rcases mandatory with _ | _
  · simp only [Bool.false_eq_true, if_false]
    exact ⟨by rcases rs with _ | ⟨c, cs⟩ <;> rfl, hclean.1, hclean.2⟩
  · simp only [if_true]
    rcases rs with _ | ⟨c, cs⟩
    · simp only [List.map_nil, chanCheckExceptions]
      exact ⟨rfl, hclean.1, hclean.2⟩
    · simp only [List.map_cons, chanCheckExceptions, hq.ch, if_true]
      exact ⟨rfl, hclean.1, hclean.2⟩

/-- **True exactly for Ack, False exactly for Nack** (never returned ⇒ the result is the broker's verdict) -/
theorem confirm_ack_true (mandatory : Bool) (s : St) (hs : Fresh s) (sched : List (List Ev)) (q : Nat)
    (hf : sched.flatten = [.ack q]) : (publishConfirm mandatory s sched).1 = .returned true q := by
  have := (confirm_own_outcome mandatory s hs sched [] (.ack q) _ rfl (by simpa using hf)).1
  rcases mandatory <;> simpa [expected] using this

theorem confirm_nack_false (mandatory : Bool) (s : St) (hs : Fresh s) (sched : List (List Ev)) (q : Nat)
    (hf : sched.flatten = [.nack q]) : (publishConfirm mandatory s sched).1 = .returned false q := by
  have := (confirm_own_outcome mandatory s hs sched [] (.nack q) _ rfl (by simpa using hf)).1
  rcases mandatory <;> simpa [expected] using this

/-- **Schedule independence**: two schedules of the same events give the same outcome. -/
theorem confirm_schedule_independent (mandatory : Bool) (s : St) (hs : Fresh s)
    (sched1 sched2 : List (List Ev)) (rs : List Nat) (v : Ev) (f : Frm) (hv : verdictFrm v = some f)
    (h1 : sched1.flatten = rs.map Ev.ret ++ [v]) (h2 : sched2.flatten = rs.map Ev.ret ++ [v]) :
    (publishConfirm mandatory s sched1).1 = (publishConfirm mandatory s sched2).1 := by
  rw [(confirm_own_outcome mandatory s hs sched1 rs v f hv h1).1,
      (confirm_own_outcome mandatory s hs sched2 rs v f hv h2).1]

/-- **Channel / connection closed instead of a confirmation**: the publish raises the broker's
    reason (AMQPChannelError with the Channel.Close code — also when returned-message errors are
    queued in front of it; AMQPConnectionError with the Connection.Close code; AMQPConnectionError on
    transport loss), for every schedule. -/
theorem confirm_closed_raises (mandatory : Bool) (s : St) (hs : Fresh s) (sched : List (List Ev))
    (rs : List Nat) (v : Ev) (err : Err) (hv : fatalErr v = some err)
    (hf : sched.flatten = rs.map Ev.ret ++ [v]) :
    (publishConfirm mandatory s sched).1 = .raised err := by
  obtain ⟨hr, hp, hq, hc⟩ := hs
  have hreg := regc_register s.t hr hp
  unfold publishConfirm
  rw [chanCheck_fresh s ⟨hr, hp, hq, hc⟩]
  generalize hg : registerRequest s.t confirmNames = reg at hreg
  obtain ⟨uid, t1⟩ := reg
  simp only at hreg ⊢
  have hw := (waitTake_fatal uid v err hv sched rs { t := t1, e := s.e } hreg hq hf).1
  rcases hwt : waitTake uid sched { t := t1, e := s.e } with ⟨r, s1, rest⟩
  rw [hwt] at hw
  simp only at hw
  subst hw
  rfl

/-- **An error already pending on the channel** (e.g. an earlier returned message) is raised before
    anything is sent or waited for. -/
theorem confirm_error_at_entry (mandatory : Bool) (s : St) (sched : List (List Ev)) (err : Err) (e' : E)
    (h : chanCheck s.e = (some err, e')) : (publishConfirm mandatory s sched).1 = .raised err := by
  unfold publishConfirm
  rw [h]

/-! ## Tie obligations -/
/-! ## Several threads publishing on one confirming channel

The transition system of C05 (`Amqp.Rpc`: any number of caller threads serialised by `rpc.lock`, the reader, a
broker that answers the oldest outstanding request and may send other frames at any time), instantiated with
callers that register `Basic.Ack`/`Basic.Nack` — confirm publishers — and a broker whose unprompted frames are
anything but those two (deliveries, returns, cancels, flow). -/

/-- the frames a broker in this model may send unprompted on a confirming channel -/
def unprompted : List String :=
  ["Basic.Deliver", "Basic.Return", "Basic.Cancel", "Channel.Flow", "ContentHeader", "ContentBody", "Channel.Close"]

/-- every action of the run is a confirm publisher's or the broker's -/
def PublishersOnly (as : List Rpc.Act) : Prop :=
  ∀ a ∈ as, match a with
    | .register _ names => names = confirmNames
    | .unsolicited f => f.name ∈ unprompted
    | _ => True

/-- **each caller gets the outcome of its own message**: whatever the number of publishing threads and the
    schedule, the Ack/Nack a publisher takes is the broker's answer to *its* publish (`tag` = the identity the
    broker echoes), and no unprompted frame is ever taken for a confirm -/
theorem publishers_each_get_own_confirm (as : List Rpc.Act) (s : Rpc.S) (hp : PublishersOnly as)
    (hr : Rpc.run Rpc.init as = some s) : ∀ p ∈ s.taken, p.2.tag = p.1 ∧ p.2.reply = true := by
  have hok : ∀ a ∈ as, Rpc.ActOk unprompted a := by
    intro a ha
    have := hp a ha
    cases a with
    | register t names =>
      simp only at this; subst this
      intro n hn
      simp [confirmNames] at hn
      rcases hn with rfl | rfl <;> decide
    | unsolicited f => exact this
    | _ => trivial
  exact (Rpc.run_inv_of_ok unprompted as s hok hr).taken

/-- non-vacuity: two publishers, a delivery in between, the second one nacked -/
example : (Rpc.run Rpc.init
    [.acquire 1, .register 1 confirmNames, .send 1, .unsolicited { name := "Basic.Deliver", tag := 9, reply := false },
     .reply [{ name := "Basic.Ack", tag := 0, reply := true }], .dispatch, .dispatch, .take 1, .remove 1, .release 1,
     .acquire 2, .register 2 confirmNames, .send 2, .reply [{ name := "Basic.Nack", tag := 1, reply := true }], .dispatch,
     .take 2, .remove 2, .release 2]).map (fun s => (s.taken.map (fun p => (p.1, p.2.name)), s.handled.map (·.name))) =
    some ([(0, "Basic.Ack"), (1, "Basic.Nack")], ["Basic.Deliver"]) := by decide

theorem gen_flags : Gen.RpcWait.defersMessageError = true ∧ Gen.RpcWait.deferralRequiresOpen = true ∧
    Gen.RpcWait.keepsDeferredError = true ∧
    Gen.ChanErr.closeReasonAtFront = true := by decide

theorem skel_Basic__publish_confirm : Gen.Skel.Basic__publish_confirm =
  ["call:_channel.rpc.register_request", "call:_channel.write_frames",
    "call:_channel.rpc.get_request", "if", "then", "call:_channel.check_for_exceptions",
    "endif", "if", "then", "return", "endif", "return"] := by decide

theorem skel_Rpc__wait_for_request : Gen.Skel.Rpc__wait_for_request =
  ["while", "r:_response", "do", "try", "call:connection_adapter.check_for_errors",
    "except:AMQPMessageError", "if", "then", "raise", "endif",
    "call:connection_adapter.exceptions.insert", "endtry", "if", "then",
    "call:_raise_rpc_timeout_error", "endif", "call:time.sleep", "endwhile"] := by decide

theorem skel_Channel_confirm_deliveries : Gen.Skel.Channel_confirm_deliveries =
  ["w:_confirming_deliveries", "call:rpc_request", "return"] := by decide

/-! ## Non-vacuity: return processed before the ack (the schedule that used to mis-attribute) -/
example : (publishConfirm true {} [[.ret 312], [], [.ack 1]]).1 = .raised (.msg 312) := by decide
example : (publishConfirm true {} [[.ret 312, .ack 1]]).1 = .raised (.msg 312) := by decide
example : (publishConfirm false {} [[], [.nack 7]]).1 = .returned false 7 := by decide
example : (publishConfirm true {} [[.ret 312], [.chanClose 404]]).1 = .raised (.chan (some 404)) := by decide
example : (publishConfirm true {} [[.ret 312], [], [.ack 1]]).2.1.t = { request := [], response := [], nextUid := 1 } := by
  decide

end Amqp.C13
