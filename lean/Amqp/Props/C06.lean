import Amqp.Gen.Locks
import Amqp.Model.Transport
import Amqp.Lemmas.Errors
import Amqp.Gen.Skel
/-!
# C06 — transport failure reaches every caller promptly and only as AMQPConnectionError

Timed transition system `Amqp.Transport` on top of the C07 error model: any number of threads in
wait loops on any channels, the IO layer recording a failure (reader on EOF/reset, writer on
EPIPE, poller error), virtual time that cannot skip a due poll.  Whether IO's error list is the one
the connection inspects, how errors are classified and that every wait loop polls
`check_for_errors` before each IDLE_WAIT sleep are regenerated from the source.
Partial: real-time latency, OS error surfaces and the kernel's behaviour are virtual; a reader
blocked in poll() notices a dead socket at once (the POLL_TIMEOUT slack covers a busy reader).
-/
namespace Amqp.C06
open Amqp.ChanErr Amqp.Errors Amqp.Transport

theorem gen_same_list : (Gen.Transport.sameErrorList && Gen.Transport.noEraseAfterIoOpen) = true ∧
    Gen.Transport.waitLoopsPollErrors = true := by decide

/-- a healthy connection: open, no errors, every channel open; a channel may have returned-message
    errors (AMQPMessageError) parked on it, nothing else -/
def Healthy (c : C) : Prop :=
  c.connState = open_ ∧ c.connErrs = [] ∧ ∀ ch ∈ c.chans, ch.state = open_ ∧ ∀ e ∈ ch.errs, e.isMsg = true

theorem open_ne_closed : open_ ≠ closed := by decide

def bound (w : Waiter) (τ : Nat) : Nat := max w.entered (τ + period w)

theorem idle_le_period (w : Waiter) : idleWait ≤ period w := by
  unfold period; exact Nat.le_mul_of_pos_left _ (by omega)

theorem period_extra0 (w : Waiter) (h : w.extra = 0) : period w = idleWait := by simp [period, h]

structure Inv (t : T) : Prop where
  nofault : t.faultAt = none → Healthy t.c
  fault : ∀ τ, t.faultAt = some τ → τ ≤ t.now ∧ ∃ rest, t.c.connErrs = .conn none :: rest
  chansLen : ∀ (i : Nat) (w : Waiter) (ch : Nat), t.waiters[i]? = some w → w.chan = some ch → ch < t.c.chans.length
  enteredLe : ∀ (i : Nat) (w : Waiter), t.waiters[i]? = some w → w.entered ≤ t.now
  waiting : ∀ (i : Nat) (w : Waiter), t.waiters[i]? = some w → w.result = none → w.blocked = false →
    t.now ≤ w.nextPoll ∧ (t.faultAt = none → w.nextPoll ≤ t.now + period w) ∧
      (∀ τ, t.faultAt = some τ → w.nextPoll ≤ bound w τ)
  holder : ∀ j, t.lockHolder = some j → ∃ w, t.waiters[j]? = some w ∧ w.result = none ∧ w.blocked = false ∧ w.extra = 0
  blockedW : ∀ (i : Nat) (w : Waiter), t.waiters[i]? = some w → w.result = none → w.blocked = true →
    ∃ τ j wj, t.faultAt = some τ ∧ t.lockHolder = some j ∧ j ≠ i ∧ t.waiters[j]? = some wj ∧ wj.nextPoll ≤ bound w τ
  finished : ∀ (i : Nat) (w : Waiter) (e : Err) (a : Nat), t.waiters[i]? = some w → w.result = some (.raised e a) →
    e = .conn none ∧ ∃ τ, t.faultAt = some τ ∧ a ≤ bound w τ ∧ t.c.connState = closed ∧
      ∀ ch ∈ t.c.chans, ch.state = closed

/-- without a recorded failure a channel's check passes, or hands out a parked returned-message error -/
theorem opCheck_healthy (c : C) (hc : Healthy c) (i : Nat) (hi : i < c.chans.length) :
    opCheck c i = (none, c) ∨ ∃ k c', opCheck c i = (some (.msg k), c') := by
  obtain ⟨h1, h2, h3⟩ := hc
  have hget : c.chans[i]? = some c.chans[i] := List.getElem?_eq_getElem hi
  have hch := h3 c.chans[i] (List.getElem_mem hi)
  have hv := view_some c i _ hget
  rw [h1, h2, hch.1] at hv
  rcases herr : c.chans[i].errs with _ | ⟨x, rest⟩
  · left
    rw [herr] at hv
    have hcheck : chanCheck (view c i) = (none, view c i) := by
      rw [hv]; simp [chanCheck, connCheck, chanCheckExceptions, open_ne_closed]
    rw [opCheck_local c i none _ hcheck (view_calls c i), unview_view c i _ hget]
  · right
    have hx := hch.2 x (by rw [herr]; simp)
    cases x with
    | msg k =>
      refine ⟨k, (opCheck c i).2, ?_⟩
      have hfst : (opCheck c i).1 = some (.msg k) := by
        rw [opCheck_fst, hv, herr]
        simp [chanCheck, connCheck, chanCheckExceptions, open_ne_closed]
      exact Prod.ext hfst rfl
    | conn k => simp [Err.isMsg] at hx
    | chan k => simp [Err.isMsg] at hx

/-- once a transport error is at the head of the connection's list, every channel's check raises it,
    the connection and all channels end up CLOSED -/
theorem opCheck_after_fault (c : C) (rest : List Err) (he : c.connErrs = .conn none :: rest) (i : Nat) :
    (opCheck c i).1 = some (.conn none) ∧ (opCheck c i).2.connState = closed ∧
    (opCheck c i).2.connErrs = c.connErrs ∧ (∀ ch ∈ (opCheck c i).2.chans, ch.state = closed) ∧
    (opCheck c i).2.chans.length = c.chans.length := by
  have hcc : ∀ e : E, e.connErrs = .conn none :: rest →
      chanCheck e = (some (.conn none), { e with connState := closed, connCloseCalls := e.connCloseCalls + 1, chState := closed }) := by
    intro e h; simp [chanCheck, connCheck, h]
  have hv : (view c i).connErrs = .conn none :: rest := by
    unfold view; split <;> exact he
  have hcalls := view_calls c i
  simp only [opCheck, hcc (view c i) hv, hcalls, gt_iff_lt, Nat.lt_succ_self, if_true]
  refine ⟨trivial, rfl, ?_, ?_, ?_⟩
  · simp [unview, hv, he]
  · intro ch hch
    simp only [List.mem_map] at hch
    obtain ⟨x, _, rfl⟩ := hch; rfl
  · simp [unview]

theorem connOpCheck_healthy (c : C) (hc : Healthy c) : connOpCheck c = (none, c) := by
  obtain ⟨h1, h2, _⟩ := hc
  cases c with
  | mk cs ce chans ok calls =>
    simp only at h1 h2; subst h1 h2
    simp [connOpCheck, connCheck, open_ne_closed]

theorem connOpCheck_after_fault (c : C) (rest : List Err) (he : c.connErrs = .conn none :: rest) :
    (connOpCheck c).1 = some (.conn none) ∧ (connOpCheck c).2.connState = closed ∧
    (connOpCheck c).2.connErrs = c.connErrs ∧ (∀ ch ∈ (connOpCheck c).2.chans, ch.state = closed) ∧
    (connOpCheck c).2.chans.length = c.chans.length := by
  refine ⟨?_, ?_, ?_, ?_, ?_⟩
  · simp [connOpCheck, connCheck, he]
  · simp [connOpCheck, connCheck, he]
  · simp [connOpCheck, connCheck, he]
  · intro ch hch
    simp only [connOpCheck, connCheck, he, gt_iff_lt, Nat.lt_succ_self, if_true, List.mem_map] at hch
    obtain ⟨x, _, rfl⟩ := hch; rfl
  · simp [connOpCheck, connCheck, he]

theorem check_healthy (c : C) (hc : Healthy c) (ch : Option Nat) (h : ∀ i, ch = some i → i < c.chans.length) :
    check c ch = (none, c) ∨ ∃ k c', check c ch = (some (.msg k), c') := by
  cases ch with
  | none => exact Or.inl (connOpCheck_healthy c hc)
  | some i => exact opCheck_healthy c hc i (h i rfl)

theorem check_after_fault (c : C) (rest : List Err) (he : c.connErrs = .conn none :: rest) (ch : Option Nat) :
    (check c ch).1 = some (.conn none) ∧ (check c ch).2.connState = closed ∧
    (check c ch).2.connErrs = c.connErrs ∧ (∀ x ∈ (check c ch).2.chans, x.state = closed) ∧
    (check c ch).2.chans.length = c.chans.length := by
  cases ch with
  | none => exact connOpCheck_after_fault c rest he
  | some i => exact opCheck_after_fault c rest he i

theorem inv_init (c : C) (hc : Healthy c) : Inv { c := c } :=
  ⟨fun _ => hc, fun τ h => by simp at h, fun i w ch h => by simp at h, fun i w h => by simp at h,
   fun i w h => by simp at h, fun j h => by simp at h, fun i w h => by simp at h, fun i w e a h => by simp at h⟩

theorem record_inv (t : T) (h : Inv t) : Inv (record t) := by
  obtain ⟨h1, h2, h3, hE, h4, hH, hB, h5⟩ := h
  have hs := gen_same_list.1
  have hcases : t.faultAt = none ∨ ∃ τ, t.faultAt = some τ := by cases t.faultAt <;> simp
  rcases hcases with hf | ⟨τ0, hf⟩
  · -- first failure
    have hh := h1 hf
    have hrec : record t = { t with faultAt := some t.now, c := { t.c with connErrs := [.conn none] } } := by
      simp [record, hs, hf, hh.2.1]
    rw [hrec]
    refine ⟨fun hn => by simp at hn, ?_, h3, hE, ?_, hH, ?_, ?_⟩
    · intro τ hτ; simp only [Option.some.injEq] at hτ; subst hτ
      exact ⟨Nat.le_refl _, [], rfl⟩
    · intro i w hw hr hb
      obtain ⟨a1, a3, _⟩ := h4 i w hw hr hb
      refine ⟨a1, fun hn => by simp at hn, ?_⟩
      intro τ hτ; simp only [Option.some.injEq] at hτ; subst hτ
      have := a3 hf
      simp only [bound]; omega
    · intro i w hw hr hb
      obtain ⟨τ, _, _, hτ, _⟩ := hB i w hw hr hb
      rw [hf] at hτ; cases hτ
    · intro i w e a hw hr
      obtain ⟨_, τ, hτ, _⟩ := h5 i w e a hw hr
      rw [hf] at hτ; cases hτ
  · obtain ⟨hle, rest, hrest⟩ := h2 τ0 hf
    have hrec : record t = { t with c := { t.c with connErrs := t.c.connErrs ++ [.conn none] } } := by
      simp [record, hs, hf]
    rw [hrec]
    refine ⟨fun hn => by simp [hf] at hn, ?_, h3, hE, h4, hH, hB, ?_⟩
    · intro τ hτ
      simp only [hf, Option.some.injEq] at hτ; subst hτ
      exact ⟨hle, rest ++ [.conn none], by simp [hrest]⟩
    · intro i w e a hw hr
      exact h5 i w e a hw hr

/-- what the waiter list looks like after waiter `i` has finished -/
theorem finish_waiters (t : T) (i : Nat) (w : Waiter) (r : Outcome) (c' : C)
    (hw : t.waiters[i]? = some w) (hwb : w.blocked = false) (j : Nat) (x : Waiter)
    (hx : (finish t i w r c').waiters[j]? = some x) :
    (j = i ∧ x = { w with result := some r }) ∨
    (j ≠ i ∧ ∃ y, t.waiters[j]? = some y ∧
      ((x = y ∧ (y.blocked = false ∨ t.lockHolder ≠ some i)) ∨
       (t.lockHolder = some i ∧ y.blocked = true ∧ x = { y with blocked := false, nextPoll := t.now }))) := by
  have hilt : i < t.waiters.length := by
    rcases Nat.lt_or_ge i t.waiters.length with h' | h'
    · exact h'
    · rw [List.getElem?_eq_none h'] at hw; cases hw
  unfold finish at hx
  by_cases hl : t.lockHolder = some i
  · simp only [hl, if_true, List.getElem?_map, Option.map_eq_some_iff] at hx
    obtain ⟨y, hy, hxy⟩ := hx
    rw [List.getElem?_set] at hy
    by_cases hji : i = j
    · simp only [hji, if_true] at hy
      subst hji
      simp only [hilt, if_true, Option.some.injEq] at hy
      subst hy
      left; refine ⟨rfl, ?_⟩
      rw [← hxy]; simp [release, hwb]
    · simp only [hji, if_false] at hy
      right; refine ⟨fun h => hji h.symm, y, hy, ?_⟩
      by_cases hyb : y.blocked = true
      · right; refine ⟨hl, hyb, ?_⟩
        rw [← hxy]; simp [release, hyb]
      · left; refine ⟨?_, Or.inl (by simpa using hyb)⟩
        rw [← hxy]; simp [release, hyb]
  · simp only [hl, if_false] at hx
    rw [List.getElem?_set] at hx
    by_cases hji : i = j
    · simp only [hji, if_true] at hx
      subst hji
      simp only [hilt, if_true, Option.some.injEq] at hx
      left; exact ⟨rfl, hx.symm⟩
    · simp only [hji, if_false] at hx
      right; exact ⟨fun h => hji h.symm, x, hx, Or.inl ⟨rfl, Or.inr hl⟩⟩

theorem finish_lockHolder (t : T) (i : Nat) (w : Waiter) (r : Outcome) (c' : C) :
    (t.lockHolder = some i ∧ (finish t i w r c').lockHolder = none) ∨
    (t.lockHolder ≠ some i ∧ (finish t i w r c').lockHolder = t.lockHolder) := by
  unfold finish
  by_cases hl : t.lockHolder = some i
  · left; simp [hl]
  · right; simp [hl]

theorem finish_fields (t : T) (i : Nat) (w : Waiter) (r : Outcome) (c' : C) :
    (finish t i w r c').c = c' ∧ (finish t i w r c').now = t.now ∧ (finish t i w r c').faultAt = t.faultAt := by
  unfold finish; split <;> exact ⟨rfl, rfl, rfl⟩

/-- finishing a waiter (raise or normal return) keeps the invariant -/
theorem finish_inv (t : T) (h : Inv t) (i : Nat) (w : Waiter) (r : Outcome) (c' : C)
    (hw : t.waiters[i]? = some w) (hres : w.result = none) (hwb : w.blocked = false)
    (hnof : t.faultAt = none → Healthy c')
    (hfault : ∀ τ, t.faultAt = some τ → ∃ rest, c'.connErrs = .conn none :: rest)
    (hlen : c'.chans.length = t.c.chans.length)
    (hcs : t.c.connState = closed → c'.connState = closed)
    (hch : (∀ ch ∈ t.c.chans, ch.state = closed) → ∀ ch ∈ c'.chans, ch.state = closed)
    (hr : ∀ e a, r = .raised e a → e = .conn none ∧ ∃ τ, t.faultAt = some τ ∧ a ≤ bound w τ ∧
        c'.connState = closed ∧ ∀ ch ∈ c'.chans, ch.state = closed) :
    Inv (finish t i w r c') := by
  obtain ⟨h1, h2, h3, hE, h4, hH, hB, h5⟩ := h
  obtain ⟨fc, fn, ff⟩ := finish_fields t i w r c'
  have fw := finish_waiters t i w r c' hw hwb
  refine ⟨?_, ?_, ?_, ?_, ?_, ?_, ?_, ?_⟩
  · intro hn; rw [fc]; rw [ff] at hn; exact hnof hn
  · intro τ hτ; rw [ff] at hτ; rw [fc, fn]; exact ⟨(h2 τ hτ).1, hfault τ hτ⟩
  · intro j x ch hx hc; rw [fc, hlen]
    rcases fw j x hx with ⟨rfl, rfl⟩ | ⟨_, y, hy, ⟨rfl, _⟩ | ⟨_, _, rfl⟩⟩
    · exact h3 _ w ch hw hc
    · exact h3 j _ ch hy hc
    · exact h3 j y ch hy hc
  · intro j x hx; rw [fn]
    rcases fw j x hx with ⟨rfl, rfl⟩ | ⟨_, y, hy, ⟨rfl, _⟩ | ⟨_, _, rfl⟩⟩
    · exact hE _ w hw
    · exact hE j _ hy
    · exact hE j y hy
  · intro j x hx hxr hxb; rw [fn, ff]
    rcases fw j x hx with ⟨rfl, rfl⟩ | ⟨hji, y, hy, ⟨rfl, _⟩ | ⟨hl, hyb, rfl⟩⟩
    · cases hxr
    · exact h4 j _ hy hxr hxb
    · -- released from the lock queue: continues now
      obtain ⟨τ, j', wj, hτ, hj', _, hwj, hb⟩ := hB j y hy hxr hyb
      rw [hl] at hj'; cases hj'
      rw [hw] at hwj; cases hwj
      obtain ⟨a1, _, _⟩ := h4 i w hw hres hwb
      refine ⟨Nat.le_refl _, ?_, ?_⟩
      · intro hn; rw [hτ] at hn; cases hn
      · intro τ' hτ'; rw [hτ] at hτ'; cases hτ'
        show t.now ≤ bound y τ
        exact Nat.le_trans a1 hb
  · intro j hj
    rcases finish_lockHolder t i w r c' with ⟨_, hn⟩ | ⟨hne, hs⟩
    · rw [hn] at hj; cases hj
    · rw [hs] at hj
      obtain ⟨wj, hwj, r1, r2, r3⟩ := hH j hj
      have hji : j ≠ i := fun hh => hne (by rw [← hh]; exact hj)
      refine ⟨wj, ?_, r1, r2, r3⟩
      unfold finish; simp only [hne, if_false]
      rw [List.getElem?_set_ne (Ne.symm hji)]; exact hwj
  · intro j x hx hxr hxb; rw [ff]
    rcases fw j x hx with ⟨rfl, rfl⟩ | ⟨hji, y, hy, ⟨rfl, hor⟩ | ⟨_, _, rfl⟩⟩
    · cases hxr
    · rcases hor with hf | hne
      · rw [hf] at hxb; cases hxb
      · obtain ⟨τ, j', wj, hτ, hj', hjj, hwj, hb⟩ := hB j _ hy hxr hxb
        have hj'i : j' ≠ i := fun hh => hne (by rw [← hh]; exact hj')
        refine ⟨τ, j', wj, hτ, ?_, hjj, ?_, hb⟩
        · rcases finish_lockHolder t i w r c' with ⟨hh, _⟩ | ⟨_, hs⟩
          · exact absurd hh hne
          · rw [hs]; exact hj'
        · unfold finish; simp only [hne, if_false]
          rw [List.getElem?_set_ne (Ne.symm hj'i)]; exact hwj
    · cases hxb
  · intro j x e a hx hxr; rw [fc, ff]
    rcases fw j x hx with ⟨rfl, rfl⟩ | ⟨_, y, hy, ⟨rfl, _⟩ | ⟨_, _, rfl⟩⟩
    · simp only [Option.some.injEq] at hxr
      obtain ⟨q1, τ, q2, q3, q4, q5⟩ := hr e a hxr
      exact ⟨q1, τ, q2, q3, q4, q5⟩
    · obtain ⟨q1, τ, q2, q3, q4, q5⟩ := h5 j _ e a hy hxr
      exact ⟨q1, τ, q2, q3, hcs q4, hch q5⟩
    · obtain ⟨q1, τ, q2, q3, q4, q5⟩ := h5 j y e a hy hxr
      exact ⟨q1, τ, q2, q3, hcs q4, hch q5⟩

theorem getElem?_set_cases {α : Type} {l : List α} {i j : Nat} {a x : α} (h : (l.set i a)[j]? = some x) :
    (j = i ∧ x = a) ∨ (j ≠ i ∧ l[j]? = some x) := by
  rw [List.getElem?_set] at h
  by_cases hij : i = j
  · subst hij
    simp only [if_true] at h
    split at h
    · left; simp only [Option.some.injEq] at h; exact ⟨rfl, h.symm⟩
    · cases h
  · simp only [hij, if_false] at h
    right; exact ⟨fun hh => hij hh.symm, h⟩

theorem getElem?_append_one_cases {α : Type} {l : List α} {j : Nat} {a x : α} (h : (l ++ [a])[j]? = some x) :
    (j < l.length ∧ l[j]? = some x) ∨ (j = l.length ∧ x = a) := by
  rw [List.getElem?_append] at h
  split at h
  · rename_i hlt; left; exact ⟨hlt, h⟩
  · rename_i hge
    rcases Nat.lt_or_ge (j - l.length) 1 with hl | hl
    · have h0 : j - l.length = 0 := by omega
      rw [h0] at h; simp at h
      right; exact ⟨by omega, h.symm⟩
    · rw [List.getElem?_eq_none (by simpa using hl)] at h; cases h

theorem mem_modify_cases {α : Type} {l : List α} {f : α → α} {i : Nat} {x : α} (h : x ∈ l.modify i f) :
    x ∈ l ∨ ∃ y ∈ l, x = f y := by
  obtain ⟨j, hj⟩ := List.mem_iff_getElem?.mp h
  by_cases hij : i = j
  · subst hij
    rw [getElem?_modify_eq] at hj
    rcases hl : l[i]? with _ | y
    · rw [hl] at hj; cases hj
    · rw [hl] at hj; simp only [Option.map_some, Option.some.injEq] at hj
      right; exact ⟨y, List.mem_of_getElem? hl, hj.symm⟩
  · rw [getElem?_modify_ne l f i j hij] at hj
    left; exact List.mem_of_getElem? hj

theorem active_iff (w : Waiter) : active w = true ↔ w.result = none ∧ w.blocked = false := by
  unfold active; cases w.result <;> cases w.blocked <;> simp

/-- a check that passes (or defers a parked returned message) keeps the invariant -/
theorem poll_continue_inv (t : T) (h : Inv t) (i : Nat) (w : Waiter) (hw : t.waiters[i]? = some w)
    (hres : w.result = none) (hwb : w.blocked = false) (hf : t.faultAt = none) :
    Inv { t with waiters := t.waiters.set i { w with nextPoll := t.now + period w } } := by
  obtain ⟨h1, h2, h3, hE, h4, hH, hB, h5⟩ := h
  refine ⟨h1, h2, ?_, ?_, ?_, ?_, ?_, ?_⟩
  · intro k x c hx hc
    rcases getElem?_set_cases hx with ⟨_, rfl⟩ | ⟨_, hx'⟩
    · exact h3 i w c hw hc
    · exact h3 k x c hx' hc
  · intro k x hx
    rcases getElem?_set_cases hx with ⟨_, rfl⟩ | ⟨_, hx'⟩
    · exact hE i w hw
    · exact hE k x hx'
  · intro k x hx hxr hxb
    rcases getElem?_set_cases hx with ⟨_, rfl⟩ | ⟨_, hx'⟩
    · exact ⟨Nat.le_add_right _ _, fun _ => Nat.le_refl _, fun τ hτ => by simp [hf] at hτ⟩
    · exact h4 k x hx' hxr hxb
  · intro j hj
    obtain ⟨wj, hwj, r1, r2, r3⟩ := hH j hj
    by_cases hji : i = j
    · subst hji
      rw [hw] at hwj; cases hwj
      have hilt : i < t.waiters.length := by
        rcases Nat.lt_or_ge i t.waiters.length with h' | h'
        · exact h'
        · rw [List.getElem?_eq_none h'] at hw; cases hw
      exact ⟨{ w with nextPoll := t.now + period w }, by rw [List.getElem?_set]; simp [hilt], r1, r2, r3⟩
    · exact ⟨wj, by rw [List.getElem?_set_ne hji]; exact hwj, r1, r2, r3⟩
  · intro k x hx hxr hxb
    rcases getElem?_set_cases hx with ⟨_, rfl⟩ | ⟨_, hx'⟩
    · obtain ⟨τ, _, _, q, _⟩ := hB i w hw hres (by simpa using hxb)
      rw [hf] at q; cases q
    · obtain ⟨τ, _, _, q, _⟩ := hB k x hx' hxr hxb
      rw [hf] at q; cases q
  · intro k x e a hx hxr
    rcases getElem?_set_cases hx with ⟨_, rfl⟩ | ⟨_, hx'⟩
    · rw [hres] at hxr; cases hxr
    · exact h5 k x e a hx' hxr

/-- **Inductive step**: every transition keeps the invariant. -/
theorem step_inv (t t' : T) (a : Act) (h : Inv t) (hs : step t a = some t') : Inv t' := by
  cases a with
  | enterWait ch k lock cons =>
    simp only [step] at hs
    split at hs
    · rename_i hcond
      cases hs
      simp only [Bool.and_eq_true, Bool.or_eq_true, Bool.not_eq_eq_eq_not, Bool.not_true,
        Option.isNone_iff_eq_none, beq_iff_eq] at hcond
      obtain ⟨hok, hlock⟩ := hcond
      obtain ⟨h1, h2, h3, hE, h4, hH, hB, h5⟩ := h
      refine ⟨h1, h2, ?_, ?_, ?_, ?_, ?_, ?_⟩
      · intro i w c hw hc
        rcases getElem?_append_one_cases hw with ⟨_, hw'⟩ | ⟨_, rfl⟩
        · exact h3 i w c hw' hc
        · simp only at hc; subst hc; simpa [chanOk] using hok
      · intro i w hw
        rcases getElem?_append_one_cases hw with ⟨_, hw'⟩ | ⟨_, rfl⟩
        · exact hE i w hw'
        · exact Nat.le_refl _
      · intro i w hw hr hb
        rcases getElem?_append_one_cases hw with ⟨_, hw'⟩ | ⟨_, rfl⟩
        · exact h4 i w hw' hr hb
        · exact ⟨Nat.le_refl _, fun _ => by simp, fun τ _ => by simp only [bound]; omega⟩
      · intro j hj
        cases lock with
        | true =>
          simp only [if_true, Option.some.injEq] at hj
          subst hj
          rcases hlock with hh | ⟨_, hk⟩
          · cases hh
          · exact ⟨{ chan := ch, entered := t.now, nextPoll := t.now, extra := k, consuming := cons }, by simp, rfl, rfl, hk⟩
        | false =>
          simp only [Bool.false_eq_true, if_false] at hj
          obtain ⟨w, hw, r1, r2, r3⟩ := hH j hj
          have hlt : j < t.waiters.length := by
            rcases Nat.lt_or_ge j t.waiters.length with h' | h'
            · exact h'
            · rw [List.getElem?_eq_none h'] at hw; cases hw
          exact ⟨w, by rw [List.getElem?_append_left hlt]; exact hw, r1, r2, r3⟩
      · intro i w hw hr hb
        rcases getElem?_append_one_cases hw with ⟨_, hw'⟩ | ⟨_, rfl⟩
        · obtain ⟨τ, j, wj, q1, q2, q3, q4, q5⟩ := hB i w hw' hr hb
          have hlt : j < t.waiters.length := by
            rcases Nat.lt_or_ge j t.waiters.length with h' | h'
            · exact h'
            · rw [List.getElem?_eq_none h'] at q4; cases q4
          cases lock with
          | true =>
            rcases hlock with hh | ⟨hn, _⟩
            · cases hh
            · rw [hn] at q2; cases q2
          | false =>
            exact ⟨τ, j, wj, q1, by simpa using q2, q3, by rw [List.getElem?_append_left hlt]; exact q4, q5⟩
        · cases hb
      · intro i w e a hw hr
        rcases getElem?_append_one_cases hw with ⟨_, hw'⟩ | ⟨_, rfl⟩
        · exact h5 i w e a hw' hr
        · cases hr
    · cases hs
  | die =>
    simp only [step] at hs
    split at hs
    · cases hs; exact ⟨h.nofault, h.fault, h.chansLen, h.enteredLe, h.waiting, h.holder, h.blockedW, h.finished⟩
    · cases hs
  | readerNotices =>
    simp only [step] at hs
    split at hs
    · cases hs
      have := record_inv t h
      exact ⟨this.nofault, this.fault, this.chansLen, this.enteredLe, this.waiting, this.holder, this.blockedW, this.finished⟩
    · cases hs
  | writerFails =>
    simp only [step] at hs
    split at hs
    · cases hs; exact record_inv t h
    · cases hs
  | pollerFails =>
    simp only [step] at hs
    split at hs
    · cases hs; exact record_inv t h
    · cases hs
  | adv d =>
    simp only [step] at hs
    split at hs
    · rename_i hc; cases hs
      obtain ⟨hall, _⟩ := hc
      obtain ⟨h1, h2, h3, hE, h4, hH, hB, h5⟩ := h
      refine ⟨h1, fun τ hτ => ⟨by have := (h2 τ hτ).1; simp only; omega, (h2 τ hτ).2⟩, h3, ?_, ?_, hH, hB, h5⟩
      · intro i w hw; have := hE i w hw; simp only; omega
      · intro i w hw hr hb
        obtain ⟨a1, a3, a4⟩ := h4 i w hw hr hb
        have hmem := List.mem_of_getElem? hw
        have := List.all_eq_true.mp hall w hmem
        have hact : active w = true := (active_iff w).2 ⟨hr, hb⟩
        simp only [hact, Bool.not_true, Bool.false_or, decide_eq_true_eq] at this
        exact ⟨this, fun hn => by have := a3 hn; simp only; omega, a4⟩
    · cases hs
  | brokerReturn ch code =>
    simp only [step] at hs
    split at hs
    · cases hs
      obtain ⟨h1, h2, h3, hE, h4, hH, hB, h5⟩ := h
      refine ⟨?_, ?_, ?_, hE, h4, hH, hB, ?_⟩
      · intro hn
        obtain ⟨a1, a2, a3⟩ := h1 hn
        refine ⟨a1, a2, ?_⟩
        intro x hx
        rcases mem_modify_cases hx with hx' | ⟨y, hy, rfl⟩
        · exact a3 x hx'
        · refine ⟨(a3 y hy).1, ?_⟩
          intro e he
          simp only [List.mem_append, List.mem_singleton] at he
          rcases he with he | rfl
          · exact (a3 y hy).2 e he
          · rfl
      · intro τ hτ; exact h2 τ hτ
      · intro i w c hw hc
        have := h3 i w c hw hc
        simpa [onReturn] using this
      · intro i w e a hw hr
        obtain ⟨q1, τ, q2, q3, q4, q5⟩ := h5 i w e a hw hr
        refine ⟨q1, τ, q2, q3, q4, ?_⟩
        intro x hx
        rcases mem_modify_cases hx with hx' | ⟨y, hy, rfl⟩
        · exact q5 x hx'
        · exact q5 y hy
    · cases hs
  | leave i =>
    simp only [step] at hs
    split at hs
    · rename_i w hw
      split at hs
      · rename_i hact
        cases hs
        obtain ⟨hres, hwb⟩ := (active_iff w).1 hact.1
        exact finish_inv t h i w _ t.c hw hres hwb h.nofault (fun τ hτ => (h.fault τ hτ).2) rfl id id
          (fun e a he => by cases he)
      · cases hs
    · cases hs
  | stuck i =>
    simp only [step] at hs
    split at hs
    · rename_i w hw
      split at hs
      · rename_i hcond
        cases hs
        obtain ⟨hact, hraise, hsome, hne⟩ := hcond
        obtain ⟨hres, hwb⟩ := (active_iff w).1 hact
        obtain ⟨h1, h2, h3, hE, h4, hH, hB, h5⟩ := h
        -- a raising check means a failure has been recorded
        have hcases : t.faultAt = none ∨ ∃ τ, t.faultAt = some τ := by cases t.faultAt <;> simp
        rcases hcases with hf | ⟨τ, hf⟩
        · rcases check_healthy t.c (h1 hf) w.chan (fun c hc => h3 i w c hw hc) with hck | ⟨k, c', hck⟩
          · simp [raisesFatal, hck] at hraise
          · simp [raisesFatal, hck, Err.isMsg] at hraise
        · obtain ⟨j, hj⟩ := Option.isSome_iff_exists.mp hsome
          have hji : j ≠ i := fun hh => hne (by rw [← hh]; exact hj)
          obtain ⟨wj, hwj, rj1, rj2, rj3⟩ := hH j hj
          obtain ⟨b1, _, b3⟩ := h4 j wj hwj rj1 rj2
          obtain ⟨w1, _, w3⟩ := h4 i w hw hres hwb
          have hEj := hE j wj hwj
          refine ⟨fun hn => by simp [hf] at hn, ?_, ?_, ?_, ?_, ?_, ?_, ?_⟩
          · intro τ' hτ'; exact ⟨(h2 τ' hτ').1, (h2 τ' hτ').2⟩
          · intro k x c hx hc
            rcases getElem?_set_cases hx with ⟨_, rfl⟩ | ⟨_, hx'⟩
            · exact h3 i w c hw hc
            · exact h3 k x c hx' hc
          · intro k x hx
            rcases getElem?_set_cases hx with ⟨_, rfl⟩ | ⟨_, hx'⟩
            · exact hE i w hw
            · exact hE k x hx'
          · intro k x hx hxr hxb
            rcases getElem?_set_cases hx with ⟨_, rfl⟩ | ⟨_, hx'⟩
            · cases hxb
            · exact h4 k x hx' hxr hxb
          · intro j' hj'
            rw [hj] at hj'; cases hj'
            exact ⟨wj, by rw [List.getElem?_set_ne (Ne.symm hji)]; exact hwj, rj1, rj2, rj3⟩
          · intro k x hx hxr hxb
            rcases getElem?_set_cases hx with ⟨rfl, rfl⟩ | ⟨hk, hx'⟩
            · refine ⟨τ, j, wj, hf, hj, hji, by rw [List.getElem?_set_ne (Ne.symm hji)]; exact hwj, ?_⟩
              have q1 := b3 τ hf
              have q2 := w3 τ hf
              have q3 := idle_le_period w
              have q4 := period_extra0 wj rj3
              show wj.nextPoll ≤ bound w τ
              simp only [bound] at q1 q2 ⊢
              omega
            · obtain ⟨τ', j', wj', q1, q2, q3, q4, q5⟩ := hB k x hx' hxr hxb
              rw [hj] at q2; cases q2
              exact ⟨τ', j, wj', q1, hj, q3, by rw [List.getElem?_set_ne (Ne.symm hji)]; exact q4, q5⟩
          · intro k x e a hx hxr
            rcases getElem?_set_cases hx with ⟨_, rfl⟩ | ⟨_, hx'⟩
            · rw [hres] at hxr; cases hxr
            · obtain ⟨q1, τ', q2, q3, _, q5⟩ := h5 k x e a hx' hxr
              exact ⟨q1, τ', q2, q3, rfl, q5⟩
      · cases hs
    · cases hs
  | poll i =>
    simp only [step] at hs
    split at hs
    · rename_i w hw
      split at hs
      · rename_i hact
        obtain ⟨hres, hwb⟩ := (active_iff w).1 hact
        have hcases : t.faultAt = none ∨ ∃ τ, t.faultAt = some τ := by cases t.faultAt <;> simp
        rcases hcases with hf | ⟨τ, hf⟩
        · -- no failure recorded: the check passes (or meets a parked returned message), the thread sleeps again
          have hh := h.nofault hf
          rcases check_healthy t.c hh w.chan (fun c hc => h.chansLen i w c hw hc) with hck | ⟨k, c'', hck⟩
          · rw [hck] at hs
            simp only [Option.some.injEq] at hs
            subst hs
            exact poll_continue_inv t h i w hw hres hwb hf
          · rw [hck] at hs
            have hm : Err.isMsg (.msg k) = true := rfl
            simp only [hm, if_true, Option.some.injEq] at hs
            subst hs
            exact poll_continue_inv t h i w hw hres hwb hf
        · -- a failure is recorded: the check raises it
          obtain ⟨hτle, rest, hrest⟩ := h.fault τ hf
          obtain ⟨o1, o2, o3, o4, o5⟩ := check_after_fault t.c rest hrest w.chan
          rcases hop : check t.c w.chan with ⟨r, c'⟩
          rw [hop] at o1 o2 o3 o4 o5 hs
          simp only at o1 o2 o3 o4 o5
          subst o1
          have hm : Err.isMsg (.conn none) = false := rfl
          simp only [hm, Bool.false_eq_true, if_false] at hs
          split at hs
          · cases hs
            obtain ⟨_, _, w3⟩ := h.waiting i w hw hres hwb
            obtain ⟨w1, _, _⟩ := h.waiting i w hw hres hwb
            exact finish_inv t h i w _ c' hw hres hwb (fun hn => by rw [hf] at hn; cases hn)
              (fun τ' _ => ⟨rest, by rw [o3]; exact hrest⟩) o5 (fun _ => o2) (fun _ => o4)
              (fun e a he => by
                simp only [Outcome.raised.injEq] at he
                obtain ⟨rfl, rfl⟩ := he
                exact ⟨rfl, τ, hf, Nat.le_trans w1 (w3 τ hf), o2, o4⟩)
          · cases hs
      · cases hs
    · cases hs

theorem run_inv : ∀ (as : List Act) (t t' : T), Inv t → run t as = some t' → Inv t' := by
  intro as
  induction as with
  | nil => intro t t' h hr; simp [run] at hr; subst hr; exact h
  | cons a as ih =>
    intro t t' h hr
    simp only [run] at hr
    split at hr
    · cases hr
    · rename_i t1 hs; exact ih t1 t' (step_inv t t1 a h hs) hr

/-- **A recorded transport failure is visible to the connection** (IO's list is the connection's). -/
theorem fault_recorded_visible (c : C) (hc : Healthy c) (as : List Act) (t : T)
    (hr : run { c := c } as = some t) (τ : Nat) (hf : t.faultAt = some τ) : t.c.connErrs ≠ [] := by
  obtain ⟨_, rest, h⟩ := (run_inv as _ t (inv_init c hc) hr).fault τ hf
  rw [h]; simp

/-- **Every thread that has got its answer got AMQPConnectionError, promptly**: no other error class
    ever comes out of a wait loop, the error is the transport failure, and it was raised no later than
    one loop period (IDLE_WAIT; two for start_consuming) after the failure was recorded (or at the
    thread's first check if it made its call later) — also when the raising check had to queue for the
    connection lock behind a thread waiting in `Connection.close()` / `Connection.channel()`.
    The connection and every channel then report closed. -/
theorem callers_get_connection_error_promptly (c : C) (hc : Healthy c) (as : List Act) (t : T)
    (hr : run { c := c } as = some t) (i : Nat) (w : Waiter) (e : Err) (a : Nat)
    (hw : t.waiters[i]? = some w) (hres : w.result = some (.raised e a)) :
    e = .conn none ∧ ∃ τ, t.faultAt = some τ ∧ a ≤ max w.entered (τ + period w) ∧
      t.c.connState = closed ∧ ∀ ch ∈ t.c.chans, ch.state = closed :=
  (run_inv as _ t (inv_init c hc) hr).finished i w e a hw hres

/-- **Nobody stays blocked**: a thread still in its loop has its next check scheduled no later than one
    period after the failure was recorded (or at its own start), and time cannot pass that moment
    without the check being run — which then raises (`poll_after_fault_raises`) or queues for the lock. -/
theorem blocked_callers_wake_in_time (c : C) (hc : Healthy c) (as : List Act) (t : T)
    (hr : run { c := c } as = some t) (i : Nat) (w : Waiter) (τ : Nat)
    (hw : t.waiters[i]? = some w) (hres : w.result = none) (hb : w.blocked = false) (hf : t.faultAt = some τ) :
    t.now ≤ w.nextPoll ∧ w.nextPoll ≤ max w.entered (τ + period w) := by
  obtain ⟨a1, _, a4⟩ := (run_inv as _ t (inv_init c hc) hr).waiting i w hw hres hb
  exact ⟨a1, a4 τ hf⟩

/-- **A thread queued on the connection lock is released in time**: the lock holder is itself a waiter
    whose next check is due no later than the queued thread's own bound. -/
theorem lock_queue_released_in_time (c : C) (hc : Healthy c) (as : List Act) (t : T)
    (hr : run { c := c } as = some t) (i : Nat) (w : Waiter)
    (hw : t.waiters[i]? = some w) (hres : w.result = none) (hb : w.blocked = true) :
    ∃ τ j wj, t.faultAt = some τ ∧ t.lockHolder = some j ∧ t.waiters[j]? = some wj ∧ wj.result = none ∧
      wj.blocked = false ∧ t.now ≤ wj.nextPoll ∧ wj.nextPoll ≤ max w.entered (τ + period w) := by
  have inv := run_inv as _ t (inv_init c hc) hr
  obtain ⟨τ, j, wj, q1, q2, _, q4, q5⟩ := inv.blockedW i w hw hres hb
  obtain ⟨wj', hwj', r1, r2, _⟩ := inv.holder j q2
  rw [q4] at hwj'; cases hwj'
  exact ⟨τ, j, wj, q1, q2, q4, r1, r2, (inv.waiting j wj q4 r1 r2).1, q5⟩

theorem poll_after_fault_raises (c : C) (hc : Healthy c) (as : List Act) (t t' : T)
    (hr : run { c := c } as = some t) (i : Nat) (w : Waiter) (τ : Nat)
    (hw : t.waiters[i]? = some w) (hf : t.faultAt = some τ) (hs : step t (.poll i) = some t') :
    ∃ w', t'.waiters[i]? = some w' ∧ w'.result = some (.raised (.conn none) t.now) := by
  obtain ⟨_, rest, hrest⟩ := (run_inv as _ t (inv_init c hc) hr).fault τ hf
  obtain ⟨o1, _⟩ := check_after_fault t.c rest hrest w.chan
  simp only [step, hw] at hs
  split at hs
  · rename_i hact
    obtain ⟨_, hwb⟩ := (active_iff w).1 hact
    rcases hop : check t.c w.chan with ⟨r, c'⟩
    rw [hop] at o1 hs
    simp only at o1; subst o1
    have hm : Err.isMsg (.conn none) = false := rfl
    simp only [hm, Bool.false_eq_true, if_false] at hs
    split at hs
    · cases hs
      have hilt : i < t.waiters.length := by
        rcases Nat.lt_or_ge i t.waiters.length with h' | h'
        · exact h'
        · rw [List.getElem?_eq_none h'] at hw; cases hw
      refine ⟨{ w with result := some (.raised (.conn none) t.now) }, ?_, rfl⟩
      unfold finish
      split
      · simp [List.getElem?_set, hilt, release, hwb]
      · simp [List.getElem?_set, hilt]
    · cases hs
  · cases hs

/-- **A consuming loop does not end normally once the failure is recorded**: `start_consuming` and the
    `build_inbound_messages` generator leave their loop when another thread's check has closed the channel
    under them - and then raise the connection's error instead of returning (regenerated: the check after the
    loop).  In the model: no `leave` step exists for such a waiter after the record. -/
theorem consuming_loops_do_not_return_after_failure (c : C) (hc : Healthy c) (as : List Act) (t : T)
    (hr : run { c := c } as = some t) (i : Nat) (w : Waiter) (τ : Nat)
    (hw : t.waiters[i]? = some w) (hcons : w.consuming = true) (hf : t.faultAt = some τ)
    (hgen : Gen.Transport.consumeLoopsCheckOnExit = true) : step t (.leave i) = none := by
  obtain ⟨_, rest, hrest⟩ := (run_inv as _ t (inv_init c hc) hr).fault τ hf
  simp [step, hw, hcons, hgen, hrest]

theorem gen_consume_exit : Gen.Transport.consumeLoopsCheckOnExit = true := by decide

/-- the model's socket steps (a send or receive that does not complete comes back after the connection's time-out, so the
    thread reaches its next error check) rest on the socket being created with that time-out; and the reader reads under the
    read lock that `IO.close` holds while it drops the socket.  Both read from the source on this run. -/
theorem gen_socket_discipline : Gen.Transport.socketHasTimeout = true ∧ Gen.Transport.readUnderReadLock = true := by decide

/-- **The reader notices a dead socket before any time passes** (it sits in poll, which returns at
    once on EOF/reset); and so does every later call: its first check is immediate. -/
theorem no_time_passes_on_dead_socket (t : T) (d : Nat) (hd : t.socketDead.isSome) (hrun : t.readerRunning = true)
    (hpos : 0 < d) : step t (.adv d) = none := by
  simp [step, hd, hrun, hpos]

/-! ## Tie obligations -/

/-- "promptly": even the slowest loop (start_consuming: its own sleep plus the one of the generator it
    drains) checks for errors well within one poll time-out -/
theorem wait_period_within_poll_timeout :
    idleWait ≤ pollTimeout ∧ Gen.Transport.consumeLoopSleeps * idleWait ≤ pollTimeout ∧ 0 < idleWait := by decide


theorem skel_IO__receive : Gen.Skel.IO__receive =
  ["try", "call:_read_from_socket", "if", "then", "raise:socket.error", "endif",
    "except:socket.timeout", "except:compatibility.SSLWantReadError",
    "except:(IOError,OSError,ValueError)", "if", "then", "r:_exceptions",
    "call:_exceptions.append", "if", "r:_running", "call:_running.is_set", "then", "endif",
    "r:_running", "call:_running.clear", "endif", "endtry", "return"] := by decide

theorem skel_IO_write_to_socket : Gen.Skel.IO_write_to_socket =
  ["acq:_wr_lock", "try", "while", "do", "try", "r:socket", "if", "then", "raise:socket.error",
    "endif", "call:sock.send", "if", "then", "raise:socket.error", "endif",
    "except:socket.timeout", "except:socket.error", "if", "then", "continue", "endif",
    "r:_exceptions", "call:_exceptions.append", "return", "endtry", "endwhile", "finally",
    "rel:_wr_lock", "endtry"] := by decide

theorem skel_IO__process_incoming_data : Gen.Skel.IO__process_incoming_data =
  ["while", "r:_running", "call:_running.is_set", "do", "if", "r:poller", "then", "r:data_in",
    "call:_receive", "w:data_in", "r:data_in", "call:_on_read_impl", "w:data_in", "endif",
    "endwhile"] := by decide

theorem skel_Connection_check_for_errors : Gen.Skel.Connection_check_for_errors =
  ["if", "r:exceptions", "then", "if", "r:is_closed", "then", "return", "endif",
    "r:exceptions", "call:exceptions.append", "endif", "call:set_state", "call:close",
    "r:exceptions", "raise:exceptions[0]"] := by decide

theorem skel_Connection__wait_for_connection_state : Gen.Skel.Connection__wait_for_connection_state =
  ["while", "r:current_state", "do", "call:check_for_errors", "if", "then",
    "raise:AMQPConnectionError", "endif", "call:sleep", "endwhile"] := by decide

theorem skel_Rpc__wait_for_request : Gen.Skel.Rpc__wait_for_request =
  ["while", "r:_response", "do", "try", "call:connection_adapter.check_for_errors",
    "except:AMQPMessageError", "if", "then", "raise", "endif",
    "call:connection_adapter.exceptions.insert", "endtry", "if", "then",
    "call:_raise_rpc_timeout_error", "endif", "call:time.sleep", "endwhile"] := by decide

theorem skel_Channel_build_inbound_messages : Gen.Skel.Channel_build_inbound_messages =
  ["call:check_for_errors", "if", "then", "if", "then", "raise:AMQPInvalidArgument", "endif",
    "else", "endif", "while", "r:is_closed", "do", "call:_build_message", "if", "then",
    "call:check_for_errors", "call:time.sleep", "if", "r:_inbound", "then", "break", "endif",
    "continue", "endif", "if", "then", "call:message.to_tuple", "yield", "continue", "endif",
    "yield", "endwhile", "if", "r:exceptions", "then", "call:check_for_errors", "endif"] := by decide

theorem skel_Channel_start_consuming : Gen.Skel.Channel_start_consuming =
  ["while", "r:is_closed", "do", "r:consumer_tags", "call:process_data_events", "if", "then",
    "call:time.sleep", "continue", "endif", "break", "endwhile", "if", "r:exceptions", "then",
    "call:check_for_errors", "endif"] := by decide

/-- the channel's check consults the connection first: a parked returned message cannot hide the failure -/
theorem skel_Channel_check_for_errors : Gen.Skel.Channel_check_for_errors =
  ["r:is_closed", "try", "call:_connection.check_for_errors", "except:AMQPConnectionError",
    "call:set_state", "raise", "endtry", "call:check_for_exceptions", "if", "then",
    "raise:AMQPChannelError", "endif"] := by decide

/-! ## Non-vacuity: two waiters on two channels, the peer dies, both raise within IDLE_WAIT -/
def c2 : C := { chans := [{}, {}] }
example : Healthy c2 := by
  refine ⟨rfl, rfl, ?_⟩
  intro ch hch; simp [c2] at hch; subst hch; exact ⟨rfl, fun e he => by cases he⟩
example : (run { c := c2 } [.enterWait (some 0) 0 false, .poll 0, .adv 4, .enterWait (some 1) 0 false, .poll 1, .die,
    .readerNotices, .adv 6, .poll 0, .adv 4, .poll 1]).map (fun t => (t.waiters.map (·.result), t.c.connState, t.now)) =
    some ([some (.raised (.conn none) 10), some (.raised (.conn none) 14)], 0, 14) := by decide
-- a thread waits in Connection.close() (holds the lock); the other thread's raising check queues behind it
example : (run { c := c2 } [.enterWait (some 0) 0 false, .poll 0, .adv 5, .enterWait none 0 true, .poll 1, .adv 5,
    .die, .readerNotices, .stuck 0, .adv 5, .poll 1, .poll 0]).map
      (fun t => (t.waiters.map (·.result), t.lockHolder, t.now)) =
    some ([some (.raised (.conn none) 15), some (.raised (.conn none) 15)], none, 15) := by decide
-- while the lock is held a raising check cannot complete, and a queued thread does not hold time back
example : (run { c := c2 } [.enterWait (some 0) 0 false, .poll 0, .adv 5, .enterWait none 0 true, .poll 1, .adv 5,
    .die, .readerNotices, .poll 0]) = none := by decide
-- a returned message is parked on the waiter's channel: the wait goes on, and the failure is still raised in time
example : (run { c := c2 } [.enterWait (some 0) 0 false, .poll 0, .brokerReturn 0 312, .adv 10, .poll 0, .adv 3, .die,
    .readerNotices, .adv 7, .poll 0]).map (fun t => (t.waiters.map (·.result), t.c.connState, t.now)) =
    some ([some (.raised (.conn none) 20)], 0, 20) := by decide
-- time cannot skip a due poll, nor pass while the reader has not noticed the dead socket
example : (run { c := c2 } [.enterWait (some 0) 0 false, .adv 1]) = none := by decide
-- a consuming loop cannot return normally after the failure was recorded; an RPC wait whose reply is in still can
example : (run { c := c2 } [.enterWait (some 0) 1 false true, .poll 0, .die, .readerNotices, .leave 0]) = none := by decide
example : (run { c := c2 } [.enterWait (some 0) 0 false false, .poll 0, .die, .readerNotices, .leave 0]).isSome = true := by decide
example : (run { c := c2 } [.die, .adv 1]) = none := by decide

/-! ## Lock structure (regenerated from the source: `Gen/Locks.lean`)

"Never an indefinite block" also needs that no thread waits for a lock for ever.  The lock graph of the
library - which lock may be taken, directly or through calls, while which is held - is recomputed from
the source on every run.  (The tear-down performed by a raising error check is not followed by the
extractor; that it ends is what the transition systems of this file, C08 and C11 are about.) -/

/-- rank of each lock: a thread only ever takes locks of strictly lower rank than the ones it holds -/
def lockRank : List (String × Nat) :=
  [("Connection.lock", 5), ("Channel.lock", 4), ("Rpc.lock", 3), ("IO._wr_lock", 2), ("IO._rd_lock", 1), ("Heartbeat._lock", 0)]

/-- **The lock order is acyclic**: every lock-order edge of the library goes down in rank, except the
    re-entrant connection lock being taken again by its holder.  So no set of threads can wait for each
    other's locks in a cycle. -/
theorem lock_order_ranked :
    Gen.Locks.edges.all (fun e =>
      (e.1 == "Connection.lock" && e.2 == "Connection.lock") ||
      (match lockRank.lookup e.1, lockRank.lookup e.2 with
       | some a, some b => decide (b < a)
       | _, _ => false)) = true := by decide

/-- every lock of the library has a rank (a new lock object breaks this obligation) -/
theorem every_lock_ranked : Gen.Locks.locks.all (fun l => (lockRank.lookup l).isSome) = true := by decide

/-- **The reader never needs a lock a waiting caller holds**: a caller blocked in an RPC wait or in the
    connection-state wait may hold the connection, channel and RPC locks; the reader thread - whose
    progress ends that wait or records the failure - takes none of them. -/
theorem reader_never_needs_a_waiting_callers_lock :
    Gen.Locks.readerAcquires.all (fun l => !Gen.Locks.heldWhileWaitingForReader.contains l) = true := by decide

/-- likewise the heartbeat timer thread, which declares a dead peer (C12): it is never held up by a caller
    that waits for the broker -/
theorem timer_never_needs_a_waiting_callers_lock :
    Gen.Locks.timerAcquires.all (fun l => !Gen.Locks.heldWhileWaitingForReader.contains l) = true := by decide

end Amqp.C06
