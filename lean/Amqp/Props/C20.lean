import Amqp.Lemmas.Paging
/-!
# C20 — paginated management listings are complete, ordered and terminate

Model: `Amqp/Model/Paging.lean` (`listAll` = `HTTPClient.list`, `wrapperList` = the `list` methods
of `Queue/Exchange/Connection/Channel`).  The first page, the `.get('page', d)` default, the `while`
test, the next-page expression, the key written in the loop, the parameter plan and the wrapper
table are regenerated from the source into `Gen/Paging.lean`, so every theorem below is re-proved
against what the code says now.

Vocabulary (`Amqp/Lemmas/Paging.lean`): `held sel xs name rx` = the items of `xs` the server selects
for the filter `(name, rx)`; `regexParam flag` = the `use_regex` value the property demands for the
caller's flag (`True` ⇒ `"true"`, falsy ⇒ absent); `pageRequest path name rx p k` = GET `path` with
`name`, `use_regex`, `page=k`, `page_size=p`, `pagination=True`; `goodServer sel xs` = a server that
holds `xs`, applies the filter carried by *each* request and pages like RabbitMQ;
`pageCount n p = ⌈n/p⌉`.  Nothing bounds the number of items, the page size or the fuel.
-/
namespace Amqp.C20
open Amqp Amqp.Paging

variable {α : Type}

/-- **Headline.**  Against a well-behaved server, for any items, any page size `p > 0`, any name
    filter and any flag on which the client does not raise: the client requests exactly the pages
    `1 … max 1 ⌈n/p⌉` in order, every request carrying the caller's name, `use_regex`, page size
    and `pagination`, then stops; and it returns exactly the items the server holds for that
    filter, each once, in server order.  Any fuel ≥ ⌈n/p⌉ − 1 suffices (the loop terminates). -/
theorem list_outcome (sel : Option String → Option String → α → Bool) (xs : List α) (path : String)
    (name : Option String) (flag : PyFlag) (p fuel : Nat) (hp : 0 < p) (hflag : flagRaises flag = false)
    (hfuel : pageCount (held sel xs name (regexParam flag)).length p ≤ fuel + 1) :
    listAll (goodServer sel xs) fuel path name flag (some (p : Int)) =
      ⟨(List.range' 1 (max 1 (pageCount (held sel xs name (regexParam flag)).length p))).map
          (pageRequest path name (regexParam flag) p),
       .ok (held sel xs name (regexParam flag))⟩ :=
  listAll_good sel xs path name flag p fuel hp hflag hfuel

/-- completeness and order: the returned list *is* the server's (filtered) list -/
theorem list_complete (sel : Option String → Option String → α → Bool) (xs : List α) (path : String)
    (name : Option String) (flag : PyFlag) (p fuel : Nat) (hp : 0 < p) (hflag : flagRaises flag = false)
    (hfuel : pageCount (held sel xs name (regexParam flag)).length p ≤ fuel + 1) :
    (listAll (goodServer sel xs) fuel path name flag (some (p : Int))).result =
      .ok (held sel xs name (regexParam flag)) := by
  rw [list_outcome sel xs path name flag p fuel hp hflag hfuel]

/-- the pages requested are 1 … max 1 ⌈n/p⌉, in order, nothing after the last page -/
theorem list_requests (sel : Option String → Option String → α → Bool) (xs : List α) (path : String)
    (name : Option String) (flag : PyFlag) (p fuel : Nat) (hp : 0 < p) (hflag : flagRaises flag = false)
    (hfuel : pageCount (held sel xs name (regexParam flag)).length p ≤ fuel + 1) :
    (listAll (goodServer sel xs) fuel path name flag (some (p : Int))).requests =
      (List.range' 1 (max 1 (pageCount (held sel xs name (regexParam flag)).length p))).map
        (pageRequest path name (regexParam flag) p) := by
  rw [list_outcome sel xs path name flag p fuel hp hflag hfuel]

/-- termination: once the fuel covers the page count the outcome no longer depends on it -/
theorem list_fuel_irrelevant (sel : Option String → Option String → α → Bool) (xs : List α) (path : String)
    (name : Option String) (flag : PyFlag) (p f₁ f₂ : Nat) (hp : 0 < p) (hflag : flagRaises flag = false)
    (h₁ : pageCount (held sel xs name (regexParam flag)).length p ≤ f₁ + 1)
    (h₂ : pageCount (held sel xs name (regexParam flag)).length p ≤ f₂ + 1) :
    listAll (goodServer sel xs) f₁ path name flag (some (p : Int)) =
    listAll (goodServer sel xs) f₂ path name flag (some (p : Int)) := by
  rw [list_outcome sel xs path name flag p f₁ hp hflag h₁, list_outcome sel xs path name flag p f₂ hp hflag h₂]

/-- what one page request puts on the wire, in order: the caller's `name` (if given), `use_regex`
    (if demanded), then `page`, `page_size` and `pagination=True` -/
theorem request_wire (path : String) (name rx : Option String) (p k : Nat) :
    (pageRequest path name rx p k).query =
      (match name with | some s => [("name", s)] | none => []) ++
      (match rx with | some s => [("use_regex", s)] | none => []) ++
      [("page", toString (k : Int)), ("page_size", toString (p : Int)), ("pagination", "True")] := by
  cases name <;> cases rx <;> simp [pageRequest, expPaged, expBase, Request.query, PVal.wire]

/-- the regex flag: `True` is sent as the lower-case `"true"` RabbitMQ compares against; `False`
    and `None` send nothing; a non-empty string flag is sent lower-cased -/
theorem regex_flag :
    regexParam (.bool true) = some "true" ∧ regexParam (.bool false) = none ∧ regexParam .none = none ∧
    regexParam (.int 0) = none ∧ regexParam (.str "") = none ∧
    ∀ s, s ≠ "" → regexParam (.str s) = some s.toLower := by
  refine ⟨rfl, rfl, rfl, rfl, by simp [regexParam], ?_⟩
  intro s hs; simp [regexParam, hs]

/-- error branch: a truthy integer flag makes `use_regex.lower()` raise AttributeError before any
    request is made, whatever the server -/
theorem list_bad_flag (srv : Server α) (fuel : Nat) (path : String) (name : Option String) (n : Int)
    (hn : n ≠ 0) (ps : Option Int) :
    listAll srv fuel path name (.int n) ps = ⟨[], .raised .attributeError⟩ := by
  simp [listAll, baseParams_raises name n hn]

/-- `page_size = None`: exactly one request, without `page`/`page_size`/`pagination`, carrying the
    caller's name and `use_regex`; the server's whole (filtered) array is returned -/
theorem list_unpaginated (sel : Option String → Option String → α → Bool) (xs : List α) (path : String)
    (name : Option String) (flag : PyFlag) (fuel : Nat) (hflag : flagRaises flag = false) :
    listAll (goodServer sel xs) fuel path name flag none =
      ⟨[⟨path, expBase name (regexParam flag)⟩], .ok (held sel xs name (regexParam flag))⟩ := by
  unfold listAll
  simp only [baseParams_ok name flag hflag]
  have : goodServer sel xs 0 ⟨path, expBase name (regexParam flag)⟩ =
      .listing (held sel xs name (regexParam flag)) := by
    cases name <;> cases regexParam flag <;>
      simp [goodServer, expBase, Params.get, Params.getStr, held]
  simp [this, Outcome.push]

/-- error branch: a page size ≤ 0 is refused by the server; the error is raised after that single
    request and nothing else is sent -/
theorem list_bad_page_size (sel : Option String → Option String → α → Bool) (xs : List α) (path : String)
    (name : Option String) (flag : PyFlag) (p : Int) (fuel : Nat) (hp : p ≤ 0)
    (hflag : flagRaises flag = false) :
    listAll (goodServer sel xs) fuel path name flag (some p) =
      ⟨[⟨path, expPaged name (regexParam flag) 1 p⟩], .raised .apiError⟩ := by
  unfold listAll
  simp only [baseParams_ok name flag hflag, pagedParams_ok]
  have : goodServer sel xs 0 ⟨path, expPaged name (regexParam flag) 1 p⟩ = .error := by
    unfold goodServer
    simp only [(get_page name (regexParam flag) 1 p).1, (get_page name (regexParam flag) 1 p).2]
    rw [if_neg]; omega
  simp [this, Outcome.push]

/-- **Termination for arbitrary histories.**  Against *any* server — content changing between
    requests, errors, malformed replies — that echoes the requested page number and never reports
    more than `N` pages, every call (any flag, any page size, paginated or not) finishes within
    `max 1 N` requests; fuel `N − 1` is never exhausted. -/
theorem list_terminates (srv : Server α) (N : Int) (h : Echoes srv N) (path : String)
    (name : Option String) (flag : PyFlag) (ps : Option Int) (fuel : Nat) (hf : N ≤ fuel + 1) :
    (listAll srv fuel path name flag ps).result ≠ .outOfFuel ∧
    ((listAll srv fuel path name flag ps).requests.length : Int) ≤ max 1 N :=
  listAll_terminates srv N h path name flag ps fuel hf

/-- `list_terminates` is not vacuous: the well-behaved server echoes the page and never reports
    more pages than it holds items, whatever filter and page size each request carries -/
theorem good_server_echoes (sel : Option String → Option String → α → Bool) (xs : List α) :
    Echoes (goodServer sel xs) xs.length :=
  goodServer_echoes sel xs

/-- the statement order of the source (which key is read with `[...]`, where the loop breaks) is
    the one the hand-written loop of the model follows -/
theorem list_skeleton :
    Gen.Paging.firstSkeleton = expectedFirstSkeleton ∧ Gen.Paging.loopSkeleton = expectedLoopSkeleton := by
  decide

/-- the listing operations found in the source are exactly queue/exchange (per vhost with the vhost
    percent-quoted, and `show_all`), connection and channel, on the documented paths, and every
    call site passes `name`, `use_regex` and `page_size` through -/
theorem wrappers_table :
    Gen.Paging.wrappers.map (fun w => (w.op, w.showAllCall, w.mainCall)) =
      [("channel.list", none, ⟨"channels", "", false, false, true, true, true⟩),
       ("connection.list", none, ⟨"connections", "", false, false, true, true, true⟩),
       ("exchange.list", some ⟨"exchanges", "", false, false, true, true, true⟩,
          ⟨"exchanges/", "", true, true, true, true, true⟩),
       ("queue.list", some ⟨"queues", "", false, false, true, true, true⟩,
          ⟨"queues/", "", true, true, true, true, true⟩)] := by
  decide

/-- no wrapper has a non-positive default page size (`None` = unpaginated) -/
theorem wrappers_default_page_size :
    ∀ w ∈ Gen.Paging.wrappers, w.defaultPageSize = none ∨ ∃ p, w.defaultPageSize = some p ∧ 0 < p := by
  have h : (Gen.Paging.wrappers.all fun w =>
      match w.defaultPageSize with | none => true | some p => decide (0 < p)) = true := by decide
  intro w hw
  have := List.all_eq_true.1 h w hw
  cases hd : w.defaultPageSize with
  | none => exact Or.inl rfl
  | some p => rw [hd] at this; exact Or.inr ⟨p, rfl, by simpa using this⟩

/-- **Every listing operation** (per-vhost and `show_all`), for all items, page sizes `p > 0`,
    filters and flags: same outcome as `list_outcome`, on the operation's own path -/
theorem wrapper_outcome (w : Wrapper) (hw : w ∈ Gen.Paging.wrappers)
    (sel : Option String → Option String → α → Bool) (xs : List α) (vhost : String) (showAll : Bool)
    (name : Option String) (flag : PyFlag) (p fuel : Nat) (hp : 0 < p) (hflag : flagRaises flag = false)
    (hfuel : pageCount (held sel xs name (regexParam flag)).length p ≤ fuel + 1) :
    wrapperList w (goodServer sel xs) fuel vhost showAll name flag (some (p : Int)) =
      ⟨(List.range' 1 (max 1 (pageCount (held sel xs name (regexParam flag)).length p))).map
          (pageRequest ((w.call showAll).path vhost) name (regexParam flag) p),
       .ok (held sel xs name (regexParam flag))⟩ := by
  have hpass : ∀ w ∈ Gen.Paging.wrappers, ∀ b : Bool,
      (w.call b).passName = true ∧ (w.call b).passRegex = true ∧ (w.call b).passPageSize = true := by
    decide
  obtain ⟨h1, h2, h3⟩ := hpass w hw showAll
  unfold wrapperList
  simp only [h1, h2, h3, if_true]
  exact list_outcome sel xs _ name flag p fuel hp hflag hfuel

/-- every listing operation with `page_size=None` (the default of `channel.list`): one
    unpaginated request on the operation's path, the whole selected array comes back -/
theorem wrapper_unpaginated (w : Wrapper) (hw : w ∈ Gen.Paging.wrappers)
    (sel : Option String → Option String → α → Bool) (xs : List α) (vhost : String) (showAll : Bool)
    (name : Option String) (flag : PyFlag) (fuel : Nat) (hflag : flagRaises flag = false) :
    wrapperList w (goodServer sel xs) fuel vhost showAll name flag none =
      ⟨[⟨(w.call showAll).path vhost, expBase name (regexParam flag)⟩],
       .ok (held sel xs name (regexParam flag))⟩ := by
  have hpass : ∀ w ∈ Gen.Paging.wrappers, ∀ b : Bool,
      (w.call b).passName = true ∧ (w.call b).passRegex = true := by
    decide
  obtain ⟨h1, h2⟩ := hpass w hw showAll
  unfold wrapperList
  simp only [h1, h2, if_true, ite_self]
  exact list_unpaginated sel xs _ name flag fuel hflag

/-- the paths: `queues`, `exchanges`, `connections`, `channels`; per vhost `queues/<quoted vhost>`
    and `exchanges/<quoted vhost>` -/
theorem wrapper_paths (vhost : String) :
    Gen.Paging.wrappers.map (fun w => (w.op, (w.call true).path vhost, (w.call false).path vhost)) =
      [("channel.list", "channels", "channels"), ("connection.list", "connections", "connections"),
       ("exchange.list", "exchanges", "exchanges/" ++ quote vhost),
       ("queue.list", "queues", "queues/" ++ quote vhost)] := by
  simp [Gen.Paging.wrappers, Wrapper.call, ListCall.path]

/-- the quoted vhost is a single path segment: whatever the vhost name, `quote` emits no `/`, `?`,
    `#`, `&`, `=`, `+` or space, so `queues/<vhost>` cannot address another collection or smuggle
    a query parameter -/
theorem vhost_segment_safe (vhost : String) :
    ∀ c ∈ (quote vhost).toList, c ≠ '/' ∧ c ≠ '?' ∧ c ≠ '#' ∧ c ≠ '&' ∧ c ≠ '=' ∧ c ≠ '+' ∧ c ≠ ' ' := by
  intro c hc
  rcases quote_chars vhost c hc with h | h
  · refine ⟨?_, ?_, ?_, ?_, ?_, ?_, ?_⟩ <;> (intro hx; subst hx; revert h; decide)
  · subst h; decide

/-! ## Non-vacuity -/

/-- 7 items, page size 3: three requests, all items in order -/
example : listAll (goodServer (fun _ _ _ => true) [10, 11, 12, 13, 14, 15, 16]) 2 "queues" none (.bool false) (some 3) =
    ⟨[pageRequest "queues" none none 3 1, pageRequest "queues" none none 3 2, pageRequest "queues" none none 3 3],
     .ok [10, 11, 12, 13, 14, 15, 16]⟩ := by decide +kernel

/-- exact multiple (6 items, page size 3): two requests, no third -/
example : (listAll (goodServer (fun _ _ _ => true) [1, 2, 3, 4, 5, 6]) 9 "queues" none (.bool false) (some 3)).requests.length = 2 := by
  decide +kernel

/-- a filter that the server applies only when `name` and `use_regex=true` arrive with the request -/
example : listAll (goodServer (fun nm rx (x : Nat) => if nm = some "^e" ∧ rx = some "true" then x % 2 == 0 else nm.isNone)
      [0, 1, 2, 3, 4, 5, 6, 7, 8]) 5 "exchanges/%2F" (some "^e") (.bool true) (some 2) =
    ⟨[pageRequest "exchanges/%2F" (some "^e") (some "true") 2 1, pageRequest "exchanges/%2F" (some "^e") (some "true") 2 2,
      pageRequest "exchanges/%2F" (some "^e") (some "true") 2 3], .ok [0, 2, 4, 6, 8]⟩ := by decide +kernel

/-- no items: one request, empty result -/
example : listAll (goodServer (fun _ _ _ => true) ([] : List Nat)) 0 "channels" none .none (some 5) =
    ⟨[pageRequest "channels" none none 5 1], .ok []⟩ := by decide +kernel

/-- the echo hypothesis of `list_terminates` is needed: a server that keeps answering "page 1 of 2"
    keeps the client looping until the fuel is gone -/
example : (listAll (fun _ _ => .page ⟨some 1, some 2, some [0]⟩) 50 "queues" none (.bool false) (some 1)).result =
    (.outOfFuel : Res Nat) := by decide +kernel

/-- wrappers: `queue.list('/', page_size=2)` asks `queues/%2F` -/
example : (Gen.Paging.wrappers.filter (·.op == "queue.list")).map (fun w =>
    ((wrapperList w (goodServer (fun _ _ _ => true) [1, 2, 3]) 5 "/" false none (.bool false) (some 2)).requests.map (·.path),
     (wrapperList w (goodServer (fun _ _ _ => true) [1, 2, 3]) 5 "/" true none (.bool false) (some 2)).result)) =
    [(["queues/%2F", "queues/%2F"], .ok [1, 2, 3])] := by decide +kernel

/-- quoting: the default vhost and a hostile one -/
example : quote "/" = "%2F" ∧ quote "a/b?c#d é" = "a%2Fb%3Fc%23d%20%C3%A9" := by decide +kernel

end Amqp.C20
