import Amqp.Model.Heartbeat
namespace Amqp.C12
open Amqp Amqp.Hb

/-- the model's control structure is the source's -/
theorem skeleton_check : Gen.Heartbeat.checkSkel = expectedCheckSkel := by decide

end Amqp.C12
