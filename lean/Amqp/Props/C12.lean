import Amqp.Gen.Locks
import Amqp.Lemmas.Heartbeat
/-!
# C12 — heartbeats keep the link alive and detect a dead peer within bounds

Model: `Amqp/Model/Heartbeat.lean` (`Hb.St`, `Hb.step`, `Hb.run`): the `Heartbeat` object as used by
`Connection`, on a virtual clock, with `_check_for_life_signs` split into its four phases so that
reads/writes of other threads can fall between them.  Every test, increment, reset and the interval
are regenerated from the source (`Gen/Heartbeat.lean`); the control structure is pinned by the
`skeleton_*` obligations below.

Time unit `u = 1 / intervalDen` s (½ s).  `I = s.ivl` is the timer period; `interval_is_half_timeout`
shows `2·I = T` for every `T > 0`, so `2·I` below is *T* and `3·I` is *1.5·T*.  All statements
quantify over every timeout and every event history `as` (no length, counter or time bound).
Ghost fields: `lastOut` = time of the last outbound frame (or start / becoming open if later),
`lastIn` = time of the last inbound frame (or start if later).
-/
namespace Amqp.C12
open Amqp Amqp.Hb Amqp.Gen.Heartbeat

/-! ## The tie: the model's control structure is the source's -/

/-- `Heartbeat._check_for_life_signs` has the statement structure the step function was written against -/
theorem skeleton_check : checkSkel = expectedCheckSkel := by decide
/-- `Heartbeat.start` -/
theorem skeleton_start : startSkel = expectedStartSkel := by decide
/-- `Heartbeat.stop` -/
theorem skeleton_stop : stopSkel = expectedStopSkel := by decide
/-- `Heartbeat._start_new_timer` -/
theorem skeleton_timer : timerSkel = expectedTimerSkel := by decide
/-- `Heartbeat._raise_or_append_exception` (append to the list if one is installed, else raise) -/
theorem skeleton_raise : raiseSkel = expectedRaiseSkel := by decide
/-- `Channel0.send_heartbeat`: nothing is written unless the connection is open -/
theorem skeleton_send_heartbeat : sendHeartbeatSkel = expectedSendHeartbeatSkel := by decide
/-- `Connection.write_frame` / `write_frames` register one write per call, before writing -/
theorem skeleton_write_frame : writeFrameSkel = expectedWriteFrameSkel := by decide
theorem skeleton_write_frames : writeFramesSkel = expectedWriteFramesSkel := by decide
/-- `Connection._read_buffer` registers one read per parsed frame -/
theorem skeleton_read_buffer : readBufferSkel = expectedReadBufferSkel := by decide
/-- `Connection.open` starts the checker after the handshake, `close` stops it before anything else;
    `Connection.__init__` builds it from `parameters['heartbeat']` and `Channel0.send_heartbeat` -/
theorem skeleton_lifecycle :
    openCalls = expectedOpenCalls ∧ closeCalls = expectedCloseCalls ∧ ctorArgs = expectedCtorArgs := by decide

/-! ## The interval -/

/-- the interval never changes after construction -/
theorem step_interval {s s' : St} (a : Act) (hs : step s a = some s') : s'.interval = s.interval := by
  cases a <;> simp only [step, startNewTimer, sendHeartbeat] at hs <;>
    (repeat' split at hs) <;> (cases hs <;> rfl)

theorem run_interval {s s' : St} (as : List Act) (hs : run s as = some s') : s'.interval = s.interval := by
  induction as generalizing s with
  | nil => simp only [run, Option.some.injEq] at hs; subst hs; rfl
  | cons a as ih =>
    simp only [run] at hs
    split at hs
    · rename_i s1 h1; rw [ih hs, step_interval a h1]
    · cases hs

/-- **T = 2·I**: for every positive timeout the check period is exactly half the timeout
    (`T.toNat * intervalDen` is `T` seconds in time units) -/
theorem interval_is_half_timeout (T : Int) (h : 0 < T) (as : List Act) (s : St)
    (hs : run (init (some T)) as = some s) : 2 * s.ivl = T.toNat * intervalDen := by
  have := run_interval as hs
  simp only [St.ivl, this, init, mkInterval, Option.map, intervalNum, timerInterval, intervalDen]
  omega

/-- a positive timeout enables the checker; zero, negative and `None` disable it -/
theorem disabled_iff (T : Option Int) :
    startDisabled (mkInterval T) = true ↔ (T = none ∨ ∃ t, T = some t ∧ t ≤ 0) := by
  cases T with
  | none => simp [mkInterval, startDisabled]
  | some t =>
    simp only [mkInterval, Option.map, startDisabled, intervalNum, beq_iff_eq, reduceCtorEq, Option.some.injEq,
      false_or, exists_eq_left']
    omega

/-! ## Maximum silence -/

/-- **The wire is never silent for longer than T.**  In every reachable state in which the checker
    runs and the connection is open, at most `2·I = T` has passed since the client last sent a frame
    (or since the checker was started / the connection became open). -/
theorem max_silence (T : Option Int) (as : List Act) (s : St) (hs : run (init T) as = some s)
    (hr : s.running = true) (ho : s.connOpen = true) : s.now ≤ s.lastOut + 2 * s.ivl := by
  have h := inv_reachable T as hs
  by_cases hp : s.pc = .idle
  · have h1 := h.silIdle hr ho hp
    have h2 := h.armed hr hp
    cases ht : s.timers with
    | nil => exact absurd ht h2
    | cons t ts =>
      have hm : t ∈ s.timers := by simp [ht]
      have := h.timersLo t hm
      have := h.timersHi t hm
      omega
  · have := h.silBusy hr ho hp
    omega

/-- the same bound in seconds: `now - lastOut ≤ T` -/
theorem max_silence_timeout (T : Int) (hT : 0 < T) (as : List Act) (s : St)
    (hs : run (init (some T)) as = some s) (hr : s.running = true) (ho : s.connOpen = true) :
    s.now - s.lastOut ≤ T.toNat * intervalDen := by
  have := max_silence (some T) as s hs hr ho
  have := interval_is_half_timeout T hT as s hs
  omega

/-- consecutive outbound frames are at most T apart: whenever a step puts a frame on the wire
    (`lastOut` moves to `now`), the previous outbound frame is at most `2·I` old -/
theorem max_gap_between_frames (T : Option Int) (as : List Act) (s s' : St) (a : Act)
    (hs : run (init T) as = some s) (hr : s.running = true) (ho : s.connOpen = true)
    (_hstep : step s a = some s') : s.now - s.lastOut ≤ 2 * s.ivl := by
  have := max_silence T as s hs hr ho
  omega

/-- **Whenever a check finds that nothing was written since the previous check, it sends a
    heartbeat frame** (on an open connection), and that frame is on the wire at once -/
theorem heartbeat_when_idle (s s' : St) (id : Nat) (hstep : step s (.fire id) = some s')
    (hr : s.running = true) (ho : s.connOpen = true) (hw : s.writes = 0) :
    s'.hbs = s.hbs + 1 ∧ s'.lastOut = s.now := by
  simp only [step] at hstep
  split at hstep
  · simp only [hr, if_true, sendTest, hw, decide_true, sendHeartbeat, ho, Option.some.injEq] at hstep
    subst hstep
    exact ⟨rfl, rfl⟩
  · cases hstep

/-- checks follow each other exactly `I = T/2` apart: a completed check re-arms the timer for `now + I` -/
theorem check_period (T : Option Int) (as : List Act) (s s' : St) (hs : run (init T) as = some s)
    (hstep : step s .rearm = some s') : (s.nextId, s.now + s.ivl) ∈ s'.timers := by
  have h := inv_reachable T as hs
  simp only [step] at hstep
  split at hstep
  · rename_i hpc
    have hrun := h.pcRun (Or.inr (Or.inr hpc))
    have hdis := h.runIv hrun
    cases hi : s.interval with
    | none => simp [hi, startDisabled] at hdis
    | some v =>
      simp only [startNewTimer, hrun, hi, if_true, Option.some.injEq] at hstep
      subst hstep
      simp
  · cases hstep

/-! ## Detection latency -/

/-- **A dead peer is detected within 1.5·T.**  While the checker is still running (it has neither
    declared the connection dead nor been stopped), at most `3·I = 1.5·T` has passed since the last
    inbound frame: it cannot stay undecided any longer, because time cannot pass a timer deadline. -/
theorem detect_latency (T : Option Int) (as : List Act) (s : St) (hs : run (init T) as = some s)
    (hr : s.running = true) : s.now ≤ s.lastIn + 3 * s.ivl := by
  have h := inv_reachable T as hs
  have hI := ivl_pos h hr
  cases hp : s.pc with
  | idle =>
    have h2 := h.armed hr hp
    have h3 := h.detA2 hr (Or.inl hp)
    cases ht : s.timers with
    | nil => exact absurd ht h2
    | cons t ts =>
      have hm : t ∈ s.timers := by simp [ht]
      have := h.timersLo t hm
      have := h.timersHi t hm
      omega
  | sent => exact h.detB2 hr hp
  | evald d =>
    cases d with
    | false => have := h.detC2 hr hp; omega
    | true => have := h.pcDead hp; simp [hr] at this
  | cleared =>
    have := h.detA2 hr (Or.inr hp)
    have := h.clearedNow hp
    omega

/-- the same bound in seconds: `now - lastIn ≤ 1.5·T` -/
theorem detect_latency_timeout (T : Int) (hT : 0 < T) (as : List Act) (s : St)
    (hs : run (init (some T)) as = some s) (hr : s.running = true) :
    2 * (s.now - s.lastIn) ≤ 3 * (T.toNat * intervalDen) := by
  have := detect_latency (some T) as s hs hr
  have := interval_is_half_timeout T hT as s hs
  omega

/-- the connection's error list contains a heartbeat error -/
def Declared (s : St) : Prop := ∃ n, s.exc = some (n + 1)

/-- unless `stop()` is called (or `start(None)` removes the list), the checker stays running until it
    has put the error into the connection's error list -/
theorem running_or_declared_step (s s' : St) (a : Act) (hstep : step s a = some s')
    (ha : a ≠ .stop ∧ a ≠ .start false)
    (h : (s.running = true ∨ Declared s) ∧ s.exc ≠ none) :
    (s'.running = true ∨ Declared s') ∧ s'.exc ≠ none := by
  obtain ⟨h1, h2⟩ := h
  cases a with
  | stop => exact absurd rfl ha.1
  | start l =>
    cases l with
    | false => exact absurd rfl ha.2
    | true =>
      simp only [step, startNewTimer] at hstep
      (repeat' split at hstep) <;> cases hstep <;> simp_all [Declared]
  | eval =>
    simp only [step] at hstep
    (repeat' split at hstep) <;> cases hstep <;> simp_all [Declared]
  | fire id =>
    simp only [step, sendHeartbeat] at hstep
    (repeat' split at hstep) <;> cases hstep <;> simp_all [Declared]
  | adv d =>
    simp only [step] at hstep
    split at hstep
    · simp only [Option.some.injEq] at hstep; subst hstep; simp_all [Declared]
    · cases hstep
  | clear =>
    simp only [step] at hstep
    split at hstep
    · simp only [Option.some.injEq] at hstep; subst hstep; simp_all [Declared]
    · cases hstep
  | rearm =>
    simp only [step, startNewTimer] at hstep
    (repeat' split at hstep) <;> cases hstep <;> simp_all [Declared]
  | read => simp only [step, Option.some.injEq] at hstep; subst hstep; simp_all [Declared]
  | write => simp only [step, Option.some.injEq] at hstep; subst hstep; simp_all [Declared]
  | setOpen b => simp only [step, Option.some.injEq] at hstep; subst hstep; simp_all [Declared]

/-- **Operations raise no later than 1.5·T after inbound traffic stops.**  Take any history `pre`, a
    successful `start(exceptions)` (as `Connection.open` does), and any continuation `post` without
    `stop()`.  If more than `3·I = 1.5·T` has passed since the last inbound frame, the heartbeat error
    is in the connection's error list (so `check_for_errors`, hence every operation, raises it). -/
theorem dead_peer_detected (T : Option Int) (pre post : List Act) (s0 s1 s : St)
    (h0 : run (init T) pre = some s0) (h1 : step s0 (.start true) = some s1) (hrun : s1.running = true)
    (hpost : run s1 post = some s) (hns : ∀ a ∈ post, a ≠ .stop ∧ a ≠ .start false)
    (hlate : s.lastIn + 3 * s.ivl < s.now) : Declared s := by
  have hP : ∀ (as : List Act) (x y : St), run x as = some y → (∀ a ∈ as, a ≠ .stop ∧ a ≠ .start false) →
      ((x.running = true ∨ Declared x) ∧ x.exc ≠ none) → ((y.running = true ∨ Declared y) ∧ y.exc ≠ none) := by
    intro as
    induction as with
    | nil => intro x y hr _ hx; simp only [run, Option.some.injEq] at hr; subst hr; exact hx
    | cons a as ih =>
      intro x y hr hall hx
      simp only [run] at hr
      split at hr
      · rename_i x1 hx1
        exact ih x1 y hr (fun b hb => hall b (List.mem_cons_of_mem _ hb))
          (running_or_declared_step x x1 a hx1 (hall a List.mem_cons_self) hx)
      · cases hr
  have hs1 : s1.exc ≠ none := by
    have hinv := inv_reachable T pre h0
    simp only [step] at h1
    split at h1
    · split at h1
      · rename_i hdis
        cases h1
        have := hinv.runIv hrun
        simp [this] at hdis
      · simp only [startNewTimer] at h1
        (repeat' split at h1) <;> cases h1 <;> simp_all
    · cases h1
  have hfin := hP post s1 s hpost hns ⟨Or.inl hrun, hs1⟩
  have hreach : run (init T) (pre ++ .start true :: post) = some s := by
    have happ : ∀ (as bs : List Act) (x : St), run x (as ++ bs) = (run x as).bind (fun y => run y bs) := by
      intro as
      induction as with
      | nil => intro bs x; simp [run]
      | cons a as ih =>
        intro bs x
        simp only [List.cons_append, run]
        cases step x a with
        | none => simp
        | some x1 => simp [ih]
    rw [happ, h0]
    simp [run, h1, hpost]
  rcases hfin.1 with hr | hd
  · have := detect_latency T _ s hreach hr
    omega
  · exact hd

/-- the declaration itself happens no later than 1.5·T after the last inbound frame -/
theorem dead_within_bound (T : Option Int) (as : List Act) (s s' : St) (hs : run (init T) as = some s)
    (hstep : step s .eval = some s') (_hd : s'.running = false) : s.now ≤ s.lastIn + 3 * s.ivl := by
  have h := inv_reachable T as hs
  simp only [step] at hstep
  split at hstep
  · rename_i hpc
    exact h.detB2 (h.pcRun (Or.inl hpc)) hpc
  · cases hstep

/-! ## No false positive -/

/-- **The connection is never declared dead while inbound frames keep arriving less than T/2
    apart.**  With a single timer chain (`start` only after `stop`/dead, as `Connection.open`/`close`
    do), whenever a check declares the connection dead (appends or raises the error), at least
    `I = T/2` has passed since the last inbound frame. -/
theorem no_false_positive (T : Option Int) (as : List Act) (s s' : St) (hs : run (init T) as = some s)
    (hsingle : s.multi = false) (hstep : step s .eval = some s')
    (hd : s'.deads ≠ s.deads ∨ s'.raises ≠ s.raises) : s.lastIn + s.ivl ≤ s.now := by
  have h := inv_reachable T as hs
  simp only [step] at hstep
  split at hstep
  · rename_i hpc
    have hnow := h.scSent hsingle hpc
    split at hstep
    · rename_i hmiss
      simp only [missTest, decide_eq_true_eq] at hmiss
      have := h.rIn0 hmiss
      omega
    · simp only [Option.some.injEq] at hstep
      subst hstep
      simp at hd
  · cases hstep

/-- contrapositive: if the last inbound frame is less than T/2 old, a check leaves the connection alive -/
theorem alive_while_traffic (T : Option Int) (as : List Act) (s s' : St) (hs : run (init T) as = some s)
    (hsingle : s.multi = false) (hstep : step s .eval = some s') (hrecent : s.now < s.lastIn + s.ivl) :
    s'.deads = s.deads ∧ s'.raises = s.raises := by
  by_cases hd : s'.deads ≠ s.deads ∨ s'.raises ≠ s.raises
  · have := no_false_positive T as s s' hs hsingle hstep hd
    omega
  · simp only [not_or, Decidable.not_not] at hd
    exact hd

/-! ## T = 0 disables everything -/

/-- **With timeout 0 (or negative, or `None`) nothing ever happens**: `start` refuses, no timer is
    ever armed, no heartbeat is sent and the connection is never declared dead -/
theorem zero_disables (T : Option Int) (hT : startDisabled (mkInterval T) = true) (as : List Act) (s : St)
    (hs : run (init T) as = some s) :
    s.running = false ∧ s.timers = [] ∧ s.hbs = 0 ∧ s.deads = 0 ∧ s.raises = 0 ∧ s.pc = .idle := by
  have hP : ∀ (as : List Act) (x y : St), run x as = some y → startDisabled x.interval = true →
      (x.running = false ∧ x.timers = [] ∧ x.hbs = 0 ∧ x.deads = 0 ∧ x.raises = 0 ∧ x.pc = .idle) →
      (y.running = false ∧ y.timers = [] ∧ y.hbs = 0 ∧ y.deads = 0 ∧ y.raises = 0 ∧ y.pc = .idle) := by
    intro as
    induction as with
    | nil => intro x y hr _ hx; simp only [run, Option.some.injEq] at hr; subst hr; exact hx
    | cons a as ih =>
      intro x y hr hdis hx
      simp only [run] at hr
      split at hr
      · rename_i x1 hx1
        refine ih x1 y hr (by rw [step_interval a hx1]; exact hdis) ?_
        obtain ⟨hx_run, hx_t, hx_h, hx_d, hx_r, hx_pc⟩ := hx
        cases a <;> simp only [step, hx_pc, hx_t, hdis, hx_run, cancel] at hx1 <;>
          (repeat' split at hx1) <;> cases hx1 <;> simp_all
      · cases hr
  exact hP as (init T) s hs hT (by simp [init])

/-- 0 disables, as do `None` and negative values; every positive timeout enables -/
theorem zero_is_disabled : startDisabled (mkInterval (some 0)) = true := by decide
theorem none_is_disabled : startDisabled (mkInterval none) = true := by decide
theorem positive_is_enabled (t : Int) (h : 0 < t) : startDisabled (mkInterval (some t)) = false := by
  cases hd : startDisabled (mkInterval (some t)) with
  | false => rfl
  | true =>
    have := (disabled_iff (some t)).mp hd
    simp only [reduceCtorEq, Option.some.injEq, false_or, exists_eq_left'] at this
    omega

/-! ## After stop / close -/

/-- `stop()` clears the running flag (and is only modelled between checks) -/
theorem stop_effect (s s' : St) (hstep : step s .stop = some s') : s'.running = false ∧ s'.pc = .idle := by
  simp only [step] at hstep
  split at hstep
  · rename_i hpc; simp only [Option.some.injEq] at hstep; subst hstep; exact ⟨rfl, hpc⟩
  · cases hstep

/-- **After stop no further heartbeats are sent** (and nothing is declared dead), whatever happens
    next — late timer firings, traffic, state changes — until the checker is started again -/
theorem silent_after_stop (as : List Act) (s s' : St) (hr : s.running = false) (hp : s.pc = .idle)
    (hns : ∀ a ∈ as, ∀ l, a ≠ .start l) (hs : run s as = some s') :
    s'.hbs = s.hbs ∧ s'.deads = s.deads ∧ s'.raises = s.raises ∧ s'.running = false := by
  induction as generalizing s with
  | nil => simp only [run, Option.some.injEq] at hs; subst hs; exact ⟨rfl, rfl, rfl, hr⟩
  | cons a as ih =>
    simp only [run] at hs
    split at hs
    · rename_i s1 h1
      have hstep : s1.hbs = s.hbs ∧ s1.deads = s.deads ∧ s1.raises = s.raises ∧ s1.running = false ∧ s1.pc = .idle := by
        cases a with
        | start l => exact absurd rfl (hns _ List.mem_cons_self l)
        | _ =>
          simp only [step, hp, hr] at h1
          (repeat' split at h1) <;> cases h1 <;> simp_all
      obtain ⟨e1, e2, e3, e4, e5⟩ := hstep
      have := ih s1 e4 e5 (fun b hb => hns b (List.mem_cons_of_mem _ hb)) hs
      exact ⟨by omega, by omega, by omega, this.2.2.2⟩
    · cases hs

/-- `Channel0.send_heartbeat`'s guard: while the connection is not open no heartbeat frame is written,
    even by a check that is already running -/
theorem closed_no_heartbeat (as : List Act) (s s' : St) (hc : s.connOpen = false)
    (hno : ∀ a ∈ as, a ≠ .setOpen true) (hs : run s as = some s') : s'.hbs = s.hbs ∧ s'.connOpen = false := by
  induction as generalizing s with
  | nil => simp only [run, Option.some.injEq] at hs; subst hs; exact ⟨rfl, hc⟩
  | cons a as ih =>
    simp only [run] at hs
    split at hs
    · rename_i s1 h1
      have hstep : s1.hbs = s.hbs ∧ s1.connOpen = false := by
        cases a with
        | setOpen b =>
          cases b with
          | true => exact absurd rfl (hno _ List.mem_cons_self)
          | false => simp only [step, Option.some.injEq] at h1; subst h1; exact ⟨rfl, rfl⟩
        | _ =>
          simp only [step, sendHeartbeat, startNewTimer, hc] at h1
          (repeat' split at h1) <;> cases h1 <;> simp_all
      have := ih s1 hstep.2 (fun b hb => hno b (List.mem_cons_of_mem _ hb)) hs
      exact ⟨by omega, this.2⟩
    · cases hs

/-! ## Time can always pass (the bounds above are not vacuous time-locks) -/

/-- between checks either a time unit can pass or a timer is due right now and can fire -/
theorem no_timelock (T : Option Int) (as : List Act) (s : St) (hs : run (init T) as = some s)
    (hp : s.pc = .idle) :
    (∃ s', step s (.adv 1) = some s') ∨ (∃ id s', (id, s.now) ∈ s.timers ∧ step s (.fire id) = some s') := by
  have h := inv_reachable T as hs
  by_cases hall : s.timers.all (fun t => s.now + 1 ≤ t.2) = true
  · left
    simp only [step, hp, hall, true_and]
    simp
  · right
    simp only [Bool.not_eq_true, List.all_eq_false, decide_eq_true_eq] at hall
    obtain ⟨t, ht, hlt⟩ := hall
    have := h.timersLo t ht
    have heq : t = (t.1, s.now) := by
      cases t with
      | mk a b => simp only [Prod.mk.injEq, true_and]; simp only at hlt this; omega
    refine ⟨t.1, ?_⟩
    have hm : (t.1, s.now) ∈ s.timers := heq ▸ ht
    have hfire : ∃ s', step s (.fire t.1) = some s' := by
      simp only [step, hp, hm, and_self, if_true]
      split <;> exact ⟨_, rfl⟩
    obtain ⟨s', hs'⟩ := hfire
    exact ⟨s', hm, hs'⟩

/-- a check that has begun can always proceed to its next phase -/
theorem check_progress (s : St) :
    (s.pc = .sent → ∃ s', step s .eval = some s') ∧
    (∀ d, s.pc = .evald d → ∃ s', step s .clear = some s') ∧
    (s.pc = .cleared → ∃ s', step s .rearm = some s') := by
  refine ⟨?_, ?_, ?_⟩
  · intro hp
    simp only [step, hp, if_true]
    (repeat' split) <;> exact ⟨_, rfl⟩
  · intro d hp
    simp only [step, hp]
    exact ⟨_, rfl⟩
  · intro hp
    simp only [step, hp, if_true]
    exact ⟨_, rfl⟩

/-! ## Non-vacuity: concrete histories (T = 2 s, i.e. I = 2 half-seconds) -/

/-- silent application, chatty-then-dead broker: a heartbeat at every check, dead at the third check
    after the last inbound frame at t = 1 (declared at t = 6 = 1 + 2.5·I ≤ 1 + 3·I) -/
example :
    (run (init (some 2)) ([.setOpen true, .start true, .adv 1, .read, .adv 1] ++ tick 0 ++ [.adv 2] ++ tick 1 ++
        [.adv 2, .fire 2, .eval, .clear])).map
      (fun s => (s.now, s.running, s.hbs, s.deads, s.exc, s.timers)) =
    some (6, false, 3, 1, some 1, []) := by rfl

/-- an application that keeps writing suppresses heartbeats; a broker that keeps talking keeps the
    connection alive -/
example :
    (run (init (some 2)) ([.setOpen true, .start true, .adv 1, .write, .read, .adv 1] ++ tick 0 ++
        [.adv 1, .write, .read, .adv 1] ++ tick 1)).map
      (fun s => (s.now, s.running, s.hbs, s.deads, s.threshold, s.timers)) =
    some (4, true, 0, 0, 0, [(2, 6)]) := by rfl

/-- a read that falls between the read test and the reset of a running check is lost (the refined
    model is not the atomic one): threshold is 1 although a frame arrived during the check -/
example :
    (run (init (some 2)) [.setOpen true, .start true, .adv 2, .fire 0, .eval, .read, .clear, .rearm]).map
      (fun s => (s.reads, s.threshold, s.lastIn)) = some (0, 1, 2) := by rfl

/-- T = 0: start refuses -/
example : (run (init (some 0)) [.setOpen true, .start true, .adv 100]).map (fun s => (s.running, s.timers, s.now)) =
    some (false, [], 100) := by rfl

/-- time cannot pass a deadline: advancing 3 with a timer due in 2 is not a behaviour -/
example : run (init (some 2)) [.start true, .adv 3] = none := by rfl

/-- a stopped checker: the cancelled timer is gone, a late firing of an orphan does nothing -/
example :
    (run (init (some 2)) [.setOpen true, .start true, .start true, .stop, .adv 2, .fire 0]).map
      (fun s => (s.running, s.hbs, s.timers, s.multi)) = some (false, 0, [], true) := by rfl

/-- **Heartbeats are not held up by callers waiting for the broker**: the timer thread that sends the
    heartbeat and checks for life signs takes only the heartbeat's own lock and the socket write lock -
    never the connection, channel or RPC lock, which `Connection.channel()`, `Connection.close()` and the
    synchronous channel operations hold for a whole round trip to the broker.  (Lock graph regenerated from
    the source on every run.) -/
theorem timer_thread_locks :
    Gen.Locks.timerAcquires.all (fun l => l == "Heartbeat._lock" || l == "IO._wr_lock") = true ∧
    Gen.Locks.timerAcquires.all (fun l => !Gen.Locks.heldWhileWaitingForReader.contains l) = true := by decide

end Amqp.C12

/-! ## A restart while a check is running (`Hb.stepMid`)

`Connection.close()` / `open()` - `Heartbeat.stop()` / `start()` - can be called by the application
while the timer thread is inside `_check_for_life_signs`, past its `_running` test.  That check then
finishes against the counters of the new life. -/
namespace Amqp.C12
open Amqp Amqp.Hb Amqp.Gen.Heartbeat

/-- `start` leaves a threshold from which one miss is not a verdict -/
theorem one_miss_after_start_is_no_verdict (th : Int) : deadTest (thresholdMiss (startThreshold th)) = false := by
  simp [deadTest, thresholdMiss, startThreshold]

/-- **A check that was already running when the checker was started again cannot declare the new
    life dead**: whatever the earlier life left in the counters (any state `s`, no invariant
    needed), after a `start` that fell between its write test and its read test the evaluation
    appends nothing to the new error list, raises nothing and leaves the checker running. -/
theorem stale_check_cannot_kill_new_life (s s1 s2 : St) (l : Bool) (hpc : s.pc = .sent)
    (hen : startDisabled s.interval = false)
    (h1 : stepMid s (.start l) = some s1) (h2 : step s1 .eval = some s2) :
    s2.deads = s1.deads ∧ s2.raises = s1.raises ∧ s2.running = true ∧ s2.exc = s1.exc := by
  simp only [stepMid, hpc, true_or, if_true, step, hen, Bool.false_eq_true, if_false, Option.map_some,
    Option.some.injEq] at h1
  subst h1
  simp only [step, startNewTimer, if_true] at h2
  have hth := one_miss_after_start_is_no_verdict s.threshold
  cases hi : s.interval with
  | none => simp [startDisabled, hi] at hen
  | some v =>
    simp only [hi, hth, Bool.false_eq_true, if_false] at h2
    (repeat' split at h2) <;> (injection h2 with h2; subst h2; simp_all [startNewTimer])

/-- a `stop` that falls inside a running check: the rest of that check sends no heartbeat and arms
    no timer -/
theorem stop_mid_check_is_final (s s1 s2 : St) (as : List Act) (h1 : stepMid s .stop = some s1)
    (hphase : ∀ a ∈ as, a = .eval ∨ a = .clear ∨ a = .rearm) (h2 : run s1 as = some s2) :
    s2.hbs = s1.hbs ∧ s2.timers = s1.timers ∧ s2.running = false := by
  have hr : s1.running = false := by
    simp only [stepMid] at h1
    split at h1
    · simp only [step, if_true, Option.map_some, Option.some.injEq] at h1; subst h1; rfl
    · cases h1
  clear h1
  induction as generalizing s1 with
  | nil => simp only [run, Option.some.injEq] at h2; subst h2; exact ⟨rfl, rfl, hr⟩
  | cons a as ih =>
    simp only [run] at h2
    split at h2
    · rename_i s' hs'
      have hstep : s'.hbs = s1.hbs ∧ s'.timers = s1.timers ∧ s'.running = false := by
        rcases hphase a List.mem_cons_self with h | h | h <;> subst h
        · simp only [step] at hs'
          (repeat' split at hs') <;> cases hs' <;> simp_all
        · simp only [step] at hs'
          (repeat' split at hs') <;> cases hs' <;> simp_all
        · simp only [step, startNewTimer, hr] at hs'
          (repeat' split at hs') <;> cases hs' <;> simp_all
      have := ih s' (fun b hb => hphase b (List.mem_cons_of_mem _ hb)) h2 hstep.2.2
      exact ⟨by rw [this.1, hstep.1], by rw [this.2.1, hstep.2.1], this.2.2⟩
    · cases h2

/-- non-vacuity: a life with one miss counted, a check under way, a restart, and the evaluation -/
example : ∃ s s1 s2, s.pc = .sent ∧ s.threshold = 1 ∧ startDisabled s.interval = false ∧
    stepMid s (.start true) = some s1 ∧ step s1 .eval = some s2 ∧ s2.threshold = 1 ∧ s2.deads = 0 :=
  ⟨{ (init (some 4)) with pc := .sent, threshold := 1, running := true }, _, _, rfl, rfl, by decide, rfl, rfl, by decide, by decide⟩

end Amqp.C12

/-! ## An idle check interval ends with a heartbeat -/
namespace Amqp.C12
open Amqp Amqp.Hb Amqp.Gen.Heartbeat

/-- the `finally` of a check leaves the write counter at zero -/
theorem clear_resets_writes (s s' : St) (h : step s .clear = some s') : s'.writes = 0 := by
  simp only [step] at h
  split at h
  · injection h with h; subst h; rfl
  · cases h

/-- while nobody writes (no application write, no check sending a heartbeat) the counter stays at zero,
    whatever else happens: time, inbound frames, the rest of a running check, stop/start, open/close -/
theorem quiet_window_keeps_writes_zero (as : List Act) (s s' : St) (hw : s.writes = 0)
    (hq : ∀ a ∈ as, a ≠ .write ∧ ∀ id, a ≠ .fire id) (hs : run s as = some s') : s'.writes = 0 := by
  induction as generalizing s with
  | nil => simp only [run, Option.some.injEq] at hs; subst hs; exact hw
  | cons a as ih =>
    simp only [run] at hs
    split at hs
    · rename_i s1 h1
      have h0 : s1.writes = 0 := by
        have hne := hq a List.mem_cons_self
        cases a with
        | write => exact absurd rfl hne.1
        | fire id => exact absurd rfl (hne.2 id)
        | _ =>
          simp only [step, startNewTimer] at h1
          (repeat' split at h1) <;> (cases h1 <;> simp_all [resetWrites, startWrites])
      exact ih s1 h0 (fun b hb => hq b (List.mem_cons_of_mem _ hb)) hs
    · cases hs

/-- **Whenever a whole check interval passes in which the client sent nothing, the check at its end writes a
    heartbeat**: from the reset of one check, through any history without outbound traffic, to the next
    firing on an open, running connection -/
theorem idle_interval_ends_with_heartbeat (as : List Act) (s0 s1 s2 s3 : St) (id : Nat)
    (hclear : step s0 .clear = some s1)
    (hq : ∀ a ∈ as, a ≠ .write ∧ ∀ id, a ≠ .fire id) (hrun : run s1 as = some s2)
    (hr : s2.running = true) (ho : s2.connOpen = true) (hfire : step s2 (.fire id) = some s3) :
    s3.hbs = s2.hbs + 1 ∧ s3.lastOut = s2.now :=
  heartbeat_when_idle s2 s3 id hfire hr ho
    (quiet_window_keeps_writes_zero as s1 s2 (clear_resets_writes s0 s1 hclear) hq hrun)

end Amqp.C12
