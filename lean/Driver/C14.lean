import Driver.Util
import Amqp.Model.Consumers
open Amqp Amqp.Consumers
namespace Driver.C14

def showL (l : List String) : String := if l.isEmpty then "-" else ",".intercalate l

def showS (s : S) : String :=
  s!"broker={showL (s.broker.mergeSort (fun a b => a ≤ b))} tags={showL s.tags} cbs={showL ((s.callbacks.map (·.1)).eraseDups.mergeSort (fun a b => a ≤ b))} lock={match s.lock with | some t => toString t | none => "-"} inflight={s.inflight.length}"

def parseAct (x : String) : Option Act :=
  match x.splitOn ":" with
  | ["q", t] => t.toNat?.map .acquire
  | ["c", t, tag, cb] => do let t ← t.toNat?; let cb ← cb.toNat?; pure (.consumeRpc t tag cb)
  | ["a", t] => t.toNat?.map .consumeAdd
  | ["s", t] => t.toNat?.map .consumeStore
  | ["x", t, tag] => t.toNat?.map fun t => .cancelRpc t tag
  | ["r", t] => t.toNat?.map .cancelRemove
  | ["l", t] => t.toNat?.map .release
  | ["B", tag] => some (.brokerCancel tag)
  | ["R"] => some .readerCancel
  | ["D", tag] => some (.dispatch tag)
  | _ => none

def stepCmd (s : S) : List String → Option (S × String)
  | ["c14.reset"] => some ({}, "ok")
  | ["c14.act", a] =>
    match parseAct a with
    | none => some (s, "bad-op")
    | some act =>
      match step s act with
      | none => some (s, "rejected")
      | some s' =>
        let extra := match act with
          | .dispatch _ => match s'.dispatched.getLast? with
            | some (_, some cb) => s!" found={cb}"
            | _ => " found=KeyError"
          | _ => ""
        some (s', s!"ok{extra} {showS s'}")
  | _ => none

end Driver.C14
