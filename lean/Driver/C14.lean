import Driver.Util
import Amqp.Model.Consumers
import Amqp.Model.TagReuse
open Amqp Amqp.Consumers
namespace Driver.C14

def showL (l : List String) : String := if l.isEmpty then "-" else ",".intercalate l

def showS (s : S) : String :=
  s!"broker={showL (s.broker.mergeSort (fun a b => a ≤ b))} tags={showL s.tags} cbs={showL ((s.callbacks.map (·.1)).eraseDups.mergeSort (fun a b => a ≤ b))} lock={match s.lock with | some t => toString t | none => "-"} inflight={s.inflight.length}"

def parseAct (x : String) : Option Act :=
  match x.splitOn ":" with
  | ["q", t] => t.toNat?.map .acquire
  | ["c", t, tag, cb] => do let t ← t.toNat?; let cb ← cb.toNat?; pure (.consumeRpc t tag cb)
  | ["a", t] => t.toNat?.map .consumeAdd
  | ["s", t] => t.toNat?.map .consumeStore
  | ["x", t, tag] => t.toNat?.map fun t => .cancelRpc t tag
  | ["r", t] => t.toNat?.map .cancelRemove
  | ["l", t] => t.toNat?.map .release
  | ["B", tag] => some (.brokerCancel tag)
  | ["R"] => some .readerCancel
  | ["D", tag] => some (.dispatch tag)
  | _ => none

/-- tag-reuse histories: `c:tag:cb` consume, `x:tag` cancel, `b:tag` broker cancel, `d:tag` deliver -/
def parseOp (x : String) : Option TagReuse.Op :=
  match x.splitOn ":" with
  | ["c", tag, cb] => cb.toNat?.map fun cb => .consume tag cb
  | ["x", tag] => some (.cancel tag)
  | ["b", tag] => some (.brokerCancel tag)
  | ["d", tag] => some (.deliver tag)
  | _ => none

def showOut (o : String × Option Nat) : String :=
  match o.2 with
  | some cb => s!"{o.1}:{cb}"
  | none => s!"{o.1}:KeyError"

def stepCmd (s : S) : List String → Option (S × String)
  | ["c14.reset"] => some ({}, "ok")
  | ["c14.tags", ops] =>
    match (ops.splitOn ",").mapM parseOp with
    | none => some (s, "bad-op")
    | some os =>
      let r := TagReuse.run os
      some (s, s!"out={showL (r.out.map showOut)} tags={showL r.tags}")
  | ["c14.act", a] =>
    match parseAct a with
    | none => some (s, "bad-op")
    | some act =>
      match step s act with
      | none => some (s, "rejected")
      | some s' =>
        let extra := match act with
          | .dispatch _ => match s'.dispatched.getLast? with
            | some (_, some cb) => s!" found={cb}"
            | _ => " found=KeyError"
          | _ => ""
        some (s', s!"ok{extra} {showS s'}")
  | _ => none

end Driver.C14
