import Driver.Util
import Amqp.Model.Guards
open Amqp
namespace Driver.C16

def table (t : String) : List OpSpec :=
  match t with
  | "ops" => Gen.C16.ops
  | "conn" => [Gen.C16.connOp]
  | "msg" => Gen.C16.messageOps
  | _ => []

def parseMro (s : String) : Option Mro := (s.splitOn ".").mapM Cls.parse

def showClasses (cs : List Cls) : String :=
  if cs.isEmpty then "-" else "|".intercalate (cs.map Cls.show)

def showParam (p : Param) : String :=
  s!"{p.name}:{showClasses p.doc}:{showClasses p.dflt.toList}:{if p.transmitted then "tx" else "local"}"

/-- `fail=-` or `fail=<k>:<Err>` -/
def parseFail (s : String) : Option (Nat → Option Err) :=
  if s == "-" then some (fun _ => none) else
  match s.splitOn ":" with
  | [k, e] => match k.toNat?, Err.parse e with
    | some k, some e => some (fun i => if i == k then some e else none)
    | _, _ => none
  | _ => none

def parseArgs (ts : List String) : Option (List (String × Mro)) :=
  ts.mapM fun t => match t.splitOn "=" with
    | [n, m] => (parseMro m).map (fun v => (n, v))
    | _ => none

def showOutcome (o : Outcome) : String :=
  let r := match o.raised with | some e => e.show | none => "none"
  s!"raised={r} clean={o.effects.isEmpty} effects={if o.effects.isEmpty then "-" else ",".intercalate o.effects}"

def handle : Handler
  | ["c16.tables"] =>
    some s!"ops={Gen.C16.ops.length} conn=1 msg={Gen.C16.messageOps.length} is_string={showClasses Gen.C16.isStringClasses} is_integer={showClasses Gen.C16.isIntegerClasses}"
  | ["c16.names", t] => some (",".intercalate ((table t).map (·.name)))
  | ["c16.params", t, name] =>
    match findOp (table t) name with
    | some op => some (if op.params.isEmpty then "-" else ",".intercalate (op.params.map showParam))
    | none => some "no-such-op"
  | "c16.run" :: t :: name :: cond :: opq :: fail :: args =>
    -- c16.run <table> <op> cond=<0|1> opaque=<0|1> fail=<-|k:Err> name=cls.cls… …
    match findOp (table t) name, parseFail (fail.drop 5).toString, parseArgs args with
    | some op, some f, some as =>
      let e : Env := {
        args := fun n => match as.find? (fun a => a.1 == n) with | some a => a.2 | none => [.object],
        cond := fun _ => cond == "cond=1", opaqueOk := fun _ => opq != "opaque=0", fail := f }
      some (showOutcome (runOp op e))
    | none, _, _ => some "no-such-op"
    | _, _, _ => some "bad-op"
  | _ => none

end Driver.C16
