import Driver.Util
import Amqp.Model.Paging
open Amqp Amqp.Paging
namespace Driver.C20
/-
  c20.script <op> <vhost|path hex|default> <showAll 0|1> <name hex|none> <flag> <pageSize|none|default> <fuel> <script>
      run the model of `<op>` (a row of Gen.Paging.wrappers, or `http` = HTTPClient.list with the
      hex field as path) against a scripted server: `;`-separated replies, reply i answers request i:
      E | L<a>-<b> | P<page|_>/<page_count|_>/<a>-<b>|_      (missing entries = E)
  c20.good <op> <vhost hex|default> <showAll> <name> <flag> <pageSize|none|default> <n> <submask> <rxmask>
      (`default` = the caller omitted the argument: the default regenerated from the wrapper's signature applies)
      run it against the model's own well-behaved server holding items 0..n-1; an item passes a
      name filter equal to the caller's name according to <rxmask> when use_regex=true was sent,
      <submask> otherwise ('0'/'1' strings, `-` = empty); any other filter selects nothing.
  flag: N | T | F | I<int> | S<hex>
  output: reqs=<k> ck=<checksum over all requests> <first 3 + last request> res=<...>
-/

def strOfHex (h : String) : Option String :=
  match ofHex h with
  | some b => String.fromUTF8? ⟨b.toArray⟩
  | none => none

def hexOfStr (s : String) : String := hexOrDash s.toUTF8.toList

def parseFlag (s : String) : Option PyFlag :=
  if s = "N" then some .none
  else if s = "T" then some (.bool true)
  else if s = "F" then some (.bool false)
  else if s.startsWith "I" then (parseInt (s.drop 1).toString).map .int
  else if s.startsWith "S" then (strOfHex (s.drop 1).toString).map .str
  else none

def parseOptInt (s : String) : Option (Option Int) :=
  if s = "none" then some none else (parseInt s).map some

def parseOptStr (s : String) : Option (Option String) :=
  if s = "none" then some none else (strOfHex s).map some

def parseRange (s : String) : Option (List Nat) :=
  match s.splitOn "-" with
  | [a, b] => match a.toNat?, b.toNat? with
    | some a, some b => some ((List.range (b - a)).map (· + a))
    | _, _ => none
  | _ => none

def parseReply (s : String) : Reply Nat :=
  if s.startsWith "L" then
    match parseRange (s.drop 1).toString with
    | some xs => .listing xs
    | none => .error
  else if s.startsWith "P" then
    match (s.drop 1).toString.splitOn "/" with
    | [pg, pc, it] =>
      let oi (t : String) : Option Int := if t = "_" then none else parseInt t
      .page ⟨oi pg, oi pc, if it = "_" then none else parseRange it⟩
    | _ => .error
  else .error

def scripted (replies : Array (Reply Nat)) : Server Nat := fun i _ => replies.getD i .error

def cksumStr (s : String) : Nat := s.foldl (fun h c => (h * 31 + c.toNat) % 4294967296) 7

def showRequest (r : Request) : String :=
  hexOfStr r.path ++ "?" ++ "&".intercalate (r.query.map fun kv => kv.1 ++ "=" ++ hexOfStr kv.2)

def showIds (xs : List Nat) : String :=
  let body := ",".intercalate (xs.map toString)
  if xs.length ≤ 40 then s!"{xs.length}:{body}" else s!"{xs.length}:#{cksumStr body}"

def showOpt (o : Option Int) : String := match o with | some n => toString n | none => "_"

def showRes : Res Nat → String
  | .ok xs => "ok:" ++ showIds xs
  | .object r => "object:" ++ showOpt r.page ++ "/" ++ showOpt r.pageCount ++ "/" ++
      (match r.items with | some xs => showIds xs | none => "_")
  | .raised .apiError => "raised:ApiError"
  | .raised .keyError => "raised:KeyError"
  | .raised .typeError => "raised:TypeError"
  | .raised .attributeError => "raised:AttributeError"
  | .outOfFuel => "out-of-fuel"

def showOutcome (o : Outcome Nat) : String :=
  let rs := o.requests.map showRequest
  let ck := cksumStr ("|".intercalate rs)
  let shown := if rs.length ≤ 4 then rs else rs.take 3 ++ [rs.getLast!]
  s!"reqs={rs.length} ck={ck} " ++ " ".intercalate shown ++ " res=" ++ showRes o.result

/-- `vh`/`ps` = none: the caller omitted the argument, the wrapper's own default applies -/
def runOp (op : String) (srv : Server Nat) (fuel : Nat) (vh : Option String) (showAll : Bool)
    (name : Option String) (flag : PyFlag) (ps : Option (Option Int)) : Option (Outcome Nat) :=
  if op = "http" then some (listAll srv fuel (vh.getD "") name flag (ps.getD none))
  else match Gen.Paging.wrappers.find? (fun w => w.op == op) with
    | some w => some (wrapperList w srv fuel (vh.getD (w.defaultVhost.getD "")) showAll name flag
        (ps.getD w.defaultPageSize))
    | none => none

def parseVhost (s : String) : Option (Option String) :=
  if s = "default" then some none else (strOfHex s).map some

def parsePageSize (s : String) : Option (Option (Option Int)) :=
  if s = "default" then some none else (parseOptInt s).map some

def maskAt (m : Array Char) (i : Nat) : Bool := m.getD i '0' == '1'

def handle : Handler
  | ["c20.script", op, vh, sa, nm, fl, ps, fuel, script] =>
    match parseVhost vh, parseOptStr nm, parseFlag fl, parsePageSize ps, fuel.toNat? with
    | some vh, some nm, some fl, some ps, some fuel =>
      let replies := ((script.splitOn ";").map parseReply).toArray
      match runOp op (scripted replies) fuel vh (sa == "1") nm fl ps with
      | some o => some (showOutcome o)
      | none => some "unknown-op"
    | _, _, _, _, _ => some "bad-op"
  | ["c20.good", op, vh, sa, nm, fl, ps, n, sub, rx] =>
    match parseVhost vh, parseOptStr nm, parseFlag fl, parsePageSize ps, n.toNat? with
    | some vh, some nm, some fl, some ps, some n =>
      let subm := sub.toList.toArray
      let rxm := rx.toList.toArray
      let sel : Option String → Option String → Nat → Bool := fun qn qr i =>
        match qn with
        | none => true
        | some s => if some s = nm then (if qr == some "true" then maskAt rxm i else maskAt subm i) else false
      match runOp op (goodServer sel (List.range n)) (n + 2) vh (sa == "1") nm fl ps with
      | some o => some (showOutcome o)
      | none => some "unknown-op"
    | _, _, _, _, _ => some "bad-op"
  | ["c20.quote", h] =>
    match strOfHex h with
    | some s => some (hexOfStr (quote s))
    | none => some "bad-op"
  | _ => none

end Driver.C20
