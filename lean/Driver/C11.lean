import Driver.Util
import Amqp.Model.Close
open Amqp Amqp.ChanErr Amqp.Close
namespace Driver.C11

def showSent : Sent → String
  | .cancel t => s!"cancel:{t}"
  | .close c t => s!"close:{c}:{t}"

def parseAct (x : String) : Option Act :=
  if x = "k" then some .closeOk else
  let k := (x.take 1).toString
  match (x.drop 1).toString.toNat? with
  | none => none
  | some t =>
    if k = "e" then some (.enter t) else if k = "b" then some (.begin t) else if k = "s" then some (.maybeSend t)
    else if k = "w" then some (.wait t) else if k = "f" then some (.finish t) else none

def runActs (c : Conn) : List Act → Nat → String
  | [], _ => s!"ok sent={c.sent} state={c.state} lock={match c.lock with | some t => toString t | none => "-"} socket={c.socket}"
  | a :: as, i =>
    match step c a with
    | none => s!"rejected at {i}"
    | some c' => runActs c' as (i + 1)

def handle : Handler
  | ["c11.cancels", tags] =>
    let ts := if tags = "-" then [] else tags.splitOn ","
    let r := stopConsuming ts
    some (if r.isEmpty then "-" else ",".intercalate r)
  | ["c11.chanclose", cc, st, tags, code, text, fail, e] =>
    let ts := if tags = "-" then [] else tags.splitOn ","
    let e? : Option RpcEnd := match e with
      | "ok" => some .closeOk | "conn" => some .connectionError | "timeout" => some .timeout | _ => none
    match st.toNat?, code.toNat?, e? with
    | some st, some code, some e =>
      let (fr, c', raised) := chanClose { connClosed := cc = "1", state := st, tags := ts, inbound := 1 } code text (fail = "1") e
      some s!"{if fr.isEmpty then "-" else " ".intercalate (fr.map showSent)} state={c'.state} tags={c'.tags.length} inbound={c'.inbound} raised={raised}"
    | _, _, _ => some "bad-op"
  | ["c11.connerr", what, st, sock] =>
    match st.toNat? with
    | some stn =>
      let c : CE := { state := stn, socket := sock = "1" }
      let r := if what = "close" then closeE Gen.Close.checkSetsClosedBeforeClose 100 c
               else closeE Gen.Close.checkSetsClosedBeforeClose 100 (checkE Gen.Close.checkSetsClosedBeforeClose 100 c)
      some s!"sent={r.sent} state={r.state} overflow={r.overflow}"
    | none => some "bad-op"
  | ["c11.conn", acts] =>
    match (if acts = "-" then some [] else (acts.splitOn ",").mapM parseAct) with
    | some as => some (runActs {} as 0)
    | none => some "bad-op"
  | _ => none

end Driver.C11
