import Driver.Util
import Amqp.Model.Parse
open Amqp
namespace Driver.C02

def showFrame (f : Frame) : String := s!"{f.ty}:{f.chan}:{hexOrDash f.payload}"

def showFrames (fs : List Frame) : String :=
  if fs.isEmpty then "-" else ",".intercalate (fs.map showFrame)

/-- stateful: the reader's carry-over buffer -/
def step (rd : RdState) : List String → Option (RdState × String)
  | ["c02.reset"] => some ({}, "ok")
  | ["c02.reopen"] => some (reopen rd, "ok")
  | ["c02.parse1", h] =>
    match ofHex h with
    | none => some (rd, "bad-op")
    | some d =>
      match handleFrame d with
      | none => some (rd, "none")
      | some (f, rest) => some (rd, s!"some {d.length - rest.length} {showFrame f}")
  | ["c02.feed", h] =>
    match ofHex h with
    | none => some (rd, "bad-op")
    | some d =>
      let before := rd.out.length
      let rd' := feed rd d
      some (rd', s!"out={showFrames (rd'.out.drop before)} buf={hexOrDash rd'.buf}")
  | _ => none

end Driver.C02
