import Driver.Util
import Amqp.Model.Alloc
open Amqp Amqp.Alloc
namespace Driver.C10

def showKeys (a : A) : String :=
  let ks := (a.chans.map (·.1)).mergeSort
  if ks.isEmpty then "-" else ",".intercalate (ks.map toString)

def showObjs (a : A) : String :=
  if a.objs.isEmpty then "-" else ",".intercalate (a.objs.map fun o => s!"{o.cid}:{o.state}")

def parsePairs (s : String) : Option (List (Nat × Nat)) :=
  if s = "-" then some [] else
  (s.splitOn ",").mapM fun p =>
    match p.splitOn ":" with
    | [a, b] => do let x ← a.toNat?; let y ← b.toNat?; pure (x, y)
    | _ => none

def act (a : A) (x : Act) : Option (A × String) :=
  match step a x with
  | some (raised, a') =>
    let r := if raised then "raise" else
      match x with
      | .open_ => s!"id={(a'.objs.getLast?.map (·.cid)).getD 0} obj={a'.objs.length - 1}"
      | _ => "ok"
    some (a', s!"{r} last={a'.last} keys={showKeys a'} objs={showObjs a'}")
  | none => some (a, "rejected")

def stepCmd (a : A) : List String → Option (A × String)
  | ["c10.reset", m] => m.toNat?.map fun m => (init m, "ok")
  | ["c10.set", m, l, regs] =>   -- registry given as id:state pairs; objects are created in that order
    match m.toNat?, l.toNat?, parsePairs regs with
    | some m, some l, some ps =>
      let objs := ps.map fun (c, st) => (⟨c, st⟩ : Obj)
      let chans := (List.range ps.length).zip ps |>.map fun (i, (c, _)) => (c, i)
      some ({ chans := chans, objs := objs, last := l, max := m }, "ok")
    | _, _, _ => some (a, "bad-op")
  | ["c10.next"] =>
    match nextId a with
    | (some i, a') => some (a', s!"id={i} last={a'.last} keys={showKeys a'}")
    | (none, a') => some (a', s!"raise last={a'.last} keys={showKeys a'}")
  | ["c10.open"] => act a .open_
  | ["c10.opened", o] => o.toNat?.bind fun o => act a (.opened o)
  | ["c10.closeStart", o] => o.toNat?.bind fun o => act a (.closeStart o)
  | ["c10.closeBroker", o] => o.toNat?.bind fun o => act a (.closeBroker o)
  | ["c10.closed", o] => o.toNat?.bind fun o => act a (.closed o)
  | ["c10.reopen", o] => o.toNat?.bind fun o =>
    match reopen a o with
    | some a' => some (a', s!"ok last={a'.last} keys={showKeys a'} objs={showObjs a'}")
    | none => some (a, "rejected")
  | ["c10.cleanup", o] => o.toNat?.bind fun o => act a (.cleanup o)
  | _ => none

end Driver.C10
