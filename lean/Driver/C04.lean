import Driver.Util
import Amqp.Model.Publish
open Amqp
namespace Driver.C04

def showSlices (ps : List Bytes) : String :=
  s!"n={ps.length} " ++ (if ps.isEmpty then "-" else ",".intercalate (ps.map showSlice))

def handle : Handler
  | ["c04.split", f, h] =>
    match parseInt f, ofHex h with
    | some maxF, some b => some (showSlices (splitBody maxF b))
    | _, _ => some "bad-op"
  | ["c04.splitrep", f, n, byte] =>   -- body = `n` copies of one byte (large bodies without large lines)
    match parseInt f, n.toNat?, byte.toNat? with
    | some maxF, some n, some x => some (showSlices (splitBody maxF (List.replicate n (UInt8.ofNat x))))
    | _, _, _ => some "bad-op"
  | ["c04.negotiate", v] =>
    match parseInt v with
    | some srv => some s!"stored={negotiatedFrameMax srv} sent={announcedFrameMax srv} channel={channelMaxF srv}"
    | none => some "bad-op"
  | ["c04.utf8", cps] =>   -- comma-separated code points -> UTF-8 bytes of the text
    let cs := (cps.splitOn ",").filterMap (fun t => t.toNat?)
    let str := String.ofList (cs.map Char.ofNat)
    match encodeBody utf8 (.text str) with
    | some b => some (hexOrDash b)
    | none => some "encode-error"
  | _ => none

end Driver.C04
