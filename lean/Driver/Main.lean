import Amqp.Model.Parse
import Amqp.Model.Publish
/-
  Line-protocol driver: one operation per input line, one canonical output line per operation.
  Imports `Model/` only (no Mathlib, no proofs) so that it links as a `lean_exe`.
-/
open Amqp

structure DState where
  rd : RdState := {}

def showFrame (f : Frame) : String := s!"{f.ty}:{f.chan}:{if f.payload.isEmpty then "-" else toHex f.payload}"

def showFrames (fs : List Frame) : String :=
  if fs.isEmpty then "-" else ",".intercalate (fs.map showFrame)

def hexOrDash (b : Bytes) : String := if b.isEmpty then "-" else toHex b

def cksum (b : Bytes) : Nat := b.foldl (fun h x => (h * 31 + x.toNat) % 4294967296) 7

def showSlice (p : Bytes) : String :=
  if p.length ≤ 64 then hexOrDash p else s!"#{p.length}:{cksum p}"

def parseInt (s : String) : Option Int :=
  if s.startsWith "-" then (s.drop 1).toNat?.map (fun n => -(n : Int)) else s.toNat?.map (fun n => (n : Int))

def step (st : DState) (line : String) : DState × String :=
  match line.trimAscii.toString.splitOn " " with
  | ["c02.reset"] => ({ st with rd := {} }, "ok")
  | ["c02.parse1", h] =>
    match ofHex h with
    | none => (st, "bad-op")
    | some d =>
      match handleFrame d with
      | none => (st, "none")
      | some (f, rest) => (st, s!"some {d.length - rest.length} {showFrame f}")
  | ["c02.feed", h] =>
    match ofHex h with
    | none => (st, "bad-op")
    | some d =>
      let before := st.rd.out.length
      let rd := feed st.rd d
      ({ st with rd := rd }, s!"out={showFrames (rd.out.drop before)} buf={hexOrDash rd.buf}")
  | ["c04.split", f, h] =>
    match parseInt f, ofHex h with
    | some maxF, some b =>
      let ps := splitBody maxF b
      (st, s!"n={ps.length} " ++ (if ps.isEmpty then "-" else ",".intercalate (ps.map showSlice)))
    | _, _ => (st, "bad-op")
  | ["c04.splitrep", f, n, byte] =>   -- body = `n` copies of one byte (large bodies without large lines)
    match parseInt f, n.toNat?, byte.toNat? with
    | some maxF, some n, some x =>
      let ps := splitBody maxF (List.replicate n (UInt8.ofNat x))
      (st, s!"n={ps.length} " ++ (if ps.isEmpty then "-" else ",".intercalate (ps.map showSlice)))
    | _, _, _ => (st, "bad-op")
  | ["c04.negotiate", v] =>
    match parseInt v with
    | some srv => (st, s!"stored={negotiatedFrameMax srv} sent={announcedFrameMax srv} channel={channelMaxF srv}")
    | none => (st, "bad-op")
  | ["c04.utf8", cps] =>   -- comma-separated code points -> UTF-8 bytes of the text
    let cs := (cps.splitOn ",").filterMap (fun t => t.toNat?)
    let str := String.ofList (cs.map Char.ofNat)
    match encodeBody utf8 (.text str) with
    | some b => (st, hexOrDash b)
    | none => (st, "encode-error")
  | _ => (st, "bad-op")

partial def loop (h : IO.FS.Stream) (out : IO.FS.Stream) (st : DState) : IO Unit := do
  let line ← h.getLine
  if line.isEmpty then return ()
  let (st', o) := step st line
  out.putStrLn o
  loop h out st'

def main : IO Unit := do
  let out ← IO.getStdout
  loop (← IO.getStdin) out {}
