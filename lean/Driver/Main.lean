import Amqp.Model.Parse
/-
  Line-protocol driver: one operation per input line, one canonical output line per operation.
  Imports `Model/` only (no Mathlib, no proofs) so that it links as a `lean_exe`.
-/
open Amqp

structure DState where
  rd : RdState := {}

def showFrame (f : Frame) : String := s!"{f.ty}:{f.chan}:{if f.payload.isEmpty then "-" else toHex f.payload}"

def showFrames (fs : List Frame) : String :=
  if fs.isEmpty then "-" else ",".intercalate (fs.map showFrame)

def hexOrDash (b : Bytes) : String := if b.isEmpty then "-" else toHex b

def step (st : DState) (line : String) : DState × String :=
  match line.trimAscii.toString.splitOn " " with
  | ["c02.reset"] => ({ st with rd := {} }, "ok")
  | ["c02.parse1", h] =>
    match ofHex h with
    | none => (st, "bad-op")
    | some d =>
      match handleFrame d with
      | none => (st, "none")
      | some (f, rest) => (st, s!"some {d.length - rest.length} {showFrame f}")
  | ["c02.feed", h] =>
    match ofHex h with
    | none => (st, "bad-op")
    | some d =>
      let before := st.rd.out.length
      let rd := feed st.rd d
      ({ st with rd := rd }, s!"out={showFrames (rd.out.drop before)} buf={hexOrDash rd.buf}")
  | _ => (st, "bad-op")

partial def loop (h : IO.FS.Stream) (out : IO.FS.Stream) (st : DState) : IO Unit := do
  let line ← h.getLine
  if line.isEmpty then return ()
  let (st', o) := step st line
  out.putStrLn o
  loop h out st'

def main : IO Unit := do
  let out ← IO.getStdout
  loop (← IO.getStdin) out {}
