import Driver.Util
import Driver.C02
import Driver.C04
import Driver.C19
/-
  Line-protocol driver: one operation per input line, one canonical output line per operation.
  Imports `Model/` only (no Mathlib, no proofs) so that it links as a `lean_exe`.
  Stateless handlers are listed in `handlers`; stateful models have a field in `DState`.
-/
open Amqp

structure DState where
  rd : RdState := {}

def handlers : List Handler := [
  Driver.C04.handle,
  Driver.C19.handle
]

def step (st : DState) (line : String) : DState × String :=
  let args := line.trimAscii.toString.splitOn " "
  match Driver.C02.step st.rd args with
  | some (rd, o) => ({ st with rd := rd }, o)
  | none =>
    match handlers.findSome? (fun h => h args) with
    | some o => (st, o)
    | none => (st, "bad-op")

partial def loop (h : IO.FS.Stream) (out : IO.FS.Stream) (st : DState) : IO Unit := do
  let line ← h.getLine
  if line.isEmpty then return ()
  let (st', o) := step st line
  out.putStrLn o
  loop h out st'

def main : IO Unit := do
  let out ← IO.getStdout
  loop (← IO.getStdin) out {}
