import Driver.Util
import Driver.C01
import Driver.C02
import Driver.C03
import Driver.C04
import Driver.C05
import Driver.C10
import Driver.C11
import Driver.C13
import Driver.C14
import Driver.C15
import Driver.C07
import Driver.C09
import Driver.C17
import Driver.C20
import Driver.C16
import Driver.C18
import Driver.C12
import Driver.C19
import Driver.C06
import Driver.C08
/-
  Line-protocol driver: one operation per input line, one canonical output line per operation.
  Imports `Model/` only (no Mathlib, no proofs) so that it links as a `lean_exe`.
  Stateless handlers are listed in `handlers`; stateful models have a field in `DState`.
-/
open Amqp

structure DState where
  rd : RdState := {}
  wire : Amqp.Wire.S := {}
  alloc : Amqp.Alloc.A := { max := 0 }
  rpc : Amqp.Rpc.S := {}
  errs : Amqp.Errors.C := {}
  cons : Amqp.Consumers.S := {}
  deliv : Amqp.Deliver.S := {}
  transp : Amqp.Transport.T := {}
  life : Amqp.Lifecycle.L := {}

def handlers : List Handler := [
  Driver.C04.handle,
  Driver.C11.handle,
  Driver.C13.handle,
  Driver.C15.handle,
  Driver.C09.handle,
  Driver.C17.handle,
  Driver.C20.handle,
  Driver.C16.handle,
  Driver.C18.handle,
  Driver.C12.handle,
  Driver.C19.handle
]

def step (st : DState) (line : String) : DState × String :=
  let args := line.trimAscii.toString.splitOn " "
  match Driver.C02.step st.rd args with
  | some (rd, o) => ({ st with rd := rd }, o)
  | none =>
  match Driver.C01.stepCmd st.wire args with
  | some (w, o) => ({ st with wire := w }, o)
  | none =>
  match Driver.C10.stepCmd st.alloc args with
  | some (al, o) => ({ st with alloc := al }, o)
  | none =>
  match Driver.C05.stepCmd st.rpc args with
  | some (r, o) => ({ st with rpc := r }, o)
  | none =>
  match Driver.C07.stepCmd st.errs args with
  | some (e, o) => ({ st with errs := e }, o)
  | none =>
  match Driver.C14.stepCmd st.cons args with
  | some (c, o) => ({ st with cons := c }, o)
  | none =>
  match Driver.C03.stepCmd st.deliv args with
  | some (d, o) => ({ st with deliv := d }, o)
  | none =>
  match Driver.C06.stepCmd st.transp args with
  | some (d, o) => ({ st with transp := d }, o)
  | none =>
  match Driver.C08.stepCmd st.life args with
  | some (d, o) => ({ st with life := d }, o)
  | none =>
    match handlers.findSome? (fun h => h args) with
    | some o => (st, o)
    | none => (st, "bad-op")

partial def loop (h : IO.FS.Stream) (out : IO.FS.Stream) (st : DState) : IO Unit := do
  let line ← h.getLine
  if line.isEmpty then return ()
  let (st', o) := step st line
  out.putStrLn o
  loop h out st'

def main : IO Unit := do
  let out ← IO.getStdout
  loop (← IO.getStdin) out {}
