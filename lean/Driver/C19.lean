import Driver.Util
import Amqp.Model.Mgmt
open Amqp Amqp.Mgmt
namespace Driver.C19

/-- hex of UTF-8 bytes → text (`-` = empty) -/
def textOfHex (h : String) : Option Text := do
  let b ← ofHex h
  let s ← String.fromUTF8? (ByteArray.mk b.toArray)
  pure s.toList

def hexOfText (t : Text) : String := hexOrDash (String.ofList t).toUTF8.toList

def parseEnv : List String → Option Env
  | [] => some []
  | kv :: rest =>
    match kv.splitOn "=" with
    | [k, v] => do
      let t ← textOfHex v
      let r ← parseEnv rest
      pure ((k, t) :: r)
    | _ => none

def showErr : CallErr → String
  | .typeError => "TypeError"
  | .unmodelled => "unmodelled"

def showPairs (ps : List (String × String)) : String :=
  if ps.isEmpty then "-" else ",".intercalate (ps.map fun (k, v) => k ++ ":" ++ v)

def parseBody : String → Option Body
  | "notjson" => some .notJson
  | "null" => some .jsonNull
  | "errobj" => some .errorObject
  | "object" => some .object
  | "other" => some .other
  | _ => none

def showOutcome : Option Outcome → String
  | none => "unmodelled"
  | some (.returned .none) => "return:None"
  | some (.returned .object) => "return:object"
  | some (.returned .other) => "return:other"
  | some (.apiError s) => s!"ApiError:{s}"
  | some .apiConnectionError => "ApiConnectionError"
  | some (.escaped c) => s!"escaped:{c}"

def handle : Handler
  | "c19.url" :: origin :: bpath :: op :: guard :: env =>
    match textOfHex origin, textOfHex bpath, textOfHex guard, parseEnv env with
    | some o, some bp, some g, some env =>
      match findOp op (String.ofList g) with
      | none => some "no-such-op"
      | some e =>
        let m := (httpMethod e).getD e.verb
        match url ⟨o, bp⟩ e env with
        | .ok u => some s!"{m} {hexOfText u}"
        | .error err => some s!"{m} error:{showErr err}"
    | _, _, _, _ => some "bad-op"
  | ["c19.row", op, guard] =>
    match textOfHex guard with
    | none => some "bad-op"
    | some g =>
      match findOp op (String.ofList g) with
      | none => some "no-such-op"
      | some e =>
        some s!"verb={e.verb} keys={if e.body.isEmpty then "-" else ",".intercalate (e.body.map (·.1))} headers={showPairs e.headers} post={if e.post.isEmpty then "-" else e.post}"
  | ["c19.quote", safe, h] =>
    match textOfHex safe, textOfHex h with
    | some s, some t => some (hexOfText (quote (String.ofList s) t))
    | _, _ => some "bad-op"
  | ["c19.join", bpath, rel] =>
    match textOfHex bpath, textOfHex rel with
    | some b, some r => some (hexOfText (urljoinPath b r))
    | _, _ => some "bad-op"
  | ["c19.decode", h] =>
    match textOfHex h with
    | some t => match pctDecode t with
      | some b => some (hexOrDash b)
      | none => some "none"
    | none => some "bad-op"
  | ["c19.outcome", kind, doc, status, body] =>
    let k := if kind = "iter" then PostKind.iterates else PostKind.plain
    if status = "failed" then some (showOutcome (callOutcome k (doc = "1") .failed))
    else match status.toNat?, parseBody body with
      | some s, some b => some (showOutcome (callOutcome k (doc = "1") (.response s b)))
      | _, _ => some "bad-op"
  | _ => none

end Driver.C19
