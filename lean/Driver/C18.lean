import Driver.Util
import Amqp.Model.Uri
open Amqp Amqp.Uri
namespace Driver.C18

/-- text travels as '.'-separated decimal code points; "-" is the empty string -/
def parseCps (s : String) : Option Str :=
  if s = "-" then some [] else
  (s.splitOn ".").mapM fun t =>
    match t.toNat? with
    | some n => if n < 0xD800 ∨ (0xE000 ≤ n ∧ n < 0x110000) then some (Char.ofNat n) else none
    | none => none

def showCps (s : Str) : String :=
  if s.isEmpty then "-" else ".".intercalate (s.map fun c => toString c.toNat)

def showOpt : OptVal → String
  | .int i => s!"i:{i}"
  | .str s => s!"s:{showCps s}"

def showErr : Err → String
  | .valueError => "err ValueError"
  | .outOfModel => "out-of-model"

def showParams (p : Params) : String :=
  s!"ok host={showCps p.hostname} user={showCps p.username} pass={showCps p.password} port={p.port} " ++
  s!"vhost={showCps p.virtualHost} hb={showOpt p.heartbeat} timeout={showOpt p.timeout} ssl={if p.ssl then 1 else 0}"

def parseOptNat (s : String) : Option (Option Nat) :=
  if s = "_" then some none else s.toNat?.map some

def parseOptCps (s : String) : Option (Option Str) :=
  if s = "_" then some none else (parseCps s).map some

def parseOpts (s : String) : Option (List UOpt) :=
  if s = "-" then some [] else
  (s.splitOn ",").mapM fun t =>
    if t.startsWith "h" then (t.drop 1).toNat?.map .heartbeat
    else if t.startsWith "t" then (t.drop 1).toNat?.map .timeout
    else none

def handle : Handler
  | ["c18.params", v6, u] =>      -- v6: verdict of ipaddress on the bracketed host (1/0), supplied by the caller
    match parseCps u with
    | some uri =>
      match connectionParams (fun _ => v6 == "1") uri with
      | .ok p => some (showParams p)
      | .error e => some (showErr e)
    | none => some "bad-op"
  | ["c18.bracket", u] =>
    match parseCps u with
    | some uri => (match bracketText uri with
      | some t => some s!"some {showCps t}"
      | none => some "none")
    | none => some "bad-op"
  | ["c18.unquote", u] =>
    match parseCps u with
    | some s => some (showCps (unquote s))
    | none => some "bad-op"
  | ["c18.quote", u] =>
    match parseCps u with
    | some s => some (showCps (quote s))
    | none => some "bad-op"
  | ["c18.int", u] =>
    match parseCps u with
    | some s => (match pyInt s with
      | .ok i => some s!"i:{i}"
      | .error e => some (showErr e))
    | none => some "bad-op"
  | ["c18.render", tls, user, pass, hk, host, port, vhost, opts] =>
    match parseOptCps user, parseOptCps pass, parseOptCps host, parseOptNat port, parseOptCps vhost, parseOpts opts with
    | some u, some p, some h, some po, some v, some os =>
      let hh : Option Host := h.map (fun x => if hk == "6" then .v6 x else .name x)
      some (showCps (render ⟨tls == "1", u, p, hh, po, v, os⟩))
    | _, _, _, _, _, _ => some "bad-op"
  | ["c18.renderc", caps, tls, user, pass, hk, host, port, vhost, opts] =>
    match parseOptCps user, parseOptCps pass, parseOptCps host, parseOptNat port, parseOptCps vhost, parseOpts opts with
    | some u, some p, some h, some po, some v, some os =>
      let hh : Option Host := h.map (fun x => if hk == "6" then .v6 x else .name x)
      let b (i : Nat) : Bool := (caps.toList.drop i).head? == some '1'
      some (showCps (renderCased ⟨b 0, b 1, b 2, b 3, b 4⟩ ⟨tls == "1", u, p, hh, po, v, os⟩))
    | _, _, _, _, _, _ => some "bad-op"
  | _ => none

end Driver.C18
