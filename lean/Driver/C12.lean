import Driver.Util
import Amqp.Model.Heartbeat
open Amqp Amqp.Hb
namespace Driver.C12

def parseAct (t : String) : Option Act :=
  match t.toList with
  | ['r'] => some .read
  | ['w'] => some .write
  | ['e'] => some .eval
  | ['c'] => some .clear
  | ['m'] => some .rearm
  | ['p'] => some .stop
  | ['s', '1'] => some (.start true)
  | ['s', '0'] => some (.start false)
  | ['o', '1'] => some (.setOpen true)
  | ['o', '0'] => some (.setOpen false)
  | 'a' :: ds => (String.ofList ds).toNat?.map .adv
  | 'f' :: ds => (String.ofList ds).toNat?.map .fire
  | _ => none

def parseX (t : String) : Option XAct :=
  match t with
  | "P" => some .midStop
  | "S1" => some (.midStart true)
  | "S0" => some (.midStart false)
  | _ => (parseAct t).map .base

def showPc : Pc → String
  | .idle => "i" | .sent => "s" | .evald true => "D" | .evald false => "E" | .cleared => "c"

def insertSorted (x : Nat) : List Nat → List Nat
  | [] => [x]
  | y :: ys => if x ≤ y then x :: y :: ys else y :: insertSorted x ys

/-- canonical projection of the state: what the harness can read off the real objects -/
def proj (s : St) : String :=
  let dls := (s.timers.map (·.2)).foldr insertSorted []
  let e := match s.exc with | none => "N" | some n => toString n
  s!"n{s.now} R{if s.running then 1 else 0} r{s.reads} w{s.writes} t{s.threshold} e{e} " ++
  s!"T[{",".intercalate (dls.map toString)}] h{s.hbs} d{s.deads} x{s.raises} p{showPc s.pc}"

/-- run the groups; one projection per group; a disabled step ends the run -/
def runGroups (s : St) : List (List String) → List String → List String
  | [], acc => acc.reverse
  | g :: gs, acc =>
    match g.mapM parseX with
    | none => ("bad-event" :: acc).reverse
    | some as =>
      match runX s as with
      | none => ("disabled" :: acc).reverse
      | some s' => runGroups s' gs (proj s' :: acc)

def handle : Handler
  | ["c12.run", t, evs] =>
    let timeout : Option (Option Int) := if t = "none" then some none else (parseInt t).map some
    match timeout with
    | none => some "bad-op"
    | some T =>
      let groups := (evs.splitOn ";").map (fun g => (g.splitOn ",").filter (· ≠ ""))
      some (";".intercalate (runGroups (init T) groups []))
  | ["c12.interval", t] =>
    match (if t = "none" then some none else (parseInt t).map some : Option (Option Int)) with
    | none => some "bad-op"
    | some T =>
      let s := init T
      let iv := match s.interval with | none => "none" | some v => s!"{v}/{Gen.Heartbeat.intervalDen}"
      some s!"interval={iv} disabled={Gen.Heartbeat.startDisabled s.interval} period={s.ivl}"
  | _ => none

end Driver.C12
