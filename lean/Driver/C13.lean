import Driver.Util
import Amqp.Model.Confirm
open Amqp Amqp.Rpc Amqp.ChanErr Amqp.Confirm
namespace Driver.C13

def parseEv (x : String) : Option Ev :=
  if x = "l" then some .connLost else
  let k := (x.take 1).toString
  match (x.drop 1).toString.toNat? with
  | none => none
  | some n =>
    if k = "a" then some (.ack n) else if k = "n" then some (.nack n) else if k = "r" then some (.ret n)
    else if k = "c" then some (.chanClose n) else if k = "k" then some (.connClose n) else none

def parseSched (s : String) : Option (List (List Ev)) :=
  if s = "." then some [] else
  (s.splitOn "|").mapM fun b => if b = "-" then some [] else (b.splitOn ",").mapM parseEv

def showCode : Option Nat → String
  | some c => toString c
  | none => "-"

def showErr : Err → String
  | .conn c => s!"connection-error:{showCode c}"
  | .chan c => s!"channel-error:{showCode c}"
  | .msg c => s!"message-error:{c}"

def handle : Handler
  | ["c13.publish", m, sched] =>
    match parseSched sched with
    | none => some "bad-op"
    | some sc =>
      let (o, s, _) := publishConfirm (m = "1") {} sc
      let os := match o with
        | .returned ok _ => s!"returned {ok}"
        | .raised e => s!"raised {showErr e}"
        | .timeout => "raised channel-error:-"
      some s!"{os} req={s.t.request.length} resp={s.t.response.length} pending-errors={s.e.chErrs.length}"
  | _ => none

end Driver.C13
