import Driver.Util
import Driver.C07
import Amqp.Model.Transport
open Amqp Amqp.ChanErr Amqp.Errors Amqp.Transport
namespace Driver.C06

def showOutcome : Option Outcome → String
  | none => "waiting"
  | some (.raised e a) => s!"raised:{Driver.C07.showErr e}@{a}"
  | some (.returned a) => s!"returned@{a}"

def showT (t : T) : String :=
  let ws := t.waiters.map fun w => s!"{match w.chan with | some c => toString c | none => "conn"}/{showOutcome w.result}{if w.blocked then "/queued" else ""}/next={w.nextPoll}"
  let chs := t.c.chans.map fun ch => toString ch.state
  s!"now={t.now} conn={t.c.connState}:{Driver.C07.showErrs t.c.connErrs} chans={",".intercalate chs} fault={match t.faultAt with | some a => toString a | none => "-"} reader={t.readerRunning} lock={match t.lockHolder with | some j => toString j | none => "-"} waiters={if ws.isEmpty then "-" else " ".intercalate ws}"

def parseAct (x : String) : Option Act :=
  match x.splitOn ":" with
  | ["enter", ch, kind, lock] =>
    -- kind: n = one sleep per iteration, c = the start_consuming loop (sleeps regenerated from the source)
    -- g = a consuming loop with one sleep per iteration (build_inbound_messages, a process_data_events loop)
    let extra := if kind = "c" then Gen.Transport.consumeLoopSleeps - 1 else 0
    let cons := kind = "c" || kind = "g"
    let lk := lock = "1"
    if ch = "conn" then some (.enterWait none extra lk cons) else ch.toNat?.map fun c => .enterWait (some c) extra lk cons
  | ["stuck", i] => i.toNat?.map .stuck
  | ["return", ch, code] => do let c ← ch.toNat?; let k ← code.toNat?; pure (.brokerReturn c k)
  | ["die"] => some .die
  | ["reader"] => some .readerNotices
  | ["writer"] => some .writerFails
  | ["poller"] => some .pollerFails
  | ["poll", i] => i.toNat?.map .poll
  | ["leave", i] => i.toNat?.map .leave
  | ["adv", d] => d.toNat?.map .adv
  | _ => none

def stepCmd (t : T) : List String → Option (T × String)
  | ["c06.reset", n] => n.toNat?.map fun n =>
      ({ c := { connState := open_, chans := List.replicate n { state := open_ } } }, "ok")
  | ["c06.act", a] =>
    match parseAct a with
    | none => some (t, "bad-op")
    | some act =>
      match step t act with
      | none => some (t, "rejected")
      | some t' => some (t', s!"ok {showT t'}")
  | ["c06.consts"] => some (t, s!"idle={idleWait} poll={pollTimeout} same={Gen.Transport.sameErrorList} loops={Gen.Transport.waitLoopsPollErrors}")
  | _ => none

end Driver.C06
