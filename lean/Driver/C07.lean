import Driver.Util
import Amqp.Model.Parked
import Amqp.Model.Errors
open Amqp Amqp.ChanErr Amqp.Errors
namespace Driver.C07

def showCode : Option Nat → String
  | some c => toString c
  | none => "-"

def showErr : Err → String
  | .conn c => s!"C{showCode c}"
  | .chan c => s!"H{showCode c}"
  | .msg c => s!"M{c}"

def showErrs (l : List Err) : String := if l.isEmpty then "-" else ",".intercalate (l.map showErr)

def parseErr (x : String) : Option Err :=
  let k := (x.take 1).toString
  let r := (x.drop 1).toString
  let code : Option (Option Nat) := if r = "-" then some none else r.toNat?.map some
  match code with
  | none => none
  | some c =>
    if k = "C" then some (.conn c) else if k = "H" then some (.chan c)
    else if k = "M" then c.map .msg else none

def parseErrs (s : String) : Option (List Err) := if s = "-" then some [] else (s.splitOn ",").mapM parseErr

def showC (c : C) : String :=
  let chs := c.chans.map fun ch => s!"{ch.state}:{showErrs ch.errs}"
  s!"conn={c.connState}:{showErrs c.connErrs} chans={" ".intercalate chs} closeok={if c.closeOkSent.isEmpty then "-" else ",".intercalate (c.closeOkSent.map toString)}"

def parseChan (x : String) : Option Chan :=
  match x.splitOn ":" with
  | [st, es] => do
    let s ← st.toNat?
    let e ← parseErrs es
    pure { state := s, errs := e }
  | _ => none

def stepCmd (c : C) : List String → Option (C × String)
  | "c07.set" :: cs :: ce :: chans =>
    match cs.toNat?, parseErrs ce, chans.mapM parseChan with
    | some s, some e, some chs => some ({ connState := s, connErrs := e, chans := chs }, "ok")
    | _, _, _ => some (c, "bad-op")
  | ["c07.check", i] => i.toNat?.map fun i =>
      let (r, c') := opCheck c i
      (c', s!"{match r with | some e => "raise " ++ showErr e | none => "none"} {showC c'}")
  | ["c07.return", i, code] => i.toNat?.bind fun i => code.toNat?.map fun code =>
      let c' := onReturn c i code; (c', s!"ok {showC c'}")
  | ["c07.chanclose", i, code] => i.toNat?.bind fun i => code.toNat?.map fun code =>
      let c' := onChannelClose c i code; (c', s!"ok {showC c'}")
  | ["c07.connclose", code, k] => code.toNat?.bind fun code => k.toNat?.map fun k =>
      let c' := onConnClosePrefix c code k; (c', s!"ok {showC c'}")
  | ["c07.takes", n, q] => n.toNat?.bind fun n =>
    ((if q = "-" then some [] else (q.splitOn ",").mapM (·.toNat?)) : Option (List Nat)).map fun q =>
      let p := Amqp.Parked.takes n q
      (c, s!"raised={p.1} parked={p.2}")
  | ["c07.errortype", code] => code.toNat?.map fun code => (c, (errorType code).getD "none")
  | _ => none

end Driver.C07
