import Driver.Util
import Amqp.Model.Wire
open Amqp Amqp.Wire
namespace Driver.C01

def showS (s : S) : String :=
  let h := match s.holder with
    | some (t, r) => s!"{t} rem={r.length}"
    | none => "- rem=0"
  let w := ",".intercalate ((s.waiting.map (·.1)).mergeSort.map toString)
  s!"ok wire={s.wire.length}:{cksum s.wire} holder={h} waiting={if w.isEmpty then "-" else w} failed={if s.failed then 1 else 0}"

def act (s : S) (a : Act) : Option (S × String) :=
  match step s a with
  | some s' => some (s', showS s')
  | none => some (s, "rejected")

def stepCmd (s : S) : List String → Option (S × String)
  | ["c01.reset"] => some ({}, "ok")
  | ["c01.begin", t, h] =>
    match t.toNat?, ofHex h with
    | some t, some b =>
      let (fs, res) := readBuffer b
      if res.isEmpty ∧ fs.all (fun f => decide f.WF) then act s (.begin t fs) else some (s, "bad-buffer")
    | _, _ => some (s, "bad-op")
  | ["c01.acquire", t] => t.toNat?.bind fun t => act s (.acquire t)
  | ["c01.send", t, k] => t.toNat?.bind fun t => k.toNat?.bind fun k => act s (.send t k)
  | ["c01.stutter", t] => t.toNat?.bind fun t => act s (.stutter t)
  | ["c01.release", t] => t.toNat?.bind fun t => act s (.release t)
  | ["c01.fail", t] => t.toNat?.bind fun t => act s (.fail t)
  | ["c01.parse"] =>
    let (fs, res) := readBuffer s.wire
    some (s, s!"frames={fs.length} residual={res.length} logged={(framesLogged s).length}")
  | _ => none

end Driver.C01
