import Driver.Util
import Amqp.Model.Rpc
open Amqp Amqp.Rpc
namespace Driver.C05

def showFrm (f : Frm) : String := s!"{f.name}:{f.tag}"

def showT (t : T) : String :=
  let ks := (t.request.map (fun p => s!"{p.1}")).mergeSort (fun a b => a ≤ b)
  let rs := (t.response.map (fun p => p.2.length)).mergeSort
  s!"req={if ks.isEmpty then "-" else ",".intercalate ks} resp={if rs.isEmpty then "-" else ",".intercalate (rs.map toString)}"

def showS (s : S) : String :=
  s!"{showT s.t} lock={match s.lock with | some t => toString t | none => "-"} handled={s.handled.length} pending={s.pending.length} inflight={s.inflight.length}"

def parseFrm (reply : Bool) (x : String) : Option Frm :=
  match x.splitOn ":" with
  | [n, t] => t.toNat?.map fun t => { name := n, tag := t, reply := reply }
  | _ => none

def act (s : S) (a : Act) (extra : S → String := fun _ => "") : Option (S × String) :=
  match step s a with
  | some s' => some (s', s!"ok{extra s'} {showS s'}")
  | none => some (s, "rejected")

def stepCmd (s : S) : List String → Option (S × String)
  | ["c05.reset"] => some ({}, "ok")
  | ["c05.acquire", t] => t.toNat?.bind fun t => act s (.acquire t)
  | ["c05.register", t, names] => t.toNat?.bind fun t => act s (.register t (names.splitOn ","))
  | ["c05.send", t] => t.toNat?.bind fun t => act s (.send t)
  | ["c05.take", t] => t.toNat?.bind fun t =>
      act s (.take t) (fun s' => match s'.taken.getLast? with | some (_, f) => s!" took={showFrm f}" | none => "")
  | ["c05.remove", t] => t.toNat?.bind fun t => act s (.remove t)
  | ["c05.release", t] => t.toNat?.bind fun t => act s (.release t)
  | ["c05.reply", fs] => ((fs.splitOn ",").mapM (parseFrm true)).bind fun fs => act s (.reply fs)
  | ["c05.unsol", f] => (parseFrm false f).bind fun f => act s (.unsolicited f)
  | ["c05.dispatch"] =>
      let before := s.handled.length
      act s .dispatch (fun s' => if s'.handled.length > before then " handled" else " consumed")
  -- direct access to the Rpc methods (SEQ correspondence of each method)
  | ["c05.t.register", names] =>
      let (uid, t') := registerRequest s.t (names.splitOn ",")
      some ({ s with t := t' }, s!"uid={uid} {showT t'}")
  | ["c05.t.onframe", f] => (parseFrm true f).bind fun f =>
      let (c, t') := onFrame s.t f
      some ({ s with t := t' }, s!"{c} {showT t'}")
  | ["c05.t.pop", u] => u.toNat?.bind fun u =>
      let (r, t') := popResponse s.t u
      some ({ s with t := t' }, s!"{match r with | some f => showFrm f | none => "none"} {showT t'}")
  | ["c05.t.remove", u] => u.toNat?.bind fun u =>
      let t' := remove s.t u
      some ({ s with t := t' }, s!"ok {showT t'}")
  | _ => none

end Driver.C05
