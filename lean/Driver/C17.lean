import Driver.Util
import Amqp.Model.Message
open Amqp
namespace Driver.C17
/-
  Line protocol for C17.  Values are one token (no blanks):
    N | T | F | I<dec>; | D<hex repr>; | S<hex utf8>; | B<hex>; | L<n>;v… | U<n>;v… |
    P<hex tag>;<n>;v… (tuple subclass) | M<n>;k v … | O<hex tag>;
  keys are S/B/I tokens.  Dicts are printed in insertion order (CPython ≥ 3.7).
-/

def hexOf (b : Bytes) : String := toHex b
def strHex (s : String) : String := toHex (utf8Encode s)

mutual
partial def showVal : PyVal → String
  | .none => "N"
  | .bool true => "T"
  | .bool false => "F"
  | .int i => s!"I{i};"
  | .float r => s!"D{strHex r};"
  | .str s => s!"S{strHex s};"
  | .bytes b => s!"B{hexOf b};"
  | .list xs => s!"L{xs.length};" ++ String.join (xs.map showVal)
  | .tuple xs => s!"U{xs.length};" ++ String.join (xs.map showVal)
  | .ntuple t xs => s!"P{strHex t};{xs.length};" ++ String.join (xs.map showVal)
  | .dict kvs => showDict kvs
  | .other t => s!"O{strHex t};"
partial def showDict (kvs : Dict) : String :=
  s!"M{kvs.length};" ++ String.join (kvs.map fun p => showVal p.1.toVal ++ showVal p.2)
end

def untilSemi (cs : List Char) : Option (List Char × List Char) :=
  let a := cs.takeWhile (· ≠ ';')
  match cs.drop a.length with
  | ';' :: rest => some (a, rest)
  | _ => none

def hexStr? (cs : List Char) : Option String := do
  let b ← ofHexChars cs
  utf8Decode b

def int? (cs : List Char) : Option Int := parseInt (String.ofList cs)

mutual
partial def parseVal : List Char → Option (PyVal × List Char)
  | 'N' :: r => some (.none, r)
  | 'T' :: r => some (.bool true, r)
  | 'F' :: r => some (.bool false, r)
  | 'I' :: r => do let (a, r) ← untilSemi r; let i ← int? a; pure (.int i, r)
  | 'D' :: r => do let (a, r) ← untilSemi r; let s ← hexStr? a; pure (.float s, r)
  | 'S' :: r => do let (a, r) ← untilSemi r; let s ← hexStr? a; pure (.str s, r)
  | 'B' :: r => do let (a, r) ← untilSemi r; let b ← ofHexChars a; pure (.bytes b, r)
  | 'O' :: r => do let (a, r) ← untilSemi r; let s ← hexStr? a; pure (.other s, r)
  | 'L' :: r => do
      let (a, r) ← untilSemi r; let n ← (String.ofList a).toNat?
      let (xs, r) ← parseN n r; pure (.list xs, r)
  | 'U' :: r => do
      let (a, r) ← untilSemi r; let n ← (String.ofList a).toNat?
      let (xs, r) ← parseN n r; pure (.tuple xs, r)
  | 'P' :: r => do
      let (t, r) ← untilSemi r; let tag ← hexStr? t
      let (a, r) ← untilSemi r; let n ← (String.ofList a).toNat?
      let (xs, r) ← parseN n r; pure (.ntuple tag xs, r)
  | 'M' :: r => do
      let (a, r) ← untilSemi r; let n ← (String.ofList a).toNat?
      let (kvs, r) ← parseKVs n r; pure (.dict kvs, r)
  | _ => none
partial def parseN : Nat → List Char → Option (List PyVal × List Char)
  | 0, r => some ([], r)
  | n + 1, r => do
      let (v, r) ← parseVal r
      let (vs, r) ← parseN n r
      pure (v :: vs, r)
partial def parseKVs : Nat → List Char → Option (Dict × List Char)
  | 0, r => some ([], r)
  | n + 1, r => do
      let (k, r) ← parseVal r
      let key : PyKey ← match k with
        | .str s => some (.str s) | .bytes b => some (.bytes b) | .int i => some (.int i) | _ => none
      let (v, r) ← parseVal r
      let (kvs, r) ← parseKVs n r
      pure ((key, v) :: kvs, r)
end

def val? (s : String) : Option PyVal :=
  match parseVal s.toList with
  | some (v, []) => some v
  | _ => none

/-- `N` → None, `M…` → dict -/
def optDict? (s : String) : Option (Option Dict) :=
  match val? s with
  | some .none => some none
  | some (.dict d) => some (some d)
  | _ => none

def showMsgOp (m : Msg) (op : String) : Option (String × Msg) :=
  match op.splitOn ":" with
  | ["rb"] => let r := m.readBody; some (showVal r.1, r.2)
  | ["rm"] => let r := m.readMethod; some (showVal r.1, r.2)
  | ["rp"] => let r := m.readProps; some (showVal r.1, r.2)
  | ["td"] => some (showDict m.toDict, m)
  | ["tt"] => some (showVal (.tuple m.toTuple), m)
  | ["g", attr] =>
    match m.getAttr attr with
    | some r => some (showVal r.1, r.2)
    | none => some ("AttributeError", m)
  | ["s", attr, v] =>
    match val? v with
    | some x => match m.setAttr attr x with
      | some m' => some ("ok", m')
      | none => some ("AttributeError", m)
    | none => none
  | ["u", name, v] =>
    match val? v, hexStr? name.toList with
    | some x, some n => some ("ok", m.update n x)
    | _, _ => none
  | _ => none

def runOps (m : Msg) : List String → Option (List String)
  | [] => some []
  | op :: rest => do
    let (o, m') ← showMsgOp m op
    let os ← runOps m' rest
    pure (o :: os)

def fresh : Gen.Message.Fill → String → PyVal
  | .uuid, _ => .other "uuid"
  | .now, _ => .other "now"

def body? (s : String) : Option PyBody :=
  if s.startsWith "t:" then
    let cps := ((s.drop 2).toString.splitOn ",").filterMap (fun t => t.toNat?)
    some (.text (String.ofList (cps.map Char.ofNat)))
  else if s.startsWith "b:" then (ofHex (s.drop 2).toString).map .bytes
  else none

/-- the codec: utf-8 is Lean's; for any other `content_encoding` value the harness supplies what
    `bytes(body, encoding=…)` produced (`err` = it raised) -/
def codecOf (supplied : String) : PyVal → String → Option Bytes
  | .str "utf-8", s => some (utf8Encode s)
  | _, _ => if supplied = "err" then none else ofHex supplied

def showErr : PubErr → String
  | .encode => "err:encode"
  | .badProperty => "err:property"

def handle : Handler
  | ["c17.decode", v] => (val? v).map (fun x => showVal (tryDecode x))
  | ["c17.dictval", v] => (val? v).map (fun x => showVal (decodeDictValue x))
  | ["c17.content", v] => (val? v).map (fun x => showVal (decodeContent x))
  | "c17.msg" :: auto :: b :: me :: p :: ops =>
    match val? b, val? me, optDict? p with
    | some b, some me, some p =>
      match runOps (Msg.new (auto = "1") b me p) ops with
      | some os => some ("|".intercalate os)
      | none => some "bad-op"
    | _, _, _ => some "bad-op"
  | ["c17.create", p, b] =>
    match optDict? p, val? b with
    | some p, some b =>
      let m := Msg.create fresh b p
      some s!"auto={if m.autoDecode then 1 else 0} body={showVal m.body} method={showVal m.method} props={showDict m.properties}"
    | _, _ => some "bad-op"
  | ["c17.rt", f, auto, b, p, supplied] =>
    match parseInt f, body? b, optDict? p with
    | some maxF, some body, some p =>
      match publish17 maxF (codecOf supplied) body p with
      | .error e => some (showErr e)
      | .ok (caller, frames) =>
        match buildMessage (auto = "1") id (.deliver [] :: frames.drop 1) with
        | .msg m rest =>
          let r := m.readBody
          some s!"caller={match caller with | some d => showDict d | none => "N"} frames={frames.length} raw={showVal m.body} dec={showVal r.1} props={showDict m.properties} rest={rest.length}"
        | .wait => some "consumer:wait"
        | .notYet => some "consumer:not-yet"
        | .dropped _ => some "consumer:dropped"
        | .attrError => some "consumer:attr-error"
    | _, _, _ => some "bad-op"
  | _ => none

end Driver.C17
