import Driver.Util
import Amqp.Model.Get
import Amqp.Model.RpcMicro
open Amqp Amqp.Rpc Amqp.Get
namespace Driver.C15

/-- frame syntax: `name:size:datahex` (data `-` = empty) -/
def parseFrm (x : String) : Option Frm :=
  match x.splitOn ":" with
  | [n, sz, d] => do
    let s ← sz.toNat?
    let b ← ofHex d
    pure { name := n, tag := 0, reply := true, size := s, data := b }
  | _ => none

def parseFrames (s : String) : Option (List Frm) :=
  if s = "-" then some [] else (s.splitOn ",").mapM parseFrm

def showErr : Err → String
  | .timeout => "timeout" | .channelError => "channel-error" | .connectionError => "connection-error"
  | .notAllowedConsumers => "consumers-active"

/-- micro events: `b:N1+N2` begin, `r` regStep, `p` pop, `x` beginRemove, `d` remStep, `f:Name` frame -/
def parseEv (x : String) : Option RpcMicro.Ev :=
  match x.splitOn ":" with
  | ["b", ns] => some (.begin (ns.splitOn "+"))
  | ["r"] => some .regStep
  | ["p"] => some .pop
  | ["x"] => some .beginRemove
  | ["d"] => some .remStep
  | ["f", n] => some (.frame { name := n, tag := 0, reply := true })
  | _ => none

def showPhase : RpcMicro.Phase → String
  | .idle => "idle" | .reg .. => "reg" | .wait _ => "wait" | .rem .. => "rem"

/-- after every event: request size / response size / KeyErrors so far / frames consumed / phase -/
def microTrace (s : RpcMicro.S) : List RpcMicro.Ev → List String
  | [] => []
  | e :: es =>
    match RpcMicro.step s e with
    | none => ["disabled"]
    | some s' => s!"{s'.t.request.length}/{s'.t.response.length}/{s'.keyErrors}/{s'.consumed.length}/{showPhase s'.phase}" :: microTrace s' es

def handle : Handler
  | ["c15.get", tags, frames, ending] =>
    let tgs := if tags = "-" then [] else tags.splitOn ","
    let e? : Option Ending := match ending with
      | "silence" => some .silence | "chan-closed" => some .chanClosed | "conn-lost" => some .connLost | _ => none
    match parseFrames frames, e? with
    | some fs, some e =>
      let (r, t, wrote, handled, left) := basicGet tgs {} fs e
      let rs := match r with
        | .empty => "none"
        | .message ok hdr body => s!"message meta={hexOrDash ok.data} size={hdr.size} body={showSlice body}"
        | .raised er => s!"raised {showErr er}"
      some s!"{rs} req={t.request.length} resp={t.response.length} wrote={wrote} fell-through={handled.length} unread={left.length}"
    | _, _ => some "bad-op"
  | ["c15.micro", evs] =>
    match (evs.splitOn ",").mapM parseEv with
    | some es => some (";".intercalate (microTrace RpcMicro.init es))
    | none => some "bad-op"
  | _ => none

end Driver.C15
