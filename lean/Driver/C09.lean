import Driver.Util
import Amqp.Model.Handshake
open Amqp Amqp.Handshake
namespace Driver.C09

def strOfHex (h : String) : Option String :=
  match ofHex h with
  | none => none
  | some b => String.fromUTF8? (ByteArray.mk b.toArray)

def hexOfStr (s : String) : String := hexOrDash s.toUTF8.toList

def showCFrame : CFrame → String
  | .header => "H"
  | .startOk m r => s!"SO({hexOfStr m}|{hexOfStr r})"
  | .tuneOk c f h => s!"TO({c}|{f}|{h})"
  | .open v => s!"OP({hexOfStr v})"

def showErr : Err → String
  | .unsupported => "unsupported:-"
  | .remote (some c) => s!"remote:{c}"
  | .remote none => "remote:-"
  | .closed => "closed:-"
  | .socket => "lost:-"        -- socket loss and time-out are not distinguished (D1 is C06's concern)
  | .timeout => "lost:-"

def showOutcome : Outcome → String
  | .pending => "pending"
  | .opened => "opened"
  | .failed e => s!"failed:{showErr e}"

def parseAct (t : String) : Option (List Act) :=
  let body := (t.drop 1).toString
  match t.front with
  | 'P' =>
    match body.splitOn "x" with
    | [e] => e.toNat?.map fun e => [Act.poll e]
    | [e, n] => match e.toNat?, n.toNat? with
      | some e, some n => some (List.replicate n (Act.poll e))
      | _, _ => none
    | _ => none
  | 'S' => (ofHex body).map fun b => [Act.deliver (.start (decodeOffer b))]
  | 'T' =>
    match (body.splitOn ":").map parseInt with
    | [some c, some f, some h] => some [Act.deliver (.tune c f h)]
    | _ => none
  | 'O' => some [Act.deliver .openOk]
  | 'C' => (parseInt body).map fun c => [Act.deliver (.close c)]
  | 'K' => some [Act.deliver .closeOk]
  | 'B' => some [Act.deliver .blocked]
  | 'U' => some [Act.deliver .unblocked]
  | 'H' => some [Act.deliver .heartbeat]
  | 'X' => some [Act.deliver .other]
  | 'E' => some [Act.eof]
  | _ => none

def parseActs (s : String) : Option (List Act) :=
  if s = "-" then some []
  else (s.splitOn ",").foldl (fun acc t => match acc, parseAct t with
    | some xs, some ys => some (xs ++ ys)
    | _, _ => none) (some [])

def showMech : MechResult → String
  | .chosen b => s!"chosen:{b.mechanism}"
  | .unsupported => "unsupported"
  | .typeError => "typeerror"

def handle : Handler
  | ["c09.open", shared, ioOk, u, p, v, hb, acts] =>
    match strOfHex u, strOfHex p, strOfHex v, parseInt hb, parseActs acts with
    | some u, some p, some v, some hb, some as =>
      let cfg : Config := { username := u, password := p, vhost := v, heartbeat := hb, ioShared := shared == "1" }
      let (st, out) := openConnFinal cfg (ioOk == "1") as
      let sent := if st.sent.isEmpty then "-" else ";".intercalate (st.sent.map showCFrame)
      some s!"out={showOutcome out} state={st.state} sent={sent} chmax={st.chanMax} fmax={st.frameMax} excs={st.excs.length} crashed={if st.readerCrashed then 1 else 0} blocked={if st.blocked then 1 else 0}"
    | _, _, _, _, _ => some "bad-op"
  | ["c09.mech", h] =>
    match ofHex h with
    | some b => some (showMech (chooseMech (decodeOffer b)))
    | none => some "bad-op"
  | ["c09.split", h] =>      -- Python str.split() of a UTF-8 text
    match strOfHex h with
    | some s =>
      let ts := tokens isPyWs s.toList
      some (s!"n={ts.length} " ++ (if ts.isEmpty then "-" else ",".intercalate (ts.map fun t => hexOfStr (String.ofList t))))
    | none => some "bad-op"
  | ["c09.tune", c, f, hb] =>
    match parseInt c, parseInt f, parseInt hb with
    | some c, some f, some hb =>
      let cfg : Config := { username := "", password := "", vhost := "", heartbeat := hb }
      let st := sendTuneOk cfg {} c f 0
      some s!"stored={st.chanMax}|{st.frameMax} sent={";".intercalate (st.sent.map showCFrame)}"
    | _, _, _ => some "bad-op"
  | _ => none

end Driver.C09
