import Driver.Util
import Amqp.Model.Lifecycle
open Amqp Amqp.Lifecycle
namespace Driver.C08

def b2n (b : Bool) : Nat := if b then 1 else 0

def showL (s : L) : String :=
  let cs := (s.chans.mergeSort (fun a b => a.1 ≤ b.1)).map fun (i, c) => s!"{i}:{c.state}:{b2n c.confirming}:{b2n (c.inbound > 0)}"
  let socks := (if s.sock = .live then 1 else 0) + s.leakedSocks
  let readers := (if s.reader = .running then 1 else 0) + s.leakedReaders
  s!"state={s.state} chans={if cs.isEmpty then "-" else " ".intercalate cs} socks={socks} readers={readers} timers={s.timers} hb={s.hbRunning} | errs={s.errs} lastId={match s.lastId with | some i => toString i | none => "-"}"

def parseOp (x : String) : Option Op :=
  match x.splitOn ":" with
  | ["open", "ok"] => some (.openC .ok)
  | ["open", "connectFail"] => some (.openC .connectFail)
  | ["open", "refused"] => some (.openC .refused)
  | ["open", "transportError"] => some (.openC .transportError)
  | ["open", "timeout"] => some (.openC .timeout)
  | ["close", "ok"] => some (.closeC .ok)
  | ["close", "error"] => some (.closeC .error)
  | ["close", "timeout"] => some (.closeC .timeout)
  | ["channel", i] => i.toNat?.map .channel
  | ["confirm", i] => i.toNat?.map .confirm
  | ["deliver", i] => i.toNat?.map .deliver
  | ["park", i] => i.toNat?.map .chanError
  | ["chan-close", i] => i.toNat?.map .chanClose
  | ["broker-close-chan", i] => i.toNat?.map .brokerCloseChan
  | ["chan-reopen", i] => i.toNat?.map .chanReopen
  | ["broker-close-conn"] => some .brokerCloseConn
  | ["die"] => some .die
  | ["die-partial"] => some .diePartial
  | _ => none

def stepCmd (s : L) : List String → Option (L × String)
  | ["c08.reset", hb] => hb.toNat?.map fun hb => ({ hbInterval := hb }, "ok")
  | ["c08.op", "nop"] => some (s, showL s)
  | ["c08.op", x] =>
    match parseOp x with
    | none => some (s, "bad-op")
    | some op =>
      match step s op with
      | none => some (s, "rejected " ++ showL s)
      | some s' => some (s', showL s')
  | ["c08.hbleaks"] => some (s, toString Hb.leaks)
  | _ => none

end Driver.C08
