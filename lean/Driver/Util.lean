import Amqp.Base.Bytes
/- shared helpers for driver modules -/
open Amqp

def hexOrDash (b : Bytes) : String := if b.isEmpty then "-" else toHex b

def cksum (b : Bytes) : Nat := b.foldl (fun h x => (h * 31 + x.toNat) % 4294967296) 7

def showSlice (p : Bytes) : String :=
  if p.length ≤ 64 then hexOrDash p else s!"#{p.length}:{cksum p}"

def parseInt (s : String) : Option Int :=
  if s.startsWith "-" then (s.drop 1).toNat?.map (fun n => -(n : Int)) else s.toNat?.map (fun n => (n : Int))

/-- a stateless command handler: `some output` if the command is recognised -/
abbrev Handler := List String → Option String
