import Driver.Util
import Amqp.Model.Deliver
import Amqp.Model.ConsumeLoop
open Amqp Amqp.Deliver
namespace Driver.C03

def parseCF (x : String) : Option CF :=
  let k := (x.take 1).toString
  let r := (x.drop 1).toString
  if k = "d" then r.toNat?.map CF.deliver
  else if k = "h" then
    match r.splitOn ":" with
    | [a, b] => do let n ← a.toNat?; let p ← b.toNat?; pure (CF.header n p)
    | _ => none
  else if k = "b" then (ofHex r).map CF.body
  else none

def showCF : CF → String
  | .deliver m => s!"d{m}"
  | .header n p => s!"h{n}:{p}"
  | .body b => s!"b{hexOrDash b}"

def parsePieces (s : String) : Option (List (List UInt8)) :=
  if s = "." then some [] else (s.splitOn "/").mapM ofHex

def parseItem (x : String) : Option Item :=
  match x.splitOn ":" with
  | ["D", m, p, ps] => do let m ← m.toNat?; let p ← p.toNat?; let ps ← parsePieces ps; pure (.delivery ⟨m, p, ps⟩)
  | ["R", c, ps] => do let c ← c.toNat?; let ps ← parsePieces ps; pure (.returned c ⟨0, 0, ps⟩)
  | ["P", n] => some (.reply n)
  | ["O", n] => some (.other n)
  | _ => none

def showPhase : Phase → String
  | .idle => "idle"
  | .body m n p acc => s!"body:{m}:{n}:{p}:{acc.length}"

def showS (s : S) : String :=
  let last := match s.out.getLast? with
    | some m => s!"{m.mid}:{m.props}:{showSlice m.body}"
    | none => "-"
  s!"inbound={s.inbound.length} phase={showPhase s.phase} out={s.out.length} last={last} dropped={s.dropped}"

def stepCmd (s : S) : List String → Option (S × String)
  | ["c03.reset", fs] =>
    match (if fs = "-" then some [] else (fs.splitOn ",").mapM parseCF) with
    | some l => some ({ future := l }, "ok")
    | none => some (s, "bad-op")
  | ["c03.act", a] =>
    let act? : Option Act := match a with
      | "append" => some .append | "start" => some .start | "piece" => some .piece | "finish" => some .finish | _ => none
    match act? with
    | none => some (s, "bad-op")
    | some act =>
      match step s act with
      | none => some (s, "rejected")
      | some s' => some (s', s!"ok {showS s'}")
  | ["c03.route", items] =>
    match (if items = "-" then some [] else (items.splitOn ",").mapM parseItem) with
    | none => some (s, "bad-op")
    | some us =>
      let r := routeAll us
      let inb := if r.inbound.isEmpty then "-" else ",".intercalate (r.inbound.map showCF)
      some (s, s!"inbound={inb} errors={if r.errors.isEmpty then "-" else ",".intercalate (r.errors.map toString)} claimed={r.claimed.length} handled={r.handled.length} pending={r.returnedLeft.isSome}")
  | ["c03.loop", tags, acts] =>
    -- the consuming loop (program regenerated from the source) against a script of reader/consumer actions
    let parseAct (x : String) : Option Amqp.ConsumeLoop.Act :=
      if x = "c" then some .consumer else if x = "x" then some .cancel else if x = "a" then some .add
      else if x.startsWith "d" then (x.drop 1).toNat?.map .deliver else none
    match Amqp.ConsumeLoop.program, tags.toNat?, (if acts = "-" then some [] else (acts.splitOn ",").mapM parseAct) with
    | none, _, _ => some (s, "no-program")
    | some p, some n, some as =>
      let rec go (st : Amqp.ConsumeLoop.S) (i : Nat) : List Amqp.ConsumeLoop.Act → String
        | [] =>
          let csv (l : List Nat) := if l.isEmpty then "-" else ",".intercalate (l.map toString)
          s!"done={if st.done then 1 else 0} handed={csv st.handed} inbound={csv st.inbound} tags={st.tags}"
        | a :: rest => match Amqp.ConsumeLoop.step st a with
          | none => s!"rejected@{i}"
          | some st' => go st' (i + 1) rest
      some (s, go (Amqp.ConsumeLoop.init p n) 0 as)
    | _, _, _ => some (s, "bad-op")
  | ["c03.loopev", tags, toks] =>
    -- as c03.loop, but the consuming thread is driven by its observable events: `R` = it runs up to and including
    -- its next look at the consumer tags, `D` = … its next drain, `E` = it runs until start_consuming returns
    -- (steps that touch no shared state are taken on the way); any other visible step on the way is an `order@i` error
    match Amqp.ConsumeLoop.program, tags.toNat? with
    | some p, some n =>
      let nextOp (st : Amqp.ConsumeLoop.S) : Option Amqp.ConsumeLoop.Op := st.prog[st.pc]?
      -- advance the consumer until it has executed `target` (none = until done); fuel bounds the silent steps
      let rec adv (fuel : Nat) (st : Amqp.ConsumeLoop.S) (target : Option Amqp.ConsumeLoop.Op) : Except String Amqp.ConsumeLoop.S :=
        match fuel with
        | 0 => .error "stuck"
        | fuel + 1 =>
          if st.done then (if target.isNone then .ok st else .error "returned-early")
          else
            let op := nextOp st
            let visible := op == some .read || op == some .drain
            if visible && op != target then .error "order"
            else match Amqp.ConsumeLoop.step st .consumer with
              | none => .error "stuck"
              | some st' => if visible then .ok st' else adv fuel st' target
      let rec goEv (st : Amqp.ConsumeLoop.S) (i : Nat) : List String → String
        | [] =>
          let csv (l : List Nat) := if l.isEmpty then "-" else ",".intercalate (l.map toString)
          s!"done={if st.done then 1 else 0} handed={csv st.handed} inbound={csv st.inbound} tags={st.tags}"
        | t :: rest =>
          let r : Except String Amqp.ConsumeLoop.S :=
            if t = "R" then adv 16 st (some .read)
            else if t = "D" then adv 16 st (some .drain)
            else if t = "E" then adv 16 st none
            else
              let a? : Option Amqp.ConsumeLoop.Act :=
                if t = "x" then some .cancel else if t = "a" then some .add
                else if t.startsWith "d" then (t.drop 1).toNat?.map .deliver else none
              match a? with
              | none => .error "bad-op"
              | some a => match Amqp.ConsumeLoop.step st a with
                | none => .error "rejected"
                | some st' => .ok st'
          match r with
          | .ok st' => goEv st' (i + 1) rest
          | .error e => s!"{e}@{i}"
      some (s, goEv (Amqp.ConsumeLoop.init p n) 0 (if toks = "-" then [] else toks.splitOn ","))
    | none, _ => some (s, "no-program")
    | _, _ => some (s, "bad-op")
  | _ => none

end Driver.C03
