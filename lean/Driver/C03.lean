import Driver.Util
import Amqp.Model.Deliver
open Amqp Amqp.Deliver
namespace Driver.C03

def parseCF (x : String) : Option CF :=
  let k := (x.take 1).toString
  let r := (x.drop 1).toString
  if k = "d" then r.toNat?.map CF.deliver
  else if k = "h" then
    match r.splitOn ":" with
    | [a, b] => do let n ← a.toNat?; let p ← b.toNat?; pure (CF.header n p)
    | _ => none
  else if k = "b" then (ofHex r).map CF.body
  else none

def showCF : CF → String
  | .deliver m => s!"d{m}"
  | .header n p => s!"h{n}:{p}"
  | .body b => s!"b{hexOrDash b}"

def parsePieces (s : String) : Option (List (List UInt8)) :=
  if s = "." then some [] else (s.splitOn "/").mapM ofHex

def parseItem (x : String) : Option Item :=
  match x.splitOn ":" with
  | ["D", m, p, ps] => do let m ← m.toNat?; let p ← p.toNat?; let ps ← parsePieces ps; pure (.delivery ⟨m, p, ps⟩)
  | ["R", c, ps] => do let c ← c.toNat?; let ps ← parsePieces ps; pure (.returned c ⟨0, 0, ps⟩)
  | ["P", n] => some (.reply n)
  | ["O", n] => some (.other n)
  | _ => none

def showPhase : Phase → String
  | .idle => "idle"
  | .body m n p acc => s!"body:{m}:{n}:{p}:{acc.length}"

def showS (s : S) : String :=
  let last := match s.out.getLast? with
    | some m => s!"{m.mid}:{m.props}:{showSlice m.body}"
    | none => "-"
  s!"inbound={s.inbound.length} phase={showPhase s.phase} out={s.out.length} last={last} dropped={s.dropped}"

def stepCmd (s : S) : List String → Option (S × String)
  | ["c03.reset", fs] =>
    match (if fs = "-" then some [] else (fs.splitOn ",").mapM parseCF) with
    | some l => some ({ future := l }, "ok")
    | none => some (s, "bad-op")
  | ["c03.act", a] =>
    let act? : Option Act := match a with
      | "append" => some .append | "start" => some .start | "piece" => some .piece | "finish" => some .finish | _ => none
    match act? with
    | none => some (s, "bad-op")
    | some act =>
      match step s act with
      | none => some (s, "rejected")
      | some s' => some (s', s!"ok {showS s'}")
  | ["c03.route", items] =>
    match (if items = "-" then some [] else (items.splitOn ",").mapM parseItem) with
    | none => some (s, "bad-op")
    | some us =>
      let r := routeAll us
      let inb := if r.inbound.isEmpty then "-" else ",".intercalate (r.inbound.map showCF)
      some (s, s!"inbound={inb} errors={if r.errors.isEmpty then "-" else ",".intercalate (r.errors.map toString)} claimed={r.claimed.length} handled={r.handled.length} pending={r.returnedLeft.isSome}")
  | _ => none

end Driver.C03
