"""Event tracing of the real channel/RPC layer from outside (no edit to /repo): class methods are
wrapped for the duration of one run and every call is appended to the virtual runtime's event log,
which also holds lock, socket, timer and broker events — one totally ordered history per run."""


class ChanTrace:
    def __init__(self, sched_ref, atomic=True):
        self.sched_ref = sched_ref      # dict with key 'sched'
        self.atomic = atomic            # run the wrapped Rpc methods without line-level pre-emption so that
                                        # the logged event order is the order of their effects
        self.saved = []
        self.objs = {}                  # id(channel) -> index in creation order

    def ev(self, kind, info):
        s = self.sched_ref.get('sched')
        if s is not None and not s.aborting:
            s.ev(kind, info)

    def _wrap(self, cls, name, make, atomic=False):
        orig = getattr(cls, name)
        self.saved.append((cls, name, orig))
        wrapped = make(orig)
        if atomic and self.atomic:
            tr = self

            def guarded(*a, **k):
                s = tr.sched_ref.get('sched')
                if s is None:
                    return wrapped(*a, **k)
                s.atomic_depth += 1
                try:
                    return wrapped(*a, **k)
                finally:
                    s.atomic_depth -= 1
            guarded.__name__ = name
            setattr(cls, name, guarded)
        else:
            setattr(cls, name, wrapped)

    def chan_of_rpc(self, rpc):
        ad = rpc._default_connection_adapter
        return getattr(ad, 'channel_id', 0), self.objs.get(id(ad), -1)

    def __enter__(self):
        from amqpstorm.base import Stateful
        from amqpstorm.channel import Channel
        from amqpstorm.rpc import Rpc
        tr = self

        def mk_init(orig):
            def __init__(self, channel_id, connection, rpc_timeout):
                orig(self, channel_id, connection, rpc_timeout)
                tr.objs[id(self)] = len(tr.objs)
                tr.ev('chan_init', (channel_id, tr.objs[id(self)], self.rpc.lock.name, self.lock.name))
            return __init__
        self._wrap(Channel, '__init__', mk_init)

        def mk_register(orig):
            def register_request(self, valid_responses):
                uuid = orig(self, valid_responses)
                tr.ev('rpc_register', tr.chan_of_rpc(self) + (tuple(valid_responses), uuid))
                return uuid
            return register_request
        self._wrap(Rpc, 'register_request', mk_register, atomic=True)

        def mk_on_frame(orig):
            def on_frame(self, frame_in):
                r = orig(self, frame_in)
                tr.ev('rpc_on_frame', tr.chan_of_rpc(self) + (frame_in.name, bool(r)))
                return r
            return on_frame
        self._wrap(Rpc, 'on_frame', mk_on_frame, atomic=True)

        def mk_take(orig):
            def _get_response_frame(self, uuid):
                fr = orig(self, uuid)
                tr.ev('rpc_take', tr.chan_of_rpc(self) + (getattr(fr, 'name', None), uuid))
                return fr
            return _get_response_frame
        self._wrap(Rpc, '_get_response_frame', mk_take, atomic=True)

        def mk_remove(orig):
            def remove(self, uuid):
                orig(self, uuid)
                tr.ev('rpc_remove', tr.chan_of_rpc(self) + (uuid,))
            return remove
        self._wrap(Rpc, 'remove', mk_remove, atomic=True)

        def mk_chan_on_frame(orig):
            def on_frame(self, frame_in):
                tr.ev('chan_on_frame', (self.channel_id, tr.objs.get(id(self), -1), frame_in.name))
                return orig(self, frame_in)
            return on_frame
        self._wrap(Channel, 'on_frame', mk_chan_on_frame)

        def mk_set_state(orig):
            def set_state(self, state):
                if isinstance(self, Channel):
                    tr.ev('chan_state', (self.channel_id, tr.objs.get(id(self), -1), state))
                else:
                    tr.ev('conn_state', state)
                return orig(self, state)
            return set_state
        self._wrap(Stateful, 'set_state', mk_set_state)
        return self

    def __exit__(self, *a):
        for cls, name, orig in reversed(self.saved):
            setattr(cls, name, orig)
        return False
