"""Independent AMQP 0-9-1 frame-envelope parser and frame generators (used by monitors and the
reference broker; shares no code with the Lean model or with amqpstorm)."""
import struct

from pamqp import body as pbody
from pamqp import frame as pframe
from pamqp import header as pheader
from pamqp import heartbeat as pheartbeat
from pamqp import specification as spec

FRAME_END = 0xCE


def split_frames(data):
    """-> (list of (type, channel, payload bytes, raw bytes), residual).  Raises ValueError when the
    stream is not a sequence of well-formed frames."""
    out = []
    i = 0
    n = len(data)
    while n - i >= 7:
        ty, ch, size = struct.unpack('>BHI', data[i:i + 7])
        if ty not in (1, 2, 3, 8):
            raise ValueError('bad frame type %d at offset %d' % (ty, i))
        end = i + 7 + size + 1
        if end > n:
            break
        if data[end - 1] != FRAME_END:
            raise ValueError('bad frame end at offset %d' % (end - 1))
        out.append((ty, ch, data[i + 7:end - 1], data[i:end]))
        i = end
    return out, data[i:]


def decode(raw):
    n, ch, fr = pframe.unmarshal(raw)
    return ch, fr


def hexs(b):
    return b.hex() if b else '-'


def show(ty, ch, payload):
    return '%d:%d:%s' % (ty, ch, hexs(payload))


# ------------------------------------------------------------------------------------------------
def rand_bytes(rng, n):
    return bytes(rng.getrandbits(8) for _ in range(n))


def rand_name(rng, maxlen=12):
    alphabet = 'abcdefghijklmnopqrstuvwxyz0123456789._-'
    return ''.join(rng.choice(alphabet) for _ in range(rng.randint(0, maxlen)))


def rand_props(rng):
    p = {}
    if rng.random() < 0.5:
        p['content_type'] = rng.choice(['text/plain', 'application/json', ''])
    if rng.random() < 0.4:
        p['content_encoding'] = rng.choice(['utf-8', 'latin-1'])
    if rng.random() < 0.4:
        p['headers'] = {rand_name(rng, 6) or 'k': rng.choice([1, 'v', b'x', True, None, {'n': 2}, [1, 'a']])}
    if rng.random() < 0.3:
        p['delivery_mode'] = rng.choice([1, 2])
    if rng.random() < 0.3:
        p['priority'] = rng.randint(0, 9)
    if rng.random() < 0.3:
        p['correlation_id'] = rand_name(rng)
    if rng.random() < 0.3:
        p['reply_to'] = rand_name(rng)
    if rng.random() < 0.2:
        p['expiration'] = str(rng.randint(0, 100000))
    if rng.random() < 0.3:
        p['message_id'] = rand_name(rng)
    if rng.random() < 0.2:
        p['message_type'] = rand_name(rng)
    if rng.random() < 0.2:
        p['user_id'] = rand_name(rng)
    if rng.random() < 0.2:
        p['app_id'] = rand_name(rng)
    return p


def rand_method(rng):
    k = rng.randrange(12)
    if k == 0:
        return spec.Basic.Deliver(consumer_tag=rand_name(rng), delivery_tag=rng.randint(1, 1 << 40),
                                  redelivered=rng.random() < 0.3, exchange=rand_name(rng), routing_key=rand_name(rng))
    if k == 1:
        return spec.Basic.Ack(delivery_tag=rng.randint(0, 1 << 30), multiple=rng.random() < 0.5)
    if k == 2:
        return spec.Queue.DeclareOk(queue=rand_name(rng), message_count=rng.randint(0, 1000), consumer_count=rng.randint(0, 9))
    if k == 3:
        return spec.Channel.Close(reply_code=rng.choice([200, 403, 404, 406]), reply_text=rand_name(rng, 30),
                                  class_id=rng.randint(0, 90), method_id=rng.randint(0, 90))
    if k == 4:
        return spec.Basic.ConsumeOk(consumer_tag=rand_name(rng))
    if k == 5:
        return spec.Basic.CancelOk(consumer_tag=rand_name(rng))
    if k == 6:
        return spec.Basic.Return(reply_code=rng.choice([312, 313]), reply_text='NO_ROUTE', exchange=rand_name(rng),
                                 routing_key=rand_name(rng))
    if k == 7:
        return spec.Channel.OpenOk()
    if k == 8:
        return spec.Basic.GetEmpty()
    if k == 9:
        return spec.Basic.Nack(delivery_tag=rng.randint(0, 99), multiple=False, requeue=True)
    if k == 10:
        return spec.Confirm.SelectOk()
    return spec.Basic.QosOk()


def rand_frame(rng, max_chan=3, max_body=40):
    """-> (channel, pamqp frame object)"""
    k = rng.random()
    ch = rng.randint(0, max_chan)
    if k < 0.12:
        return 0 if rng.random() < 0.8 else ch, pheartbeat.Heartbeat()
    if k < 0.55:
        return ch, rand_method(rng)
    if k < 0.75:
        return ch, pheader.ContentHeader(body_size=rng.randint(0, 1 << 20),
                                         properties=spec.Basic.Properties(**rand_props(rng)))
    return ch, pbody.ContentBody(rand_bytes(rng, rng.randint(1, max_body)))


def frame_type(fr):
    if isinstance(fr, pheartbeat.Heartbeat):
        return 8
    if isinstance(fr, pbody.ContentBody):
        return 3
    if isinstance(fr, pheader.ContentHeader):
        return 2
    return 1
