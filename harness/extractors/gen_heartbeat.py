"""Translator for C12: amqpstorm/heartbeat.py (+ the heartbeat call sites of connection.py and
channel0.py)  ->  lean/Amqp/Gen/Heartbeat.lean.

Generated:
* arithmetic / decision kernels as Lean defs: the interval expression of `Heartbeat.__init__`
  (exact rational arithmetic: numerator over a constant denominator, so `timeout / 2` is not rounded),
  the `start` guard, the `+= 1` of `register_read/write`, the three tests of
  `_check_for_life_signs` (send / missed / dead), the threshold updates, every reset value, and the
  interval handed to the timer;
* statement skeletons (`List String`) of every anchored method: control structure plus normalised
  statements in evaluation order; logging, docstrings and the spelling of local names are dropped.
  `Props/C12.lean` proves `Gen.Heartbeat.<x>Skel = Model.expected<x>Skel` by `decide`, so a moved
  statement, a dropped `finally`, a lost `register_read()` ... breaks an obligation.
Never imports amqpstorm.
"""
import ast
import copy

from harness.extract import ExprTr, ExtractError, dotted, is_logging, strip_doc

HB = 'heartbeat.py'


# ------------------------------------------------------------------------------------------------
# normalised statement skeletons
# ------------------------------------------------------------------------------------------------
class _Norm(ast.NodeTransformer):
    def __init__(self, local_names):
        self.local = local_names

    def visit_Name(self, node):
        if node.id in self.local:
            return ast.copy_location(ast.Name(id=self.local[node.id], ctx=node.ctx), node)
        return node

    def visit_Constant(self, node):
        if isinstance(node.value, str):
            return ast.copy_location(ast.Constant(value='S'), node)
        return node


def _locals_of(f):
    params = {a.arg for a in f.args.args + f.args.kwonlyargs}
    if f.args.vararg:
        params.add(f.args.vararg.arg)
    if f.args.kwarg:
        params.add(f.args.kwarg.arg)
    names = {}
    for node in ast.walk(f):
        if isinstance(node, ast.Name) and isinstance(node.ctx, ast.Store) and node.id not in params \
                and node.id not in names:
            names[node.id] = None
    # number in order of first binding (source order)
    order = sorted((n for n in ast.walk(f) if isinstance(n, ast.Name) and isinstance(n.ctx, ast.Store)
                    and n.id in names), key=lambda n: (n.lineno, n.col_offset))
    k = 0
    for n in order:
        if names[n.id] is None:
            names[n.id] = 'v%d' % k
            k += 1
    return names


def skeleton(f):
    norm = _Norm(_locals_of(f))

    def U(node):
        return ast.unparse(norm.visit(copy.deepcopy(node)))

    def go(stmts):
        out = []
        for st in strip_doc(stmts):
            if is_logging(st):
                continue
            if isinstance(st, ast.If):
                out.append('if ' + U(st.test))
                out += go(st.body)
                if st.orelse:
                    out.append('else')
                    out += go(st.orelse)
                out.append('end')
            elif isinstance(st, ast.While):
                out.append('while ' + U(st.test))
                out += go(st.body)
                out.append('end')
            elif isinstance(st, ast.For):
                out.append('for %s in %s' % (U(st.target), U(st.iter)))
                out += go(st.body)
                out.append('end')
            elif isinstance(st, ast.Try):
                out.append('try')
                out += go(st.body)
                for h in st.handlers:
                    out.append('except ' + (U(h.type) if h.type is not None else '*'))
                    out += go(h.body)
                if st.orelse:
                    out.append('else')
                    out += go(st.orelse)
                if st.finalbody:
                    out.append('finally')
                    out += go(st.finalbody)
                out.append('end')
            elif isinstance(st, ast.With):
                out.append('with ' + ', '.join(U(i.context_expr) for i in st.items))
                out += go(st.body)
                out.append('end')
            elif isinstance(st, (ast.Return, ast.Assign, ast.AugAssign, ast.Expr, ast.Raise, ast.Break,
                                 ast.Continue, ast.Pass)):
                out.append(U(st))
            else:
                raise ExtractError('%s: unsupported statement %s' % (f.name, type(st).__name__))
        return out
    return go(f.body)


def call_order(f, wanted):
    """the calls to `wanted` callees (dotted names) in source order, with their arguments"""
    calls = [n for n in ast.walk(f) if isinstance(n, ast.Call) and (dotted(n.func) or '') in wanted]
    calls.sort(key=lambda n: (n.lineno, n.col_offset))
    return [ast.unparse(n) for n in calls]


def lean_str(s):
    return '"' + s.replace('\\', '\\\\').replace('"', '\\"') + '"'


def lean_list(name, items, doc):
    return '/-- %s -/\ndef %s : List String := [\n%s]\n' % (doc, name, ',\n'.join('  ' + lean_str(i) for i in items))


# ------------------------------------------------------------------------------------------------
# exact rational arithmetic: expression -> (Lean Int term for the numerator, constant denominator)
# ------------------------------------------------------------------------------------------------
def _mul(term, k):
    return term if k == 1 else '(%s * %d)' % (term, k)


def qexpr(e, env):
    key = ast.unparse(e)
    if key in env:
        return env[key], 1
    if isinstance(e, ast.Constant) and isinstance(e.value, int) and not isinstance(e.value, bool):
        return '(%d : Int)' % e.value, 1
    if isinstance(e, ast.BinOp):
        if isinstance(e.op, ast.Div):
            n, d = qexpr(e.left, env)
            r = e.right
            if not (isinstance(r, ast.Constant) and isinstance(r.value, int) and not isinstance(r.value, bool)
                    and r.value > 0):
                raise ExtractError('division by something other than a positive integer literal: %s' % key)
            return n, d * r.value
        if isinstance(e.op, ast.Mult):
            for a, b in ((e.left, e.right), (e.right, e.left)):
                if isinstance(b, ast.Constant) and isinstance(b.value, int) and not isinstance(b.value, bool):
                    n, d = qexpr(a, env)
                    return '(%s * (%d : Int))' % (n, b.value), d
            raise ExtractError('product of two non-literals: %s' % key)
        if isinstance(e.op, (ast.Add, ast.Sub)):
            n1, d1 = qexpr(e.left, env)
            n2, d2 = qexpr(e.right, env)
            op = '+' if isinstance(e.op, ast.Add) else '-'
            return '(%s %s %s)' % (_mul(n1, d2), op, _mul(n2, d1)), d1 * d2
        raise ExtractError('unsupported operator in %s' % key)
    if isinstance(e, ast.Call) and dotted(e.func) in ('max', 'min') and len(e.args) == 2 and not e.keywords:
        n1, d1 = qexpr(e.args[0], env)
        n2, d2 = qexpr(e.args[1], env)
        return '(%s %s %s)' % (dotted(e.func), _mul(n1, d2), _mul(n2, d1)), d1 * d2
    raise ExtractError('unsupported interval expression %s' % key)


# ------------------------------------------------------------------------------------------------
def _assign_value(stmts, target, fname):
    hits = [st for st in stmts if isinstance(st, ast.Assign) and len(st.targets) == 1
            and ast.unparse(st.targets[0]) == target]
    if len(hits) != 1:
        raise ExtractError('%s: expected exactly one assignment to %s, found %d' % (fname, target, len(hits)))
    return hits[0].value


def _int_lit(e, what):
    if isinstance(e, ast.Constant) and isinstance(e.value, int) and not isinstance(e.value, bool):
        return e.value
    raise ExtractError('%s is not an integer literal: %s' % (what, ast.unparse(e)))


def _incr(f, attr):
    body = [st for st in strip_doc(f.body) if not is_logging(st)]
    if len(body) != 1 or not isinstance(body[0], ast.AugAssign) or ast.unparse(body[0].target) != attr:
        raise ExtractError('%s: expected a single augmented assignment to %s' % (f.name, attr))
    tr = ExprTr({attr: 'n'})
    val = ast.BinOp(left=body[0].target, op=body[0].op, right=body[0].value)
    return tr.tr(ast.fix_missing_locations(val))


def _walk_assigns(stmts, target):
    """all plain assignments `target = <int literal>` found anywhere under stmts"""
    out = []
    for st in stmts:
        for node in ast.walk(st):
            if isinstance(node, ast.Assign) and len(node.targets) == 1 and ast.unparse(node.targets[0]) == target:
                out.append(node.value)
    return out


def gen_heartbeat(src, consts):
    cls = 'Heartbeat'
    init = src.func(HB, cls, '__init__')
    ibody = strip_doc(init.body)
    # ---- __init__ : interval, initial counters ------------------------------------------------
    iv = _assign_value(ibody, 'self._interval', '__init__')
    if not (isinstance(iv, ast.IfExp) and ast.unparse(iv.test) == 'timeout is None'
            and isinstance(iv.body, ast.Constant) and iv.body.value is None):
        raise ExtractError('__init__: _interval is not `None if timeout is None else <expr>`: %s' % ast.unparse(iv))
    num, den = qexpr(iv.orelse, {'timeout': 'timeout'})
    init_reads = _int_lit(_assign_value(ibody, 'self._reads_since_check', '__init__'), 'initial reads')
    init_writes = _int_lit(_assign_value(ibody, 'self._writes_since_check', '__init__'), 'initial writes')
    init_thr = _int_lit(_assign_value(ibody, 'self._threshold', '__init__'), 'initial threshold')
    # ---- register_read / register_write --------------------------------------------------------
    read_incr = _incr(src.func(HB, cls, 'register_read'), 'self._reads_since_check')
    write_incr = _incr(src.func(HB, cls, 'register_write'), 'self._writes_since_check')
    # ---- start ---------------------------------------------------------------------------------
    start = src.func(HB, cls, 'start')
    sbody = [st for st in strip_doc(start.body) if not is_logging(st)]
    if not sbody or not isinstance(sbody[0], ast.If) or sbody[0].orelse or len(sbody[0].body) != 1 or \
            not isinstance(sbody[0].body[0], ast.Return) or ast.unparse(sbody[0].body[0]) != 'return False':
        raise ExtractError('start: does not begin with `if <guard>: return False`')
    guard = ast.unparse(sbody[0].test)
    if guard == 'not self._interval':
        disabled = 'match interval with\n  | none => true\n  | some v => v == 0'
    elif guard == 'self._interval is None':
        disabled = 'match interval with\n  | none => true\n  | some _ => false'
    else:
        raise ExtractError('start: unsupported guard `%s`' % guard)
    start_vals = {}
    for attr, key in (('self._threshold', 'thr'), ('self._reads_since_check', 'reads'),
                      ('self._writes_since_check', 'writes')):
        vs = _walk_assigns(sbody, attr)
        if len(vs) > 1:
            raise ExtractError('start: more than one reset of %s' % attr)
        # a value that `start` does not reset keeps what it was: emitted as the identity
        start_vals[key] = '(%d : Int)' % _int_lit(vs[0], 'start reset of ' + attr) if vs else key
    # ---- _check_for_life_signs -----------------------------------------------------------------
    chk = src.func(HB, cls, '_check_for_life_signs')
    cbody = [st for st in strip_doc(chk.body) if not is_logging(st)]
    send_if = [st for st in cbody if isinstance(st, ast.If) and any(
        isinstance(n, ast.Call) and dotted(n.func) == 'self.send_heartbeat_impl' for n in ast.walk(st))]
    if len(send_if) != 1 or send_if[0].orelse:
        raise ExtractError('_check_for_life_signs: expected one `if <test>: self.send_heartbeat_impl()`')
    send_test = ExprTr({'self._writes_since_check': 'writes'}).cond(send_if[0].test)
    tries = [st for st in cbody if isinstance(st, ast.Try)]
    if len(tries) != 1 or not tries[0].finalbody:
        raise ExtractError('_check_for_life_signs: expected one try/finally')
    tbody = [st for st in tries[0].body if not is_logging(st)]
    if len(tbody) != 1 or not isinstance(tbody[0], ast.If) or not tbody[0].orelse:
        raise ExtractError('_check_for_life_signs: try body is not a single if/else on the read counter')
    miss = tbody[0]
    miss_test = ExprTr({'self._reads_since_check': 'reads'}).cond(miss.test)
    mb = [st for st in miss.body if not is_logging(st)]
    if len(mb) != 2 or not isinstance(mb[0], ast.AugAssign) or ast.unparse(mb[0].target) != 'self._threshold' \
            or not isinstance(mb[1], ast.If) or mb[1].orelse:
        raise ExtractError('_check_for_life_signs: missed branch is not `threshold <op>= k; if <dead>: ...`')
    thr_miss = ExprTr({'self._threshold': 'thr'}).tr(ast.fix_missing_locations(
        ast.BinOp(left=mb[0].target, op=mb[0].op, right=mb[0].value)))
    dead_test = ExprTr({'self._threshold': 'thr'}).cond(mb[1].test)
    hit = [st for st in miss.orelse if not is_logging(st)]
    if len(hit) != 1 or not isinstance(hit[0], ast.Assign) or ast.unparse(hit[0].targets[0]) != 'self._threshold':
        raise ExtractError('_check_for_life_signs: else branch is not a single threshold assignment')
    thr_hit = _int_lit(hit[0].value, 'threshold after a read')
    fin = tries[0].finalbody
    reset_reads = _walk_assigns(fin, 'self._reads_since_check')
    reset_writes = _walk_assigns(fin, 'self._writes_since_check')
    # a counter that is not reset in `finally` keeps its value: emitted as the identity
    rr = '(%d : Int)' % _int_lit(reset_reads[0], 'finally reset of reads') if len(reset_reads) == 1 else \
        ('reads' if not reset_reads else None)
    rw = '(%d : Int)' % _int_lit(reset_writes[0], 'finally reset of writes') if len(reset_writes) == 1 else \
        ('writes' if not reset_writes else None)
    if rr is None or rw is None:
        raise ExtractError('_check_for_life_signs: more than one reset of a counter in finally')
    # ---- _start_new_timer ----------------------------------------------------------------------
    snt = src.func(HB, cls, '_start_new_timer')
    tcalls = [n for n in ast.walk(snt) if isinstance(n, ast.Call) and dotted(n.func) == 'self.timer_impl']
    if len(tcalls) != 1:
        raise ExtractError('_start_new_timer: expected one self.timer_impl(...) call')
    kw = {k.arg: k.value for k in tcalls[0].keywords}
    if tcalls[0].args or set(kw) != {'interval', 'function'}:
        raise ExtractError('_start_new_timer: timer_impl is not called with interval=, function=')
    if ast.unparse(kw['function']) != 'self._check_for_life_signs':
        raise ExtractError('_start_new_timer: timer function is %s' % ast.unparse(kw['function']))
    tnum, tden = qexpr(kw['interval'], {'self._interval': 'interval'})
    if tden != 1:
        raise ExtractError('_start_new_timer: fractional timer interval not supported')
    # ---- constructor call site -----------------------------------------------------------------
    cinit = src.func('connection.py', 'Connection', '__init__')
    ctor = [n for n in ast.walk(cinit) if isinstance(n, ast.Call) and dotted(n.func) == 'Heartbeat']
    if len(ctor) != 1:
        raise ExtractError('Connection.__init__: expected one Heartbeat(...) construction')
    ctor_args = [ast.unparse(a) for a in ctor[0].args] + ['%s=%s' % (k.arg, ast.unparse(k.value)) for k in ctor[0].keywords]

    conn = 'connection.py'
    lifecycle = ('self.heartbeat.start', 'self.heartbeat.stop', 'self._wait_for_connection_state',
                 'self._channel0.send_close_connection', 'self._io.open', 'self._io.close', 'self._send_handshake')
    out = ['import Amqp.Base.Py', 'set_option linter.unusedVariables false', 'namespace Amqp.Gen.Heartbeat', 'open Amqp', '']
    out += [
        '/-- `Heartbeat.__init__`: `_interval` for a non-None timeout, as numerator over `intervalDen`\n'
        '    (exact: `%s`) -/' % ast.unparse(iv.orelse),
        'def intervalDen : Nat := %d' % den,
        'def intervalNum (timeout : Int) : Int := %s' % num,
        'def initReads : Int := %d' % init_reads,
        'def initWrites : Int := %d' % init_writes,
        'def initThreshold : Int := %d' % init_thr,
        '/-- `register_read` / `register_write` -/',
        'def readIncr (n : Int) : Int := %s' % read_incr,
        'def writeIncr (n : Int) : Int := %s' % write_incr,
        '/-- `start`: `if %s: return False` -/' % guard,
        'def startDisabled (interval : Option Int) : Bool :=\n  %s' % disabled,
        '/-- `start`: counter values after the reset under the lock -/',
        'def startThreshold (thr : Int) : Int := %s' % start_vals['thr'],
        'def startReads (reads : Int) : Int := %s' % start_vals['reads'],
        'def startWrites (writes : Int) : Int := %s' % start_vals['writes'],
        '/-- `_check_for_life_signs`: `if %s: self.send_heartbeat_impl()` -/' % ast.unparse(send_if[0].test),
        'def sendTest (writes : Int) : Bool := decide %s' % send_test,
        '/-- `_check_for_life_signs`: `if %s:` (no read since the last check) -/' % ast.unparse(miss.test),
        'def missTest (reads : Int) : Bool := decide %s' % miss_test,
        '/-- `%s` -/' % ast.unparse(mb[0]),
        'def thresholdMiss (thr : Int) : Int := %s' % thr_miss,
        '/-- `if %s:` (declare the connection dead) -/' % ast.unparse(mb[1].test),
        'def deadTest (thr : Int) : Bool := decide %s' % dead_test,
        '/-- else branch: `%s` -/' % ast.unparse(hit[0]),
        'def thresholdHit : Int := %d' % thr_hit,
        '/-- `finally`: counter values after the check -/',
        'def resetReads (reads : Int) : Int := %s' % rr,
        'def resetWrites (writes : Int) : Int := %s' % rw,
        '/-- `_start_new_timer`: `interval=%s` -/' % ast.unparse(kw['interval']),
        'def timerInterval (interval : Int) : Int := %s' % tnum,
        '',
    ]
    text = '\n'.join(out) + '\n'
    text += lean_list('ctorArgs', ctor_args, 'Connection.__init__: arguments of Heartbeat(...)')
    for name, rel, c, fn in (
            ('checkSkel', HB, cls, '_check_for_life_signs'), ('startSkel', HB, cls, 'start'),
            ('stopSkel', HB, cls, 'stop'), ('timerSkel', HB, cls, '_start_new_timer'),
            ('raiseSkel', HB, cls, '_raise_or_append_exception'),
            ('sendHeartbeatSkel', 'channel0.py', 'Channel0', 'send_heartbeat'),
            ('writeFrameSkel', conn, 'Connection', 'write_frame'),
            ('writeFramesSkel', conn, 'Connection', 'write_frames'),
            ('readBufferSkel', conn, 'Connection', '_read_buffer')):
        text += lean_list(name, skeleton(src.func(rel, c, fn)), '%s.%s (%s)' % (c, fn, rel))
    text += lean_list('openCalls', call_order(src.func(conn, 'Connection', 'open'), lifecycle),
                      'Connection.open: order of the life-cycle calls')
    text += lean_list('closeCalls', call_order(src.func(conn, 'Connection', 'close'), lifecycle),
                      'Connection.close: order of the life-cycle calls')
    text += 'end Amqp.Gen.Heartbeat\n'
    return text


FILES = {'Heartbeat.lean': gen_heartbeat}
